//! Syntax-only translator: /repo/src/**/*.rs  ->  coq/Gen/Generated.v
//!
//! It transcribes declarations (structs, enums, consts, type aliases, bitflags, the
//! arms of selected `match` tables) together with their cfg conditions and serde
//! attributes.  It does not assign keys, rename, decide optionality or evaluate cfg:
//! that is done in Gallina (Model/Schema.v).  Whatever it does not understand is
//! emitted as `RUnknown "<where>"`.
use std::collections::{BTreeMap, HashMap};
use std::fmt::Write as _;
use std::path::{Path, PathBuf};

use quote::ToTokens;
use syn::{Attribute, Expr, Fields, Item, Lit, Meta, Pat, Type};

#[derive(Clone, Debug)]
enum Cfg {
    True,
    Feat(String),
    Not(Box<Cfg>),
    All(Vec<Cfg>),
    Any(Vec<Cfg>),
    Test,
    Other(String),
}

impl Cfg {
    fn coq(&self) -> String {
        match self {
            Cfg::True => "CTrue".into(),
            Cfg::Feat(s) => format!("(CFeat {})", cs(s)),
            Cfg::Not(c) => format!("(CNot {})", c.coq()),
            Cfg::All(l) => format!("(CAll [{}])", l.iter().map(|c| c.coq()).collect::<Vec<_>>().join("; ")),
            Cfg::Any(l) => format!("(CAny [{}])", l.iter().map(|c| c.coq()).collect::<Vec<_>>().join("; ")),
            Cfg::Test => "CTest".into(),
            Cfg::Other(s) => format!("(COther {})", cs(s)),
        }
    }
    fn and(&self, o: &Cfg) -> Cfg {
        match (self, o) {
            (Cfg::True, x) | (x, Cfg::True) => x.clone(),
            (a, b) => Cfg::All(vec![a.clone(), b.clone()]),
        }
    }
    fn is_test(&self) -> bool {
        match self {
            Cfg::Test => true,
            Cfg::All(l) => l.iter().any(|c| c.is_test()),
            _ => false,
        }
    }
}

/// Coq string literal
fn cs(s: &str) -> String {
    format!("\"{}\"", s.replace('"', "\"\""))
}

fn parse_cfg_meta(m: &Meta) -> Cfg {
    match m {
        Meta::Path(p) => {
            if p.is_ident("test") {
                Cfg::Test
            } else {
                Cfg::Other(p.to_token_stream().to_string())
            }
        }
        Meta::NameValue(nv) => {
            if nv.path.is_ident("feature") {
                if let Expr::Lit(l) = &nv.value {
                    if let Lit::Str(s) = &l.lit {
                        return Cfg::Feat(s.value());
                    }
                }
            }
            Cfg::Other(m.to_token_stream().to_string())
        }
        Meta::List(l) => {
            let inner: Vec<Cfg> = l
                .parse_args_with(syn::punctuated::Punctuated::<Meta, syn::Token![,]>::parse_terminated)
                .map(|p| p.iter().map(parse_cfg_meta).collect())
                .unwrap_or_default();
            if l.path.is_ident("not") && inner.len() == 1 {
                Cfg::Not(Box::new(inner[0].clone()))
            } else if l.path.is_ident("all") {
                Cfg::All(inner)
            } else if l.path.is_ident("any") {
                Cfg::Any(inner)
            } else {
                Cfg::Other(m.to_token_stream().to_string())
            }
        }
    }
}

fn cfg_of(attrs: &[Attribute]) -> Cfg {
    let mut c = Cfg::True;
    for a in attrs {
        if a.path().is_ident("cfg") {
            if let Ok(m) = a.parse_args::<Meta>() {
                c = c.and(&parse_cfg_meta(&m));
            }
        }
    }
    c
}

/// derives, each with the cfg under which it applies
fn derives_of(attrs: &[Attribute]) -> Vec<(Cfg, String)> {
    let mut out = vec![];
    fn add(out: &mut Vec<(Cfg, String)>, c: &Cfg, l: &syn::MetaList) {
        if let Ok(p) = l.parse_args_with(syn::punctuated::Punctuated::<syn::Path, syn::Token![,]>::parse_terminated) {
            for path in p {
                out.push((c.clone(), path.segments.last().unwrap().ident.to_string()));
            }
        }
    }
    for a in attrs {
        if a.path().is_ident("derive") {
            if let Meta::List(l) = &a.meta {
                add(&mut out, &Cfg::True, l);
            }
        } else if a.path().is_ident("cfg_attr") {
            if let Ok(p) = a.parse_args_with(syn::punctuated::Punctuated::<Meta, syn::Token![,]>::parse_terminated) {
                let mut it = p.iter();
                if let Some(cond) = it.next() {
                    let c = parse_cfg_meta(cond);
                    for m in it {
                        if let Meta::List(l) = m {
                            if l.path.is_ident("derive") {
                                add(&mut out, &c, l);
                            }
                        }
                    }
                }
            }
        }
    }
    out
}

/// all `key = "value"` / `flag` entries of #[serde(...)] and #[serde_indexed(...)] attributes
fn serde_kv(attrs: &[Attribute]) -> Vec<(String, Option<String>)> {
    let mut out = vec![];
    for a in attrs {
        if a.path().is_ident("serde") || a.path().is_ident("serde_indexed") {
            if let Ok(p) = a.parse_args_with(syn::punctuated::Punctuated::<Meta, syn::Token![,]>::parse_terminated) {
                for m in p {
                    match &m {
                        Meta::Path(p) => out.push((p.to_token_stream().to_string(), None)),
                        Meta::NameValue(nv) => {
                            let v = match &nv.value {
                                Expr::Lit(l) => match &l.lit {
                                    Lit::Str(s) => s.value(),
                                    Lit::Int(i) => i.base10_digits().to_string(),
                                    o => o.to_token_stream().to_string(),
                                },
                                o => o.to_token_stream().to_string(),
                            };
                            out.push((nv.path.to_token_stream().to_string(), Some(v)));
                        }
                        Meta::List(l) => out.push((l.to_token_stream().to_string(), None)),
                    }
                }
            }
        }
    }
    out
}

fn has_attr(attrs: &[Attribute], name: &str) -> bool {
    attrs.iter().any(|a| a.path().is_ident(name))
}

#[derive(Clone)]
struct Located<T> {
    module: String,
    cfg: Cfg,
    item: T,
}

#[derive(Default)]
struct World {
    /// every type-like name declared: (module, ident)
    types: Vec<(String, String)>,
    aliases: Vec<Located<syn::ItemType>>,
    /// constants: full name (module::[Type::]NAME) -> definitions
    consts: Vec<(String, Cfg, Expr, String /*module*/, Option<String> /*self type*/)>,
    items: Vec<Located<Item>>,
    fns: Vec<Located<Item>>,
    unknown: Vec<String>,
    files: Vec<String>,
    /// `use` declarations per module: which traits and helpers are in scope decides what a method call resolves to
    uses: Vec<(String, String)>,
    /// item inventory per module: every fn / type / trait / impl header / const / macro (a new helper type with its own
    /// Deserialize impl, a new trait with an impl for a container type, a forwarding impl: none changes an existing body)
    inventory: Vec<(String, String)>,
}

fn mod_join(a: &str, b: &str) -> String {
    if a.is_empty() {
        b.to_string()
    } else {
        format!("{a}::{b}")
    }
}

fn parent(m: &str) -> String {
    match m.rfind("::") {
        Some(i) => m[..i].to_string(),
        None => String::new(),
    }
}

fn load_module(w: &mut World, src: &Path, file: &Path, module: &str, cfg: &Cfg) {
    let text = match std::fs::read_to_string(file) {
        Ok(t) => t,
        Err(e) => {
            w.unknown.push(format!("{}: unreadable ({e})", file.display()));
            return;
        }
    };
    w.files.push(file.strip_prefix(src).unwrap_or(file).display().to_string());
    let parsed = match syn::parse_file(&text) {
        Ok(f) => f,
        Err(e) => {
            w.unknown.push(format!("{}: parse error ({e})", file.display()));
            return;
        }
    };
    // every attribute of the file must be one the translator interprets or one that cannot change behaviour;
    // anything else (e.g. cfg_attr wrapping a serde attribute) is reported as unreadable rather than silently dropped
    struct AttrAudit(Vec<String>);
    impl<'ast> syn::visit::Visit<'ast> for AttrAudit {
        fn visit_attribute(&mut self, a: &'ast Attribute) {
            const PLAIN: [&str; 22] = [
                "allow", "warn", "deny", "forbid", "cfg", "default", "derive", "inline", "macro_use", "non_exhaustive", "repr", "serde",
                "serde_indexed", "test", "doc", "no_std", "must_use", "deprecated", "should_panic", "ignore", "cold", "track_caller",
            ];
            let name = a.path().to_token_stream().to_string().replace(' ', "");
            if PLAIN.contains(&name.as_str()) || name == "rustfmt::skip" {
                return;
            }
            if name == "cfg_attr" {
                if let Ok(p) = a.parse_args_with(syn::punctuated::Punctuated::<Meta, syn::Token![,]>::parse_terminated) {
                    if p.iter().skip(1).all(|m| match m {
                        Meta::List(l) => l.path.is_ident("derive") || l.path.is_ident("allow") || l.path.is_ident("doc"),
                        Meta::Path(q) => q.is_ident("no_std") || q.is_ident("inline"),
                        Meta::NameValue(nv) => nv.path.is_ident("doc"),
                    }) {
                        return;
                    }
                }
            }
            self.0.push(a.to_token_stream().to_string());
        }
    }
    let mut audit = AttrAudit(vec![]);
    syn::visit::Visit::visit_file(&mut audit, &parsed);
    for a in audit.0 {
        w.unknown.push(format!("{}: attribute the translator does not interpret: {}", file.display(), a));
    }
    collect_items(w, src, file, module, cfg, parsed.items);
}

fn collect_items(w: &mut World, src: &Path, file: &Path, module: &str, cfg: &Cfg, items: Vec<Item>) {
    for item in items {
        let attrs: &[Attribute] = match &item {
            Item::Const(i) => &i.attrs,
            Item::Enum(i) => &i.attrs,
            Item::Fn(i) => &i.attrs,
            Item::Impl(i) => &i.attrs,
            Item::Macro(i) => &i.attrs,
            Item::Mod(i) => &i.attrs,
            Item::Struct(i) => &i.attrs,
            Item::Trait(i) => &i.attrs,
            Item::Type(i) => &i.attrs,
            _ => &[],
        };
        let c = cfg.and(&cfg_of(attrs));
        if c.is_test() {
            continue;
        }
        {
            let sq = |t: String| t.replace(' ', "");
            let sig = match &item {
                Item::Fn(f) => Some(format!("fn {}", f.sig.ident)),
                Item::Struct(x) => Some(format!("struct {}", x.ident)),
                Item::Enum(x) => Some(format!("enum {}", x.ident)),
                Item::Trait(x) => Some(format!(
                    "trait {} {{{}}}",
                    x.ident,
                    x.items.iter().filter_map(|ti| if let syn::TraitItem::Fn(f) = ti { Some(f.sig.ident.to_string()) } else { None }).collect::<Vec<_>>().join(",")
                )),
                Item::Type(x) => Some(format!("type {}", x.ident)),
                Item::Const(x) => Some(format!("const {}", x.ident)),
                Item::Static(x) => Some(format!("static {}", x.ident)),
                Item::Mod(x) => Some(format!("mod {}", x.ident)),
                Item::Macro(x) => Some(format!("macro {}", sq(x.mac.path.to_token_stream().to_string()))),
                Item::Impl(im) => Some(format!(
                    "impl{} {}{} {{{}}}",
                    sq(im.generics.to_token_stream().to_string()),
                    match &im.trait_ {
                        Some((_, t, _)) => format!("{} for ", sq(t.to_token_stream().to_string())),
                        None => String::new(),
                    },
                    sq(im.self_ty.to_token_stream().to_string()),
                    im.items
                        .iter()
                        .filter_map(|ii| match ii {
                            syn::ImplItem::Fn(f) => Some(f.sig.ident.to_string()),
                            syn::ImplItem::Const(k) => Some(format!("const {}", k.ident)),
                            syn::ImplItem::Type(t) => Some(format!("type {}", t.ident)),
                            _ => None,
                        })
                        .collect::<Vec<_>>()
                        .join(",")
                )),
                _ => None,
            };
            if let Some(sg) = sig {
                w.inventory.push((module.to_string(), if matches!(c, Cfg::True) { sg } else { format!("{} if {}", sg, c.coq()) }));
            }
        }
        match item {
            Item::Mod(m) => {
                let name = m.ident.to_string();
                let sub = mod_join(module, &name);
                if let Some((_, items)) = m.content {
                    collect_items(w, src, file, &sub, &c, items);
                } else {
                    // file module: sibling dir of current file (or src/ for lib.rs)
                    let dir = if file.file_name().map(|f| f == "lib.rs" || f == "mod.rs").unwrap_or(false) {
                        file.parent().unwrap().to_path_buf()
                    } else {
                        file.with_extension("")
                    };
                    let cand1 = dir.join(format!("{name}.rs"));
                    let cand2 = dir.join(&name).join("mod.rs");
                    let f: PathBuf = if cand1.exists() { cand1 } else { cand2 };
                    load_module(w, src, &f, &sub, &c);
                }
            }
            Item::Struct(ref s) => {
                w.types.push((module.to_string(), s.ident.to_string()));
                w.items.push(Located { module: module.to_string(), cfg: c, item });
            }
            Item::Enum(ref e) => {
                w.types.push((module.to_string(), e.ident.to_string()));
                w.items.push(Located { module: module.to_string(), cfg: c, item });
            }
            Item::Type(ref t) => {
                w.types.push((module.to_string(), t.ident.to_string()));
                w.aliases.push(Located { module: module.to_string(), cfg: c, item: t.clone() });
            }
            Item::Const(ref k) => {
                w.consts.push((mod_join(module, &k.ident.to_string()), c, (*k.expr).clone(), module.to_string(), None));
            }
            Item::Impl(ref im) => {
                // associated consts
                if im.trait_.is_none() {
                    if let Type::Path(tp) = &*im.self_ty {
                        let tyname = tp.path.segments.last().unwrap().ident.to_string();
                        for ii in &im.items {
                            if let syn::ImplItem::Const(k) = ii {
                                let cc = c.and(&cfg_of(&k.attrs));
                                w.consts.push((
                                    mod_join(module, &format!("{}::{}", tyname, k.ident)),
                                    cc,
                                    k.expr.clone(),
                                    module.to_string(),
                                    Some(tyname.clone()),
                                ));
                            }
                        }
                    }
                }
                w.items.push(Located { module: module.to_string(), cfg: c, item });
            }
            Item::Macro(_) | Item::Trait(_) => {
                w.items.push(Located { module: module.to_string(), cfg: c, item });
            }
            Item::Fn(_) => {
                w.fns.push(Located { module: module.to_string(), cfg: c, item });
            }
            Item::Use(u) => {
                let txt = u.tree.to_token_stream().to_string().replace(' ', "");
                w.uses.push((module.to_string(), if matches!(c, Cfg::True) { txt } else { format!("{} if {}", txt, c.coq()) }));
            }
            _ => {}
        }
    }
}

/// Shape of a function body: the pre-order sequence of its literals, operators, called methods / functions,
/// macro names, control-flow keywords, casts, constant / variant paths, field names, and the uses of locals by binding
/// number.  Local variable NAMES, types of let bindings, comments and formatting are not part of it.
struct Shape {
    toks: Vec<String>,
    /// local bindings in binding order (parameters first): a use of a local is recorded as the number of its binding, so
    /// renaming locals changes nothing while exchanging two of them (`a - b` for `b - a`) does
    binds: Vec<String>,
}

impl Shape {
    fn bind(&mut self, name: String) {
        self.binds.push(name);
        self.toks.push(format!("bind {}", self.binds.len() - 1));
    }
    fn use_local(&mut self, name: &str) {
        match self.binds.iter().rposition(|b| b == name) {
            Some(i) => self.toks.push(format!("var {i}")),
            None => self.toks.push(format!("free {name}")),
        }
    }
    fn path_tok(p: &syn::Path) -> Option<String> {
        let segs: Vec<String> = p.segments.iter().map(|s| s.ident.to_string()).collect();
        let last = segs.last()?.clone();
        let interesting = segs.len() >= 2 || last.chars().next().map(|c| c.is_uppercase()).unwrap_or(false);
        if !interesting {
            return None;
        }
        let n = segs.len();
        Some(if n >= 2 { format!("{}::{}", segs[n - 2], segs[n - 1]) } else { last })
    }
}

impl<'ast> syn::visit::Visit<'ast> for Shape {
    fn visit_lit(&mut self, l: &'ast Lit) {
        let t = match l {
            Lit::Int(i) => format!("int {}", i.base10_digits()),
            Lit::Str(s) => format!("str {}", s.value()),
            Lit::ByteStr(b) => format!("bytes {}", b.value().iter().map(|x| format!("{x:02x}")).collect::<String>()),
            Lit::Byte(b) => format!("byte {}", b.value()),
            Lit::Char(c) => format!("char {}", c.value() as u32),
            Lit::Bool(b) => format!("bool {}", b.value),
            Lit::Float(f) => format!("float {}", f.base10_digits()),
            _ => "lit ?".to_string(),
        };
        self.toks.push(t);
    }
    fn visit_bin_op(&mut self, o: &'ast syn::BinOp) {
        self.toks.push(format!("op {}", o.to_token_stream().to_string().replace(' ', "")));
    }
    fn visit_un_op(&mut self, o: &'ast syn::UnOp) {
        self.toks.push(format!("un {}", o.to_token_stream().to_string().replace(' ', "")));
    }
    fn visit_expr(&mut self, e: &'ast Expr) {
        match e {
            Expr::MethodCall(m) => {
                self.visit_expr(&m.receiver);
                match &m.turbofish {
                    // explicit type arguments select the implementation that runs (next_element::<T>, parse::<T>, ...)
                    Some(tf) => self.toks.push(format!(".{}::{}", m.method, tf.to_token_stream().to_string().replace(' ', ""))),
                    None => self.toks.push(format!(".{}", m.method)),
                }
                for a in &m.args {
                    self.visit_expr(a);
                }
                return;
            }
            Expr::Call(c) => {
                if let Expr::Path(p) = &*c.func {
                    let segs: Vec<String> = p
                        .path
                        .segments
                        .iter()
                        .map(|s| match &s.arguments {
                            syn::PathArguments::None => s.ident.to_string(),
                            a => format!("{}{}", s.ident, a.to_token_stream().to_string().replace(' ', "")),
                        })
                        .collect();
                    let n = segs.len();
                    self.toks.push(format!("call {}", if n >= 2 { format!("{}::{}", segs[n - 2], segs[n - 1]) } else { segs.join("::") }));
                } else {
                    self.toks.push("call".to_string());
                    self.visit_expr(&c.func);
                }
                for a in &c.args {
                    self.visit_expr(a);
                }
                return;
            }
            Expr::Path(p) => {
                if let Some(t) = Shape::path_tok(&p.path) {
                    self.toks.push(format!("path {t}"));
                } else if let Some(id) = p.path.get_ident() {
                    let id = id.to_string();
                    self.use_local(&id);
                }
                return;
            }
            Expr::Field(f) => {
                self.visit_expr(&f.base);
                self.toks.push(format!("field {}", f.member.to_token_stream()));
                return;
            }
            Expr::Macro(m) => {
                let name = m.mac.path.segments.last().map(|s| s.ident.to_string()).unwrap_or_default();
                // logging macros: the message text carries no behaviour, but the ARGUMENTS are evaluated when the crate is built with
                // one of its log features (a slice or an unwrap inside a log statement can panic): they belong to the shape
                if name.starts_with("info") || name.starts_with("debug_now") || name.starts_with("warn") || name.starts_with("error_now") || name.starts_with("trace") {
                    if let Ok(args) = m.mac.parse_body_with(syn::punctuated::Punctuated::<Expr, syn::Token![,]>::parse_terminated) {
                        let mut first = true;
                        for a in &args {
                            let is_fmt = first && matches!(a, Expr::Lit(l) if matches!(l.lit, Lit::Str(_)));
                            first = false;
                            if !is_fmt {
                                self.toks.push("logarg".into());
                                self.visit_expr(a);
                            }
                        }
                    }
                } else {
                    self.toks.push(format!("macro {name}"));
                    if let Ok(args) = m.mac.parse_body_with(syn::punctuated::Punctuated::<Expr, syn::Token![,]>::parse_terminated) {
                        for a in &args {
                            self.visit_expr(a);
                        }
                    }
                }
                return;
            }
            Expr::If(_) => self.toks.push("if".into()),
            Expr::Match(_) => self.toks.push("match".into()),
            Expr::Return(_) => self.toks.push("return".into()),
            Expr::Try(_) => self.toks.push("?".into()),
            Expr::Index(_) => self.toks.push("index".into()),
            Expr::Range(r) => self.toks.push(match r.limits {
                syn::RangeLimits::HalfOpen(_) => "range ..".into(),
                syn::RangeLimits::Closed(_) => "range ..=".into(),
            }),
            Expr::Cast(c) => self.toks.push(format!("as {}", c.ty.to_token_stream().to_string().replace(' ', ""))),
            Expr::ForLoop(_) => self.toks.push("for".into()),
            Expr::While(_) => self.toks.push("while".into()),
            Expr::Loop(_) => self.toks.push("loop".into()),
            Expr::Break(_) => self.toks.push("break".into()),
            Expr::Continue(_) => self.toks.push("continue".into()),
            Expr::Unsafe(_) => self.toks.push("unsafe".into()),
            Expr::Closure(_) => self.toks.push("closure".into()),
            Expr::Struct(s) => {
                if let Some(t) = Shape::path_tok(&s.path) {
                    self.toks.push(format!("struct {t}"));
                }
                for fv in &s.fields {
                    self.toks.push(format!("fv {}", fv.member.to_token_stream()));
                    self.visit_expr(&fv.expr);
                }
                if let Some(r) = &s.rest {
                    self.toks.push("fv ..".into());
                    self.visit_expr(r);
                }
                return;
            }
            Expr::Let(_) => self.toks.push("iflet".into()),
            Expr::Assign(_) => self.toks.push("assign".into()),
            _ => {}
        }
        syn::visit::visit_expr(self, e);
    }
    fn visit_pat(&mut self, p: &'ast Pat) {
        match p {
            Pat::Path(pp) => {
                if let Some(t) = Shape::path_tok(&pp.path) {
                    self.toks.push(format!("pat {t}"));
                }
            }
            Pat::TupleStruct(ts) => {
                if let Some(t) = Shape::path_tok(&ts.path) {
                    self.toks.push(format!("pat {t}"));
                }
            }
            Pat::Struct(ps) => {
                if let Some(t) = Shape::path_tok(&ps.path) {
                    self.toks.push(format!("pat {t}"));
                }
                for fp in &ps.fields {
                    self.toks.push(format!("pf {}", fp.member.to_token_stream()));
                    self.visit_pat(&fp.pat);
                }
                return;
            }
            Pat::Ident(pi) => {
                let name = pi.ident.to_string();
                // an upper-case identifier pattern is a constant or unit variant, not a binding
                if name.chars().next().map(|c| c.is_uppercase()).unwrap_or(false) {
                    self.toks.push(format!("pat {name}"));
                } else {
                    self.bind(name);
                }
            }
            Pat::Wild(_) => self.toks.push("pat _".into()),
            Pat::Range(_) => self.toks.push("pat range".into()),
            Pat::Or(_) => self.toks.push("pat |".into()),
            _ => {}
        }
        syn::visit::visit_pat(self, p);
    }
    fn visit_item(&mut self, i: &'ast Item) {
        // items nested in a body (visitor structs and their impls): their functions belong to the shape
        match i {
            Item::Fn(f) => {
                self.toks.push(format!("fn {}", f.sig.ident));
                self.sig(&f.sig);
                syn::visit::Visit::visit_block(self, &f.block);
            }
            Item::Impl(im) => {
                for ii in &im.items {
                    if let syn::ImplItem::Fn(f) = ii {
                        self.toks.push(format!("fn {}", f.sig.ident));
                        self.sig(&f.sig);
                        syn::visit::Visit::visit_block(self, &f.block);
                    }
                }
            }
            _ => {}
        }
    }
}

impl Shape {
    /// parameters are bound in signature order before the body is read
    fn sig(&mut self, sig: &syn::Signature) {
        for a in &sig.inputs {
            match a {
                syn::FnArg::Receiver(_) => self.bind("self".to_string()),
                syn::FnArg::Typed(pt) => syn::visit::Visit::visit_pat(self, &pt.pat),
            }
        }
    }
}

fn shape_of(sig: &syn::Signature, block: &syn::Block) -> Vec<String> {
    let mut s = Shape { toks: vec![], binds: vec![] };
    s.sig(sig);
    syn::visit::Visit::visit_block(&mut s, block);
    s.toks
}

struct Tr<'a> {
    w: &'a World,
    /// name -> value kind for constants (for deciding pattern/body classification)
    const_names: HashMap<String, Vec<usize>>,
}

impl<'a> Tr<'a> {
    /// Resolve a type-like path to a declared (module, ident)
    fn resolve_type(&self, path: &syn::Path, cur: &str) -> Option<(String, String)> {
        let segs: Vec<String> = path.segments.iter().map(|s| s.ident.to_string()).collect();
        let name = segs.last()?.clone();
        let mut quals: Vec<String> = segs[..segs.len() - 1].to_vec();
        let mut base: Option<String> = None;
        while let Some(q) = quals.first() {
            match q.as_str() {
                "crate" => {
                    base = Some(String::new());
                    quals.remove(0);
                }
                "self" => {
                    base = Some(cur.to_string());
                    quals.remove(0);
                }
                "super" => {
                    base = Some(parent(base.as_deref().unwrap_or(cur)));
                    quals.remove(0);
                }
                _ => break,
            }
        }
        let cands: Vec<&(String, String)> = self.w.types.iter().filter(|(_, n)| *n == name).collect();
        if cands.is_empty() {
            return None;
        }
        if !quals.is_empty() || base.is_some() {
            let want = match &base {
                Some(b) => {
                    let mut m = b.clone();
                    for q in &quals {
                        m = mod_join(&m, q);
                    }
                    Some(m)
                }
                None => None,
            };
            if let Some(wm) = &want {
                if let Some(c) = cands.iter().find(|(m, _)| m == wm) {
                    return Some((*c).clone());
                }
            }
            let suffix = quals.join("::");
            if !suffix.is_empty() {
                let hits: Vec<_> = cands
                    .iter()
                    .filter(|(m, _)| m == &suffix || m.ends_with(&format!("::{suffix}")))
                    .collect();
                if hits.len() == 1 {
                    return Some((**hits[0]).clone());
                }
                // `use super::X` style: module relative to current or parent
                for b in [cur.to_string(), parent(cur)] {
                    let wm = mod_join(&b, &suffix);
                    if let Some(c) = cands.iter().find(|(m, _)| *m == wm) {
                        return Some((*c).clone());
                    }
                }
                return None; // qualified by something external (e.g. serde_bytes::Bytes)
            }
        }
        if let Some(c) = cands.iter().find(|(m, _)| m == cur) {
            return Some((*c).clone());
        }
        if cands.len() == 1 {
            return Some(cands[0].clone());
        }
        let p = parent(cur);
        if let Some(c) = cands.iter().find(|(m, _)| *m == p) {
            return Some((*c).clone());
        }
        None
    }

    fn resolve_const(&self, path: &syn::Path, cur: &str, self_ty: Option<&str>) -> Option<String> {
        let segs: Vec<String> = path.segments.iter().map(|s| s.ident.to_string()).collect();
        let name = segs.last()?.clone();
        if segs.len() >= 2 {
            let mut q = segs[segs.len() - 2].clone();
            if q == "Self" {
                q = self_ty?.to_string();
            }
            let tail = format!("{q}::{name}");
            let hits: Vec<&String> = self
                .w
                .consts
                .iter()
                .map(|c| &c.0)
                .filter(|n| **n == tail || n.ends_with(&format!("::{tail}")))
                .collect();
            let mut uniq: Vec<&String> = hits.clone();
            uniq.dedup();
            if let Some(h) = uniq.first() {
                return Some((*h).clone());
            }
            return None;
        }
        // bare name: same module, else unique global (glob imports)
        let same = mod_join(cur, &name);
        if self.w.consts.iter().any(|c| c.0 == same) {
            return Some(same);
        }
        let mut hits: Vec<&String> = self
            .w
            .consts
            .iter()
            .filter(|c| c.4.is_none())
            .map(|c| &c.0)
            .filter(|n| **n == name || n.ends_with(&format!("::{name}")))
            .collect();
        hits.dedup();
        if hits.len() == 1 {
            return Some(hits[0].clone());
        }
        None
    }

    fn const_ident(full: &str) -> String {
        format!("k_{}", full.replace("::", "_"))
    }

    /// Translate a constant integer expression to a Coq Z expression (over `f`)
    fn zexpr(&self, e: &Expr, cur: &str, self_ty: Option<&str>) -> Option<String> {
        match e {
            Expr::Lit(l) => match &l.lit {
                Lit::Int(i) => i.base10_parse::<i128>().ok().map(|v| if v < 0 { format!("({v})") } else { format!("{v}") }),
                Lit::Byte(b) => Some(format!("{}", b.value())),
                _ => None,
            },
            Expr::Paren(p) => self.zexpr(&p.expr, cur, self_ty).map(|s| format!("({s})")),
            Expr::Group(p) => self.zexpr(&p.expr, cur, self_ty),
            Expr::Unary(u) => match u.op {
                syn::UnOp::Neg(_) => self.zexpr(&u.expr, cur, self_ty).map(|s| format!("(- {s})")),
                _ => None,
            },
            Expr::Binary(b) => {
                let l = self.zexpr(&b.left, cur, self_ty)?;
                let r = self.zexpr(&b.right, cur, self_ty)?;
                Some(match b.op {
                    syn::BinOp::Add(_) => format!("({l} + {r})"),
                    syn::BinOp::Sub(_) => format!("({l} - {r})"),
                    syn::BinOp::Mul(_) => format!("({l} * {r})"),
                    syn::BinOp::Shl(_) => format!("(Z.shiftl {l} {r})"),
                    syn::BinOp::BitOr(_) => format!("(Z.lor {l} {r})"),
                    _ => return None,
                })
            }
            Expr::Cast(c) => self.zexpr(&c.expr, cur, self_ty),
            Expr::Path(p) => {
                let full = self.resolve_const(&p.path, cur, self_ty)?;
                Some(format!("({} f)", Self::const_ident(&full)))
            }
            _ => None,
        }
    }

    fn cap(&self, a: &syn::GenericArgument, cur: &str) -> String {
        let e = match a {
            syn::GenericArgument::Const(e) => Some(e.clone()),
            syn::GenericArgument::Type(Type::Path(tp)) => Some(Expr::Path(syn::ExprPath { attrs: vec![], qself: None, path: tp.path.clone() })),
            _ => None,
        };
        match e.and_then(|e| self.zexpr(&e, cur, None)) {
            Some(s) => s,
            None => "(-1)".to_string(),
        }
    }

    fn ty(&self, t: &Type, cur: &str, depth: usize) -> String {
        if depth > 8 {
            return format!("(TUnknown {})", cs("alias depth"));
        }
        match t {
            Type::Reference(r) => match &*r.elem {
                Type::Path(tp) => {
                    let last = tp.path.segments.last().unwrap();
                    let id = last.ident.to_string();
                    let qualified_serde_bytes = tp.path.segments.iter().any(|s| s.ident == "serde_bytes");
                    match (id.as_str(), &last.arguments) {
                        ("str", _) => "TStrRef".into(),
                        ("Bytes", syn::PathArguments::None) if qualified_serde_bytes => "TBytesRef".into(),
                        ("ByteArray", syn::PathArguments::AngleBracketed(ab)) => {
                            format!("(TByteArrRef {})", self.cap(ab.args.first().unwrap(), cur))
                        }
                        _ => format!("(TRef {})", self.ty(&r.elem, cur, depth + 1)),
                    }
                }
                Type::Array(a) => {
                    let n = self.zexpr(&a.len, cur, None).unwrap_or("(-1)".into());
                    format!("(TArrRef {n})")
                }
                Type::Slice(_) => "TSliceRef".into(),
                o => format!("(TRef {})", self.ty(o, cur, depth + 1)),
            },
            Type::Array(a) => {
                let n = self.zexpr(&a.len, cur, None).unwrap_or("(-1)".into());
                format!("(TArr {n})")
            }
            Type::Tuple(t) if t.elems.is_empty() => "TUnit".into(),
            Type::Paren(p) => self.ty(&p.elem, cur, depth),
            Type::Path(tp) => {
                let last = tp.path.segments.last().unwrap();
                let id = last.ident.to_string();
                let args: Vec<&syn::GenericArgument> = match &last.arguments {
                    syn::PathArguments::AngleBracketed(ab) => {
                        ab.args.iter().filter(|a| !matches!(a, syn::GenericArgument::Lifetime(_))).collect()
                    }
                    _ => vec![],
                };
                let prim = match id.as_str() {
                    "u8" => Some("TU8"),
                    "u16" => Some("TU16"),
                    "u32" => Some("TU32"),
                    "u64" => Some("TU64"),
                    "usize" => Some("TUsize"),
                    "i8" => Some("TI8"),
                    "i32" => Some("TI32"),
                    "bool" => Some("TBool"),
                    _ => None,
                };
                if tp.path.segments.len() == 1 && args.is_empty() {
                    if let Some(p) = prim {
                        return p.into();
                    }
                }
                match (id.as_str(), args.len()) {
                    ("Option", 1) => {
                        if let syn::GenericArgument::Type(inner) = args[0] {
                            return format!("(TOpt {})", self.ty(inner, cur, depth + 1));
                        }
                    }
                    ("Vec", 2) => {
                        if let syn::GenericArgument::Type(inner) = args[0] {
                            return format!("(TVec {} {})", self.ty(inner, cur, depth + 1), self.cap(args[1], cur));
                        }
                    }
                    ("Bytes", 1) => return format!("(TBytesCap {})", self.cap(args[0], cur)),
                    ("String", 1) => return format!("(TStrCap {})", self.cap(args[0], cur)),
                    ("ByteArray", 1) => return format!("(TByteArr {})", self.cap(args[0], cur)),
                    _ => {}
                }
                // alias?
                if let Some((m, n)) = self.resolve_type(&tp.path, cur) {
                    if let Some(al) = self.w.aliases.iter().find(|a| a.module == m && a.item.ident == n) {
                        let generic = al.item.generics.type_params().count() > 0;
                        if !generic {
                            return self.ty(&al.item.ty, &al.module, depth + 1);
                        }
                    }
                    return format!("(TNamed {})", cs(&mod_join(&m, &n)));
                }
                // external types we know by name
                let full: Vec<String> = tp.path.segments.iter().map(|s| s.ident.to_string()).collect();
                format!("(TExt {})", cs(&full.join("::")))
            }
            o => format!("(TUnknown {})", cs(&o.to_token_stream().to_string())),
        }
    }

    fn field(&self, f: &syn::Field, idx: usize, cur: &str) -> String {
        let name = f.ident.as_ref().map(|i| i.to_string()).unwrap_or_else(|| idx.to_string());
        let mut attrs = vec![];
        for (k, v) in serde_kv(&f.attrs) {
            let a = match (k.as_str(), v) {
                ("skip_serializing_if", Some(v)) => format!("ASkipIf {}", cs(&v)),
                ("rename", Some(v)) => format!("ARename {}", cs(&v)),
                ("alias", Some(v)) => format!("AAlias {}", cs(&v)),
                ("deserialize_with", Some(v)) => format!("AWith {}", cs(&v)),
                ("default", None) => "ADefault".to_string(),
                ("skip_serializing", None) => "ASkipSer".to_string(),
                (k, Some(v)) => format!("AOther {}", cs(&format!("{k}={v}"))),
                (k, None) => format!("AOther {}", cs(k)),
            };
            attrs.push(a);
        }
        let vis = match &f.vis {
            syn::Visibility::Public(_) => "true",
            _ => "false",
        };
        format!(
            "{{| rf_name := {}; rf_cfg := {}; rf_ty := {}; rf_attrs := [{}]; rf_pub := {} |}}",
            cs(&name),
            cfg_of(&f.attrs).coq(),
            self.ty(&f.ty, cur, 0),
            attrs.join("; "),
            vis
        )
    }
}

fn type_short(t: &Type) -> String {
    match t {
        Type::Path(tp) => tp.path.segments.last().map(|s| s.ident.to_string()).unwrap_or_default(),
        Type::Reference(r) => format!("&{}", type_short(&r.elem)),
        o => o.to_token_stream().to_string().replace(' ', ""),
    }
}

/// find the first `match` expression in a block (depth-first, source order)
fn first_match(b: &syn::Block) -> Option<syn::ExprMatch> {
    struct V(Option<syn::ExprMatch>);
    impl<'ast> syn::visit::Visit<'ast> for V {
        fn visit_expr_match(&mut self, m: &'ast syn::ExprMatch) {
            if self.0.is_none() {
                self.0 = Some(m.clone());
            }
        }
        fn visit_expr_closure(&mut self, _c: &'ast syn::ExprClosure) {}
    }
    let mut v = V(None);
    syn::visit::Visit::visit_block(&mut v, b);
    v.0
}

fn all_matches(b: &syn::Block) -> Vec<syn::ExprMatch> {
    struct V(Vec<syn::ExprMatch>);
    impl<'ast> syn::visit::Visit<'ast> for V {
        fn visit_expr_match(&mut self, m: &'ast syn::ExprMatch) {
            self.0.push(m.clone());
            syn::visit::visit_expr_match(self, m);
        }
        fn visit_expr_closure(&mut self, _c: &'ast syn::ExprClosure) {}
    }
    let mut v = V(vec![]);
    syn::visit::Visit::visit_block(&mut v, b);
    v.0
}

struct BodyInfo {
    self_calls: Vec<String>,
    has_try: bool,
    has_return_err: bool,
    calls: Vec<String>,
}

fn body_info(e: &Expr) -> BodyInfo {
    struct V(BodyInfo);
    impl<'ast> syn::visit::Visit<'ast> for V {
        fn visit_expr_method_call(&mut self, m: &'ast syn::ExprMethodCall) {
            if let Expr::Path(p) = &*m.receiver {
                if p.path.is_ident("self") {
                    self.0.self_calls.push(m.method.to_string());
                }
            }
            syn::visit::visit_expr_method_call(self, m);
        }
        fn visit_expr_try(&mut self, t: &'ast syn::ExprTry) {
            self.0.has_try = true;
            syn::visit::visit_expr_try(self, t);
        }
        fn visit_expr_return(&mut self, r: &'ast syn::ExprReturn) {
            self.0.has_return_err = true;
            syn::visit::visit_expr_return(self, r);
        }
        fn visit_expr_call(&mut self, c: &'ast syn::ExprCall) {
            if let Expr::Path(p) = &*c.func {
                let segs: Vec<String> = p.path.segments.iter().map(|s| s.ident.to_string()).collect();
                self.0.calls.push(segs.join("::"));
            }
            syn::visit::visit_expr_call(self, c);
        }
        fn visit_expr_closure(&mut self, _c: &'ast syn::ExprClosure) {}
        fn visit_macro(&mut self, _m: &'ast syn::Macro) {}
    }
    let mut v = V(BodyInfo { self_calls: vec![], has_try: false, has_return_err: false, calls: vec![] });
    syn::visit::Visit::visit_expr(&mut v, e);
    v.0
}

impl<'a> Tr<'a> {
    fn const_is_str(&self, full: &str) -> Option<String> {
        for c in &self.w.consts {
            if c.0 == full {
                if let Expr::Lit(l) = &c.2 {
                    if let Lit::Str(s) = &l.lit {
                        return Some(s.value());
                    }
                }
            }
        }
        None
    }

    fn pat(&self, p: &Pat, cur: &str, self_ty: Option<&str>) -> Vec<String> {
        match p {
            Pat::Or(o) => o.cases.iter().flat_map(|c| self.pat(c, cur, self_ty)).collect(),
            Pat::Wild(_) => vec!["MP_Wild".into()],
            Pat::Lit(l) => match &l.lit {
                Lit::Int(i) => vec![format!("MP_Int {}", i.base10_parse::<i128>().map(|v| v.to_string()).unwrap_or("(-1)".into()))],
                Lit::Str(s) => vec![format!("MP_Str {}", cs(&s.value()))],
                o => vec![format!("MP_Other {}", cs(&o.to_token_stream().to_string()))],
            },
            Pat::Range(r) => {
                let lo = r.start.as_ref().and_then(|e| self.zexpr(e, cur, self_ty)).unwrap_or("(-1)".into());
                let hi = r.end.as_ref().and_then(|e| self.zexpr(e, cur, self_ty)).unwrap_or("(-1)".into());
                vec![format!("MP_Range ({lo}) ({hi})")]
            }
            Pat::Ident(i) => match &i.subpat {
                Some((_, sp)) => self.pat(sp, cur, self_ty),
                None => {
                    let n = i.ident.to_string();
                    if n.chars().next().map(|c| c.is_uppercase()).unwrap_or(false) {
                        vec![format!("MP_Var {}", cs(&n))]
                    } else {
                        vec!["MP_Wild".into()] // binding pattern
                    }
                }
            },
            Pat::Path(pp) => {
                if let Some(full) = self.resolve_const(&pp.path, cur, self_ty) {
                    if let Some(s) = self.const_is_str(&full) {
                        return vec![format!("MP_Str {}", cs(&s))];
                    }
                    return vec![format!("MP_Int ({} f)", Self::const_ident(&full))];
                }
                vec![format!("MP_Var {}", cs(&pp.path.segments.last().unwrap().ident.to_string()))]
            }
            Pat::TupleStruct(ts) => vec![format!("MP_Var {}", cs(&ts.path.segments.last().unwrap().ident.to_string()))],
            Pat::Struct(ps) => vec![format!("MP_Var {}", cs(&ps.path.segments.last().unwrap().ident.to_string()))],
            Pat::Reference(r) => self.pat(&r.pat, cur, self_ty),
            o => vec![format!("MP_Other {}", cs(&o.to_token_stream().to_string()))],
        }
    }

    fn body(&self, e: &Expr, cur: &str, self_ty: Option<&str>) -> String {
        // `{ expr }` with a single trailing expression is the expression
        if let Expr::Block(b) = e {
            if b.block.stmts.len() == 1 {
                if let syn::Stmt::Expr(x, None) = &b.block.stmts[0] {
                    return self.body(x, cur, self_ty);
                }
            }
        }
        let strip_ok = |e: &Expr| -> Option<Expr> {
            if let Expr::Call(c) = e {
                if let Expr::Path(p) = &*c.func {
                    if p.path.is_ident("Ok") && c.args.len() == 1 {
                        return Some(c.args[0].clone());
                    }
                }
            }
            None
        };
        let inner = strip_ok(e).unwrap_or_else(|| e.clone());
        match &inner {
            Expr::Lit(l) => {
                if let Lit::Int(i) = &l.lit {
                    return format!("MB_Int {}", i.base10_parse::<i128>().map(|v| v.to_string()).unwrap_or("(-1)".into()));
                }
                if let Lit::Str(s) = &l.lit {
                    return format!("MB_Str {}", cs(&s.value()));
                }
            }
            Expr::Path(p) => {
                if let Some(full) = self.resolve_const(&p.path, cur, self_ty) {
                    if let Some(s) = self.const_is_str(&full) {
                        return format!("MB_Str {}", cs(&s));
                    }
                    return format!("MB_Int ({} f)", Self::const_ident(&full));
                }
                return format!("MB_Var {}", cs(&p.path.segments.last().unwrap().ident.to_string()));
            }
            _ => {}
        }
        let info = body_info(e);
        // Err(..) / return Err(..)
        let err_name = |e: &Expr| -> Option<String> {
            let mut cur_e = e.clone();
            loop {
                match &cur_e {
                    Expr::Return(r) => cur_e = (**r.expr.as_ref()?).clone(),
                    Expr::Block(b) => {
                        // last statement
                        let st = b.block.stmts.last()?;
                        match st {
                            syn::Stmt::Expr(x, _) => cur_e = x.clone(),
                            _ => return None,
                        }
                    }
                    Expr::Call(c) => {
                        if let Expr::Path(p) = &*c.func {
                            if p.path.is_ident("Err") && c.args.len() == 1 {
                                let a = &c.args[0];
                                // find first path inside
                                struct PV(Option<String>);
                                impl<'ast> syn::visit::Visit<'ast> for PV {
                                    fn visit_path(&mut self, p: &'ast syn::Path) {
                                        if self.0.is_none() {
                                            self.0 = Some(p.segments.last().unwrap().ident.to_string());
                                        }
                                    }
                                }
                                let mut pv = PV(None);
                                syn::visit::Visit::visit_expr(&mut pv, a);
                                return Some(pv.0.unwrap_or_else(|| a.to_token_stream().to_string()));
                            }
                        }
                        return None;
                    }
                    _ => return None,
                }
            }
        };
        if let Some(n) = err_name(e) {
            return format!("MB_Err {}", cs(&n));
        }
        // constructor call wrapping something
        let ctor = |e: &Expr| -> Option<(String, Expr)> {
            if let Expr::Call(c) = e {
                if let Expr::Path(p) = &*c.func {
                    if c.args.len() == 1 {
                        return Some((p.path.segments.last().unwrap().ident.to_string(), c.args[0].clone()));
                    }
                }
            }
            None
        };
        if !info.self_calls.is_empty() {
            // dispatcher arm: which constructor wraps the result?
            let mut ctor_name = String::new();
            struct CV(Vec<String>);
            impl<'ast> syn::visit::Visit<'ast> for CV {
                fn visit_path(&mut self, p: &'ast syn::Path) {
                    if p.segments.len() >= 2 && p.segments[p.segments.len() - 2].ident == "Response" {
                        self.0.push(p.segments.last().unwrap().ident.to_string());
                    }
                }
                fn visit_expr_closure(&mut self, _c: &'ast syn::ExprClosure) {}
                fn visit_macro(&mut self, _m: &'ast syn::Macro) {}
            }
            let mut cv = CV(vec![]);
            syn::visit::Visit::visit_expr(&mut cv, e);
            if let Some(n) = cv.0.first() {
                ctor_name = n.clone();
            }
            return format!(
                "MB_Call [{}] {} {}",
                info.self_calls.iter().map(|s| cs(s)).collect::<Vec<_>>().join("; "),
                cs(&ctor_name),
                if info.has_try { "true" } else { "false" }
            );
        }
        if let Some((name, arg)) = ctor(&inner) {
            let ai = body_info(&arg);
            if ai.calls.iter().any(|c| c.ends_with("cbor_deserialize")) {
                return format!("MB_Decode {}", cs(&name));
            }
            if let Expr::Path(_) = arg {
                return format!("MB_Wrap {}", cs(&name));
            }
            if ai.has_try {
                return format!("MB_WrapTry {}", cs(&name));
            }
        }
        if info.calls.iter().any(|c| c.ends_with("cbor_serialize")) {
            return "MB_Ser".to_string();
        }
        if let Expr::Match(_) = &inner {
            return "MB_Match".to_string();
        }
        format!("MB_Other {}", cs(&e.to_token_stream().to_string()))
    }

    fn match_table(&self, out: &mut Vec<String>, name: &str, m: &syn::ExprMatch, cur: &str, self_ty: Option<&str>, cfg: &Cfg) {
        let mut arms = vec![];
        for arm in &m.arms {
            let body = self.body(&arm.body, cur, self_ty);
            for p in self.pat(&arm.pat, cur, self_ty) {
                arms.push(format!("({p}, {body})"));
                if body == "MB_Match" {
                    if let Expr::Match(inner) = &*arm.body {
                        let sub = format!("{name}/{}", p.trim_start_matches("MP_Var ").trim_matches('"'));
                        self.match_table(out, &sub, inner, cur, self_ty, cfg);
                    }
                }
            }
        }
        out.push(format!("({}, RMatch {} [\n      {}])", cfg.coq(), cs(name), arms.join(";\n      ")));
    }
}

fn main() {
    let args: Vec<String> = std::env::args().collect();
    if args.len() < 3 {
        eprintln!("usage: ctap-translator <repo> <out.v> [report.json]");
        std::process::exit(2);
    }
    let repo = PathBuf::from(&args[1]);
    let src = repo.join("src");
    let mut w = World::default();
    load_module(&mut w, &src, &src.join("lib.rs"), "", &Cfg::True);

    let mut const_names: HashMap<String, Vec<usize>> = HashMap::new();
    for (i, c) in w.consts.iter().enumerate() {
        const_names.entry(c.0.clone()).or_default().push(i);
    }
    let tr = Tr { w: &w, const_names };
    let _ = &tr.const_names;

    let mut o = String::new();
    writeln!(o, "(* GENERATED by /verif/translator from /repo/src on every run. Do not edit. *)").unwrap();
    writeln!(o, "From Coq Require Import ZArith List String.").unwrap();
    writeln!(o, "From Ctap Require Import Schema.").unwrap();
    writeln!(o, "Import ListNotations.\nLocal Open Scope Z_scope.\nLocal Open Scope string_scope.\n").unwrap();

    // ---- features from Cargo.toml
    let cargo = std::fs::read_to_string(repo.join("Cargo.toml")).unwrap_or_default();
    let mut feats: Vec<(String, String)> = vec![];
    let mut in_feat = false;
    for line in cargo.lines() {
        let l = line.trim();
        if l.starts_with('[') {
            in_feat = l == "[features]";
            continue;
        }
        if in_feat && !l.starts_with('#') {
            if let Some((k, v)) = l.split_once('=') {
                feats.push((k.trim().to_string(), v.trim().to_string()));
            }
        }
    }
    writeln!(
        o,
        "Definition cargo_features : list (string * string) := [\n  {}].\n",
        feats.iter().map(|(k, v)| format!("({}, {})", cs(k), cs(v))).collect::<Vec<_>>().join(";\n  ")
    )
    .unwrap();

    // ---- dependency pins: every (name, version) of /repo/Cargo.lock (when the tree has one: the file is git-ignored upstream),
    // of the lock file the correspondence harness is built with, and the requirement lines of [dependencies]
    fn parse_lock(lock: &str) -> Vec<(String, String)> {
        let mut out: Vec<(String, String)> = vec![];
        let mut cur_name: Option<String> = None;
        for line in lock.lines() {
            let l = line.trim();
            if let Some(r) = l.strip_prefix("name = ") {
                cur_name = Some(r.trim_matches('"').to_string());
            } else if let Some(r) = l.strip_prefix("version = ") {
                if let Some(n) = cur_name.take() {
                    out.push((n, r.trim_matches('"').to_string()));
                }
            }
        }
        out
    }
    let repo_lock = std::fs::read_to_string(repo.join("Cargo.lock")).ok();
    let lock_versions = parse_lock(repo_lock.as_deref().unwrap_or(""));
    let harness_lock_versions = parse_lock(&std::env::args().nth(4).and_then(|p| std::fs::read_to_string(p).ok()).unwrap_or_default());
    writeln!(o, "Definition repo_lock_present : bool := {}.\n", if repo_lock.is_some() { "true" } else { "false" }).unwrap();
    // ---- impls of the dispatch traits (Authenticator of either protocol, the combined one, Rpc): which types get the provided
    // methods decides where a call ends; a further impl (say a forwarding impl for &mut A) changes method resolution
    let mut dispatch_impls: Vec<(String, String)> = vec![];
    for li in &w.items {
        if let Item::Impl(im) = &li.item {
            if let Some((_, tpath, _)) = &im.trait_ {
                let last = tpath.segments.last().map(|x| x.ident.to_string()).unwrap_or_default();
                if last == "Authenticator" || last == "Rpc" {
                    dispatch_impls.push((
                        mod_join(&li.module, &tpath.to_token_stream().to_string().replace(' ', "")),
                        format!(
                            "{} for {}",
                            im.generics.to_token_stream().to_string().replace(' ', ""),
                            im.self_ty.to_token_stream().to_string().replace(' ', "")
                        ),
                    ));
                }
            }
        }
    }
    writeln!(
        o,
        "Definition dispatch_impls : list (string * string) := [\n  {}].\n",
        dispatch_impls.iter().map(|(k, v)| format!("({}, {})", cs(k), cs(v))).collect::<Vec<_>>().join(";\n  ")
    )
    .unwrap();
    writeln!(
        o,
        "Definition harness_lock_versions : list (string * string) := [\n  {}].\n",
        harness_lock_versions.iter().map(|(k, v)| format!("({}, {})", cs(k), cs(v))).collect::<Vec<_>>().join(";\n  ")
    )
    .unwrap();
    let mut cargo_deps: Vec<(String, String)> = vec![];
    let mut in_deps = false;
    for line in cargo.lines() {
        let l = line.trim();
        if l.starts_with('[') {
            in_deps = l == "[dependencies]";
            continue;
        }
        if in_deps && !l.starts_with('#') {
            if let Some((k, v)) = l.split_once('=') {
                cargo_deps.push((k.trim().to_string(), v.trim().split_whitespace().collect::<Vec<_>>().join(" ")));
            }
        }
    }
    writeln!(
        o,
        "Definition lock_versions : list (string * string) := [\n  {}].\n",
        lock_versions.iter().map(|(k, v)| format!("({}, {})", cs(k), cs(v))).collect::<Vec<_>>().join(";\n  ")
    )
    .unwrap();
    writeln!(
        o,
        "Definition cargo_deps : list (string * string) := [\n  {}].\n",
        cargo_deps.iter().map(|(k, v)| format!("({}, {})", cs(k), cs(v))).collect::<Vec<_>>().join(";\n  ")
    )
    .unwrap();

    // ---- constants (integer-valued), dependency ordered; string constants as a table
    let mut groups: BTreeMap<String, Vec<usize>> = BTreeMap::new();
    let mut order: Vec<String> = vec![];
    for (i, c) in w.consts.iter().enumerate() {
        if !groups.contains_key(&c.0) {
            order.push(c.0.clone());
        }
        groups.entry(c.0.clone()).or_default().push(i);
    }
    let mut emitted: Vec<String> = vec![];
    let mut str_consts: Vec<(String, String)> = vec![];
    let mut int_const_names: Vec<String> = vec![];
    let mut arr_const_names: Vec<String> = vec![];
    let mut pending: Vec<String> = order.clone();
    let mut progress = true;
    while progress && !pending.is_empty() {
        progress = false;
        let mut next = vec![];
        for name in pending {
            let idxs = &groups[&name];
            // string?
            let first = &w.consts[idxs[0]];
            if let Expr::Lit(l) = &first.2 {
                if let Lit::Str(s) = &l.lit {
                    str_consts.push((name.clone(), s.value()));
                    progress = true;
                    continue;
                }
            }
            // array consts etc: try zexpr for each def
            let mut defs = vec![];
            let mut ok = true;
            let mut deps_ready = true;
            for &i in idxs {
                let c = &w.consts[i];
                match tr.zexpr(&c.2, &c.3, c.4.as_deref()) {
                    Some(z) => {
                        // check deps emitted
                        for (n, _) in groups.iter() {
                            let id = format!("({} f)", Tr::const_ident(n));
                            if z.contains(&id) && !emitted.contains(n) {
                                deps_ready = false;
                            }
                        }
                        defs.push(format!("({}, {})", c.1.coq(), z));
                    }
                    None => ok = false,
                }
            }
            if !ok {
                // non-integer constant (array, etc.): element list if array of consts
                let c = &w.consts[idxs[0]];
                if let Expr::Array(a) = &c.2 {
                    let els: Vec<Option<String>> = a.elems.iter().map(|e| tr.zexpr(e, &c.3, c.4.as_deref())).collect();
                    if els.iter().all(|e| e.is_some()) {
                        let zs: Vec<String> = els.into_iter().map(|e| e.unwrap()).collect();
                        let mut ready = true;
                        for (n, _) in groups.iter() {
                            let id = format!("({} f)", Tr::const_ident(n));
                            if zs.iter().any(|z| z.contains(&id)) && !emitted.contains(n) {
                                ready = false;
                            }
                        }
                        if !ready {
                            next.push(name);
                            continue;
                        }
                        writeln!(o, "Definition {} (f : feats) : list Z := [{}].", Tr::const_ident(&name).replacen("k_", "ka_", 1), zs.join("; ")).unwrap();
                        arr_const_names.push(name.clone());
                        emitted.push(name.clone());
                        progress = true;
                        continue;
                    }
                }
                w_unknown(&mut o, &format!("const {name}"));
                progress = true;
                continue;
            }
            if !deps_ready {
                next.push(name);
                continue;
            }
            writeln!(o, "Definition {} (f : feats) : Z := cfg_pick f [{}].", Tr::const_ident(&name), defs.join("; ")).unwrap();
            int_const_names.push(name.clone());
            emitted.push(name.clone());
            progress = true;
        }
        pending = next;
    }
    for p in &pending {
        w_unknown(&mut o, &format!("const {p} (unresolved dependency)"));
    }
    writeln!(
        o,
        "\nDefinition int_consts (f : feats) : list (string * Z) := [\n  {}].\n",
        int_const_names.iter().map(|n| format!("({}, {} f)", cs(n), Tr::const_ident(n))).collect::<Vec<_>>().join(";\n  ")
    )
    .unwrap();
    writeln!(
        o,
        "Definition arr_consts (f : feats) : list (string * list Z) := [\n  {}].\n",
        arr_const_names.iter().map(|n| format!("({}, {} f)", cs(n), Tr::const_ident(n).replacen("k_", "ka_", 1))).collect::<Vec<_>>().join(";\n  ")
    )
    .unwrap();
    writeln!(
        o,
        "Definition str_consts : list (string * string) := [\n  {}].\n",
        str_consts.iter().map(|(n, v)| format!("({}, {})", cs(n), cs(v))).collect::<Vec<_>>().join(";\n  ")
    )
    .unwrap();

    // ---- declarations
    let mut decls: Vec<String> = vec![];
    let mut n_struct = 0;
    let mut n_enum = 0;
    let mut n_table = 0;
    for li in &w.items {
        let cur = &li.module;
        match &li.item {
            Item::Struct(s) => {
                n_struct += 1;
                let name = mod_join(cur, &s.ident.to_string());
                let derives = derives_of(&s.attrs);
                let has = |d: &str| derives.iter().any(|(_, n)| n == d);
                let kv = serde_kv(&s.attrs);
                let kind = if has("SerializeIndexed") || has("DeserializeIndexed") {
                    let off = kv.iter().find(|(k, _)| k == "offset").and_then(|(_, v)| v.clone()).unwrap_or("0".into());
                    format!("(KIdx {off})")
                } else if has("Serialize") || has("Deserialize") {
                    let ra = kv.iter().find(|(k, _)| k == "rename_all").and_then(|(_, v)| v.clone());
                    match ra {
                        Some(r) => format!("(KTxt (Some {}))", cs(&r)),
                        None => "(KTxt None)".into(),
                    }
                } else {
                    "KPlain".into()
                };
                let ser = has("Serialize") || has("SerializeIndexed");
                let de = has("Deserialize") || has("DeserializeIndexed");
                let other: Vec<String> = kv
                    .iter()
                    .filter(|(k, _)| k != "offset" && k != "rename_all")
                    .map(|(k, v)| cs(&format!("{k}={}", v.clone().unwrap_or_default())))
                    .collect();
                let fields: Vec<String> = match &s.fields {
                    Fields::Named(n) => n.named.iter().enumerate().map(|(i, f)| tr.field(f, i, cur)).collect(),
                    Fields::Unnamed(u) => u.unnamed.iter().enumerate().map(|(i, f)| tr.field(f, i, cur)).collect(),
                    Fields::Unit => vec![],
                };
                let cond_derives: Vec<String> = derives
                    .iter()
                    .filter(|(_, n)| ["Arbitrary", "Default"].contains(&n.as_str()))
                    .map(|(c, n)| format!("({}, {})", c.coq(), cs(n)))
                    .collect();
                decls.push(format!(
                    "({}, RStruct {{| rs_name := {}; rs_kind := {}; rs_ser := {}; rs_de := {}; rs_nonexh := {}; rs_cattrs := [{}]; rs_derives := [{}]; rs_fields := [\n      {}] |}})",
                    li.cfg.coq(),
                    cs(&name),
                    kind,
                    ser,
                    de,
                    has_attr(&s.attrs, "non_exhaustive"),
                    other.join("; "),
                    cond_derives.join("; "),
                    fields.join(";\n      ")
                ));
            }
            Item::Enum(e) => {
                n_enum += 1;
                let name = mod_join(cur, &e.ident.to_string());
                let derives = derives_of(&e.attrs);
                let has = |d: &str| derives.iter().any(|(_, n)| n == d);
                let kv = serde_kv(&e.attrs);
                let get = |k: &str| kv.iter().find(|(kk, _)| kk == k).and_then(|(_, v)| v.clone());
                let repr = e
                    .attrs
                    .iter()
                    .find(|a| a.path().is_ident("repr"))
                    .and_then(|a| a.parse_args::<syn::Ident>().ok())
                    .map(|i| i.to_string());
                let all_unit = e.variants.iter().all(|v| matches!(v.fields, Fields::Unit));
                let any_disc = e.variants.iter().any(|v| v.discriminant.is_some());
                // serde attributes the translation does not interpret (container keys other than into / try_from / untagged, any
                // serde attribute on a variant or on a variant's field) become an extra pseudo-variant: the enumeration then no longer
                // equals its specification table, for exactly the properties that rest on it
                let mut stray: Vec<String> = kv
                    .iter()
                    .filter(|(k, _)| !["into", "try_from", "untagged"].contains(&k.as_str()))
                    .map(|(k, v)| format!("{k}={}", v.clone().unwrap_or_default()))
                    .collect();
                for v in &e.variants {
                    for (k, val) in serde_kv(&v.attrs) {
                        stray.push(format!("{}: {k}={}", v.ident, val.unwrap_or_default()));
                    }
                    for f in v.fields.iter() {
                        for (k, val) in serde_kv(&f.attrs) {
                            stray.push(format!("{} field: {k}={}", v.ident, val.unwrap_or_default()));
                        }
                    }
                }
                let stray_name = if stray.is_empty() { None } else { Some(format!("uninterpreted attribute: {}", stray.join(", "))) };
                if get("into").is_some() || get("try_from").is_some() {
                    let mut vs: Vec<String> = e.variants.iter().map(|v| cs(&v.ident.to_string())).collect();
                    if let Some(sn) = &stray_name {
                        vs.push(cs(sn));
                    }
                    decls.push(format!(
                        "({}, RStrEnum {} {} {} {} {} [{}])",
                        li.cfg.coq(),
                        cs(&name),
                        has("Serialize"),
                        has("Deserialize"),
                        cs(&get("into").unwrap_or_default()),
                        cs(&get("try_from").unwrap_or_default()),
                        vs.join("; ")
                    ));
                } else if all_unit && any_disc {
                    let mut vs = vec![];
                    let mut ok = true;
                    for v in &e.variants {
                        let d = v.discriminant.as_ref().and_then(|(_, e)| tr.zexpr(e, cur, Some(&e_ident(&e_name(&name)))));
                        match d {
                            Some(z) => vs.push(format!("({}, {})", cs(&v.ident.to_string()), z)),
                            None => ok = false,
                        }
                    }
                    if let Some(sn) = &stray_name {
                        vs.push(format!("({}, 0)", cs(sn)));
                    }
                    if !ok {
                        decls.push(format!("({}, RUnknown {})", li.cfg.coq(), cs(&format!("enum {name}: implicit discriminant"))));
                    } else {
                        decls.push(format!(
                            "({}, RReprEnum {} {} {} {} [\n      {}])",
                            li.cfg.coq(),
                            cs(&name),
                            cs(&repr.unwrap_or_default()),
                            has("Serialize_repr"),
                            has("Deserialize_repr"),
                            vs.join(";\n      ")
                        ));
                    }
                } else {
                    let untagged = kv.iter().any(|(k, _)| k == "untagged");
                    let mut vs: Vec<String> = e
                        .variants
                        .iter()
                        .map(|v| {
                            let tys: Vec<String> = v.fields.iter().map(|f| tr.ty(&f.ty, cur, 0)).collect();
                            format!("({}, {}, [{}])", cs(&v.ident.to_string()), cfg_of(&v.attrs).coq(), tys.join("; "))
                        })
                        .collect();
                    if let Some(sn) = &stray_name {
                        vs.push(format!("({}, CTrue, [TBool])", cs(sn)));
                    }
                    decls.push(format!(
                        "({}, REnum {} {} {} {} [\n      {}])",
                        li.cfg.coq(),
                        cs(&name),
                        untagged,
                        has("Serialize"),
                        has("Deserialize"),
                        vs.join(";\n      ")
                    ));
                }
            }
            Item::Macro(m) => {
                if m.mac.path.segments.last().map(|s| s.ident == "bitflags").unwrap_or(false) {
                    match parse_bitflags(&tr, m.mac.tokens.clone(), cur) {
                        Some((n, repr, bits)) => decls.push(format!(
                            "({}, RFlags {} {} [{}])",
                            li.cfg.coq(),
                            cs(&mod_join(cur, &n)),
                            cs(&repr),
                            bits.iter().map(|(k, v)| format!("({}, {})", cs(k), v)).collect::<Vec<_>>().join("; ")
                        )),
                        None => decls.push(format!("({}, RUnknown {})", li.cfg.coq(), cs(&format!("{cur}: bitflags!")))),
                    }
                } else if !m.mac.path.segments.last().map(|s| s.ident == "generate_macros").unwrap_or(false) {
                    // any other item-level macro (a macro_rules! definition or an invocation that may expand to items
                    // the translator cannot see) is unreadable by construction
                    decls.push(format!(
                        "({}, RUnknown {})",
                        li.cfg.coq(),
                        cs(&format!("{cur}: item macro {}!", m.mac.path.to_token_stream().to_string().replace(' ', "")))
                    ));
                }
            }
            Item::Impl(im) => {
                let self_short = type_short(&im.self_ty);
                let self_ident = match &*im.self_ty {
                    Type::Path(tp) => Some(tp.path.segments.last().unwrap().ident.to_string()),
                    _ => None,
                };
                match &im.trait_ {
                    Some((_, tpath, _)) => {
                        let tlast = tpath.segments.last().unwrap();
                        let tname = tlast.ident.to_string();
                        let targ = match &tlast.arguments {
                            syn::PathArguments::AngleBracketed(ab) => ab
                                .args
                                .iter()
                                .filter_map(|a| match a {
                                    syn::GenericArgument::Type(t) => Some(type_short(t)),
                                    _ => None,
                                })
                                .next(),
                            _ => None,
                        };
                        if tname == "Serialize" || tname == "Deserialize" {
                            decls.push(format!(
                                "({}, RCustom {} {})",
                                li.cfg.coq(),
                                cs(&mod_join(cur, &self_short)),
                                cs(&tname)
                            ));
                        } else if tname == "From" || tname == "TryFrom" {
                            let tn = format!("{}::{}<{}> for {}", cur, tname, targ.unwrap_or_default(), self_short);
                            for ii in &im.items {
                                if let syn::ImplItem::Fn(f) = ii {
                                    if let Some(m) = first_match(&f.block) {
                                        n_table += 1;
                                        tr.match_table(&mut decls, &tn, &m, cur, self_ident.as_deref(), &li.cfg);
                                    }
                                }
                            }
                        }
                    }
                    None => {
                        for ii in &im.items {
                            if let syn::ImplItem::Fn(f) = ii {
                                let fname = f.sig.ident.to_string();
                                if fname == "deserialize" || fname == "serialize" {
                                    let tn = format!("{}::{}::{}", cur, self_short, fname);
                                    let ms = all_matches(&f.block);
                                    // the table is the match with the most arms
                                    if let Some(m) = ms.iter().max_by_key(|m| m.arms.len()) {
                                        n_table += 1;
                                        tr.match_table(&mut decls, &tn, m, cur, self_ident.as_deref(), &li.cfg);
                                    }
                                }
                            }
                        }
                    }
                }
            }
            Item::Trait(t) => {
                for ti in &t.items {
                    if let syn::TraitItem::Fn(f) = ti {
                        if let Some(b) = &f.default {
                            let fname = f.sig.ident.to_string();
                            if fname.starts_with("call_") {
                                if let Some(m) = first_match(b) {
                                    n_table += 1;
                                    let tn = format!("{}::{}::{}", cur, t.ident, fname);
                                    tr.match_table(&mut decls, &tn, &m, cur, None, &li.cfg);
                                }
                            }
                        }
                    }
                }
            }
            _ => {}
        }
    }
    for u in &w.unknown {
        decls.push(format!("(CTrue, RUnknown {})", cs(u)));
    }
    writeln!(o, "Definition raw_decls (f : feats) : list (cfg * rdecl) := [\n  {}\n].", decls.join(";\n  ")).unwrap();

    // ---- shapes of all function bodies (separate file, imported only by the shape obligations)
    let mut shapes: Vec<(String, Vec<String>)> = vec![];
    {
        // one pseudo-entry per module: its `use` declarations (sorted)
        let mut per: BTreeMap<String, Vec<String>> = BTreeMap::new();
        for (m, u) in &w.uses {
            per.entry(m.clone()).or_default().push(u.clone());
        }
        for (m, mut us) in per {
            us.sort();
            shapes.push((format!("{}::<uses>", if m.is_empty() { "crate" } else { m.as_str() }), us));
        }
        // ... and its item inventory (in source order)
        let mut inv: BTreeMap<String, Vec<String>> = BTreeMap::new();
        for (m, i) in &w.inventory {
            inv.entry(m.clone()).or_default().push(i.clone());
        }
        for (m, is) in inv {
            shapes.push((format!("{}::<items>", if m.is_empty() { "crate" } else { m.as_str() }), is));
        }
    }
    for li in &w.fns {
        if let Item::Fn(f) = &li.item {
            shapes.push((mod_join(&li.module, &f.sig.ident.to_string()), shape_of(&f.sig, &f.block)));
        }
    }
    for li in &w.items {
        match &li.item {
            Item::Impl(im) => {
                let self_short = match &*im.self_ty {
                    Type::Path(tp) => tp.path.segments.iter().map(|s| s.ident.to_string()).collect::<Vec<_>>().join("::"),
                    Type::Reference(r) => format!("&{}", r.elem.to_token_stream().to_string().replace(' ', "")),
                    t => t.to_token_stream().to_string().replace(' ', ""),
                };
                let prefix = match &im.trait_ {
                    Some((_, p, _)) => {
                        let seg = p.segments.last().unwrap();
                        let targ = match &seg.arguments {
                            syn::PathArguments::AngleBracketed(a) => a.args.to_token_stream().to_string().replace(' ', ""),
                            _ => String::new(),
                        };
                        if targ.is_empty() { format!("{} for {}", seg.ident, self_short) } else { format!("{}<{}> for {}", seg.ident, targ, self_short) }
                    }
                    None => self_short.clone(),
                };
                for ii in &im.items {
                    if let syn::ImplItem::Fn(f) = ii {
                        if cfg_of(&f.attrs).is_test() {
                            continue;
                        }
                        shapes.push((format!("{}::{}", mod_join(&li.module, &prefix), f.sig.ident), shape_of(&f.sig, &f.block)));
                    }
                }
            }
            Item::Trait(t) => {
                for ti in &t.items {
                    if let syn::TraitItem::Fn(f) = ti {
                        if let Some(b) = &f.default {
                            shapes.push((format!("{}::{}", mod_join(&li.module, &format!("trait {}", t.ident)), f.sig.ident), shape_of(&f.sig, b)));
                        }
                    }
                }
            }
            _ => {}
        }
    }
    let mut so = String::new();
    writeln!(so, "(* GENERATED by /verif/translator from /repo/src on every run. Do not edit.").unwrap();
    writeln!(so, "   Shape of every function body: literals, operators, calls, macros, control flow, casts, constant and").unwrap();
    writeln!(so, "   variant paths in source order (no local names, no formatting). *)").unwrap();
    writeln!(so, "From Coq Require Import List String.\nImport ListNotations.\nLocal Open Scope string_scope.\n").unwrap();
    writeln!(
        so,
        "Definition fn_shapes : list (string * list string) := [\n  {}\n].",
        shapes
            .iter()
            .map(|(n, t)| format!("({}, [{}])", cs(n), t.iter().map(|x| cs(x)).collect::<Vec<_>>().join("; ")))
            .collect::<Vec<_>>()
            .join(";\n  ")
    )
    .unwrap();
    let shp = PathBuf::from(&args[2]).with_file_name("Shapes.v");
    let old_s = std::fs::read_to_string(&shp).unwrap_or_default();
    if old_s != so {
        std::fs::write(&shp, &so).expect("write Shapes.v");
    }

    let outp = PathBuf::from(&args[2]);
    let old = std::fs::read_to_string(&outp).unwrap_or_default();
    if old != o {
        std::fs::write(&outp, &o).expect("write Generated.v");
    }
    let n_unknown = o.matches("RUnknown").count() + o.matches("TUnknown").count();
    let report = format!(
        "{{\"files\": {:?}, \"structs\": {}, \"enums\": {}, \"tables\": {}, \"consts\": {}, \"unknown\": {}, \"unknown_items\": {:?}, \"changed\": {}}}",
        w.files,
        n_struct,
        n_enum,
        n_table,
        w.consts.len(),
        n_unknown,
        w.unknown,
        old != o
    );
    if args.len() > 3 {
        std::fs::write(&args[3], &report).ok();
    }
    println!("{report}");
}

fn e_name(full: &str) -> String {
    full.to_string()
}
fn e_ident(full: &str) -> String {
    full.rsplit("::").next().unwrap_or(full).to_string()
}

/// a constant that is neither an integer, an integer array nor a string: left out of the constant tables.  It is not counted as
/// unreadable by itself (a new `char` or slice constant is harmless); a declaration, capacity or table that needs it
/// becomes unreadable (TUnknown / RUnknown) and a function that uses it changes its shape.
fn w_unknown(o: &mut String, what: &str) {
    writeln!(o, "(* not an integer, array or string constant, left out: {} *)", what).unwrap();
}

fn parse_bitflags(tr: &Tr, ts: proc_macro2::TokenStream, cur: &str) -> Option<(String, String, Vec<(String, String)>)> {
    // [attrs] pub struct Name : repr { const A = expr ; ... }
    let toks: Vec<proc_macro2::TokenTree> = ts.into_iter().collect();
    let mut i = 0;
    let mut name = None;
    let mut repr = String::new();
    let mut body = None;
    while i < toks.len() {
        if let proc_macro2::TokenTree::Ident(id) = &toks[i] {
            if id == "struct" {
                if let Some(proc_macro2::TokenTree::Ident(n)) = toks.get(i + 1) {
                    name = Some(n.to_string());
                }
                if let Some(proc_macro2::TokenTree::Ident(r)) = toks.get(i + 3) {
                    repr = r.to_string();
                }
            }
        }
        if let proc_macro2::TokenTree::Group(g) = &toks[i] {
            if g.delimiter() == proc_macro2::Delimiter::Brace {
                body = Some(g.stream());
            }
        }
        i += 1;
    }
    let name = name?;
    let body = body?;
    let mut bits = vec![];
    let toks: Vec<proc_macro2::TokenTree> = body.into_iter().collect();
    let mut i = 0;
    while i < toks.len() {
        if let proc_macro2::TokenTree::Ident(id) = &toks[i] {
            if id == "const" {
                let n = toks.get(i + 1)?.to_string();
                // tokens after '=' until ';'
                let mut j = i + 3;
                let mut expr = proc_macro2::TokenStream::new();
                while j < toks.len() {
                    if let proc_macro2::TokenTree::Punct(p) = &toks[j] {
                        if p.as_char() == ';' {
                            break;
                        }
                    }
                    expr.extend(std::iter::once(toks[j].clone()));
                    j += 1;
                }
                let e: Expr = syn::parse2(expr).ok()?;
                let z = tr.zexpr(&e, cur, None)?;
                bits.push((n, z));
                i = j;
            }
        }
        i += 1;
    }
    Some((name, repr, bits))
}
