(* Driver around the extracted model (model.ml).  Reads one case per line from stdin:
     id <TAB> op <TAB> arg ...
   and prints  id <TAB> answer.  Feature set: argv[1], comma separated. *)
open Model

let cl (s : string) : char list = List.init (String.length s) (String.get s)
let str (l : char list) : string = String.of_seq (List.to_seq l)

(* ---- numbers: Coq positive / Z  <->  OCaml *)
let rec pos_of_int n =
  if n <= 1 then XH else if n land 1 = 0 then XO (pos_of_int (n lsr 1)) else XI (pos_of_int (n lsr 1))
let z_of_int n = if n = 0 then Z0 else if n > 0 then Zpos (pos_of_int n) else Zneg (pos_of_int (-n))
let rec int_of_pos = function XH -> 1 | XO p -> 2 * int_of_pos p | XI p -> (2 * int_of_pos p) + 1
let int_of_z = function Z0 -> 0 | Zpos p -> int_of_pos p | Zneg p -> -int_of_pos p

let zbyte = Array.init 256 z_of_int

let rec bits_of_pos = function XH -> [ true ] | XO p -> false :: bits_of_pos p | XI p -> true :: bits_of_pos p

let hex_of_pos p =
  let bits = bits_of_pos p in
  (* lsb first; group by 4 *)
  let rec go bits acc =
    match bits with
    | [] -> acc
    | _ ->
        let take4 l =
          let rec t n l v w = if n = 0 then (v, l) else match l with [] -> (v, []) | b :: r -> t (n - 1) r (if b then v lor w else v) (w lsl 1) in
          t 4 l 0 1
        in
        let v, rest = take4 bits in
        go rest ("0123456789abcdef".[v] :: acc)
  in
  str (go bits [])

let hex_of_z = function Z0 -> "0" | Zpos p -> hex_of_pos p | Zneg p -> "-" ^ hex_of_pos p

let hexval c =
  match c with
  | '0' .. '9' -> Char.code c - 48
  | 'a' .. 'f' -> Char.code c - 87
  | 'A' .. 'F' -> Char.code c - 55
  | _ -> failwith "bad hex digit"

let z_of_hex (s : string) : z =
  let neg = String.length s > 0 && s.[0] = '-' in
  let s = if neg then String.sub s 1 (String.length s - 1) else s in
  let acc = ref None in
  String.iter
    (fun c ->
      let v = hexval c in
      for k = 3 downto 0 do
        let bit = (v lsr k) land 1 = 1 in
        acc := (match !acc with None -> if bit then Some XH else None | Some p -> Some (if bit then XI p else XO p))
      done)
    s;
  match !acc with None -> Z0 | Some p -> if neg then Zneg p else Zpos p

let bytes_of_hex (s : string) : z list =
  let n = String.length s / 2 in
  List.init n (fun i -> zbyte.((hexval s.[2 * i] * 16) + hexval s.[(2 * i) + 1]))

let hex_of_bytes (l : z list) : string =
  let b = Buffer.create (2 * List.length l) in
  List.iter (fun z -> Buffer.add_string b (Printf.sprintf "%02x" (int_of_z z land 255))) l;
  Buffer.contents b

(* ---- values *)
let rec show_val (v : val0) : string =
  match v with
  | VZ z -> "i" ^ hex_of_z z
  | VBytes b -> "b" ^ hex_of_bytes b
  | VStr b -> "s" ^ hex_of_bytes b
  | VBool true -> "T"
  | VBool false -> "F"
  | VUnit -> "U"
  | VNone -> "N"
  | VSome w -> "S(" ^ show_val w ^ ")"
  | VList l -> "[" ^ String.concat "," (List.map show_val l) ^ "]"
  | VRec fs ->
      let fs = List.map (fun (k, w) -> (str k, w)) fs in
      let fs = List.sort (fun (a, _) (b, _) -> compare a b) fs in
      "{" ^ String.concat ";" (List.map (fun (k, w) -> k ^ "=" ^ show_val w) fs) ^ "}"
  | VEnum n -> "e:" ^ str n
  | VVar (n, w) -> "v:" ^ str n ^ "(" ^ show_val w ^ ")"

let parse_val (s : string) : val0 =
  let n = String.length s in
  let pos = ref 0 in
  let peek () = if !pos < n then s.[!pos] else '\000' in
  let adv () = incr pos in
  let is_hex c = match c with '0' .. '9' | 'a' .. 'f' -> true | _ -> false in
  let is_name c = match c with 'a' .. 'z' | 'A' .. 'Z' | '0' .. '9' | '_' -> true | _ -> false in
  let take p =
    let st = !pos in
    while !pos < n && p s.[!pos] do adv () done;
    String.sub s st (!pos - st)
  in
  let expect c = if peek () = c then adv () else failwith (Printf.sprintf "parse_val: expected %c at %d in %s" c !pos s) in
  let rec v () =
    match peek () with
    | 'i' ->
        adv ();
        let neg = peek () = '-' in
        if neg then adv ();
        let h = take is_hex in
        VZ (z_of_hex ((if neg then "-" else "") ^ h))
    | 'b' -> adv (); VBytes (bytes_of_hex (take is_hex))
    | 's' -> adv (); VStr (bytes_of_hex (take is_hex))
    | 'T' -> adv (); VBool true
    | 'F' -> adv (); VBool false
    | 'U' -> adv (); VUnit
    | 'N' -> adv (); VNone
    | 'S' -> adv (); expect '('; let w = v () in expect ')'; VSome w
    | '[' ->
        adv ();
        if peek () = ']' then (adv (); VList [])
        else
          let rec items acc =
            let w = v () in
            if peek () = ',' then (adv (); items (w :: acc)) else (expect ']'; List.rev (w :: acc))
          in
          VList (items [])
    | '{' ->
        adv ();
        if peek () = '}' then (adv (); VRec [])
        else
          let rec items acc =
            let k = take is_name in
            expect '=';
            let w = v () in
            if peek () = ';' then (adv (); items ((cl k, w) :: acc)) else (expect '}'; List.rev ((cl k, w) :: acc))
          in
          VRec (items [])
    | 'e' -> adv (); expect ':'; VEnum (cl (take is_name))
    | 'v' -> adv (); expect ':'; let k = take is_name in expect '('; let w = v () in expect ')'; VVar (cl k, w)
    | c -> failwith (Printf.sprintf "parse_val: unexpected %c at %d in %s" c !pos s)
  in
  v ()

let cerr_name = function
  | WontImplement -> "WontImplement" | NotYetImplemented -> "NotYetImplemented"
  | SerializeBufferFull -> "SerializeBufferFull" | UnexpectedEnd -> "DeserializeUnexpectedEnd"
  | BadBool -> "DeserializeBadBool" | BadUtf8 -> "DeserializeBadUtf8" | BadEnum -> "DeserializeBadEnum"
  | BadMajor -> "DeserializeBadMajor" | BadI8 -> "DeserializeBadI8" | BadI16 -> "DeserializeBadI16"
  | BadI32 -> "DeserializeBadI32" | BadI64 -> "DeserializeBadI64" | BadU8 -> "DeserializeBadU8"
  | BadU16 -> "DeserializeBadU16" | BadU32 -> "DeserializeBadU32" | BadU64 -> "DeserializeBadU64"
  | ExpectedNull -> "DeserializeExpectedNull" | InexistentSliceToArrayError -> "InexistentSliceToArrayError"
  | NonMinimal -> "DeserializeNonMinimal" | SerdeSerCustom -> "SerdeSerCustom"
  | SerdeDeCustom -> "SerdeDeCustom" | SerdeMissingField -> "SerdeMissingField"

let show_request = function
  | ReqUnit v -> "e:" ^ str v
  | ReqVendor c -> "v:Vendor(i" ^ hex_of_z c ^ ")"
  | ReqBody (v, x) -> "v:" ^ str v ^ "(" ^ show_val x ^ ")"

let opt_hex s = if s = "-" then [] else bytes_of_hex s
let rec lookup_z (k : char list) (l : (char list * z) list) : z option =
  match l with [] -> None | (k', v) :: r -> if k = k' then Some v else lookup_z k r

(* ---- dump of the specification environment, read by the Python case generators *)
let rec show_ty (t : ty) : string =
  match t with
  | TU8 -> "u8" | TU16 -> "u16" | TU32 -> "u32" | TU64 -> "u64" | TUsize -> "usize" | TI8 -> "i8"
  | TI32 -> "i32" | TBool -> "bool" | TUnit -> "unit" | TBytesRef -> "bytesref"
  | TBytesCap n -> "bytescap:" ^ hex_of_z n | TByteArrRef n -> "bytearrref:" ^ hex_of_z n
  | TByteArr n -> "bytearr:" ^ hex_of_z n | TArrRef n -> "arrref:" ^ hex_of_z n | TArr n -> "arr:" ^ hex_of_z n
  | TSliceRef -> "sliceref" | TStrRef -> "strref" | TStrCap n -> "strcap:" ^ hex_of_z n
  | TVec (u, n) -> "vec(" ^ show_ty u ^ "," ^ hex_of_z n ^ ")"
  | TOpt u -> "opt(" ^ show_ty u ^ ")" | TRef u -> "ref(" ^ show_ty u ^ ")"
  | TNamed s -> "named:" ^ str s | TExt s -> "ext:" ^ str s | TUnknown s -> "unknown"

let dump_env (e : env) : unit =
  let b x = if x then "1" else "0" in
  List.iter
    (fun (name, d) ->
      match d with
      | DStruct (idx, ser, de, fs) ->
          Printf.printf "struct\t%s\t%s\t%s\t%s\n" (str name) (if idx then "idx" else "txt") (b ser) (b de);
          List.iter
            (fun fd ->
              Printf.printf "field\t%s\t%s\t%s\t%s\t%s\t%s\t%s\t%s\t%s\n" (str fd.f_label)
                (match fd.f_key with KInt z -> "i" ^ hex_of_z z | KText s -> "t" ^ str s)
                (show_ty fd.f_ty) (b fd.f_opt) (b fd.f_skip_none) (b fd.f_skip_ser) (b fd.f_default)
                (match fd.f_with with Some w -> str w | None -> "-")
                (String.concat "," (List.map str fd.f_aliases)))
            fs
      | DStrEnum (ser, de, into, tf) ->
          Printf.printf "strenum\t%s\t%s\t%s\t%s\n" (str name) (b ser) (b de)
            (String.concat "," (List.map (fun (v, s) -> str v ^ "=" ^ str s) into))
      | DRepr (repr, ser, de, vs) ->
          Printf.printf "repr\t%s\t%s\t%s\t%s\t%s\n" (str name) (str repr) (b ser) (b de)
            (String.concat "," (List.map (fun (v, z) -> str v ^ "=" ^ hex_of_z z) vs))
      | DUntagged (ser, vs) ->
          Printf.printf "untagged\t%s\t%s\n" (str name) (String.concat "," (List.map (fun (v, t) -> str v ^ "=" ^ show_ty t) vs))
      | DCustom (k, ser, de, ps) ->
          Printf.printf "custom\t%s\t%s\t%s\t%s\n" (str name) (b ser) (b de) (String.concat "," (List.map hex_of_z ps))
      | DOpaque -> ())
    e

let () =
  let feats = if Array.length Sys.argv > 1 && Sys.argv.(1) <> "" then List.map cl (String.split_on_char ',' Sys.argv.(1)) else [] in
  let env = spec_env feats in
  let tb = spec_tables in
  if Array.length Sys.argv > 2 && Sys.argv.(2) = "dumpenv" then (dump_env env; exit 0);
  let out = Buffer.create (1 lsl 20) in
  (try
     while true do
       let line = input_line stdin in
       match String.split_on_char '\t' line with
       | id :: op :: args ->
           let ans =
             try
               match (op, args) with
               | "dec2", [ h ] -> (
                   match request_deserialize tb env (bytes_of_hex h) with
                   | ROk r -> "ok " ^ show_request r
                   | RErr s -> Printf.sprintf "err %02x" (int_of_z s)
                   | RPanic s -> "panic " ^ str s
                   | RFuel -> "fuel")
               | "decty", [ t; h ] -> (
                   match decode env (TNamed (cl t)) (bytes_of_hex h) with
                   | Ok (v, r) -> Printf.sprintf "ok %s rest=%d" (show_val v) (List.length r)
                   | Err e -> "err " ^ cerr_name e
                   | Panic s -> "panic " ^ str s
                   | Fuel -> "fuel")
               | "encty", [ t; v ] -> (
                   match encode env (TNamed (cl t)) (parse_val v) with
                   | Some b -> "ok " ^ hex_of_bytes b
                   | None -> "illtyped")
               | "rtv", [ t; v ] -> (
                   let v0 = parse_val v in
                   let vc = canon_val env type_fuel (TNamed (cl t)) v0 in
                   let inside = wt env type_fuel (TNamed (cl t)) vc
                                && encode env (TNamed (cl t)) vc = encode env (TNamed (cl t)) v0 in
                   match encode env (TNamed (cl t)) v0 with
                   | None -> "illtyped"
                   | Some b -> (
                       match decode env (TNamed (cl t)) b with
                       | Ok (v, r) -> Printf.sprintf "ok %s rest=%d wt=%d" (show_val v) (List.length r) (if inside then 1 else 0)
                       | Err e -> "err " ^ cerr_name e
                       | Panic s -> "panic " ^ str s
                       | Fuel -> "fuel"))
               | "reser", [ t; h ] -> (
                   match decode env (TNamed (cl t)) (bytes_of_hex h) with
                   | Ok (v, _) -> (
                       match encode env (TNamed (cl t)) v with
                       | Some b -> "ok " ^ hex_of_bytes b
                       | None -> "illtyped")
                   | Err e -> "err " ^ cerr_name e
                   | Panic s -> "panic " ^ str s
                   | Fuel -> "fuel")
               | "enc2", [ variant; cap; prior; v ] -> (
                   let payload = if v = "-" then VUnit else parse_val v in
                   match response_serialize tb env (cl variant) payload (z_of_int (int_of_string cap)) (opt_hex prior) with
                   | Ok b -> "buf " ^ hex_of_bytes b
                   | Err e -> "err " ^ cerr_name e
                   | Panic s -> "panic " ^ str s
                   | Fuel -> "fuel")
               | "authdata", [ flavour; rp; flags; count; acd; ext ] -> (
                   let acd =
                     (* get_assertion: Some(NoAttestedCredentialData) serialises to nothing *)
                     if acd = "-" || flavour <> "mc" then None
                     else
                       match String.split_on_char ':' acd with
                       | [ a; i; k ] -> Some { ac_aaguid = bytes_of_hex a; ac_id = bytes_of_hex i; ac_key = bytes_of_hex k }
                       | _ -> failwith "acd"
                   in
                   let ety = if flavour = "mc" then "ctap2::make_credential::Extensions" else "ctap2::get_assertion::ExtensionsOutput" in
                   let ext = if ext = "-" then None else Some (TNamed (cl ety), parse_val ext) in
                   match authdata_serialize tb env (bytes_of_hex rp) (z_of_hex flags) (z_of_hex count) acd ext with
                   | Ok b -> "ok " ^ hex_of_bytes b
                   | Err _ -> "err Other"
                   | Panic s -> "panic " ^ str s
                   | Fuel -> "fuel")
               | "apdu", [ h ] -> (
                   match apdu_parse (bytes_of_hex h) with
                   | Inl e ->
                       "apduerr "
                       ^ (match e with
                         | TooShort -> "TooShort" | InvalidClass -> "InvalidClass"
                         | InvalidFirstBodyByteForExtended -> "InvalidFirstBodyByteForExtended"
                         | InvalidSliceLength -> "InvalidSliceLength")
                   | Inr a -> (
                       match u2f_request_of tb a with
                       | U2fOk (U2fRegister (c, ap)) -> Printf.sprintf "ok register %s %s" (hex_of_bytes c) (hex_of_bytes ap)
                       | U2fOk (U2fAuthenticate (cb, c, ap, kh)) ->
                           Printf.sprintf "ok authenticate %s %s %s %s" (str cb) (hex_of_bytes c) (hex_of_bytes ap) (hex_of_bytes kh)
                       | U2fOk U2fVersion -> "ok version"
                       | U2fErr s -> "err " ^ str s
                       | U2fPanic s -> "panic " ^ str s))
               | "u2fser", [ cap; prior; kind; a; b; c; d; e ] ->
                   let r =
                     match kind with
                     | "register" -> U2fRegisterResp (z_of_hex a, opt_hex b, opt_hex c, opt_hex d, opt_hex e)
                     | "authenticate" -> U2fAuthResp (z_of_hex a, z_of_hex b, opt_hex c)
                     | _ -> U2fVersionResp (opt_hex a)
                   in
                   let ok, buf = u2f_serialize r (z_of_int (int_of_string cap)) (opt_hex prior) in
                   Printf.sprintf "%s %s" (if ok then "ok" else "err") (hex_of_bytes buf)
               | "u2fnew", [ x; y ] -> (
                   match u2f_pubkey (opt_hex x) (opt_hex y) with
                   | Ok b -> "ok " ^ hex_of_bytes b
                   | Panic s -> "panic"
                   | _ -> "err")
               | "ident", [ kind; arg ] -> (
                   let named l = match lookup_z (cl arg) l with Some z -> "ok " ^ hex_of_z z | None -> "unknown-name" in
                   match kind with
                   | "credprotect" -> (
                       match match_u8 tb.t_credprotect_try (z_of_hex arg) with
                       | Some (MB_Var v) -> "ok " ^ str v
                       | Some (MB_Err e) -> "err " ^ str e
                       | _ -> "broken")
                   | "control" -> (
                       match match_u8 tb.t_control_try (z_of_hex arg) with
                       | Some (MB_Var v) -> (
                           match lookup_z v tb.t_control_codes with
                           | Some z -> "ok " ^ str v ^ " " ^ hex_of_z z
                           | None -> "broken")
                       | Some (MB_Err e) -> "err " ^ str e
                       | _ -> "broken")
                   | "status" -> named tb.t_err_codes
                   | "perm" -> named tb.t_permissions
                   | "flag" -> named tb.t_flags
                   | _ -> "unknown-op")
               | "dispatch2", [ entry; beh; lbo; h ] -> (
                   let direct =
                     if String.length h = 4 && String.sub h 0 2 = "ff" then
                       match vendor_of_u8 tb (z_of_hex (String.sub h 2 2)) with Some c -> Some (ROk (ReqVendor c)) | None -> None
                     else Some (request_deserialize tb env (bytes_of_hex h))
                   in
                   match (match direct with Some r -> r | None -> RPanic (cl "not-a-vendor-code")) with
                   | ROk r -> (
                       let variant, payload =
                         match r with ReqUnit v -> (v, VUnit) | ReqVendor c -> (cl "Vendor", VZ c) | ReqBody (v, x) -> (v, x)
                       in
                       let err = if String.length beh > 4 && String.sub beh 0 4 = "err:" then Some (z_of_hex (String.sub beh 4 (String.length beh - 4))) else None in
                       let handler m _p st =
                         let ms = str m in
                         if ms = "large_blobs" && lbo <> "1" then (st, HErr (z_of_int 1))
                         else
                           let st' = st @ [ ms ] in
                           match err with Some c when ms <> "get_info" -> (st', HErr c) | _ -> (st', HOk VUnit)
                       in
                       match dispatch handler tb.t_call2 variant payload [] with
                       | Some (log, HOk (VVar (ctor, _))) -> Printf.sprintf "log=%s result=ok:%s same=true" (String.concat "," log) (str ctor)
                       | Some (log, HErr c) -> Printf.sprintf "log=%s result=err:%s same=true" (String.concat "," log) (hex_of_z c)
                       | _ -> "broken")
                   | RErr s -> Printf.sprintf "undecodable %02x" (int_of_z s)
                   | RPanic s -> if str s = "not-a-vendor-code" then "not-a-vendor-code" else "panic " ^ str s
                   | RFuel -> "fuel")
               | "dispatch1", [ entry; beh; h ] -> (
                   match apdu_parse (bytes_of_hex h) with
                   | Inl _ -> "apduerr"
                   | Inr a -> (
                       match u2f_request_of tb a with
                       | U2fOk r -> (
                           let variant = match r with U2fRegister _ -> "Register" | U2fAuthenticate _ -> "Authenticate" | U2fVersion -> "Version" in
                           let err =
                             if String.length beh > 5 && String.sub beh 0 5 = "errd:" then
                               (* a status constructed directly: the handler's error is returned unchanged *)
                               Some (String.sub beh 5 (String.length beh - 5))
                             else if String.length beh > 4 && String.sub beh 0 4 = "err:" then
                               Some (match String.sub beh 4 (String.length beh - 4) with
                                     | "6985" -> "ConditionsOfUseNotSatisfied" | "6a80" -> "IncorrectDataParameter" | _ -> "UnspecifiedCheckingError")
                             else None
                           in
                           if variant = "Version" then (
                             match match_var tb.t_call1 (cl "Version") with
                             | Some (MB_Other _) -> "log= result=ok:Version:5532465f5632 same=true"
                             | _ -> "broken")
                           else
                             let handler m _p st = (st @ [ str m ], match err with Some _ -> HErr (z_of_int 1) | None -> HOk VUnit) in
                             match dispatch handler tb.t_call1 (cl variant) VUnit [] with
                             | Some (log, HOk (VVar (ctor, _))) -> Printf.sprintf "log=%s result=ok:%s same=true" (String.concat "," log) (str ctor)
                             | Some (log, HErr _) -> Printf.sprintf "log=%s result=err:%s same=true" (String.concat "," log) (match err with Some e -> e | None -> "?")
                             | _ -> "broken")
                       | U2fErr e -> "unconvertible " ^ str e
                       | U2fPanic s -> "panic " ^ str s))
               | "arb", [ t; h ] -> (
                   let u = bytes_of_hex h in
                   let r =
                     match t with
                     | "rp" -> arb_rp u
                     | "user" -> arb_user u
                     | "hmac" -> arb_hmac u
                     | "filtered" -> arb_filtered [ z_of_int (-7); z_of_int (-8) ] u
                     | "subparams" -> arb_subparams u
                     | "descref" -> arb_descref u
                     | _ -> failwith "arb type"
                   in
                   match r with
                   | AOk (v, rest) -> Printf.sprintf "ok %s rest=%d" (show_val v) (List.length rest)
                   | ANotEnough -> "err NotEnoughData"
                   | APanic s -> "panic " ^ str s)
               | "arbty", [ t; h ] -> (
                   let u = bytes_of_hex h in
                   let r =
                     match t with
                     | "ctap1::register::Request" -> arb_ctap1_register u
                     | "ctap1::authenticate::Request" ->
                         arb_ctap1_authenticate [ cl "CheckOnly"; cl "EnforceUserPresenceAndSign"; cl "DontEnforceUserPresenceAndSign" ] u
                     | _ -> arb_named env (cl t) u
                   in
                   match r with
                   | AOk (v, rest) -> Printf.sprintf "ok %s rest=%d valid=%d" (show_val v) (List.length rest)
                       (match t with
                        | "ctap1::register::Request" | "ctap1::authenticate::Request" -> 1
                        | _ -> if within env type_fuel (TNamed (cl t)) v then 1 else 0)
                   | ANotEnough -> "err NotEnoughData"
                   | APanic s -> "panic " ^ str s)
               | "arbtop", [ k; h ] -> (
                   let u = bytes_of_hex h in
                   let vars n = match List.assoc_opt (cl n) spec_request_enums with Some v -> v | None -> [] in
                   let show (path, v) =
                     (* printed like the harness prints a decoded request: unit variants as e:Name, Vendor as an integer *)
                     let p = str path in
                     let last = match List.rev (String.split_on_char ':' p) with x :: _ -> x | [] -> p in
                     let pre = if String.length p > String.length last then String.sub p 0 (String.length p - String.length last) else "" in
                     pre ^ (match v with VUnit -> "e:" ^ last | _ -> "v:" ^ last ^ "(" ^ show_val v ^ ")")
                   in
                   let r =
                     match k with
                     | "ctap2" -> arb_ctap2_request env (vars "ctap2::Request") u
                     | "ctap1" -> arb_ctap1_request (vars "ctap1::Request") u
                     | _ -> arb_authenticator_request env (vars "authenticator::Request") (vars "ctap1::Request") (vars "ctap2::Request") u
                   in
                   match r with
                   | AOk (pv, rest) -> Printf.sprintf "ok %s rest=%d" (show pv) (List.length rest)
                   | ANotEnough -> "err NotEnoughData"
                   | APanic s -> "panic " ^ str s)
               | "optab", [ b ] ->
                   let z = z_of_hex b in
                   let o = op_of_u8 tb z in
                   let name = match o with None -> "none" | Some (OpNamed n) -> str n | Some (OpVendor c) -> "Vendor:" ^ hex_of_z c in
                   let back = match o with None -> "-" | Some o -> (match u8_of_op tb o with Some z -> hex_of_z z | None -> "?") in
                   let vend = match vendor_of_u8 tb z with Some c -> hex_of_z c | None -> "-" in
                   Printf.sprintf "op %s back %s vendor %s" name back vend
               | _ -> "unknown-op"
             with Failure m -> "driver-error " ^ m
           in
           Buffer.add_string out id;
           Buffer.add_char out '\t';
           Buffer.add_string out ans;
           Buffer.add_char out '\n';
           if Buffer.length out > 1 lsl 20 then (print_string (Buffer.contents out); Buffer.clear out)
       | _ -> ()
     done
   with End_of_file -> ());
  print_string (Buffer.contents out)
