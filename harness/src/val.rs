//! The value language shared with the OCaml driver (driver/main.ml): printer and parser.
#[derive(Clone, Debug, PartialEq)]
pub enum Val {
    Z(i128),
    Bytes(Vec<u8>),
    Str(Vec<u8>),
    Bool(bool),
    Unit,
    None,
    Some(Box<Val>),
    List(Vec<Val>),
    Rec(Vec<(String, Val)>),
    Enum(String),
    Var(String, Box<Val>),
}

pub fn hex(b: &[u8]) -> String {
    let mut s = String::with_capacity(b.len() * 2);
    for x in b {
        s.push_str(&format!("{:02x}", x));
    }
    s
}

pub fn unhex(s: &str) -> Vec<u8> {
    let b = s.as_bytes();
    let v = |c: u8| -> u8 {
        match c {
            b'0'..=b'9' => c - b'0',
            b'a'..=b'f' => c - b'a' + 10,
            b'A'..=b'F' => c - b'A' + 10,
            _ => panic!("bad hex"),
        }
    };
    (0..b.len() / 2).map(|i| v(b[2 * i]) * 16 + v(b[2 * i + 1])).collect()
}

impl Val {
    pub fn show(&self) -> String {
        match self {
            Val::Z(z) => {
                if *z < 0 {
                    format!("i-{:x}", -*z)
                } else {
                    format!("i{:x}", *z)
                }
            }
            Val::Bytes(b) => format!("b{}", hex(b)),
            Val::Str(b) => format!("s{}", hex(b)),
            Val::Bool(true) => "T".into(),
            Val::Bool(false) => "F".into(),
            Val::Unit => "U".into(),
            Val::None => "N".into(),
            Val::Some(v) => format!("S({})", v.show()),
            Val::List(l) => format!("[{}]", l.iter().map(|v| v.show()).collect::<Vec<_>>().join(",")),
            Val::Rec(fs) => {
                let mut fs: Vec<&(String, Val)> = fs.iter().collect();
                fs.sort_by(|a, b| a.0.cmp(&b.0));
                format!("{{{}}}", fs.iter().map(|(k, v)| format!("{}={}", k, v.show())).collect::<Vec<_>>().join(";"))
            }
            Val::Enum(n) => format!("e:{}", n),
            Val::Var(n, v) => format!("v:{}({})", n, v.show()),
        }
    }

    pub fn get(&self, k: &str) -> Option<&Val> {
        match self {
            Val::Rec(fs) => fs.iter().find(|(n, _)| n == k).map(|(_, v)| v),
            _ => None,
        }
    }

    pub fn parse(s: &str) -> Result<Val, String> {
        let mut p = P { s: s.as_bytes(), pos: 0 };
        let v = p.val()?;
        if p.pos != p.s.len() {
            return Err(format!("trailing input at {}", p.pos));
        }
        Ok(v)
    }
}

struct P<'a> {
    s: &'a [u8],
    pos: usize,
}

impl<'a> P<'a> {
    fn peek(&self) -> u8 {
        *self.s.get(self.pos).unwrap_or(&0)
    }
    fn take(&mut self, f: impl Fn(u8) -> bool) -> &'a str {
        let st = self.pos;
        while self.pos < self.s.len() && f(self.s[self.pos]) {
            self.pos += 1;
        }
        core::str::from_utf8(&self.s[st..self.pos]).unwrap()
    }
    fn expect(&mut self, c: u8) -> Result<(), String> {
        if self.peek() == c {
            self.pos += 1;
            Ok(())
        } else {
            Err(format!("expected {} at {}", c as char, self.pos))
        }
    }
    fn val(&mut self) -> Result<Val, String> {
        let is_hex = |c: u8| c.is_ascii_digit() || (b'a'..=b'f').contains(&c);
        let is_name = |c: u8| c.is_ascii_alphanumeric() || c == b'_';
        match self.peek() {
            b'i' => {
                self.pos += 1;
                let neg = self.peek() == b'-';
                if neg {
                    self.pos += 1;
                }
                let h = self.take(is_hex);
                let v = i128::from_str_radix(h, 16).map_err(|e| e.to_string())?;
                Ok(Val::Z(if neg { -v } else { v }))
            }
            b'b' => {
                self.pos += 1;
                Ok(Val::Bytes(unhex(self.take(is_hex))))
            }
            b's' => {
                self.pos += 1;
                Ok(Val::Str(unhex(self.take(is_hex))))
            }
            b'T' => {
                self.pos += 1;
                Ok(Val::Bool(true))
            }
            b'F' => {
                self.pos += 1;
                Ok(Val::Bool(false))
            }
            b'U' => {
                self.pos += 1;
                Ok(Val::Unit)
            }
            b'N' => {
                self.pos += 1;
                Ok(Val::None)
            }
            b'S' => {
                self.pos += 1;
                self.expect(b'(')?;
                let v = self.val()?;
                self.expect(b')')?;
                Ok(Val::Some(Box::new(v)))
            }
            b'[' => {
                self.pos += 1;
                let mut l = vec![];
                if self.peek() == b']' {
                    self.pos += 1;
                    return Ok(Val::List(l));
                }
                loop {
                    l.push(self.val()?);
                    if self.peek() == b',' {
                        self.pos += 1;
                    } else {
                        self.expect(b']')?;
                        return Ok(Val::List(l));
                    }
                }
            }
            b'{' => {
                self.pos += 1;
                let mut l = vec![];
                if self.peek() == b'}' {
                    self.pos += 1;
                    return Ok(Val::Rec(l));
                }
                loop {
                    let k = self.take(is_name).to_string();
                    self.expect(b'=')?;
                    l.push((k, self.val()?));
                    if self.peek() == b';' {
                        self.pos += 1;
                    } else {
                        self.expect(b'}')?;
                        return Ok(Val::Rec(l));
                    }
                }
            }
            b'e' => {
                self.pos += 1;
                self.expect(b':')?;
                Ok(Val::Enum(self.take(is_name).to_string()))
            }
            b'v' => {
                self.pos += 1;
                self.expect(b':')?;
                let k = self.take(is_name).to_string();
                self.expect(b'(')?;
                let v = self.val()?;
                self.expect(b')')?;
                Ok(Val::Var(k, Box::new(v)))
            }
            c => Err(format!("unexpected {} at {}", c as char, self.pos)),
        }
    }
}
