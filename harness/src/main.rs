//! Harness: runs the implementation (/repo, compiled with the selected features) on the same
//! case lines the OCaml driver evaluates the model on.  One case per stdin line:
//!   id <TAB> op <TAB> arg ...       ->      id <TAB> answer
mod val;
use val::{hex, unhex, Val};

use std::io::{BufRead, Write};
use std::panic::{catch_unwind, AssertUnwindSafe};

use ctap_types::ctap2::{self, client_pin, credential_management as cm, get_assertion as ga, get_info as gi, large_blobs as lb, make_credential as mc};
use ctap_types::webauthn as wa;
use ctap_types::{ctap1, ByteArray, Bytes, String as HString, Vec as HVec};

// ------------------------------------------------------------------ value -> Val
pub trait ToVal {
    fn to_val(&self) -> Val;
}
macro_rules! int_to_val {
    ($($t:ty),*) => {$(impl ToVal for $t { fn to_val(&self) -> Val { Val::Z(*self as i128) } })*};
}
int_to_val!(u8, u16, u32, u64, usize, i8, i32);
impl ToVal for bool {
    fn to_val(&self) -> Val {
        Val::Bool(*self)
    }
}
impl ToVal for () {
    fn to_val(&self) -> Val {
        Val::Unit
    }
}
impl<T: ToVal> ToVal for Option<T> {
    fn to_val(&self) -> Val {
        match self {
            None => Val::None,
            Some(v) => Val::Some(Box::new(v.to_val())),
        }
    }
}
impl<T: ToVal, const N: usize> ToVal for HVec<T, N> {
    fn to_val(&self) -> Val {
        Val::List(self.iter().map(|v| v.to_val()).collect())
    }
}
impl<const N: usize> ToVal for Bytes<N> {
    fn to_val(&self) -> Val {
        Val::Bytes(self.to_vec())
    }
}
impl<const N: usize> ToVal for ByteArray<N> {
    fn to_val(&self) -> Val {
        Val::Bytes(self.to_vec())
    }
}
impl<const N: usize> ToVal for &ByteArray<N> {
    fn to_val(&self) -> Val {
        Val::Bytes(self.to_vec())
    }
}
impl ToVal for &serde_bytes::Bytes {
    fn to_val(&self) -> Val {
        Val::Bytes(self.to_vec())
    }
}
impl ToVal for &str {
    fn to_val(&self) -> Val {
        Val::Str(self.as_bytes().to_vec())
    }
}
impl<const N: usize> ToVal for HString<N> {
    fn to_val(&self) -> Val {
        Val::Str(self.as_bytes().to_vec())
    }
}
macro_rules! enum_to_val {
    ($($t:ty),*) => {$(impl ToVal for $t { fn to_val(&self) -> Val { Val::Enum(format!("{:?}", self)) } })*};
}
enum_to_val!(
    client_pin::PinV1Subcommand,
    cm::Subcommand,
    cm::CredentialProtectionPolicy,
    gi::Version,
    gi::Extension,
    gi::Transport,
    ctap2::AttestationStatementFormat
);
macro_rules! rec_to_val {
    ($t:ty { $($(#[$m:meta])* $f:ident),* $(,)? }) => {
        impl ToVal for $t {
            fn to_val(&self) -> Val {
                #[allow(unused_mut)]
                let mut fs: Vec<(String, Val)> = vec![];
                $( $(#[$m])* fs.push((stringify!($f).to_string(), self.$f.to_val())); )*
                Val::Rec(fs)
            }
        }
    };
}
impl ToVal for wa::Icon {
    fn to_val(&self) -> Val {
        Val::Unit
    }
}
rec_to_val!(wa::PublicKeyCredentialRpEntity { id, name, icon });
rec_to_val!(wa::PublicKeyCredentialUserEntity { id, icon, name, display_name });
rec_to_val!(wa::PublicKeyCredentialParameters { alg, key_type });
rec_to_val!(wa::KnownPublicKeyCredentialParameters { alg });
rec_to_val!(wa::PublicKeyCredentialDescriptor { id, key_type });
rec_to_val!(wa::PublicKeyCredentialDescriptorRef<'_> { id, key_type });
impl ToVal for wa::FilteredPublicKeyCredentialParameters {
    fn to_val(&self) -> Val {
        self.0.to_val()
    }
}
rec_to_val!(ctap2::AuthenticatorOptions { rk, up, uv });
impl ToVal for ctap2::AttestationFormatsPreference {
    fn to_val(&self) -> Val {
        Val::Rec(vec![
            ("known_formats".into(), Val::List(self.known_formats().iter().map(|f| f.to_val()).collect())),
            ("unknown".into(), Val::Bool(self.includes_unknown_formats())),
        ])
    }
}
rec_to_val!(cosey::EcdhEsHkdf256PublicKey { x, y });
rec_to_val!(mc::Extensions {
    cred_protect,
    hmac_secret,
    large_blob_key,
    #[cfg(feature = "third-party-payment")]
    third_party_payment
});
rec_to_val!(mc::Request<'_> {
    client_data_hash,
    rp,
    user,
    pub_key_cred_params,
    exclude_list,
    extensions,
    options,
    pin_auth,
    pin_protocol,
    enterprise_attestation,
    attestation_formats_preference
});
rec_to_val!(ga::HmacSecretInput { key_agreement, salt_enc, salt_auth, pin_protocol });
rec_to_val!(ga::ExtensionsInput {
    hmac_secret,
    large_blob_key,
    #[cfg(feature = "third-party-payment")]
    third_party_payment
});
rec_to_val!(ga::ExtensionsOutput {
    hmac_secret,
    #[cfg(feature = "third-party-payment")]
    third_party_payment
});
rec_to_val!(ga::Request<'_> {
    rp_id,
    client_data_hash,
    allow_list,
    extensions,
    options,
    pin_auth,
    pin_protocol,
    enterprise_attestation,
    attestation_formats_preference
});
impl ToVal for ga::UnsignedExtensionOutputs {
    fn to_val(&self) -> Val {
        Val::Rec(vec![])
    }
}
// client_pin::Request has two crate-private placeholder members; observe them through PartialEq of
// re-decoding is not possible, so they are reported as absent unless Debug shows otherwise
impl ToVal for client_pin::Request<'_> {
    fn to_val(&self) -> Val {
        let dbg = format!("{:?}", self);
        let ph = |name: &str| -> Val {
            if dbg.contains(&format!("{}: Some(())", name)) {
                Val::Some(Box::new(Val::Unit))
            } else {
                Val::None
            }
        };
        Val::Rec(vec![
            ("pin_protocol".into(), self.pin_protocol.to_val()),
            ("sub_command".into(), self.sub_command.to_val()),
            ("key_agreement".into(), self.key_agreement.to_val()),
            ("pin_auth".into(), self.pin_auth.to_val()),
            ("new_pin_enc".into(), self.new_pin_enc.to_val()),
            ("pin_hash_enc".into(), self.pin_hash_enc.to_val()),
            ("_placeholder07".into(), ph("_placeholder07")),
            ("_placeholder08".into(), ph("_placeholder08")),
            ("permissions".into(), self.permissions.to_val()),
            ("rp_id".into(), self.rp_id.to_val()),
        ])
    }
}
rec_to_val!(client_pin::Response { key_agreement, pin_token, retries, power_cycle_state, uv_retries });
rec_to_val!(cm::SubcommandParameters<'_> { rp_id_hash, credential_id, user });
rec_to_val!(cm::Request<'_> { sub_command, sub_command_params, pin_protocol, pin_auth });
rec_to_val!(lb::Request<'_> { get, set, offset, length, pin_uv_auth_param, pin_uv_auth_protocol });
rec_to_val!(lb::Response { config });
rec_to_val!(gi::CtapOptions {
    #[cfg(feature = "get-info-full")]
    ep,
    rk,
    up,
    uv,
    plat,
    #[cfg(feature = "get-info-full")]
    uv_acfg,
    #[cfg(feature = "get-info-full")]
    always_uv,
    cred_mgmt,
    #[cfg(feature = "get-info-full")]
    authnr_cfg,
    #[cfg(feature = "get-info-full")]
    bio_enroll,
    client_pin,
    large_blobs,
    #[cfg(feature = "get-info-full")]
    uv_bio_enroll,
    #[cfg(feature = "get-info-full")]
    set_min_pin_length,
    pin_uv_auth_token,
    #[cfg(feature = "get-info-full")]
    make_cred_uv_not_rqd,
    #[cfg(feature = "get-info-full")]
    credential_mgmt_preview,
    #[cfg(feature = "get-info-full")]
    user_verification_mgmt_preview,
    #[cfg(feature = "get-info-full")]
    no_mc_ga_permissions_with_client_pin
});
#[cfg(feature = "get-info-full")]
rec_to_val!(gi::Certifications { fips_cmpv2, fips_cmpv3, fips_cmpv2_phy, fips_cmpv3_phy, cc_eal, fido });
rec_to_val!(gi::Response {
    versions,
    extensions,
    aaguid,
    options,
    max_msg_size,
    pin_protocols,
    max_creds_in_list,
    max_cred_id_length,
    transports,
    algorithms,
    max_serialized_large_blob_array,
    #[cfg(feature = "get-info-full")]
    force_pin_change,
    #[cfg(feature = "get-info-full")]
    min_pin_length,
    #[cfg(feature = "get-info-full")]
    firmware_version,
    #[cfg(feature = "get-info-full")]
    max_cred_blob_length,
    #[cfg(feature = "get-info-full")]
    max_rpids_for_set_min_pin_length,
    #[cfg(feature = "get-info-full")]
    preferred_platform_uv_attempts,
    #[cfg(feature = "get-info-full")]
    uv_modality,
    #[cfg(feature = "get-info-full")]
    certifications,
    #[cfg(feature = "get-info-full")]
    remaining_discoverable_credentials,
    #[cfg(feature = "get-info-full")]
    vendor_prototype_config_commands,
    #[cfg(feature = "get-info-full")]
    attestation_formats,
    #[cfg(feature = "get-info-full")]
    uv_count_since_last_pin_entry,
    #[cfg(feature = "get-info-full")]
    long_touch_for_reset
});

fn request_to_string(r: &ctap2::Request) -> String {
    use ctap2::Request::*;
    match r {
        MakeCredential(x) => format!("v:MakeCredential({})", x.to_val().show()),
        GetAssertion(x) => format!("v:GetAssertion({})", x.to_val().show()),
        ClientPin(x) => format!("v:ClientPin({})", x.to_val().show()),
        CredentialManagement(x) => format!("v:CredentialManagement({})", x.to_val().show()),
        LargeBlobs(x) => format!("v:LargeBlobs({})", x.to_val().show()),
        GetNextAssertion => "e:GetNextAssertion".into(),
        GetInfo => "e:GetInfo".into(),
        Reset => "e:Reset".into(),
        Selection => "e:Selection".into(),
        Vendor(op) => format!("v:Vendor(i{:x})", u8::from(*op)),
        _ => "unknown-variant".into(),
    }
}

// ------------------------------------------------------------------ Val -> value
type R<T> = Result<T, String>;
pub trait FromVal: Sized {
    fn from_val(v: &Val) -> R<Self>;
}
macro_rules! int_from_val {
    ($($t:ty),*) => {$(impl FromVal for $t { fn from_val(v: &Val) -> R<Self> {
        match v { Val::Z(z) => <$t>::try_from(*z).map_err(|_| "int out of range".to_string()), _ => Err("expected int".into()) } } })*};
}
int_from_val!(u8, u16, u32, u64, usize, i8, i32);
impl FromVal for bool {
    fn from_val(v: &Val) -> R<Self> {
        match v {
            Val::Bool(b) => Ok(*b),
            _ => Err("expected bool".into()),
        }
    }
}
impl<T: FromVal> FromVal for Option<T> {
    fn from_val(v: &Val) -> R<Self> {
        match v {
            Val::None => Ok(None),
            Val::Some(x) => Ok(Some(T::from_val(x)?)),
            _ => Err("expected option".into()),
        }
    }
}
impl<T: FromVal, const N: usize> FromVal for HVec<T, N> {
    fn from_val(v: &Val) -> R<Self> {
        match v {
            Val::List(l) => {
                let mut out = HVec::new();
                for x in l {
                    out.push(T::from_val(x)?).map_err(|_| "vec capacity".to_string())?;
                }
                Ok(out)
            }
            _ => Err("expected list".into()),
        }
    }
}
impl<const N: usize> FromVal for Bytes<N> {
    fn from_val(v: &Val) -> R<Self> {
        match v {
            Val::Bytes(b) => Bytes::from_slice(b).map_err(|_| "bytes capacity".to_string()),
            _ => Err("expected bytes".into()),
        }
    }
}
impl<const N: usize> FromVal for ByteArray<N> {
    fn from_val(v: &Val) -> R<Self> {
        match v {
            Val::Bytes(b) => {
                let a: [u8; N] = b.as_slice().try_into().map_err(|_| "array length".to_string())?;
                Ok(ByteArray::new(a))
            }
            _ => Err("expected bytes".into()),
        }
    }
}
impl<const N: usize> FromVal for HString<N> {
    fn from_val(v: &Val) -> R<Self> {
        match v {
            Val::Str(b) => {
                let s = core::str::from_utf8(b).map_err(|_| "utf8".to_string())?;
                if s.len() > N {
                    return Err("string capacity".into());
                }
                Ok(HString::from(s))
            }
            _ => Err("expected str".into()),
        }
    }
}
macro_rules! enum_from_val {
    ($t:ty { $($v:ident),* }) => {
        impl FromVal for $t { fn from_val(v: &Val) -> R<Self> {
            match v { Val::Enum(n) => match n.as_str() { $(stringify!($v) => Ok(<$t>::$v),)* _ => Err("unknown variant".into()) }, _ => Err("expected enum".into()) } } }
    };
}
enum_from_val!(gi::Version { Fido2_0, Fido2_1, Fido2_1Pre, U2fV2 });
enum_from_val!(gi::Extension { CredProtect, HmacSecret, LargeBlobKey, ThirdPartyPayment });
enum_from_val!(gi::Transport { Nfc, Usb });
enum_from_val!(ctap2::AttestationStatementFormat { None, Packed });
enum_from_val!(cm::CredentialProtectionPolicy { Optional, OptionalWithCredentialIdList, Required });

/// assign the listed members from a record value onto a base value
macro_rules! assign {
    ($r:ident, $v:ident, { $($(#[$m:meta])* $f:ident),* $(,)? }) => {
        $( $(#[$m])* if let Some(x) = $v.get(stringify!($f)) { $r.$f = FromVal::from_val(x).map_err(|e| format!("{}: {}", stringify!($f), e))?; } )*
    };
}
fn need<'a>(v: &'a Val, k: &str) -> R<&'a Val> {
    v.get(k).ok_or_else(|| format!("missing member {k}"))
}

impl FromVal for cosey::EcdhEsHkdf256PublicKey {
    fn from_val(v: &Val) -> R<Self> {
        Ok(Self { x: FromVal::from_val(need(v, "x")?)?, y: FromVal::from_val(need(v, "y")?)? })
    }
}
impl FromVal for cosey::PublicKey {
    fn from_val(v: &Val) -> R<Self> {
        match v {
            Val::Var(k, w) => match k.as_str() {
                "P256Key" => Ok(cosey::PublicKey::P256Key(cosey::P256PublicKey {
                    x: FromVal::from_val(need(w, "x")?)?,
                    y: FromVal::from_val(need(w, "y")?)?,
                })),
                "EcdhEsHkdf256Key" => Ok(cosey::PublicKey::EcdhEsHkdf256Key(FromVal::from_val(w)?)),
                "Ed25519Key" => Ok(cosey::PublicKey::Ed25519Key(cosey::Ed25519PublicKey { x: FromVal::from_val(need(w, "x")?)? })),
                "TotpKey" => Ok(cosey::PublicKey::TotpKey(cosey::TotpPublicKey {})),
                _ => Err("unknown key kind".into()),
            },
            _ => Err("expected key variant".into()),
        }
    }
}
impl FromVal for wa::PublicKeyCredentialRpEntity {
    fn from_val(v: &Val) -> R<Self> {
        let icon = match v.get("icon") {
            Some(Val::Some(_)) => Some(wa::Icon),
            _ => None,
        };
        Ok(Self { id: FromVal::from_val(need(v, "id")?)?, name: FromVal::from_val(need(v, "name")?)?, icon })
    }
}
impl FromVal for wa::PublicKeyCredentialUserEntity {
    fn from_val(v: &Val) -> R<Self> {
        let direct = Self {
            id: FromVal::from_val(need(v, "id")?)?,
            icon: FromVal::from_val(need(v, "icon")?)?,
            name: FromVal::from_val(need(v, "name")?)?,
            display_name: FromVal::from_val(need(v, "display_name")?)?,
        };
        // the public convenience constructor must build the same value when only the id is set
        if direct.icon.is_none() && direct.name.is_none() && direct.display_name.is_none() {
            let via = wa::PublicKeyCredentialUserEntity::from(direct.id.clone());
            if via != direct {
                return Err("PublicKeyCredentialUserEntity::from(id) differs from the entity with only the id set".into());
            }
            return Ok(via);
        }
        Ok(direct)
    }
}
impl FromVal for wa::PublicKeyCredentialDescriptor {
    fn from_val(v: &Val) -> R<Self> {
        Ok(Self { id: FromVal::from_val(need(v, "id")?)?, key_type: FromVal::from_val(need(v, "key_type")?)? })
    }
}
impl FromVal for wa::PublicKeyCredentialParameters {
    fn from_val(v: &Val) -> R<Self> {
        let direct = Self { alg: FromVal::from_val(need(v, "alg")?)?, key_type: FromVal::from_val(need(v, "key_type")?)? };
        // the public convenience constructor must build the same value for type "public-key"
        if direct.key_type.as_str() == "public-key" {
            let via = wa::PublicKeyCredentialParameters::public_key_with_alg(direct.alg);
            if via != direct {
                return Err("PublicKeyCredentialParameters::public_key_with_alg differs".into());
            }
            return Ok(via);
        }
        Ok(direct)
    }
}
impl FromVal for wa::KnownPublicKeyCredentialParameters {
    fn from_val(v: &Val) -> R<Self> {
        Ok(Self { alg: FromVal::from_val(need(v, "alg")?)? })
    }
}
impl FromVal for wa::FilteredPublicKeyCredentialParameters {
    fn from_val(v: &Val) -> R<Self> {
        Ok(Self(FromVal::from_val(v)?))
    }
}
impl FromVal for ctap2::AttestationStatement {
    fn from_val(v: &Val) -> R<Self> {
        match v {
            Val::Var(k, w) => match k.as_str() {
                "None" => Ok(ctap2::AttestationStatement::None(ctap2::NoneAttestationStatement {})),
                "Packed" => Ok(ctap2::AttestationStatement::Packed(ctap2::PackedAttestationStatement {
                    alg: FromVal::from_val(need(w, "alg")?)?,
                    sig: FromVal::from_val(need(w, "sig")?)?,
                    x5c: FromVal::from_val(need(w, "x5c")?)?,
                })),
                _ => Err("unknown attestation statement".into()),
            },
            _ => Err("expected attestation statement".into()),
        }
    }
}
impl FromVal for ga::UnsignedExtensionOutputs {
    fn from_val(_v: &Val) -> R<Self> {
        // #[non_exhaustive] without constructor: obtainable only by decoding
        ctap_types::serde::cbor_deserialize(&[0xa0]).map_err(|e| format!("{e:?}"))
    }
}
impl FromVal for mc::UnsignedExtensionOutputs {
    fn from_val(_v: &Val) -> R<Self> {
        Err("make_credential::UnsignedExtensionOutputs cannot be constructed outside the crate".into())
    }
}
impl FromVal for gi::CtapOptions {
    fn from_val(v: &Val) -> R<Self> {
        let mut r = gi::CtapOptions::default();
        assign!(r, v, {
            #[cfg(feature = "get-info-full")] ep, rk, up, uv, plat,
            #[cfg(feature = "get-info-full")] uv_acfg,
            #[cfg(feature = "get-info-full")] always_uv,
            cred_mgmt,
            #[cfg(feature = "get-info-full")] authnr_cfg,
            #[cfg(feature = "get-info-full")] bio_enroll,
            client_pin, large_blobs,
            #[cfg(feature = "get-info-full")] uv_bio_enroll,
            #[cfg(feature = "get-info-full")] set_min_pin_length,
            pin_uv_auth_token,
            #[cfg(feature = "get-info-full")] make_cred_uv_not_rqd,
            #[cfg(feature = "get-info-full")] credential_mgmt_preview,
            #[cfg(feature = "get-info-full")] user_verification_mgmt_preview,
            #[cfg(feature = "get-info-full")] no_mc_ga_permissions_with_client_pin
        });
        Ok(r)
    }
}
#[cfg(feature = "get-info-full")]
impl FromVal for gi::Certifications {
    fn from_val(v: &Val) -> R<Self> {
        // #[non_exhaustive] without constructor: start from the empty map, then set members
        let mut r: gi::Certifications = ctap_types::serde::cbor_deserialize(&[0xa0]).map_err(|e| format!("{e:?}"))?;
        assign!(r, v, { fips_cmpv2, fips_cmpv3, fips_cmpv2_phy, fips_cmpv3_phy, cc_eal, fido });
        Ok(r)
    }
}
impl FromVal for gi::Response {
    fn from_val(v: &Val) -> R<Self> {
        let mut r = gi::ResponseBuilder {
            versions: FromVal::from_val(need(v, "versions")?)?,
            aaguid: FromVal::from_val(need(v, "aaguid")?)?,
        }
        .build();
        assign!(r, v, {
            extensions, options, max_msg_size, pin_protocols, max_creds_in_list, max_cred_id_length,
            transports, algorithms, max_serialized_large_blob_array,
            #[cfg(feature = "get-info-full")] force_pin_change,
            #[cfg(feature = "get-info-full")] min_pin_length,
            #[cfg(feature = "get-info-full")] firmware_version,
            #[cfg(feature = "get-info-full")] max_cred_blob_length,
            #[cfg(feature = "get-info-full")] max_rpids_for_set_min_pin_length,
            #[cfg(feature = "get-info-full")] preferred_platform_uv_attempts,
            #[cfg(feature = "get-info-full")] uv_modality,
            #[cfg(feature = "get-info-full")] certifications,
            #[cfg(feature = "get-info-full")] remaining_discoverable_credentials,
            #[cfg(feature = "get-info-full")] vendor_prototype_config_commands,
            #[cfg(feature = "get-info-full")] attestation_formats,
            #[cfg(feature = "get-info-full")] uv_count_since_last_pin_entry,
            #[cfg(feature = "get-info-full")] long_touch_for_reset
        });
        Ok(r)
    }
}
impl FromVal for mc::Response {
    fn from_val(v: &Val) -> R<Self> {
        let mut r = mc::ResponseBuilder {
            fmt: FromVal::from_val(need(v, "fmt")?)?,
            auth_data: FromVal::from_val(need(v, "auth_data")?)?,
        }
        .build();
        assign!(r, v, { att_stmt, ep_att, large_blob_key, unsigned_extension_outputs });
        Ok(r)
    }
}
impl FromVal for ga::Response {
    fn from_val(v: &Val) -> R<Self> {
        let mut r = ga::ResponseBuilder {
            credential: FromVal::from_val(need(v, "credential")?)?,
            auth_data: FromVal::from_val(need(v, "auth_data")?)?,
            signature: FromVal::from_val(need(v, "signature")?)?,
        }
        .build();
        assign!(r, v, { user, number_of_credentials, user_selected, large_blob_key, unsigned_extension_outputs, ep_att, att_stmt });
        Ok(r)
    }
}
impl FromVal for client_pin::Response {
    fn from_val(v: &Val) -> R<Self> {
        let mut r = client_pin::Response::default();
        assign!(r, v, { key_agreement, pin_token, retries, power_cycle_state, uv_retries });
        Ok(r)
    }
}
impl FromVal for cm::Response {
    fn from_val(v: &Val) -> R<Self> {
        let mut r = cm::Response::default();
        assign!(r, v, {
            existing_resident_credentials_count, max_possible_remaining_residential_credentials_count, rp,
            rp_id_hash, total_rps, user, credential_id, public_key, total_credentials, cred_protect, large_blob_key,
            #[cfg(feature = "third-party-payment")] third_party_payment
        });
        Ok(r)
    }
}
impl FromVal for lb::Response {
    fn from_val(v: &Val) -> R<Self> {
        let mut r = lb::Response::default();
        assign!(r, v, { config });
        Ok(r)
    }
}
impl FromVal for mc::Extensions {
    fn from_val(v: &Val) -> R<Self> {
        let mut r = mc::Extensions::default();
        assign!(r, v, { cred_protect, hmac_secret, large_blob_key, #[cfg(feature = "third-party-payment")] third_party_payment });
        Ok(r)
    }
}
impl FromVal for ga::ExtensionsOutput {
    fn from_val(v: &Val) -> R<Self> {
        let mut r = ga::ExtensionsOutput::default();
        assign!(r, v, { hmac_secret, #[cfg(feature = "third-party-payment")] third_party_payment });
        Ok(r)
    }
}

// ------------------------------------------------------------------ operations
fn err_name(e: ctap_types::serde::Error) -> String {
    format!("{:?}", e)
}

fn decty<'a, T: serde::Deserialize<'a> + ToVal>(data: &'a [u8]) -> String {
    match ctap_types::serde::de::take_from_bytes::<T>(data) {
        Ok((v, rest)) => format!("ok {} rest={}", v.to_val().show(), rest.len()),
        Err(e) => format!("err {}", err_name(e)),
    }
}

fn ser_to_hex<T: serde::Serialize>(v: &T) -> String {
    let mut buf = vec![0u8; 16384];
    match ctap_types::serde::cbor_serialize(v, &mut buf) {
        Ok(s) => format!("ok {}", hex(s)),
        Err(e) => format!("err {}", err_name(e)),
    }
}

fn reser<'a, T: serde::Deserialize<'a> + serde::Serialize>(data: &'a [u8]) -> String {
    match ctap_types::serde::de::take_from_bytes::<T>(data) {
        Ok((v, _)) => ser_to_hex(&v),
        Err(e) => format!("err {}", err_name(e)),
    }
}

/// value -> bytes -> value
fn rtv<T: FromVal + serde::Serialize + for<'a> serde::Deserialize<'a> + ToVal>(v: &Val) -> String {
    let x = match T::from_val(v) {
        Ok(x) => x,
        Err(e) => return format!("unbuildable {e}"),
    };
    let mut buf = vec![0u8; 16384];
    let bytes = match ctap_types::serde::cbor_serialize(&x, &mut buf) {
        Ok(s) => s.to_vec(),
        Err(e) => return format!("err {}", err_name(e)),
    };
    let out = match ctap_types::serde::de::take_from_bytes::<T>(&bytes) {
        Ok((y, rest)) => format!("ok {} rest={}", y.to_val().show(), rest.len()),
        Err(e) => format!("err {}", err_name(e)),
    };
    out
}

fn encty<T: FromVal + serde::Serialize>(v: &Val) -> String {
    match T::from_val(v) {
        Ok(x) => ser_to_hex(&x),
        Err(e) => format!("unbuildable {e}"),
    }
}

macro_rules! with_type {
    ($name:expr, $f:ident, $($arg:expr),*) => {
        match $name {
            "webauthn::PublicKeyCredentialRpEntity" => $f::<wa::PublicKeyCredentialRpEntity>($($arg),*),
            "webauthn::PublicKeyCredentialUserEntity" => $f::<wa::PublicKeyCredentialUserEntity>($($arg),*),
            "webauthn::PublicKeyCredentialParameters" => $f::<wa::PublicKeyCredentialParameters>($($arg),*),
            "webauthn::FilteredPublicKeyCredentialParameters" => $f::<wa::FilteredPublicKeyCredentialParameters>($($arg),*),
            "webauthn::PublicKeyCredentialDescriptor" => $f::<wa::PublicKeyCredentialDescriptor>($($arg),*),
            "ctap2::get_assertion::ExtensionsOutput" => $f::<ga::ExtensionsOutput>($($arg),*),
            "ctap2::make_credential::Extensions" => $f::<mc::Extensions>($($arg),*),
            "ctap2::client_pin::Response" => $f::<client_pin::Response>($($arg),*),
            "ctap2::large_blobs::Response" => $f::<lb::Response>($($arg),*),
            "ctap2::get_info::Response" => $f::<gi::Response>($($arg),*),
            "ctap2::get_info::CtapOptions" => $f::<gi::CtapOptions>($($arg),*),
            #[cfg(feature = "get-info-full")]
            "ctap2::get_info::Certifications" => $f::<gi::Certifications>($($arg),*),
            "ctap2::get_info::Version" => $f::<gi::Version>($($arg),*),
            "ctap2::get_info::Extension" => $f::<gi::Extension>($($arg),*),
            "ctap2::get_info::Transport" => $f::<gi::Transport>($($arg),*),
            "ctap2::AttestationStatementFormat" => $f::<ctap2::AttestationStatementFormat>($($arg),*),
            "ctap2::credential_management::CredentialProtectionPolicy" => $f::<cm::CredentialProtectionPolicy>($($arg),*),
            "ext::EcdhEsHkdf256PublicKey" => $f::<cosey::EcdhEsHkdf256PublicKey>($($arg),*),
            _ => "unknown-type".to_string(),
        }
    };
}

/// types that can only be decoded (or decoded and re-encoded)
macro_rules! with_de_type {
    ($name:expr, $f:ident, $($arg:expr),*) => {
        match $name {
            "webauthn::PublicKeyCredentialDescriptorRef" => $f::<wa::PublicKeyCredentialDescriptorRef>($($arg),*),
            "ctap2::AuthenticatorOptions" => $f::<ctap2::AuthenticatorOptions>($($arg),*),
            "ctap2::get_assertion::ExtensionsInput" => $f::<ga::ExtensionsInput>($($arg),*),
            "ctap2::get_assertion::HmacSecretInput" => $f::<ga::HmacSecretInput>($($arg),*),
            "ctap2::get_assertion::UnsignedExtensionOutputs" => $f::<ga::UnsignedExtensionOutputs>($($arg),*),
            "ctap2::client_pin::Request" => $f::<client_pin::Request>($($arg),*),
            "ctap2::client_pin::PinV1Subcommand" => $f::<client_pin::PinV1Subcommand>($($arg),*),
            "ctap2::credential_management::Request" => $f::<cm::Request>($($arg),*),
            "ctap2::credential_management::Subcommand" => $f::<cm::Subcommand>($($arg),*),
            "ctap2::credential_management::SubcommandParameters" => $f::<cm::SubcommandParameters>($($arg),*),
            "ctap2::large_blobs::Request" => $f::<lb::Request>($($arg),*),
            other => with_type!(other, $f, $($arg),*),
        }
    };
}

fn decty_only(name: &str, data: &[u8]) -> String {
    match name {
        "ctap2::make_credential::Request" => decty::<mc::Request>(data),
        "ctap2::get_assertion::Request" => decty::<ga::Request>(data),
        "ctap2::AttestationFormatsPreference" => decty::<ctap2::AttestationFormatsPreference>(data),
        "webauthn::Icon" => decty::<wa::Icon>(data),
        other => with_de_type!(other, decty, data),
    }
}

fn enc2_n<const N: usize>(resp: &ctap2::Response, prior: &[u8]) -> String {
    let mut buf: HVec<u8, N> = HVec::new();
    if buf.extend_from_slice(prior).is_err() {
        return "unbuildable prior exceeds capacity".into();
    }
    resp.serialize(&mut buf);
    format!("buf {}", hex(&buf))
}

macro_rules! cap_dispatch {
    ($f:ident, $cap:expr, [$($n:literal),*], $a:expr, $b:expr) => {
        match $cap {
            $($n => $f::<$n>($a, $b),)*
            _ => "unsupported-capacity".to_string(),
        }
    };
}

fn enc2(variant: &str, cap: usize, prior: &[u8], v: &str) -> String {
    let resp: R<ctap2::Response> = (|| {
        Ok(match variant {
            "Reset" => ctap2::Response::Reset,
            "Selection" => ctap2::Response::Selection,
            "Vendor" => ctap2::Response::Vendor,
            _ => {
                let val = Val::parse(v)?;
                match variant {
                    "GetInfo" => ctap2::Response::GetInfo(FromVal::from_val(&val)?),
                    "MakeCredential" => ctap2::Response::MakeCredential(FromVal::from_val(&val)?),
                    "GetAssertion" => ctap2::Response::GetAssertion(FromVal::from_val(&val)?),
                    "GetNextAssertion" => ctap2::Response::GetNextAssertion(FromVal::from_val(&val)?),
                    "ClientPin" => ctap2::Response::ClientPin(FromVal::from_val(&val)?),
                    "CredentialManagement" => ctap2::Response::CredentialManagement(FromVal::from_val(&val)?),
                    "LargeBlobs" => ctap2::Response::LargeBlobs(FromVal::from_val(&val)?),
                    _ => return Err("unknown response variant".into()),
                }
            }
        })
    })();
    let resp = match resp {
        Ok(r) => r,
        Err(e) => return format!("unbuildable {e}"),
    };
    cap_dispatch!(
        enc2_n,
        cap,
        [
            0, 1, 2, 3, 4, 5, 6, 7, 8, 9, 10, 11, 12, 13, 14, 15, 16, 17, 18, 19, 20, 21, 22, 23, 24, 25, 26, 27, 28, 29, 30, 31, 32,
            33, 34, 35, 36, 37, 38, 39, 40, 41, 42, 43, 44, 45, 46, 47, 48, 49, 50, 51, 52, 53, 54, 55, 56, 57, 58, 59, 60, 61, 62, 63,
            64, 65, 66, 67, 68, 69, 70, 71, 72, 73, 74, 75, 76, 77, 78, 79, 80, 96, 100, 127, 128, 129, 200, 255, 256, 257, 258, 259,
            260, 300, 400, 500, 512, 600, 700, 800, 900, 1000, 1023, 1024, 1025, 1200, 1500, 2000, 2048, 3000, 3072, 4096, 5000, 7609
        ],
        &resp,
        prior
    )
}

fn authdata(flavour: &str, rp: &[u8], flags: u8, count: u32, acd: &str, ext: &str) -> String {
    let rp: &[u8; 32] = match rp.try_into() {
        Ok(r) => r,
        Err(_) => return "unbuildable rp hash must be 32 bytes".into(),
    };
    let flags = match ctap2::AuthenticatorDataFlags::from_bits(flags) {
        Some(f) => f,
        None => return "unbuildable flags".into(),
    };
    let parts: Vec<Vec<u8>> = if acd == "-" { vec![] } else { acd.split(':').map(unhex).collect() };
    let out = if flavour == "mc" {
        let ext: Option<mc::Extensions> = if ext == "-" {
            None
        } else {
            match Val::parse(ext).and_then(|v| FromVal::from_val(&v)) {
                Ok(e) => Some(e),
                Err(e) => return format!("unbuildable {e}"),
            }
        };
        let acd = if parts.is_empty() {
            None
        } else {
            Some(mc::AttestedCredentialData { aaguid: &parts[0], credential_id: &parts[1], credential_public_key: &parts[2] })
        };
        mc::AuthenticatorData { rp_id_hash: rp, flags, sign_count: count, attested_credential_data: acd, extensions: ext }.serialize()
    } else {
        let ext: Option<ga::ExtensionsOutput> = if ext == "-" {
            None
        } else {
            match Val::parse(ext).and_then(|v| FromVal::from_val(&v)) {
                Ok(e) => Some(e),
                Err(e) => return format!("unbuildable {e}"),
            }
        };
        let acd = if parts.is_empty() { None } else { Some(ga::NoAttestedCredentialData) };
        ga::AuthenticatorData { rp_id_hash: rp, flags, sign_count: count, attested_credential_data: acd, extensions: ext }.serialize()
    };
    match out {
        Ok(b) => format!("ok {}", hex(&b)),
        Err(e) => format!("err {:?}", e),
    }
}

fn show_ctap1(r: Result<ctap1::Request, ctap1::Error>) -> String {
    match r {
        Ok(ctap1::Request::Register(r)) => format!("ok register {} {}", hex(r.challenge), hex(r.app_id)),
        Ok(ctap1::Request::Authenticate(a)) => {
            format!("ok authenticate {:?} {} {} {}", a.control_byte, hex(a.challenge), hex(a.app_id), hex(a.key_handle))
        }
        Ok(ctap1::Request::Version) => "ok version".into(),
        Err(e) => format!("err {:?}", e),
    }
}

/// the owned-command entry point (TryFrom<&iso7816::Command<S>>) for one buffer capacity; None when the APDU does not fit the buffer
fn apdu_owned<const S: usize>(raw: &[u8]) -> Option<String> {
    let cmd = iso7816::Command::<S>::try_from(raw).ok()?;
    Some(show_ctap1(ctap1::Request::try_from(&cmd)))
}

fn apdu(raw: &[u8]) -> String {
    match iso7816::command::CommandView::try_from(raw) {
        Err(e) => format!("apduerr {:?}", e),
        Ok(view) => {
            let by_view = show_ctap1(ctap1::Request::try_from(view));
            // both entry points must agree, whatever the capacity of the owned command's buffer
            macro_rules! owned {
                ($($n:literal),*) => {
                    $(
                        if let Some(o) = apdu_owned::<$n>(raw) {
                            if o != by_view {
                                return format!("owned-command entry point with capacity {} answers {} but the view answers {}", $n, o, by_view);
                            }
                        }
                    )*
                };
            }
            owned!(0, 1, 2, 5, 16, 32, 63, 64, 65, 66, 80, 81, 82, 96, 97, 128, 255, 256, 257, 320, 321, 322, 1024, 7609);
            by_view
        }
    }
}

fn u2fser_n<const S: usize>(resp: &ctap1::Response, prior: &[u8]) -> String {
    let mut buf: iso7816::Data<S> = iso7816::Data::new();
    if buf.extend_from_slice(prior).is_err() {
        return "unbuildable prior exceeds capacity".into();
    }
    let r = resp.serialize(&mut buf);
    format!("{} {}", if r.is_ok() { "ok" } else { "err" }, hex(&buf))
}

fn opt_hex(s: &str) -> Vec<u8> {
    if s == "-" {
        vec![]
    } else {
        unhex(s)
    }
}

fn u2fser(cap: usize, prior: &[u8], kind: &str, a: &[&str]) -> String {
    let resp = (|| -> R<ctap1::Response> {
        Ok(match kind {
            "register" => ctap1::Response::Register(ctap1::register::Response {
                header_byte: u8::from_str_radix(a[0], 16).map_err(|e| e.to_string())?,
                public_key: Bytes::from_slice(&opt_hex(a[1])).map_err(|_| "capacity")?,
                key_handle: Bytes::from_slice(&opt_hex(a[2])).map_err(|_| "capacity")?,
                attestation_certificate: Bytes::from_slice(&opt_hex(a[3])).map_err(|_| "capacity")?,
                signature: Bytes::from_slice(&opt_hex(a[4])).map_err(|_| "capacity")?,
            }),
            "authenticate" => ctap1::Response::Authenticate(ctap1::authenticate::Response {
                user_presence: u8::from_str_radix(a[0], 16).map_err(|e| e.to_string())?,
                count: u32::from_str_radix(a[1], 16).map_err(|e| e.to_string())?,
                signature: Bytes::from_slice(&opt_hex(a[2])).map_err(|_| "capacity")?,
            }),
            _ => ctap1::Response::Version(opt_hex(a[0]).as_slice().try_into().map_err(|_| "version length")?),
        })
    })();
    let resp = match resp {
        Ok(r) => r,
        Err(e) => return format!("unbuildable {e}"),
    };
    // the public constructor must produce the same response as the struct literal whenever the public key is 0x04 || x || y
    if let ctap1::Response::Register(lit) = &resp {
        if lit.public_key.len() == 65 && lit.public_key[0] == 4 {
            let pk = cosey::EcdhEsHkdf256PublicKey {
                x: Bytes::from_slice(&lit.public_key[1..33]).unwrap(),
                y: Bytes::from_slice(&lit.public_key[33..65]).unwrap(),
            };
            let via = ctap1::register::Response::new(
                lit.header_byte,
                &pk,
                lit.key_handle.clone(),
                lit.signature.clone(),
                lit.attestation_certificate.clone(),
            );
            if via != *lit {
                return "register::Response::new differs from the response with the same parts".into();
            }
        }
    }
    cap_dispatch!(
        u2fser_n,
        cap,
        [
            0, 1, 2, 3, 4, 5, 6, 7, 8, 9, 10, 16, 32, 64, 65, 66, 67, 68, 69, 70, 71, 72, 73, 74, 75, 76, 77, 78, 79, 80, 100, 128, 130,
            137, 138, 139, 140, 141, 142, 200, 256, 300, 320, 321, 322, 323, 400, 512, 1024, 1100, 1345, 1346, 1347, 1348, 1400, 1417,
            1418, 1419, 1420, 2048, 3072, 7609, 70000
        ],
        &resp,
        prior
    )
}

fn optab(b: u8) -> String {
    let o = ctap2::Operation::try_from(b);
    let name = match &o {
        Err(_) => "none".to_string(),
        Ok(ctap2::Operation::Vendor(v)) => format!("Vendor:{:x}", u8::from(*v)),
        Ok(op) => format!("{:?}", op),
    };
    let back = match &o {
        Err(_) => "-".to_string(),
        // both conversions to the command byte: From<Operation> for u8 and Operation::into_u8
        Ok(op) => {
            if u8::from(*op) != op.into_u8() {
                "into_u8-differs".to_string()
            } else {
                format!("{:x}", u8::from(*op))
            }
        }
    };
    let vend = match ctap2::VendorOperation::try_from(b) {
        Ok(v) => format!("{:x}", u8::from(v)),
        Err(_) => "-".into(),
    };
    format!("op {} back {} vendor {}", name, back, vend)
}

macro_rules! status_table {
    ($($v:ident),*) => {
        fn status_code(name: &str) -> Option<u8> {
            match name { $(stringify!($v) => Some(ctap2::Error::$v as u8),)* _ => None }
        }
    };
}
status_table!(
    Success, InvalidCommand, InvalidParameter, InvalidLength, InvalidSeq, Timeout, ChannelBusy, LockRequired, InvalidChannel,
    CborUnexpectedType, InvalidCbor, MissingParameter, LimitExceeded, UnsupportedExtension, FingerprintDatabaseFull,
    LargeBlobStorageFull, CredentialExcluded, Processing, InvalidCredential, UserActionPending, OperationPending, NoOperations,
    UnsupportedAlgorithm, OperationDenied, KeyStoreFull, NotBusy, NoOperationPending, UnsupportedOption, InvalidOption,
    KeepaliveCancel, NoCredentials, UserActionTimeout, NotAllowed, PinInvalid, PinBlocked, PinAuthInvalid, PinAuthBlocked, PinNotSet,
    PinRequired, PinPolicyViolation, PinTokenExpired, RequestTooLarge, ActionTimeout, UpRequired, UvBlocked, IntegrityFailure,
    InvalidSubcommand, UvInvalid, UnauthorizedPermission, Other, SpecLast, ExtensionFirst, ExtensionLast, VendorFirst, VendorLast
);

fn ident(kind: &str, arg: &str) -> String {
    use ctap2::client_pin::Permissions as P;
    use ctap2::AuthenticatorDataFlags as F;
    match kind {
        "credprotect" => match cm::CredentialProtectionPolicy::try_from(u8::from_str_radix(arg, 16).unwrap_or(0)) {
            Ok(v) => format!("ok {:?}", v),
            Err(e) => format!("err {:?}", e),
        },
        "control" => match ctap1::ControlByte::try_from(u8::from_str_radix(arg, 16).unwrap_or(0)) {
            Ok(v) => format!("ok {:?} {:x}", v, v as u8),
            Err(e) => format!("err {:?}", e),
        },
        "status" => match status_code(arg) {
            Some(c) => format!("ok {:x}", c),
            None => "unknown-name".into(),
        },
        "perm" => {
            let b = match arg {
                "MAKE_CREDENTIAL" => P::MAKE_CREDENTIAL,
                "GET_ASSERTION" => P::GET_ASSERTION,
                "CREDENTIAL_MANAGEMENT" => P::CREDENTIAL_MANAGEMENT,
                "BIO_ENROLLMENT" => P::BIO_ENROLLMENT,
                "LARGE_BLOB_WRITE" => P::LARGE_BLOB_WRITE,
                "AUTHENTICATOR_CONFIGURATION" => P::AUTHENTICATOR_CONFIGURATION,
                _ => return "unknown-name".into(),
            };
            format!("ok {:x}", b.bits())
        }
        "flag" => {
            let b = match arg {
                "USER_PRESENCE" => F::USER_PRESENCE,
                "USER_VERIFIED" => F::USER_VERIFIED,
                "ATTESTED_CREDENTIAL_DATA" => F::ATTESTED_CREDENTIAL_DATA,
                "EXTENSION_DATA" => F::EXTENSION_DATA,
                _ => return "unknown-name".into(),
            };
            format!("ok {:x}", b.bits())
        }
        _ => "unknown-op".into(),
    }
}

// ------------------------------------------------------------------ dispatch (C10): recording mock authenticators
struct Beh {
    err2: Option<ctap2::Error>,
    err1: Option<ctap1::Error>,
    log: Vec<String>,
}
fn status_from(code: u8) -> ctap2::Error {
    // a handful of distinct errors
    match code {
        0x01 => ctap2::Error::InvalidCommand,
        0x02 => ctap2::Error::InvalidParameter,
        0x2e => ctap2::Error::NoCredentials,
        0x31 => ctap2::Error::PinInvalid,
        0x27 => ctap2::Error::OperationDenied,
        0x7f => ctap2::Error::Other,
        _ => ctap2::Error::InvalidLength,
    }
}
fn mk_ga() -> ga::Response {
    // every member the harness can set is set: the dispatcher must hand the handler's response back unchanged
    let mut r = ga::ResponseBuilder {
        credential: wa::PublicKeyCredentialDescriptor { id: Bytes::from_slice(&[1, 2, 3]).unwrap(), key_type: HString::from("public-key") },
        auth_data: Bytes::from_slice(&[9; 37]).unwrap(),
        signature: Bytes::from_slice(&[7; 8]).unwrap(),
    }
    .build();
    r.user = Some(wa::PublicKeyCredentialUserEntity::from(Bytes::from_slice(&[5, 6]).unwrap()));
    r.number_of_credentials = Some(2);
    r.user_selected = Some(true);
    r.large_blob_key = Some(serde_bytes::ByteArray::new([4; 32]));
    r
}
fn mk_mc() -> mc::Response {
    // a packed statement with every member the harness can set: the dispatcher must hand the handler's response back unchanged,
    // whatever the request asked for (attestation preferences, enterprise attestation, options)
    let mut r = mc::ResponseBuilder { fmt: ctap2::AttestationStatementFormat::Packed, auth_data: Bytes::from_slice(&[8; 40]).unwrap() }.build();
    let mut x5c = HVec::new();
    x5c.push(Bytes::from_slice(&[0x30, 0x03, 1, 2, 3]).unwrap()).ok();
    r.att_stmt = Some(ctap2::AttestationStatement::Packed(ctap2::PackedAttestationStatement { alg: -7, sig: Bytes::from_slice(&[6; 9]).unwrap(), x5c: Some(x5c) }));
    r.ep_att = Some(true);
    r.large_blob_key = Some(serde_bytes::ByteArray::new([3; 32]));
    r
}
fn mk_cp() -> client_pin::Response {
    let mut r = client_pin::Response::default();
    r.pin_token = Some(Bytes::from_slice(&[2; 32]).unwrap());
    r.retries = Some(8);
    r.power_cycle_state = Some(false);
    r.uv_retries = Some(3);
    r
}
fn mk_cm() -> cm::Response {
    let mut r = cm::Response::default();
    r.existing_resident_credentials_count = Some(1);
    r.max_possible_remaining_residential_credentials_count = Some(24);
    r.rp_id_hash = Some(serde_bytes::ByteArray::new([1; 32]));
    r.total_rps = Some(2);
    r.user = Some(wa::PublicKeyCredentialUserEntity::from(Bytes::from_slice(&[5, 6]).unwrap()));
    r.credential_id = Some(wa::PublicKeyCredentialDescriptor { id: Bytes::from_slice(&[1, 2, 3]).unwrap(), key_type: HString::from("public-key") });
    r.total_credentials = Some(3);
    r.large_blob_key = Some(serde_bytes::ByteArray::new([4; 32]));
    r
}
fn mk_gi() -> gi::Response {
    let mut r = gi::Response::default();
    r.aaguid = Bytes::from_slice(&[7; 16]).unwrap();
    r.max_msg_size = Some(1200);
    r.max_creds_in_list = Some(10);
    r.max_cred_id_length = Some(255);
    r
}
macro_rules! mock_impl {
    ($name:ident, {$($lb:tt)*}, {$($c1:tt)*}) => {
        struct $name(Beh);
        impl ctap2::Authenticator for $name {
            fn get_info(&mut self) -> gi::Response {
                self.0.log.push("get_info".into());
                mk_gi()
            }
            fn make_credential(&mut self, request: &mc::Request) -> ctap2::Result<mc::Response> {
                self.0.log.push(format!("make_credential {:?}", request));
                match self.0.err2 { Some(e) => Err(e), None => Ok(mk_mc()) }
            }
            fn get_assertion(&mut self, request: &ga::Request) -> ctap2::Result<ga::Response> {
                self.0.log.push(format!("get_assertion {:?}", request));
                match self.0.err2 { Some(e) => Err(e), None => Ok(mk_ga()) }
            }
            fn get_next_assertion(&mut self) -> ctap2::Result<ga::Response> {
                self.0.log.push("get_next_assertion".into());
                match self.0.err2 { Some(e) => Err(e), None => Ok(mk_ga()) }
            }
            fn reset(&mut self) -> ctap2::Result<()> {
                self.0.log.push("reset".into());
                match self.0.err2 { Some(e) => Err(e), None => Ok(()) }
            }
            fn client_pin(&mut self, request: &client_pin::Request) -> ctap2::Result<client_pin::Response> {
                self.0.log.push(format!("client_pin {:?}", request));
                match self.0.err2 { Some(e) => Err(e), None => Ok(mk_cp()) }
            }
            fn credential_management(&mut self, request: &cm::Request) -> ctap2::Result<cm::Response> {
                self.0.log.push(format!("credential_management {:?}", request));
                match self.0.err2 { Some(e) => Err(e), None => Ok(mk_cm()) }
            }
            fn selection(&mut self) -> ctap2::Result<()> {
                self.0.log.push("selection".into());
                match self.0.err2 { Some(e) => Err(e), None => Ok(()) }
            }
            fn vendor(&mut self, op: ctap2::VendorOperation) -> ctap2::Result<()> {
                self.0.log.push(format!("vendor {:x}", u8::from(op)));
                match self.0.err2 { Some(e) => Err(e), None => Ok(()) }
            }
            $($lb)*
        }
        impl ctap1::Authenticator for $name {
            fn register(&mut self, request: &ctap1::register::Request<'_>) -> ctap1::Result<ctap1::register::Response> {
                self.0.log.push(format!("register {:?}", request));
                match self.0.err1 {
                    Some(e) => Err(e),
                    None => Ok(ctap1::register::Response { header_byte: 5, public_key: Bytes::new(), key_handle: Bytes::new(), attestation_certificate: Bytes::new(), signature: Bytes::new() }),
                }
            }
            fn authenticate(&mut self, request: &ctap1::authenticate::Request<'_>) -> ctap1::Result<ctap1::authenticate::Response> {
                self.0.log.push(format!("authenticate {:?}", request));
                match self.0.err1 {
                    Some(e) => Err(e),
                    None => Ok(ctap1::authenticate::Response { user_presence: 1, count: 7, signature: Bytes::new() }),
                }
            }
            $($c1)*
        }
    };
}
mock_impl!(MockDefault, {}, {});
mock_impl!(MockLb, {
    fn large_blobs(&mut self, request: &lb::Request) -> ctap2::Result<lb::Response> {
        self.0.log.push(format!("large_blobs {:?}", request));
        match self.0.err2 { Some(e) => Err(e), None => Ok(lb::Response::default()) }
    }
}, {});
// an authenticator that overrides the provided version() handler: the Version command must reach it
mock_impl!(MockVer, {}, {
    fn version() -> [u8; 6] {
        *b"U2F_V3"
    }
});
// an authenticator that overrides the protocol-specific entry points themselves (e.g. to refuse everything while locked):
// the generic Rpc::call must go through the override
mock_impl!(MockOver, {
    fn call_ctap2(&mut self, _request: &ctap2::Request) -> ctap2::Result<ctap2::Response> {
        self.0.log.push("call_ctap2-override".into());
        Err(ctap2::Error::OperationDenied)
    }
}, {
    fn call_ctap1(&mut self, _request: &ctap1::Request<'_>) -> ctap1::Result<ctap1::Response> {
        self.0.log.push("call_ctap1-override".into());
        Err(ctap1::Error::ConditionsOfUseNotSatisfied)
    }
});

fn resp2_name(r: &ctap2::Response) -> &'static str {
    use ctap2::Response::*;
    match r {
        MakeCredential(_) => "MakeCredential",
        GetAssertion(_) => "GetAssertion",
        GetNextAssertion(_) => "GetNextAssertion",
        GetInfo(_) => "GetInfo",
        ClientPin(_) => "ClientPin",
        Reset => "Reset",
        Selection => "Selection",
        CredentialManagement(_) => "CredentialManagement",
        LargeBlobs(_) => "LargeBlobs",
        Vendor => "Vendor",
        _ => "unknown",
    }
}

fn expected_param(r: &ctap2::Request) -> String {
    use ctap2::Request::*;
    match r {
        MakeCredential(x) => format!("make_credential {:?}", x),
        GetAssertion(x) => format!("get_assertion {:?}", x),
        ClientPin(x) => format!("client_pin {:?}", x),
        CredentialManagement(x) => format!("credential_management {:?}", x),
        LargeBlobs(x) => format!("large_blobs {:?}", x),
        GetNextAssertion => "get_next_assertion".into(),
        GetInfo => "get_info".into(),
        Reset => "reset".into(),
        Selection => "selection".into(),
        Vendor(op) => format!("vendor {:x}", u8::from(*op)),
        _ => "?".into(),
    }
}

fn dispatch2(entry: &str, beh: &str, lb_override: &str, data: &[u8]) -> String {
    use ctap2::Authenticator;
    use ctap_types::Rpc;
    // a leading 0xFF byte marks "construct Request::Vendor(code) directly" (codes the decoder never yields)
    let req = if data.len() == 2 && data[0] == 0xff {
        match ctap2::VendorOperation::try_from(data[1]) {
            Ok(op) => ctap2::Request::Vendor(op),
            Err(_) => return "not-a-vendor-code".into(),
        }
    } else {
        match ctap2::Request::deserialize(data) {
            Ok(r) => r,
            Err(e) => return format!("undecodable {:02x}", e as u8),
        }
    };
    let err2 = beh.strip_prefix("err:").map(|c| status_from(u8::from_str_radix(c, 16).unwrap_or(0)));
    let b = Beh { err2, err1: None, log: vec![] };
    let (res, log) = if lb_override == "1" {
        let mut m = MockLb(b);
        let r = if entry == "rpc" { Rpc::call(&mut m, &req) } else { m.call_ctap2(&req) };
        (r, m.0.log)
    } else {
        let mut m = MockDefault(b);
        let r = if entry == "rpc" { Rpc::call(&mut m, &req) } else { m.call_ctap2(&req) };
        (r, m.0.log)
    };
    if entry == "rpc" {
        let mut o = MockOver(Beh { err2: None, err1: None, log: vec![] });
        let r = Rpc::call(&mut o, &req);
        if o.0.log != ["call_ctap2-override"] || !matches!(r, Err(ctap2::Error::OperationDenied)) {
            return format!("generic entry point does not go through an overriding call_ctap2: log={}", o.0.log.iter().map(|l| l.split(' ').next().unwrap_or("")).collect::<Vec<_>>().join(","));
        }
    }
    // the same call through a borrowed handle (`&mut &mut A`, as obtained from Option<&mut A>::as_mut() or iter_mut()): method
    // resolution must end at the same handlers (a forwarding impl for `&mut A` that forgets a provided method would not)
    {
        let bh = Beh { err2, err1: None, log: vec![] };
        let (rh, logh) = if lb_override == "1" {
            let mut m = MockLb(bh);
            let mut r1 = &mut m;
            let h: &mut &mut MockLb = &mut r1;
            let r = if entry == "rpc" { h.call(&req) } else { h.call_ctap2(&req) };
            (r, m.0.log)
        } else {
            let mut m = MockDefault(bh);
            let mut r1 = &mut m;
            let h: &mut &mut MockDefault = &mut r1;
            let r = if entry == "rpc" { h.call(&req) } else { h.call_ctap2(&req) };
            (r, m.0.log)
        };
        let show = |r: &ctap2::Result<ctap2::Response>| match r {
            Ok(r) => format!("ok:{}", resp2_name(r)),
            Err(e) => format!("err:{:x}", *e as u8),
        };
        if logh != log || show(&rh) != show(&res) {
            return format!(
                "the call through a borrowed handle differs: log={} result={} (direct: log={} result={})",
                logh.iter().map(|l| l.split(' ').next().unwrap_or("")).collect::<Vec<_>>().join(","),
                show(&rh),
                log.iter().map(|l| l.split(' ').next().unwrap_or("")).collect::<Vec<_>>().join(","),
                show(&res)
            );
        }
    }
    let names: Vec<&str> = log.iter().map(|l| l.split(' ').next().unwrap_or("")).collect();
    let same = log.iter().all(|l| *l == expected_param(&req));
    // the response is the handler's, unchanged (the assertion handlers return a response with every member set)
    let altered = match &res {
        Ok(ctap2::Response::GetAssertion(x)) | Ok(ctap2::Response::GetNextAssertion(x)) => *x != mk_ga(),
        Ok(ctap2::Response::MakeCredential(x)) => *x != mk_mc(),
        Ok(ctap2::Response::ClientPin(x)) => *x != mk_cp(),
        Ok(ctap2::Response::CredentialManagement(x)) => *x != mk_cm(),
        Ok(ctap2::Response::GetInfo(x)) => *x != mk_gi(),
        _ => false,
    };
    if altered {
        return "the dispatcher altered the response the handler returned".into();
    }
    let r = match &res {
        Ok(r) => format!("ok:{}", resp2_name(r)),
        Err(e) => format!("err:{:x}", *e as u8),
    };
    format!("log={} result={} same={}", names.join(","), r, same)
}

fn dispatch1(entry: &str, beh: &str, raw: &[u8]) -> String {
    use ctap1::Authenticator;
    use ctap_types::Rpc;
    let view = match iso7816::command::CommandView::try_from(raw) {
        Ok(v) => v,
        Err(e) => return format!("apduerr {:?}", e),
    };
    let req = match ctap1::Request::try_from(view) {
        Ok(r) => r,
        Err(e) => return format!("unconvertible {:?}", e),
    };
    let err1 = if let Some(d) = beh.strip_prefix("errd:") {
        // a status constructed directly (not through u16): Name or Name(n)
        let (name, arg) = match d.split_once('(') {
            Some((n, a)) => (n, a.trim_end_matches(')').parse::<u8>().ok()),
            None => (d, None),
        };
        Some(match (name, arg) {
            ("ErrorTriggering", Some(n)) => ctap1::Error::ErrorTriggering(n),
            ("WarningTriggering", Some(n)) => ctap1::Error::WarningTriggering(n),
            ("RemainingRetries", Some(n)) => ctap1::Error::RemainingRetries(n),
            ("MoreAvailable", Some(n)) => ctap1::Error::MoreAvailable(n),
            ("WrongLeField", Some(n)) => ctap1::Error::WrongLeField(n),
            ("SecurityStatusNotSatisfied", _) => ctap1::Error::SecurityStatusNotSatisfied,
            ("KeyReferenceNotFound", _) => ctap1::Error::KeyReferenceNotFound,
            ("NotEnoughMemory", _) => ctap1::Error::NotEnoughMemory,
            _ => return "unbuildable status".into(),
        })
    } else if beh.starts_with("err:") {
        Some(match &beh[4..] {
            "6985" => ctap1::Error::ConditionsOfUseNotSatisfied,
            "6a80" => ctap1::Error::IncorrectDataParameter,
            _ => ctap1::Error::UnspecifiedCheckingError,
        })
    } else {
        None
    };
    let mut m = MockDefault(Beh { err2: None, err1, log: vec![] });
    if entry == "rpc" {
        let mut o = MockOver(Beh { err2: None, err1: None, log: vec![] });
        let r = Rpc::call(&mut o, &req);
        if o.0.log != ["call_ctap1-override"] || !matches!(r, Err(ctap1::Error::ConditionsOfUseNotSatisfied)) {
            return format!("generic entry point does not go through an overriding call_ctap1: log={}", o.0.log.iter().map(|l| l.split(' ').next().unwrap_or("")).collect::<Vec<_>>().join(","));
        }
    }
    let res = if entry == "rpc" { Rpc::call(&mut m, &req) } else { m.call_ctap1(&req) };
    if matches!(req, ctap1::Request::Version) {
        let mut mv = MockVer(Beh { err2: None, err1: None, log: vec![] });
        let rv = if entry == "rpc" { Rpc::call(&mut mv, &req) } else { mv.call_ctap1(&req) };
        if !matches!(rv, Ok(ctap1::Response::Version(v)) if &v == b"U2F_V3") {
            return "the Version command did not reach the authenticator's own version() handler".into();
        }
    }
    {
        let mut mh = MockDefault(Beh { err2: None, err1, log: vec![] });
        let mut r1 = &mut mh;
        let h: &mut &mut MockDefault = &mut r1;
        let rh = if entry == "rpc" { h.call(&req) } else { h.call_ctap1(&req) };
        if mh.0.log != m.0.log || format!("{:?}", rh) != format!("{:?}", res) {
            return format!("the call through a borrowed handle differs: log={:?} result={:?}", mh.0.log.len(), rh.is_ok());
        }
    }
    let names: Vec<&str> = m.0.log.iter().map(|l| l.split(' ').next().unwrap_or("")).collect();
    let expected = match &req {
        ctap1::Request::Register(r) => format!("register {:?}", r),
        ctap1::Request::Authenticate(a) => format!("authenticate {:?}", a),
        ctap1::Request::Version => String::new(),
    };
    let same = m.0.log.iter().all(|l| *l == expected);
    let r = match &res {
        Ok(ctap1::Response::Register(_)) => "ok:Register".to_string(),
        Ok(ctap1::Response::Authenticate(_)) => "ok:Authenticate".to_string(),
        Ok(ctap1::Response::Version(v)) => format!("ok:Version:{}", hex(v)),
        Err(e) => format!("err:{:?}", e),
    };
    format!("log={} result={} same={}", names.join(","), r, same)
}

#[cfg(feature = "arbitrary")]
fn arb(t: &str, data: &[u8]) -> String {
    use arbitrary::{Arbitrary, Unstructured};
    let mut u = Unstructured::new(data);
    fn fin<T: ToVal>(r: arbitrary::Result<T>, u: &Unstructured) -> String {
        match r {
            Ok(v) => format!("ok {} rest={}", v.to_val().show(), u.len()),
            Err(e) => format!("err {:?}", e),
        }
    }
    match t {
        "rp" => {
            let r = wa::PublicKeyCredentialRpEntity::arbitrary(&mut u);
            fin(r, &u)
        }
        "user" => {
            let r = wa::PublicKeyCredentialUserEntity::arbitrary(&mut u);
            fin(r, &u)
        }
        "hmac" => {
            let r = ga::HmacSecretInput::arbitrary(&mut u);
            fin(r, &u)
        }
        "filtered" => {
            let r = wa::FilteredPublicKeyCredentialParameters::arbitrary(&mut u);
            fin(r, &u)
        }
        "subparams" => {
            let r = cm::SubcommandParameters::arbitrary(&mut u);
            fin(r, &u)
        }
        "descref" => {
            let r = wa::PublicKeyCredentialDescriptorRef::arbitrary(&mut u);
            fin(r, &u)
        }
        _ => "unknown-type".into(),
    }
}
#[cfg(not(feature = "arbitrary"))]
fn arb(_t: &str, _data: &[u8]) -> String {
    "feature-off".into()
}

/// `T::arbitrary` of a named type (request types, their nested structures and enumerations): value and bytes left
#[cfg(feature = "arbitrary")]
fn arbty(t: &str, data: &[u8]) -> String {
    use arbitrary::{Arbitrary, Unstructured};
    let mut u = Unstructured::new(data);
    macro_rules! go {
        ($ty:ty) => {{
            let r = <$ty>::arbitrary(&mut u);
            match r {
                Ok(v) => format!("ok {} rest={} valid=1", v.to_val().show(), u.len()),
                Err(e) => format!("err {:?}", e),
            }
        }};
    }
    match t {
        "ctap2::make_credential::Request" => go!(mc::Request),
        "ctap2::get_assertion::Request" => go!(ga::Request),
        "ctap2::client_pin::Request" => go!(client_pin::Request),
        "ctap2::credential_management::Request" => go!(cm::Request),
        "ctap2::large_blobs::Request" => go!(lb::Request),
        "ctap2::make_credential::Extensions" => go!(mc::Extensions),
        "ctap2::get_assertion::ExtensionsInput" => go!(ga::ExtensionsInput),
        "ctap2::get_assertion::HmacSecretInput" => go!(ga::HmacSecretInput),
        "ctap2::AuthenticatorOptions" => go!(ctap2::AuthenticatorOptions),
        "ctap2::AttestationFormatsPreference" => go!(ctap2::AttestationFormatsPreference),
        "ctap2::AttestationStatementFormat" => go!(ctap2::AttestationStatementFormat),
        "ctap2::client_pin::PinV1Subcommand" => go!(client_pin::PinV1Subcommand),
        "ctap2::credential_management::Subcommand" => go!(cm::Subcommand),
        "ctap2::credential_management::SubcommandParameters" => go!(cm::SubcommandParameters),
        "webauthn::PublicKeyCredentialRpEntity" => go!(wa::PublicKeyCredentialRpEntity),
        "webauthn::PublicKeyCredentialUserEntity" => go!(wa::PublicKeyCredentialUserEntity),
        "webauthn::PublicKeyCredentialDescriptorRef" => go!(wa::PublicKeyCredentialDescriptorRef),
        "webauthn::FilteredPublicKeyCredentialParameters" => go!(wa::FilteredPublicKeyCredentialParameters),
        "ctap1::register::Request" => match ctap1::register::Request::arbitrary(&mut u) {
            Ok(r) => format!(
                "ok {} rest={} valid=1",
                Val::Rec(vec![("challenge".into(), Val::Bytes(r.challenge.to_vec())), ("app_id".into(), Val::Bytes(r.app_id.to_vec()))]).show(),
                u.len()
            ),
            Err(e) => format!("err {:?}", e),
        },
        "ctap1::authenticate::Request" => match ctap1::authenticate::Request::arbitrary(&mut u) {
            Ok(r) => format!(
                "ok {} rest={} valid=1",
                Val::Rec(vec![
                    ("control_byte".into(), Val::Enum(format!("{:?}", r.control_byte))),
                    ("challenge".into(), Val::Bytes(r.challenge.to_vec())),
                    ("app_id".into(), Val::Bytes(r.app_id.to_vec())),
                    ("key_handle".into(), Val::Bytes(r.key_handle.to_vec())),
                ])
                .show(),
                u.len()
            ),
            Err(e) => format!("err {:?}", e),
        },
        _ => "unknown-type".into(),
    }
}
#[cfg(not(feature = "arbitrary"))]
fn arbty(_t: &str, _data: &[u8]) -> String {
    "feature-off".into()
}

/// the three request enumerations: variant and payload as generated, and the bytes left
#[cfg(feature = "arbitrary")]
fn arbtop(kind: &str, data: &[u8]) -> String {
    use arbitrary::{Arbitrary, Unstructured};
    let mut u = Unstructured::new(data);
    fn c1(r: &ctap1::Request) -> String {
        match r {
            ctap1::Request::Register(x) => format!(
                "v:Register({})",
                Val::Rec(vec![("challenge".into(), Val::Bytes(x.challenge.to_vec())), ("app_id".into(), Val::Bytes(x.app_id.to_vec()))]).show()
            ),
            ctap1::Request::Authenticate(x) => format!(
                "v:Authenticate({})",
                Val::Rec(vec![
                    ("control_byte".into(), Val::Enum(format!("{:?}", x.control_byte))),
                    ("challenge".into(), Val::Bytes(x.challenge.to_vec())),
                    ("app_id".into(), Val::Bytes(x.app_id.to_vec())),
                    ("key_handle".into(), Val::Bytes(x.key_handle.to_vec())),
                ])
                .show()
            ),
            ctap1::Request::Version => "e:Version".into(),
        }
    }
    let shown = match kind {
        "ctap2" => ctap2::Request::arbitrary(&mut u).map(|r| request_to_string(&r)),
        "ctap1" => ctap1::Request::arbitrary(&mut u).map(|r| c1(&r)),
        _ => ctap_types::authenticator::Request::arbitrary(&mut u).map(|r| match &r {
            ctap_types::authenticator::Request::Ctap1(x) => format!("Ctap1:{}", c1(x)),
            ctap_types::authenticator::Request::Ctap2(x) => format!("Ctap2:{}", request_to_string(x)),
        }),
    };
    match shown {
        Ok(s) => format!("ok {} rest={}", s, u.len()),
        Err(e) => format!("err {:?}", e),
    }
}
#[cfg(not(feature = "arbitrary"))]
fn arbtop(_k: &str, _d: &[u8]) -> String {
    "feature-off".into()
}

/// generate a request from raw bytes and exercise it: format, clone, compare, dispatch
#[cfg(feature = "arbitrary")]
fn arbreq(kind: &str, data: &[u8]) -> String {
    use arbitrary::{Arbitrary, Unstructured};
    use ctap1::Authenticator as _;
    use ctap2::Authenticator as _;
    let mut u = Unstructured::new(data);
    let mk = || Beh { err2: None, err1: None, log: vec![] };
    match kind {
        "ctap2" => match ctap2::Request::arbitrary(&mut u) {
            Ok(r) => {
                let d = format!("{:?}", r);
                let c = r.clone();
                let eq = c == r;
                let mut m = MockLb(mk());
                let _ = m.call_ctap2(&r);
                format!("ok valid eq={} debug_len_nonzero={} calls={}", eq, !d.is_empty(), m.0.log.len())
            }
            Err(e) => format!("err {:?}", e),
        },
        "ctap1" => match ctap1::Request::arbitrary(&mut u) {
            Ok(r) => {
                let d = format!("{:?}", r);
                let c = r.clone();
                let eq = c == r;
                let mut m = MockLb(mk());
                let _ = m.call_ctap1(&r);
                format!("ok valid eq={} debug_len_nonzero={} calls={}", eq, !d.is_empty(), m.0.log.len())
            }
            Err(e) => format!("err {:?}", e),
        },
        _ => match ctap_types::authenticator::Request::arbitrary(&mut u) {
            Ok(r) => {
                let d = format!("{:?}", r);
                let c = r.clone();
                let eq = c == r;
                let mut m = MockLb(mk());
                match &r {
                    ctap_types::authenticator::Request::Ctap1(x) => {
                        let _ = m.call_ctap1(x);
                    }
                    ctap_types::authenticator::Request::Ctap2(x) => {
                        let _ = m.call_ctap2(x);
                    }
                }
                format!("ok valid eq={} debug_len_nonzero={} calls={}", eq, !d.is_empty(), m.0.log.len())
            }
            Err(e) => format!("err {:?}", e),
        },
    }
}
#[cfg(not(feature = "arbitrary"))]
fn arbreq(_k: &str, _d: &[u8]) -> String {
    "feature-off".into()
}

fn run(op: &str, a: &[&str]) -> String {
    match (op, a.len()) {
        ("arb", 2) => arb(a[0], &opt_hex(a[1])),
        ("arbreq", 2) => arbreq(a[0], &opt_hex(a[1])),
        ("arbty", 2) => arbty(a[0], &opt_hex(a[1])),
        ("arbtop", 2) => arbtop(a[0], &opt_hex(a[1])),
        ("dec2", 1) => {
            let data = unhex(a[0]);
            let out = match ctap2::Request::deserialize(&data) {
                Ok(r) => format!("ok {}", request_to_string(&r)),
                Err(e) => format!("err {:02x}", e as u8),
            };
            out
        }
        ("decty", 2) => decty_only(a[0], &unhex(a[1])),
        ("encty", 2) => match Val::parse(a[1]) {
            Ok(v) => with_type!(a[0], encty, &v),
            Err(e) => format!("unparsable {e}"),
        },
        ("rtv", 2) => match Val::parse(a[1]) {
            Ok(v) => with_type!(a[0], rtv, &v),
            Err(e) => format!("unparsable {e}"),
        },
        ("reser", 2) => {
            let data = unhex(a[1]);
            with_de_type!(a[0], reser, &data)
        }
        ("enc2", 4) => enc2(a[0], a[1].parse().unwrap_or(usize::MAX), &opt_hex(a[2]), a[3]),
        ("authdata", 6) => authdata(
            a[0],
            &unhex(a[1]),
            u8::from_str_radix(a[2], 16).unwrap_or(0),
            u32::from_str_radix(a[3], 16).unwrap_or(0),
            a[4],
            a[5],
        ),
        ("apdu", 1) => apdu(&unhex(a[0])),
        ("u2fser", 8) => u2fser(a[0].parse().unwrap_or(usize::MAX), &opt_hex(a[1]), a[2], &a[3..]),
        ("u2fnew", 2) => {
            let x = Bytes::<32>::from_slice(&opt_hex(a[0]));
            let y = Bytes::<32>::from_slice(&opt_hex(a[1]));
            match (x, y) {
                (Ok(x), Ok(y)) => {
                    let r = ctap1::register::Response::new(0, &cosey::EcdhEsHkdf256PublicKey { x, y }, Bytes::new(), Bytes::new(), Bytes::new());
                    format!("ok {}", hex(&r.public_key))
                }
                _ => "unbuildable coordinate longer than 32".into(),
            }
        }
        ("ident", 2) => ident(a[0], a[1]),
        ("dispatch2", 4) => dispatch2(a[0], a[1], a[2], &unhex(a[3])),
        ("dispatch1", 3) => dispatch1(a[0], a[1], &unhex(a[2])),
        ("optab", 1) => optab(u8::from_str_radix(a[0], 16).unwrap_or(0)),
        _ => "unknown-op".into(),
    }
}

/// answers not yet written, the id of the line being run and the instant it started: shared with the watchdog thread
struct Pending {
    buf: Vec<u8>,
    current: String,
    since: std::time::Instant,
    lines_done: u64,
}

fn main() {
    std::panic::set_hook(Box::new(|_| {}));
    // with the crate's logging compiled in, the arguments of a log statement are evaluated only when the level passes the filter
    #[cfg(feature = "log-all")]
    log::set_max_level(log::LevelFilter::Trace);
    // a case that does not return (non-terminating loop) cannot be interrupted from inside; a watchdog thread writes the answers
    // collected so far, answers `hang` for the line being run and ends the process with exit code 97: the caller re-runs the rest
    let limit = std::env::var("VERIF_LINE_TIMEOUT").ok().and_then(|s| s.parse::<u64>().ok()).unwrap_or(20);
    let pending = std::sync::Arc::new(std::sync::Mutex::new(Pending { buf: Vec::with_capacity(1 << 20), current: String::new(), since: std::time::Instant::now(), lines_done: 0 }));
    {
        let pending = pending.clone();
        std::thread::spawn(move || loop {
            std::thread::sleep(std::time::Duration::from_millis(500));
            let mut p = pending.lock().unwrap();
            if !p.current.is_empty() && p.since.elapsed().as_secs() >= limit {
                let id = p.current.clone();
                p.buf.extend_from_slice(format!("{}\thang\n", id).as_bytes());
                let so = std::io::stdout();
                let mut so = so.lock();
                so.write_all(&p.buf).ok();
                so.flush().ok();
                std::process::exit(97);
            }
        });
    }
    let stdin = std::io::stdin();
    for line in stdin.lock().lines() {
        let line = match line {
            Ok(l) => l,
            Err(_) => break,
        };
        let mut it = line.split('\t');
        let (id, op) = match (it.next(), it.next()) {
            (Some(i), Some(o)) => (i, o),
            _ => continue,
        };
        let args: Vec<&str> = it.collect();
        {
            let mut p = pending.lock().unwrap();
            p.current = id.to_string();
            p.since = std::time::Instant::now();
        }
        let ans = match catch_unwind(AssertUnwindSafe(|| run(op, &args))) {
            Ok(s) => s,
            Err(p) => {
                let msg = p.downcast_ref::<String>().cloned().or_else(|| p.downcast_ref::<&str>().map(|s| s.to_string())).unwrap_or_default();
                format!("panic {}", msg.replace(['\t', '\n'], " "))
            }
        };
        let mut p = pending.lock().unwrap();
        p.current.clear();
        p.lines_done += 1;
        p.buf.extend_from_slice(format!("{}\t{}\n", id, ans).as_bytes());
        if p.buf.len() >= (1 << 20) {
            let so = std::io::stdout();
            let mut so = so.lock();
            so.write_all(&p.buf).ok();
            p.buf.clear();
        }
    }
    let p = pending.lock().unwrap();
    let so = std::io::stdout();
    let mut so = so.lock();
    so.write_all(&p.buf).ok();
    so.flush().ok();
}
