(* The limits the property C12 lists, as (declaration, member, expected wire type) triples. *)
From Ctap Require Export Base Schema Tables.
Local Open Scope string_scope.
Local Open Scope Z_scope.

Definition limits : list (string * string * ty) := [
  (n_user, "id", TBytesCap 64);                      (* user id: 64 bytes *)
  (n_rp, "id", TStrCap 256);                         (* relying-party id: 256 bytes *)
  (n_user, "icon", TOpt (TStrCap 128));              (* user icon: 128 bytes, dropped beyond *)
  (n_user, "name", TOpt (TStrCap 64));
  (n_user, "display_name", TOpt (TStrCap 64));
  (n_rp, "name", TOpt (TStrCap 64));
  (n_params, "key_type", TStrCap 32);                (* algorithm-parameter type strings: 32 bytes *)
  (n_params, "alg", TI32);                           (* algorithm identifiers: 32-bit signed *)
  (n_ga_req, "allow_list", TOpt (TVec (TNamed n_descref) 10));   (* allow list: 10 entries *)
  (n_mc_req, "exclude_list", TOpt (TVec (TNamed n_descref) 16)); (* exclude list: 16 entries *)
  (n_ga_hmac, "salt_enc", TBytesCap 80);             (* hmac-secret salt: 80 bytes *)
  (n_ga_hmac, "salt_auth", TBytesCap 32);            (* salt authentication: 32 bytes *)
  (n_cm_params, "rp_id_hash", TOpt (TByteArrRef 32));(* relying-party id hash: exactly 32 bytes *)
  (n_cp_req, "pin_protocol", TU8);                   (* 8-bit parameters *)
  (n_cp_req, "permissions", TOpt TU8);
  (n_cm_req, "pin_protocol", TOpt TU8);
  (n_mc_ext, "cred_protect", TOpt TU8);
  (n_mc_req, "pin_protocol", TOpt TU32);             (* 32-bit parameters *)
  (n_mc_req, "enterprise_attestation", TOpt TU32);
  (n_ga_req, "pin_protocol", TOpt TU32);
  (n_ga_req, "enterprise_attestation", TOpt TU32);
  (n_ga_hmac, "pin_protocol", TOpt TU32);
  (n_lb_req, "get", TOpt TU32);
  (n_lb_req, "offset", TU32);
  (n_lb_req, "length", TOpt TU32);
  (n_lb_req, "pin_uv_auth_protocol", TOpt TU32) ].

Definition member_ty (e : env) (decl member : string) : option ty :=
  match lookup e decl with
  | Some (DStruct _ _ _ fs) =>
      match find (fun fd => String.eqb (f_label fd) member) fs with
      | Some fd => Some (f_ty fd)
      | None => None
      end
  | _ => None
  end.

Definition limits_hold (e : env) : bool :=
  forallb (fun p => match p with (d, m, t) =>
                      match member_ty e d m with Some t' => ty_eqb t t' | None => false end end) limits.

(* types that can be both encoded and decoded *)
Definition bidirectional (e : env) : list string :=
  map fst (filter (fun p => match snd p with
                            | DStruct _ s d _ | DStrEnum s d _ _ | DRepr _ s d _ | DCustom _ s d _ => s && d
                            | _ => false end) e).

Definition spec_bidirectional (f : feats) : list string :=
  ([ n_rp; n_user; n_filtered; n_params; n_desc; n_descref; n_options; n_attfmt;
    n_cp_sub; n_cp_req; n_cp_resp; n_cm_policy; n_cm_sub; n_cm_params; n_cm_req;
    n_ga_hmac; n_ga_extin; n_ga_extout; n_ga_ueo; n_gi_resp; n_gi_version; n_gi_ext; n_gi_transport; n_gi_options ]
  ++ (if has_feat f "get-info-full" then [n_gi_certs] else [])
  ++ [ n_lb_req; n_lb_resp; n_mc_ext; n_cose_ecdh ])%list.
