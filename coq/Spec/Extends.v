(* "Features only add members": the environment under a larger feature set extends the one under a
   smaller set - every member keeps its key, wire type, optionality and relative order; members that
   appear are optional on decode and skipped when unset on encode; capacities only grow. *)
From Ctap Require Export Base Schema.
Local Open Scope Z_scope.

Fixpoint ty_le (a b : ty) : bool :=
  match a, b with
  | TBytesCap n, TBytesCap m | TStrCap n, TStrCap m => n <=? m
  | TVec t n, TVec u m => ty_le t u && (n <=? m)
  | TOpt t, TOpt u | TRef t, TRef u => ty_le t u
  | _, _ => ty_eqb a b
  end.

Definition field_le (a b : field) : bool :=
  String.eqb (f_label a) (f_label b) && key_eqb (f_key a) (f_key b)
  && list_eqb String.eqb (f_aliases a) (f_aliases b) && ty_le (f_ty a) (f_ty b)
  && Bool.eqb (f_opt a) (f_opt b) && Bool.eqb (f_skip_none a) (f_skip_none b)
  && Bool.eqb (f_skip_ser a) (f_skip_ser b) && Bool.eqb (f_default a) (f_default b)
  && opt_str_eqb (f_with a) (f_with b).

(* a member that exists only in the larger configuration: optional both ways *)
Definition added_ok (b : field) : bool := f_opt b && (f_skip_none b || f_skip_ser b).

Fixpoint fields_extend (fs fs' : list field) : bool :=
  match fs' with
  | [] => match fs with [] => true | _ => false end
  | b :: r' =>
      match fs with
      | [] => added_ok b && fields_extend [] r'
      | a :: r => if String.eqb (f_label a) (f_label b)
                  then field_le a b && fields_extend r r'
                  else added_ok b && fields_extend fs r'
      end
  end.

Definition decl_extends (a b : decl) : bool :=
  match a, b with
  | DStruct i s d fs, DStruct i' s' d' fs' =>
      Bool.eqb i i' && Bool.eqb s s' && Bool.eqb d d' && fields_extend fs fs'
  | _, _ => decl_eqb a b
  end.

Definition env_extends (e e' : env) : bool :=
  forallb (fun p => match lookup e' (fst p) with
                    | Some d' => decl_extends (snd p) d'
                    | None => false end) e.

Definition subset_feats (f f' : feats) : bool := forallb (fun x => smem x f') f.

Definition all_pairs_extend (envf : feats -> env) : bool :=
  forallb (fun f => forallb (fun f' => if subset_feats f f' then env_extends (envf f) (envf f') else true) all_feats) all_feats.

(* std / arbitrary (and any feature that is not wire-affecting) change nothing *)
Definition wire_part (f : feats) : feats := filter (fun x => smem x wire_feature_names) f.
Definition nonwire_irrelevant (envf : feats -> env) : bool :=
  forallb (fun f => env_eqb (envf f) (envf (wire_part f))) all_feats.
