(* Shapes of the procedural functions of ctap-types that coq/Model/{Procs,Typed,Utf8,Arb}.v model BY HAND: the
   sequence of literals, operators, calls, macros, control flow and constant paths of each body, as it was when
   the hand model was written and compared.  coq/Gen/Shapes.v holds the same for the source as it is now; the
   obligations (coq/Obligations/ObShape*.v) require them to be equal, so that a change to one of these bodies
   is noticed by the kernel even if no generated input happens to expose it. *)
From Coq Require Import List String Bool.
Import ListNotations.
Local Open Scope string_scope.

Fixpoint sl_eqb (a b : list string) : bool :=
  match a, b with
  | [], [] => true
  | x :: a', y :: b' => String.eqb x y && sl_eqb a' b'
  | _, _ => false
  end.

Fixpoint shape_of (name : string) (l : list (string * list string)) : option (list string) :=
  match l with
  | [] => None
  | (n, s) :: r => if String.eqb n name then Some s else shape_of name r
  end.

(* every function of [spec] has exactly the recorded shape in [gen] *)
Definition shapes_hold (gen spec : list (string * list string)) : bool :=
  forallb (fun p => match shape_of (fst p) gen with Some s => sl_eqb s (snd p) | None => false end) spec.

Definition shapes_request : list (string * list string) := [
  ("ctap2::Request::deserialize", ["if"; ".is_empty"; "return"; "call Err"; "call CtapMappingError::ParsingError"; "path Error::DeserializeUnexpectedEnd"; ".into"; "?"; ".split_first"; ".ok_or"; "call CtapMappingError::ParsingError"; "path Error::DeserializeUnexpectedEnd"; "?"; "call Operation::try_from"; ".map_err"; "closure"; "pat _"; "call CtapMappingError::InvalidCommand"; "call Ok"; "match"; "pat Operation::MakeCredential"; "call Request::MakeCredential"; "?"; "call cbor_deserialize"; ".map_err"; "path CtapMappingError::ParsingError"; "pat Operation::GetAssertion"; "call Request::GetAssertion"; "?"; "call cbor_deserialize"; ".map_err"; "path CtapMappingError::ParsingError"; "pat Operation::GetNextAssertion"; "path Request::GetNextAssertion"; "pat |"; "pat Operation::CredentialManagement"; "pat Operation::PreviewCredentialManagement"; "call Request::CredentialManagement"; "?"; "call cbor_deserialize"; ".map_err"; "path CtapMappingError::ParsingError"; "pat Operation::Reset"; "path Request::Reset"; "pat Operation::Selection"; "path Request::Selection"; "pat Operation::GetInfo"; "path Request::GetInfo"; "pat Operation::ClientPin"; "call Request::ClientPin"; "?"; "call cbor_deserialize"; ".map_err"; "path CtapMappingError::ParsingError"; "pat Operation::LargeBlobs"; "call Request::LargeBlobs"; "?"; "call cbor_deserialize"; ".map_err"; "path CtapMappingError::ParsingError"; "pat Operation::Vendor"; "call Request::Vendor"; "pat |"; "pat Operation::BioEnrollment"; "pat Operation::PreviewBioEnrollment"; "pat Operation::Config"; "return"; "call Err"; "call CtapMappingError::InvalidCommand"; ".into"]);
  ("ctap2::From<CtapMappingError> for Error::from", ["match"; "pat CtapMappingError::InvalidCommand"; "path Error::InvalidCommand"; "pat CtapMappingError::ParsingError"; "match"; "pat Error::SerdeMissingField"; "path Error::MissingParameter"; "pat _"; "path Error::InvalidCbor"])
].

Definition shapes_response : list (string * list string) := [
  ("ctap2::Response::serialize", [".resize_default"; ".capacity"; ".ok"; ".split_first_mut"; ".unwrap"; "match"; "pat GetInfo"; "call cbor_serialize"; "pat MakeCredential"; "call cbor_serialize"; "pat ClientPin"; "call cbor_serialize"; "pat |"; "pat GetAssertion"; "pat GetNextAssertion"; "call cbor_serialize"; "pat CredentialManagement"; "call cbor_serialize"; "pat LargeBlobs"; "call cbor_serialize"; "pat |"; "call Ok"; ".as_slice"; "if"; "iflet"; "pat Ok"; "assign"; "un *"; "int 0"; "if"; "op =="; "int 160"; ".resize_default"; "int 1"; ".ok"; ".len"; ".resize_default"; "op +"; "int 1"; ".ok"; "assign"; "un *"; "as u8"; "path Error::Other"; ".resize_default"; "int 1"; ".ok"])
].

Definition shapes_authdata : list (string * list string) := [
  ("ctap2::AuthenticatorData::serialize", ["call SerializedAuthenticatorData::new"; "?"; ".extend_from_slice"; ".map_err"; "closure"; "pat _"; "path Error::Other"; "?"; ".push"; ".bits"; ".map_err"; "closure"; "pat _"; "path Error::Other"; "?"; ".extend_from_slice"; ".to_be_bytes"; ".map_err"; "closure"; "pat _"; "path Error::Other"; "if"; "iflet"; "pat Some"; "?"; ".serialize"; "if"; "iflet"; "pat Some"; ".as_ref"; "?"; "call cbor_smol::cbor_serialize_to"; ".map_err"; "closure"; "pat _"; "path Error::Other"; "call Ok"]);
  ("ctap2::make_credential::SerializeAttestedCredentialData for AttestedCredentialData::serialize", ["?"; ".extend_from_slice"; ".map_err"; "closure"; "pat _"; "path Error::Other"; "?"; "call u16::try_from"; ".len"; ".map_err"; "closure"; "pat _"; "path Error::Other"; "?"; ".extend_from_slice"; ".to_be_bytes"; ".map_err"; "closure"; "pat _"; "path Error::Other"; "?"; ".extend_from_slice"; ".map_err"; "closure"; "pat _"; "path Error::Other"; "?"; ".extend_from_slice"; ".map_err"; "closure"; "pat _"; "path Error::Other"; "call Ok"]);
  ("ctap2::get_assertion::SerializeAttestedCredentialData for NoAttestedCredentialData::serialize", ["call Ok"])
].

Definition shapes_u2f_parse : list (string * list string) := [
  ("ctap1::TryFrom<u8> for ControlByte::try_from", ["match"; "int 7"; "call Ok"; "path ControlByte::CheckOnly"; "int 3"; "call Ok"; "path ControlByte::EnforceUserPresenceAndSign"; "int 8"; "call Ok"; "path ControlByte::DontEnforceUserPresenceAndSign"; "pat _"; "call Err"; "path Error::IncorrectDataParameter"]);
  ("ctap1::TryFrom<&'aiso7816::Command<S>> for Request::try_from", [".as_view"; ".try_into"]);
  ("ctap1::TryFrom<iso7816::command::CommandView<'a>> for Request::try_from", [".class"; ".into_inner"; "match"; ".instruction"; "pat Instruction::Unknown"; "int 0"; "if"; "op !="; "int 0"; "return"; "call Err"; "path Error::ClassNotSupported"; "if"; "op =="; "int 3"; "return"; "call Ok"; "path Request::Version"; ".data"; "match"; "int 1"; "if"; ".len"; "op !="; "int 64"; "return"; "call Err"; "path Error::IncorrectDataParameter"; "call Ok"; "call Request::Register"; "struct Register"; "index"; "range .."; "int 32"; ".try_into"; ".unwrap"; "index"; "range .."; "int 32"; ".try_into"; ".unwrap"; "int 2"; "?"; "call ControlByte::try_from"; "if"; ".len"; "op <"; "int 65"; "return"; "call Err"; "path Error::IncorrectDataParameter"; "as usize"; "index"; "int 64"; "if"; ".len"; "op !="; "int 65"; "op +"; "return"; "call Err"; "path Error::IncorrectDataParameter"; "call Ok"; "call Request::Authenticate"; "struct Authenticate"; "index"; "range .."; "int 32"; ".try_into"; ".unwrap"; "index"; "range .."; "int 32"; "int 64"; ".try_into"; ".unwrap"; "index"; "range .."; "int 65"; "int 3"; "call Ok"; "path Request::Version"; "pat _"; "call Err"; "path Error::InstructionNotSupportedOrInvalid"])
].

Definition shapes_u2f_ser : list (string * list string) := [
  ("ctap1::Response::serialize", ["match"; "pat Response::Register"; "?"; ".push"; ".map_err"; "?"; ".extend_from_slice"; "?"; ".push"; "as u8"; ".len"; ".map_err"; "?"; ".extend_from_slice"; "?"; ".extend_from_slice"; ".extend_from_slice"; "pat Response::Authenticate"; "?"; ".push"; ".map_err"; "?"; ".extend_from_slice"; ".to_be_bytes"; ".extend_from_slice"; "pat Response::Version"; ".extend_from_slice"]);
  ("ctap1::register::Response::new", ["call Bytes::new"; ".push"; "int 4"; ".unwrap"; ".extend_from_slice"; ".unwrap"; ".extend_from_slice"; ".unwrap"; "struct Self"])
].

Definition shapes_strings : list (string * list string) := [
  ("webauthn::truncate", ["call floor_char_boundary"; "path L"; "call String::new"; ".push_str"; "index"; "range .."; ".unwrap"]);
  ("webauthn::floor_char_boundary", ["if"; "op >="; ".len"; ".len"; ".saturating_sub"; "int 3"; "index"; ".as_bytes"; "range ..="; ".iter"; ".rposition"; "closure"; "call is_utf8_char_boundary"; "un *"; "unsafe"; "op +"; ".unwrap_unchecked"]);
  ("webauthn::is_utf8_char_boundary", ["as i8"; "op >="; "un -"; "int 64"]);
  ("webauthn::deserialize_from_str_and_truncate", ["?"; "call Deserialize::deserialize"; "call Ok"; ".map"]);
  ("webauthn::deserialize_from_str_and_skip_if_too_long", ["?"; "call Deserialize::deserialize"; "match"; ".parse"; "pat Ok"; "call Ok"; "call Some"; "pat Err"; "call Ok"; "path None"]);
  ("webauthn::Deserialize<'de> for Icon::deserialize", ["?"; "call Deserialize::deserialize"; "call Ok"; "path Self"])
].

Definition shapes_filters : list (string * list string) := [
  ("webauthn::Deserialize<'de> for FilteredPublicKeyCredentialParameters::deserialize", ["fn expecting"; ".write_str"; "str a sequence"; "fn visit_seq"; "call FilteredPublicKeyCredentialParameters"; "call Default::default"; "while"; "iflet"; "pat Some"; "?"; ".next_element"; "pat Ok"; ".try_into"; "continue"; ".push"; ".ok"; "call Ok"; ".deserialize_seq"; "path ValueVisitor"]);
  ("webauthn::Serialize for FilteredPublicKeyCredentialParameters::serialize", ["?"; ".serialize_seq"; "call Some"; ".len"; "for"; ".clone"; ".into"; "?"; ".serialize_element"; ".end"]);
  ("webauthn::TryFrom<PublicKeyCredentialParameters> for KnownPublicKeyCredentialParameters::try_from", ["if"; "op !="; "str public-key"; "call Err"; "path UnknownPKCredentialParam::UnknownType"; "if"; "path KNOWN_ALGS"; ".contains"; "call Ok"; "struct Self"; "call Err"; "path UnknownPKCredentialParam::UnknownAlg"]);
  ("webauthn::From<KnownPublicKeyCredentialParameters> for PublicKeyCredentialParameters::from", ["struct Self"; "call String::from"; "str public-key"]);
  ("ctap2::Deserialize<'de> for AttestationFormatsPreference::deserialize", ["fn expecting"; ".write_str"; "str a sequence"; "fn visit_seq"; "call AttestationFormatsPreference::default"; "while"; "iflet"; "pat Some"; "?"; ".next_element"; "if"; "iflet"; "pat Ok"; "call AttestationStatementFormat::try_from"; ".push"; ".ok"; "assign"; "bool true"; "call Ok"; ".deserialize_seq"; "path ValueVisitor"])
].

Definition shapes_dispatch : list (string * list string) := [
  ("ctap1::trait Authenticator::version", ["un *"; "bytes 5532465f5632"]);
  ("ctap1::trait Authenticator::call_ctap1", ["match"; "pat Request::Register"; "call Ok"; "call Response::Register"; "?"; ".register"; "pat Request::Authenticate"; "call Ok"; "call Response::Authenticate"; "?"; ".authenticate"; "pat Request::Version"; "call Ok"; "call Response::Version"; "call Self::version"]);
  ("ctap1::Rpc<Error,Request<'_>,Response> for A::call", [".call_ctap1"]);
  ("ctap2::trait Authenticator::large_blobs", ["pat _"; "call Err"; "path Error::InvalidCommand"]);
  ("ctap2::trait Authenticator::call_ctap2", ["match"; "pat Request::GetInfo"; "call Ok"; "call Response::GetInfo"; ".get_info"; "pat Request::MakeCredential"; "call Ok"; "call Response::MakeCredential"; "?"; ".make_credential"; ".inspect_err"; "closure"; "pat Request::GetAssertion"; "call Ok"; "call Response::GetAssertion"; "?"; ".get_assertion"; ".inspect_err"; "closure"; "pat Request::GetNextAssertion"; "call Ok"; "call Response::GetNextAssertion"; "?"; ".get_next_assertion"; ".inspect_err"; "closure"; "pat Request::Reset"; "?"; ".reset"; ".inspect_err"; "closure"; "call Ok"; "path Response::Reset"; "pat Request::ClientPin"; "call Ok"; "call Response::ClientPin"; "?"; ".client_pin"; ".inspect_err"; "closure"; "pat Request::CredentialManagement"; "call Ok"; "call Response::CredentialManagement"; "?"; ".credential_management"; ".inspect_err"; "closure"; "pat Request::Selection"; "?"; ".selection"; ".inspect_err"; "closure"; "call Ok"; "path Response::Selection"; "pat Request::LargeBlobs"; "call Ok"; "call Response::LargeBlobs"; "?"; ".large_blobs"; ".inspect_err"; "closure"; "pat Request::Vendor"; "?"; ".vendor"; "un *"; ".inspect_err"; "closure"; "call Ok"; "path Response::Vendor"]);
  ("ctap2::Rpc<Error,Request<'a>,Response> for A::call", [".call_ctap2"])
].

Definition shapes_arb : list (string * list string) := [
  ("arbitrary::arbitrary_byte_array", ["path N"; "?"; ".bytes"; "path N"; ".try_into"; ".unwrap"; "call Ok"; "unsafe"; "un *"; "as *constByteArray<N>"; "as *const[u8;N]"; "path N"]);
  ("arbitrary::arbitrary_bytes", ["?"; "call usize::arbitrary"; ".min"; "path N"; "call Ok"; "call Bytes::from_slice"; "?"; ".bytes"; ".unwrap"]);
  ("arbitrary::arbitrary_vec", ["call Vec::new"; "?"; ".arbitrary_loop"; "call Some"; "int 0"; "call Some"; "path N"; ".try_into"; ".unwrap"; "closure"; ".push"; "?"; ".arbitrary"; ".unwrap"; "call Ok"; "call ControlFlow::Continue"; "call Ok"]);
  ("arbitrary::arbitrary_str", ["?"; "call usize::arbitrary"; ".min"; "path N"; "match"; "call str::from_utf8"; "?"; ".peek_bytes"; ".ok_or"; "path Error::NotEnoughData"; "pat Ok"; "?"; ".bytes"; "call Ok"; ".try_into"; ".unwrap"; "pat Err"; ".valid_up_to"; "?"; ".bytes"; "unsafe"; "call str::from_utf8_unchecked"; "call Ok"; ".try_into"; ".unwrap"]);
  ("arbitrary::arbitrary_option", ["if"; "?"; "call bool::arbitrary"; "call f"; ".map"; "path Some"; "call Ok"; "path None"]);
  ("arbitrary::arbitrary_key", ["?"; "call arbitrary_bytes"; "?"; "call arbitrary_bytes"; "call Ok"; "struct EcdhEsHkdf256PublicKey"]);
  ("arbitrary::Arbitrary<'a> for ctap2::credential_management::SubcommandParameters::arbitrary", ["?"; "call arbitrary_option"; "?"; ".arbitrary"; "?"; ".arbitrary"; "call Ok"; "struct Self"]);
  ("arbitrary::Arbitrary<'a> for ctap2::get_assertion::HmacSecretInput::arbitrary", ["?"; "call arbitrary_key"; "?"; "call arbitrary_bytes"; "?"; "call arbitrary_bytes"; "?"; ".arbitrary"; "call Ok"; "struct Self"]);
  ("arbitrary::Arbitrary<'a> for webauthn::FilteredPublicKeyCredentialParameters::arbitrary", ["?"; "call arbitrary_vec"; "call Ok"; "call Self"]);
  ("arbitrary::Arbitrary<'a> for webauthn::KnownPublicKeyCredentialParameters::arbitrary", ["un *"; "?"; ".choose"; "path webauthn::KNOWN_ALGS"; "call Ok"; "struct Self"]);
  ("arbitrary::Arbitrary<'a> for webauthn::PublicKeyCredentialDescriptorRef::arbitrary", ["call Bytes::new"; "?"; ".arbitrary"; "?"; ".arbitrary"; "call Ok"; "struct Self"]);
  ("arbitrary::Arbitrary<'a> for webauthn::PublicKeyCredentialRpEntity::arbitrary", ["?"; "call arbitrary_str"; "if"; "?"; "call bool::arbitrary"; "call Some"; "?"; "call arbitrary_str"; "path None"; "?"; "call Arbitrary::arbitrary"; "call Ok"; "struct Self"]);
  ("arbitrary::Arbitrary<'a> for webauthn::PublicKeyCredentialUserEntity::arbitrary", ["?"; "call arbitrary_bytes"; "if"; "?"; "call bool::arbitrary"; "call Some"; "?"; "call arbitrary_str"; "path None"; "if"; "?"; "call bool::arbitrary"; "call Some"; "?"; "call arbitrary_str"; "path None"; "if"; "?"; "call bool::arbitrary"; "call Some"; "?"; "call arbitrary_str"; "path None"; "call Ok"; "struct Self"])
].

Definition shapes_tables_op : list (string * list string) := [
  ("operation::From<Operation> for u8::from", ["match"; "int 1"; "int 2"; "int 8"; "int 4"; "int 6"; "int 7"; "int 9"; "int 10"; "int 11"; "int 12"; "int 13"; "int 64"; "int 65"; "pat Vendor"; ".into"]);
  ("operation::Operation::into_u8", [".into"]);
  ("operation::TryFrom<u8> for VendorOperation::try_from", ["match"; "pat range"; "path Self::FIRST"; "path Self::LAST"; "call Ok"; "call VendorOperation"; "pat _"; "call Err"]);
  ("operation::From<VendorOperation> for u8::from", []);
  ("operation::TryFrom<u8> for Operation::try_from", ["call Ok"; "match"; "int 1"; "path MakeCredential"; "int 2"; "path GetAssertion"; "int 8"; "path GetNextAssertion"; "int 4"; "path GetInfo"; "int 6"; "path ClientPin"; "int 7"; "path Reset"; "int 9"; "path BioEnrollment"; "int 10"; "path CredentialManagement"; "int 11"; "path Selection"; "int 12"; "path LargeBlobs"; "int 13"; "path Config"; "int 64"; "path PreviewBioEnrollment"; "int 65"; "path PreviewCredentialManagement"; "pat range"; "path VendorOperation::FIRST"; "path VendorOperation::LAST"; "call Vendor"; "?"; "call VendorOperation::try_from"; "pat _"; "return"; "call Err"])
].

Definition shapes_tables_req : list (string * list string) := [
  ("ctap2::make_credential::TryFrom<u8> for CredentialProtectionPolicy::try_from", ["call Ok"; "match"; "int 1"; "path CredentialProtectionPolicy::Optional"; "int 2"; "path CredentialProtectionPolicy::OptionalWithCredentialIdList"; "int 3"; "path CredentialProtectionPolicy::Required"; "pat _"; "return"; "call Err"; "path Error::InvalidParameter"]);
  ("ctap2::From<AttestationStatementFormat> for &str::from", ["match"; "pat AttestationStatementFormat::None"; "path AttestationStatementFormat::NONE"; "pat AttestationStatementFormat::Packed"; "path AttestationStatementFormat::PACKED"]);
  ("ctap2::TryFrom<&str> for AttestationStatementFormat::try_from", ["match"; "pat Self::NONE"; "call Ok"; "path Self::None"; "pat Self::PACKED"; "call Ok"; "path Self::Packed"; "pat _"; "call Err"; "path TryFromStrError"])
].

Definition shapes_tables_info : list (string * list string) := [
  ("ctap2::get_info::From<Version> for &str::from", ["match"; "pat Version::Fido2_0"; "path Version::FIDO_2_0"; "pat Version::Fido2_1"; "path Version::FIDO_2_1"; "pat Version::Fido2_1Pre"; "path Version::FIDO_2_1_PRE"; "pat Version::U2fV2"; "path Version::U2F_V2"]);
  ("ctap2::get_info::TryFrom<&str> for Version::try_from", ["match"; "pat Self::FIDO_2_0"; "call Ok"; "path Self::Fido2_0"; "pat Self::FIDO_2_1"; "call Ok"; "path Self::Fido2_1"; "pat Self::FIDO_2_1_PRE"; "call Ok"; "path Self::Fido2_1Pre"; "pat Self::U2F_V2"; "call Ok"; "path Self::U2fV2"; "pat _"; "call Err"; "path TryFromStrError"]);
  ("ctap2::get_info::From<Extension> for &str::from", ["match"; "pat Extension::CredProtect"; "path Extension::CRED_PROTECT"; "pat Extension::HmacSecret"; "path Extension::HMAC_SECRET"; "pat Extension::LargeBlobKey"; "path Extension::LARGE_BLOB_KEY"; "pat Extension::ThirdPartyPayment"; "path Extension::THIRD_PARTY_PAYMENT"]);
  ("ctap2::get_info::TryFrom<&str> for Extension::try_from", ["match"; "pat Self::CRED_PROTECT"; "call Ok"; "path Self::CredProtect"; "pat Self::HMAC_SECRET"; "call Ok"; "path Self::HmacSecret"; "pat Self::LARGE_BLOB_KEY"; "call Ok"; "path Self::LargeBlobKey"; "pat Self::THIRD_PARTY_PAYMENT"; "call Ok"; "path Self::ThirdPartyPayment"; "pat _"; "call Err"; "path TryFromStrError"]);
  ("ctap2::get_info::From<Transport> for &str::from", ["match"; "pat Transport::Nfc"; "path Transport::NFC"; "pat Transport::Usb"; "path Transport::USB"]);
  ("ctap2::get_info::TryFrom<&str> for Transport::try_from", ["match"; "pat Self::NFC"; "call Ok"; "path Self::Nfc"; "pat Self::USB"; "call Ok"; "path Self::Usb"; "pat _"; "call Err"; "path TryFromStrError"])
].

Definition shapes_accessors : list (string * list string) := [
  ("ctap2::AttestationFormatsPreference::known_formats", []);
  ("ctap2::AttestationFormatsPreference::includes_unknown_formats", []);
  ("webauthn::PublicKeyCredentialUserEntity::from", ["struct Self"; "path None"; "path None"; "path None"]);
  ("webauthn::PublicKeyCredentialParameters::public_key_with_alg", ["struct Self"; "call String::from"; "str public-key"])
].

Definition shapes_builders : list (string * list string) := [
  ("ctap2::get_assertion::ResponseBuilder::build", ["struct Response"; "path None"; "path None"; "path None"; "path None"; "path None"; "path None"; "path None"]);
  ("ctap2::get_info::Default for Response::default", ["call Vec::new"; ".resize_default"; "int 16"; ".unwrap"; "call Bytes::from"; "struct ResponseBuilder"; "call Vec::new"; ".build"; "assign"; "call Some"; "call CtapOptions::default"]);
  ("ctap2::get_info::ResponseBuilder::build", ["struct Response"; "path None"; "path None"; "path None"; "path None"; "path None"; "path None"; "path None"; "path None"; "path None"; "path None"; "path None"; "path None"; "path None"; "path None"; "path None"; "path None"; "path None"; "path None"; "path None"; "path None"; "path None"; "path None"]);
  ("ctap2::get_info::Default for CtapOptions::default", ["struct Self"; "path None"; "bool false"; "bool true"; "path None"; "path None"; "path None"; "path None"; "path None"; "path None"; "path None"; "path None"; "path None"; "path None"; "path None"; "path None"; "path None"; "path None"; "path None"; "path None"]);
  ("ctap2::make_credential::ResponseBuilder::build", ["struct Response"; "path None"; "path None"; "path None"; "path None"])
].

Definition shapes_arb_requests : list (string * list string) := [
  ("arbitrary::Arbitrary<'a> for ctap1::authenticate::Request::arbitrary", ["?"; "call Arbitrary::arbitrary"; "?"; ".bytes"; "int 32"; ".try_into"; ".unwrap"; "?"; ".bytes"; "int 32"; ".try_into"; ".unwrap"; "?"; "call Arbitrary::arbitrary"; "call Ok"; "struct Self"]);
  ("arbitrary::Arbitrary<'a> for ctap1::register::Request::arbitrary", ["?"; ".bytes"; "int 32"; ".try_into"; ".unwrap"; "?"; ".bytes"; "int 32"; ".try_into"; ".unwrap"; "call Ok"; "struct Self"]);
  ("arbitrary::Arbitrary<'a> for ctap2::AttestationFormatsPreference::arbitrary", ["?"; "call arbitrary_vec"; "?"; ".arbitrary"; "call Ok"; "struct Self"]);
  ("arbitrary::Arbitrary<'a> for ctap2::client_pin::Request::arbitrary", ["?"; ".arbitrary"; "?"; ".arbitrary"; "?"; "call arbitrary_option"; "if"; "?"; "call bool::arbitrary"; "call Some"; "call Bytes::new"; "?"; ".arbitrary"; "path None"; "if"; "?"; "call bool::arbitrary"; "call Some"; "call Bytes::new"; "?"; ".arbitrary"; "path None"; "if"; "?"; "call bool::arbitrary"; "call Some"; "call Bytes::new"; "?"; ".arbitrary"; "path None"; "?"; ".arbitrary"; "?"; ".arbitrary"; "?"; ".arbitrary"; "?"; ".arbitrary"; "call Ok"; "struct Self"]);
  ("arbitrary::Arbitrary<'a> for ctap2::credential_management::Request::arbitrary", ["?"; ".arbitrary"; "?"; ".arbitrary"; "?"; ".arbitrary"; "if"; "?"; "call bool::arbitrary"; "call Some"; "call Bytes::new"; "?"; ".arbitrary"; "path None"; "call Ok"; "struct Self"]);
  ("arbitrary::Arbitrary<'a> for ctap2::get_assertion::Request::arbitrary", ["?"; ".arbitrary"; "call Bytes::new"; "?"; ".arbitrary"; "?"; "call arbitrary_option"; "?"; ".arbitrary"; "?"; ".arbitrary"; "if"; "?"; "call bool::arbitrary"; "call Some"; "call Bytes::new"; "?"; ".arbitrary"; "path None"; "?"; ".arbitrary"; "?"; ".arbitrary"; "?"; ".arbitrary"; "call Ok"; "struct Self"]);
  ("arbitrary::Arbitrary<'a> for ctap2::large_blobs::Request::arbitrary", ["?"; ".arbitrary"; "if"; "?"; "call bool::arbitrary"; "call Some"; "call Bytes::new"; "?"; ".arbitrary"; "path None"; "?"; ".arbitrary"; "?"; ".arbitrary"; "if"; "?"; "call bool::arbitrary"; "call Some"; "call Bytes::new"; "?"; ".arbitrary"; "path None"; "?"; ".arbitrary"; "call Ok"; "struct Self"]);
  ("arbitrary::Arbitrary<'a> for ctap2::make_credential::Request::arbitrary", ["call Bytes::new"; "?"; ".arbitrary"; "?"; ".arbitrary"; "?"; ".arbitrary"; "?"; ".arbitrary"; "?"; "call arbitrary_option"; "?"; ".arbitrary"; "?"; ".arbitrary"; "if"; "?"; "call bool::arbitrary"; "call Some"; "call Bytes::new"; "?"; ".arbitrary"; "path None"; "?"; ".arbitrary"; "?"; ".arbitrary"; "?"; ".arbitrary"; "call Ok"; "struct Self"])
].

