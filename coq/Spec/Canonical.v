(* CTAP2 canonical CBOR (CTAP 2.1 section 8; RFC 8949 4.2.3 "length-first" ordering):
   definite lengths, shortest heads, no tags/floats/undefined, no duplicate keys, map keys sorted:
   lower major type first, then shorter encoding, then bytewise. *)
From Ctap Require Export Base Schema Wire Typed.
Local Open Scope Z_scope.

Fixpoint lex_lt (a b : bytes) : bool :=
  match a, b with
  | [], [] => false
  | [], _ :: _ => true
  | _ :: _, [] => false
  | x :: a', y :: b' => if x <? y then true else if y <? x then false else lex_lt a' b'
  end.

(* strict canonical order on ENCODED keys *)
Definition enc_key_lt (a b : bytes) : bool :=
  match a, b with
  | x :: _, y :: _ =>
      if x / 32 <? y / 32 then true
      else if y / 32 <? x / 32 then false
      else if blen a <? blen b then true
      else if blen b <? blen a then false
      else lex_lt a b
  | _, _ => false
  end.

Definition key_lt (a b : key) : bool := enc_key_lt (ser_key a) (ser_key b).

(* every pair (i < j) in order *)
Fixpoint all_pairs {A} (lt : A -> A -> bool) (l : list A) : bool :=
  match l with
  | [] => true
  | x :: r => forallb (lt x) r && all_pairs lt r
  end.

Definition emitted_keys (fs : list field) : list key :=
  map f_key (filter (fun fd => negb (f_skip_ser fd)) fs).

(* declaration order is canonical order for every serialisable struct of the environment *)
Definition decl_order_canonical (e : env) : bool :=
  forallb (fun p => match snd p with
                    | DStruct _ true _ fs => all_pairs key_lt (emitted_keys fs)
                    | _ => true
                    end) e.

(* the COSE labels in the order cosey emits them *)
Definition cose_emit_order : list key := [KInt 1; KInt 3; KInt (-1); KInt (-2); KInt (-3)].
