(* The third-party crates the model represents BY HAND (modelled, not verified) and the versions it was written
   and compared against: the versions pinned in /repo/Cargo.lock (when the tree has one) and in the lock file of the
   correspondence harness, and the requirement lines of /repo/Cargo.toml.
   The translator regenerates both lists on every run; the obligation (coq/Obligations/ObDeps.v) requires that
   the pins are still these - a dependency bump makes every theorem about the modelled behaviour stale. *)
From Coq Require Import List String Bool.
Import ListNotations.
Local Open Scope string_scope.

Definition spec_lock_versions : list (string * string) := [
  ("cbor-smol", "0.5.1"); ("serde-indexed", "0.1.1"); ("serde", "1.0.229"); ("serde_derive", "1.0.229");
  ("serde_repr", "0.1.21"); ("serde_bytes", "0.11.19"); ("heapless", "0.7.17"); ("heapless-bytes", "0.3.0");
  ("cosey", "0.3.2"); ("iso7816", "0.1.4"); ("bitflags", "1.3.2"); ("arbitrary", "1.4.2")].

Definition spec_cargo_deps : list (string * string) := [
  ("arbitrary", "{ version = ""1.3.2"", features = [""derive""], optional = true }");
  ("bitflags", """1.3""");
  ("cbor-smol", "{ version = ""0.5"", features = [""heapless-bytes-v0-3""] }");
  ("cosey", """0.3.1""");
  ("heapless", "{ version = ""0.7"", default-features = false, features = [""serde""] }");
  ("heapless-bytes", """0.3""");
  ("iso7816", """0.1.3""");
  ("serde", "{ version = ""1"", default-features = false, features = [""derive""] }");
  ("serde-indexed", """0.1.1""");
  ("serde_bytes", "{ version = ""0.11.14"", default-features = false }");
  ("serde_repr", """0.1""")].

(* all versions of crate [n] that the lock file pins *)
Definition versions_of (n : string) (l : list (string * string)) : list string :=
  map snd (filter (fun p => String.eqb (fst p) n) l).

Fixpoint str_list_eqb (a b : list string) : bool :=
  match a, b with
  | [], [] => true
  | x :: a', y :: b' => String.eqb x y && str_list_eqb a' b'
  | _, _ => false
  end.

Fixpoint pairs_eqb (a b : list (string * string)) : bool :=
  match a, b with
  | [], [] => true
  | (x1, x2) :: a', (y1, y2) :: b' => String.eqb x1 y1 && String.eqb x2 y2 && pairs_eqb a' b'
  | _, _ => false
  end.

Definition lock_pins (lock : list (string * string)) : bool :=
  forallb (fun p => str_list_eqb (versions_of (fst p) lock) [snd p]) spec_lock_versions.

(* [hlock]: the lock file the correspondence harness is built with (always present: /verif/harness/Cargo.lock);
   [lock]: /repo/Cargo.lock, which upstream git-ignores - a tree without one pins nothing itself, and the pins that
   then matter are the harness's, which is what the differential run links *)
(* only the requirement lines of the MODELLED crates are pinned: a further dependency (or a change to one the model does not
   represent, such as the logging front end) is none of the model's business *)
(* the feature table of Cargo.toml: the five behaviour-relevant features are independent switches (none implies another, none is
   on by default) except that `arbitrary` implies `std`; a feature set f of the model means exactly the cfgs named in f *)
Definition spec_cargo_features : list (string * string) := [
  ("std", "[]"); ("arbitrary", "[""dep:arbitrary"", ""std""]"); ("get-info-full", "[]"); ("large-blobs", "[]");
  ("third-party-payment", "[]")].

Definition features_hold (feats : list (string * string)) : bool :=
  forallb (fun p => existsb (fun q => String.eqb (fst p) (fst q) && String.eqb (snd p) (snd q)) feats) spec_cargo_features
  && negb (existsb (fun q => String.eqb (fst q) "default") feats).

Definition deps_hold (repo_has_lock : bool) (lock hlock deps : list (string * string)) : bool :=
  lock_pins hlock
  && (if repo_has_lock then lock_pins lock else true)
  && forallb (fun p => existsb (fun q => String.eqb (fst p) (fst q) && String.eqb (snd p) (snd q)) deps) spec_cargo_deps.
