(* Specification of the table-shaped procedural code: command bytes (CTAP 2.1 section 6),
   status codes (section 8.2), U2F control bytes, authenticator-data flag bits (WebAuthn 6.1),
   PIN/UV auth token permission bits (CTAP 2.1 6.5.5.7), dispatch.  Independent of Gen. *)
From Ctap Require Export Base Schema Procs.
Local Open Scope string_scope.
Local Open Scope Z_scope.

Definition spec_status_codes : list (string * Z) := [
  ("Success", 0x00); ("InvalidCommand", 0x01); ("InvalidParameter", 0x02); ("InvalidLength", 0x03);
  ("InvalidSeq", 0x04); ("Timeout", 0x05); ("ChannelBusy", 0x06); ("LockRequired", 0x0A);
  ("InvalidChannel", 0x0B); ("CborUnexpectedType", 0x11); ("InvalidCbor", 0x12);
  ("MissingParameter", 0x14); ("LimitExceeded", 0x15); ("UnsupportedExtension", 0x16);
  ("FingerprintDatabaseFull", 0x17); ("LargeBlobStorageFull", 0x18); ("CredentialExcluded", 0x19);
  ("Processing", 0x21); ("InvalidCredential", 0x22); ("UserActionPending", 0x23);
  ("OperationPending", 0x24); ("NoOperations", 0x25); ("UnsupportedAlgorithm", 0x26);
  ("OperationDenied", 0x27); ("KeyStoreFull", 0x28); ("NotBusy", 0x29); ("NoOperationPending", 0x2A);
  ("UnsupportedOption", 0x2B); ("InvalidOption", 0x2C); ("KeepaliveCancel", 0x2D);
  ("NoCredentials", 0x2E); ("UserActionTimeout", 0x2F); ("NotAllowed", 0x30); ("PinInvalid", 0x31);
  ("PinBlocked", 0x32); ("PinAuthInvalid", 0x33); ("PinAuthBlocked", 0x34); ("PinNotSet", 0x35);
  ("PinRequired", 0x36); ("PinPolicyViolation", 0x37); ("PinTokenExpired", 0x38);
  ("RequestTooLarge", 0x39); ("ActionTimeout", 0x3A); ("UpRequired", 0x3B); ("UvBlocked", 0x3C);
  ("IntegrityFailure", 0x3D); ("InvalidSubcommand", 0x3E); ("UvInvalid", 0x3F);
  ("UnauthorizedPermission", 0x40); ("Other", 0x7F); ("SpecLast", 0xDF); ("ExtensionFirst", 0xE0);
  ("ExtensionLast", 0xEF); ("VendorFirst", 0xF0); ("VendorLast", 0xFF) ].

(* assigned command codes *)
Definition spec_commands : list (Z * string) := [
  (0x01, "MakeCredential"); (0x02, "GetAssertion"); (0x04, "GetInfo"); (0x06, "ClientPin");
  (0x07, "Reset"); (0x08, "GetNextAssertion"); (0x09, "BioEnrollment");
  (0x0A, "CredentialManagement"); (0x0B, "Selection"); (0x0C, "LargeBlobs"); (0x0D, "Config");
  (0x40, "PreviewBioEnrollment"); (0x41, "PreviewCredentialManagement") ].
Definition spec_vendor_first := 0x40.
Definition spec_vendor_last := 0x7F.

(* what the request decoder does with each operation *)
Inductive op_kind := OkDecode (variant : string) | OkUnit (variant : string) | OkVendor | OkReject.
Definition spec_op_kind (name : string) : op_kind :=
  if String.eqb name "MakeCredential" then OkDecode "MakeCredential"
  else if String.eqb name "GetAssertion" then OkDecode "GetAssertion"
  else if String.eqb name "ClientPin" then OkDecode "ClientPin"
  else if String.eqb name "CredentialManagement" then OkDecode "CredentialManagement"
  else if String.eqb name "PreviewCredentialManagement" then OkDecode "CredentialManagement"
  else if String.eqb name "LargeBlobs" then OkDecode "LargeBlobs"
  else if String.eqb name "GetInfo" then OkUnit "GetInfo"
  else if String.eqb name "GetNextAssertion" then OkUnit "GetNextAssertion"
  else if String.eqb name "Reset" then OkUnit "Reset"
  else if String.eqb name "Selection" then OkUnit "Selection"
  else OkReject.   (* BioEnrollment, PreviewBioEnrollment, Config: recognised, unsupported *)

Definition spec_tables : tables := {|
  t_op_try :=
    map (fun p => (MP_Int (fst p), MB_Var (snd p))) spec_commands
    ++ [ (MP_Range spec_vendor_first spec_vendor_last, MB_WrapTry "Vendor"); (MP_Wild, MB_Err "()") ];
  t_vendor_try := [ (MP_Range spec_vendor_first spec_vendor_last, MB_Wrap "VendorOperation");
                    (MP_Wild, MB_Err "()") ];
  t_op_into := map (fun p => (MP_Var (snd p), MB_Int (fst p))) spec_commands
               ++ [ (MP_Var "Vendor", MB_Other "passthrough") ];
  t_req_arms := [
    (MP_Var "MakeCredential", MB_Decode "MakeCredential");
    (MP_Var "GetAssertion", MB_Decode "GetAssertion");
    (MP_Var "GetNextAssertion", MB_Var "GetNextAssertion");
    (MP_Var "CredentialManagement", MB_Decode "CredentialManagement");
    (MP_Var "PreviewCredentialManagement", MB_Decode "CredentialManagement");
    (MP_Var "Reset", MB_Var "Reset");
    (MP_Var "Selection", MB_Var "Selection");
    (MP_Var "GetInfo", MB_Var "GetInfo");
    (MP_Var "ClientPin", MB_Decode "ClientPin");
    (MP_Var "LargeBlobs", MB_Decode "LargeBlobs");
    (MP_Var "Vendor", MB_Wrap "Vendor");
    (MP_Var "BioEnrollment", MB_Err "InvalidCommand");
    (MP_Var "PreviewBioEnrollment", MB_Err "InvalidCommand");
    (MP_Var "Config", MB_Err "InvalidCommand") ];
  t_req_variants := [
    ("MakeCredential", [TNamed "ctap2::make_credential::Request"]);
    ("GetAssertion", [TNamed "ctap2::get_assertion::Request"]);
    ("GetNextAssertion", []);
    ("GetInfo", []);
    ("ClientPin", [TNamed "ctap2::client_pin::Request"]);
    ("Reset", []);
    ("CredentialManagement", [TNamed "ctap2::credential_management::Request"]);
    ("Selection", []);
    ("LargeBlobs", [TNamed "ctap2::large_blobs::Request"]);
    ("Vendor", [TNamed "operation::VendorOperation"]) ];
  t_resp_arms := [
    (MP_Var "GetInfo", MB_Ser); (MP_Var "MakeCredential", MB_Ser); (MP_Var "ClientPin", MB_Ser);
    (MP_Var "GetAssertion", MB_Ser); (MP_Var "GetNextAssertion", MB_Ser);
    (MP_Var "CredentialManagement", MB_Ser); (MP_Var "LargeBlobs", MB_Ser);
    (MP_Var "Reset", MB_Other "empty"); (MP_Var "Selection", MB_Other "empty");
    (MP_Var "Vendor", MB_Other "empty") ];
  t_resp_variants := [
    ("MakeCredential", [TNamed "ctap2::make_credential::Response"]);
    ("GetAssertion", [TNamed "ctap2::get_assertion::Response"]);
    ("GetNextAssertion", [TNamed "ctap2::get_assertion::Response"]);
    ("GetInfo", [TNamed "ctap2::get_info::Response"]);
    ("ClientPin", [TNamed "ctap2::client_pin::Response"]);
    ("Reset", []);
    ("Selection", []);
    ("CredentialManagement", [TNamed "ctap2::credential_management::Response"]);
    ("LargeBlobs", [TNamed "ctap2::large_blobs::Response"]);
    ("Vendor", []) ];
  t_err_outer := [ (MP_Var "InvalidCommand", MB_Var "InvalidCommand"); (MP_Var "ParsingError", MB_Match) ];
  t_err_parsing := [ (MP_Var "SerdeMissingField", MB_Var "MissingParameter"); (MP_Wild, MB_Var "InvalidCbor") ];
  t_err_codes := spec_status_codes;
  t_call2 := [
    (MP_Var "GetInfo", MB_Call ["get_info"] "GetInfo" false);
    (MP_Var "MakeCredential", MB_Call ["make_credential"] "MakeCredential" true);
    (MP_Var "GetAssertion", MB_Call ["get_assertion"] "GetAssertion" true);
    (MP_Var "GetNextAssertion", MB_Call ["get_next_assertion"] "GetNextAssertion" true);
    (MP_Var "Reset", MB_Call ["reset"] "Reset" true);
    (MP_Var "ClientPin", MB_Call ["client_pin"] "ClientPin" true);
    (MP_Var "CredentialManagement", MB_Call ["credential_management"] "CredentialManagement" true);
    (MP_Var "Selection", MB_Call ["selection"] "Selection" true);
    (MP_Var "LargeBlobs", MB_Call ["large_blobs"] "LargeBlobs" true);
    (MP_Var "Vendor", MB_Call ["vendor"] "Vendor" true) ];
  t_call1 := [
    (MP_Var "Register", MB_Call ["register"] "Register" true);
    (MP_Var "Authenticate", MB_Call ["authenticate"] "Authenticate" true);
    (MP_Var "Version", MB_Other "version") ];
  t_control_try := [
    (MP_Int 0x07, MB_Var "CheckOnly");
    (MP_Int 0x03, MB_Var "EnforceUserPresenceAndSign");
    (MP_Int 0x08, MB_Var "DontEnforceUserPresenceAndSign");
    (MP_Wild, MB_Err "IncorrectDataParameter") ];
  t_control_codes := [ ("CheckOnly", 0x07); ("EnforceUserPresenceAndSign", 0x03);
                       ("DontEnforceUserPresenceAndSign", 0x08) ];
  t_credprotect_try := [
    (MP_Int 1, MB_Var "Optional"); (MP_Int 2, MB_Var "OptionalWithCredentialIdList");
    (MP_Int 3, MB_Var "Required"); (MP_Wild, MB_Err "InvalidParameter") ];
  t_flags := [ ("USER_PRESENCE", 0x01); ("USER_VERIFIED", 0x04);
               ("ATTESTED_CREDENTIAL_DATA", 0x40); ("EXTENSION_DATA", 0x80) ];
  t_permissions := [ ("MAKE_CREDENTIAL", 0x01); ("GET_ASSERTION", 0x02); ("CREDENTIAL_MANAGEMENT", 0x04);
                     ("BIO_ENROLLMENT", 0x08); ("LARGE_BLOB_WRITE", 0x10);
                     ("AUTHENTICATOR_CONFIGURATION", 0x20) ];
  t_authdata_len := 676;
  t_max_msg := 7609
|}%list.
