(* Abstract CBOR data items (RFC 8949) in definite-length form, with the head width of integers,
   tags and simple values left free (the skipper does not care) and lengths in shortest form. *)
From Ctap Require Export Base Wire.
Local Open Scope Z_scope.

(* head with an explicit width index: 0 -> in the initial byte, 1 -> 1 byte, 2 -> 2, 3 -> 4, 4 -> 8 *)
Definition head_w (maj : Z) (w : nat) (v : Z) : bytes :=
  match w with
  | O => [maj * 32 + v]
  | 1%nat => [maj * 32 + 24; v]
  | 2%nat => (maj * 32 + 25) :: be 2 v
  | 3%nat => (maj * 32 + 26) :: be 4 v
  | _ => (maj * 32 + 27) :: be 8 v
  end.

Definition width_ok (w : nat) (v : Z) : Prop :=
  match w with
  | O => 0 <= v <= 23
  | 1%nat => 0 <= v < 256
  | 2%nat => 0 <= v < 65536
  | 3%nat => 0 <= v < 4294967296
  | 4%nat => 0 <= v < 18446744073709551616
  | _ => False
  end.

Inductive item :=
| IInt (neg : bool) (w : nat) (v : Z)        (* major 0 / 1 *)
| IBytes (b : bytes)                          (* major 2 *)
| IText (b : bytes)                           (* major 3 (content not interpreted by the skipper) *)
| IArr (l : items)                            (* major 4 *)
| IMap (l : items)                            (* major 5: k1 v1 k2 v2 ... *)
| ITag (w : nat) (t : Z) (x : item)           (* major 6 *)
| ISimple (w : nat) (v : Z)                   (* major 7: simple values, half/single/double floats *)
with items :=
| INil
| ICons (x : item) (r : items).

Fixpoint icount (l : items) : Z :=
  match l with INil => 0 | ICons _ r => 1 + icount r end.

Fixpoint ienc (c : item) : bytes :=
  match c with
  | IInt neg w v => head_w (if neg then 1 else 0) w v
  | IBytes b => put_head 2 (blen b) ++ b
  | IText b => put_head 3 (blen b) ++ b
  | IArr l => put_head 4 (icount l) ++ ienc_items l
  | IMap l => put_head 5 (icount l / 2) ++ ienc_items l
  | ITag w t x => head_w 6 w t ++ ienc x
  | ISimple w v => head_w 7 w v
  end
with ienc_items (l : items) : bytes :=
  match l with
  | INil => []
  | ICons x r => ienc x ++ ienc_items r
  end.

Fixpoint iwf (c : item) : Prop :=
  match c with
  | IInt _ w v => width_ok w v
  | IBytes b | IText b => blen b < 4294967296
  | IArr l => icount l < 4294967296 /\ iwf_items l
  | IMap l => icount l mod 2 = 0 /\ icount l / 2 < 4294967296 /\ iwf_items l
  | ITag w t x => width_ok w t /\ iwf x
  | ISimple w v => width_ok w v
  end
with iwf_items (l : items) : Prop :=
  match l with
  | INil => True
  | ICons x r => iwf x /\ iwf_items r
  end.

(* fuel the skipper needs for an item: one unit per nesting level and per loop iteration *)
Fixpoint ifuel (c : item) : nat :=
  match c with
  | IArr l | IMap l => S (ifuel_items l)
  | ITag _ _ x => S (ifuel x)
  | _ => 1
  end
with ifuel_items (l : items) : nat :=
  match l with
  | INil => 0
  | ICons x r => S (Nat.max (ifuel x) (ifuel_items r))
  end.
