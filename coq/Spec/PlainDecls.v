(* Plain structures (no serde meaning of their own) whose member types the hand model nevertheless relies on: the two CTAP1
   requests and responses (exact-length arrays, capacities), the authenticator-data structures, the response builders.
   The translator regenerates their member lists; the obligations in coq/Obligations/ObPlain*.v require that they are the ones
   recorded here, in every feature set. *)
From Ctap Require Import Base Schema.
Local Open Scope string_scope.
Local Open Scope Z_scope.

Fixpoint find_plain (name : string) (l : list rdecl) : option rstruct :=
  match l with
  | [] => None
  | RStruct s :: r => if String.eqb (rs_name s) name then Some s else find_plain name r
  | _ :: r => find_plain name r
  end.

Definition plain_of (l : list (cfg * rdecl)) (f : feats) (name : string) : option (list (string * ty)) :=
  match find_plain name (strip f l) with
  | Some s => Some (map (fun r => (rf_name r, rf_ty r)) (live_fields f (rs_fields s)))
  | None => None
  end.

Definition members_eqb (a b : list (string * ty)) : bool := list_eqb (pair_eqb String.eqb ty_eqb) a b.

Definition plain_hold (decls : feats -> list (cfg * rdecl)) (recorded : list (string * list (string * ty))) : bool :=
  forallb (fun f => forallb (fun p => match plain_of (decls f) f (fst p) with
                                      | Some ms => members_eqb ms (snd p)
                                      | None => false end) recorded) all_feats.

Definition plain_u2f_requests : list (string * list (string * ty)) := [
  ("ctap1::register::Request", [("challenge", TArrRef 32); ("app_id", TArrRef 32)]);
  ("ctap1::authenticate::Request", [("control_byte", TNamed "ctap1::ControlByte"); ("challenge", TArrRef 32); ("app_id", TArrRef 32);
                                    ("key_handle", TSliceRef)])].

Definition plain_u2f_responses : list (string * list (string * ty)) := [
  ("ctap1::register::Response", [("header_byte", TU8); ("public_key", TBytesCap 65); ("key_handle", TBytesCap 255);
                                 ("attestation_certificate", TBytesCap 1024); ("signature", TBytesCap 72)]);
  ("ctap1::authenticate::Response", [("user_presence", TU8); ("count", TU32); ("signature", TBytesCap 72)])].

Definition plain_authdata : list (string * list (string * ty)) := [
  ("ctap2::AuthenticatorData", [("rp_id_hash", TArrRef 32); ("flags", TExt "AuthenticatorDataFlags"); ("sign_count", TU32);
                                ("attested_credential_data", TOpt (TExt "A")); ("extensions", TOpt (TExt "E"))]);
  ("ctap2::make_credential::AttestedCredentialData", [("aaguid", TSliceRef); ("credential_id", TSliceRef);
                                                      ("credential_public_key", TSliceRef)]);
  ("ctap2::get_assertion::NoAttestedCredentialData", [])].

Definition plain_builders : list (string * list (string * ty)) := [
  ("ctap2::make_credential::ResponseBuilder", [("fmt", TNamed "ctap2::AttestationStatementFormat"); ("auth_data", TBytesCap 676)]);
  ("ctap2::get_assertion::ResponseBuilder", [("credential", TNamed "webauthn::PublicKeyCredentialDescriptor");
                                             ("auth_data", TBytesCap 676); ("signature", TBytesCap 77)]);
  ("ctap2::get_info::ResponseBuilder", [("versions", TVec (TNamed "ctap2::get_info::Version") 4); ("aaguid", TBytesCap 16)])].

Definition plain_misc : list (string * list (string * ty)) := [
  ("operation::VendorOperation", [("0", TU8)]);
  ("webauthn::KnownPublicKeyCredentialParameters", [("alg", TI32)])].

(* the impls of the dispatch traits: only the three blanket impls exist, so a call on any handle to an authenticator resolves
   (by auto-deref) to the authenticator's own methods *)
Definition spec_dispatch_impls : list (string * string) := [
  ("authenticator::Authenticator", "<A:ctap1::Authenticator+ctap2::Authenticator> for A");
  ("ctap1::crate::Rpc<Error,Request<'_>,Response>", "<A:Authenticator> for A");
  ("ctap2::crate::Rpc<Error,Request<'a>,Response>", "<'a,A:Authenticator> for A")].

Definition dispatch_impls_hold (gen : list (string * string)) : bool :=
  list_eqb (pair_eqb String.eqb String.eqb) gen spec_dispatch_impls.

(* the variants of the three request enumerations, in declaration order (derive(Arbitrary) selects by index) *)
Fixpoint find_enum (name : string) (l : list rdecl) : option (list (string * cfg * list ty)) :=
  match l with
  | [] => None
  | REnum n _ _ _ vs :: r => if String.eqb n name then Some vs else find_enum name r
  | _ :: r => find_enum name r
  end.

Definition enum_variants (l : list (cfg * rdecl)) (f : feats) (name : string) : list (string * list ty) :=
  match find_enum name (strip f l) with
  | Some vs => flat_map (fun v => match v with (n, c, ts) => if cfg_eval f c then [(n, ts)] else [] end) vs
  | None => []
  end.

Definition ctap2_variants : list (string * list ty) :=
  [("MakeCredential", [TNamed "ctap2::make_credential::Request"]); ("GetAssertion", [TNamed "ctap2::get_assertion::Request"]);
   ("GetNextAssertion", []); ("GetInfo", []); ("ClientPin", [TNamed "ctap2::client_pin::Request"]); ("Reset", []);
   ("CredentialManagement", [TNamed "ctap2::credential_management::Request"]); ("Selection", []);
   ("LargeBlobs", [TNamed "ctap2::large_blobs::Request"]); ("Vendor", [TNamed "operation::VendorOperation"])].
Definition ctap1_variants : list (string * list ty) :=
  [("Register", [TNamed "ctap1::register::Request"]); ("Authenticate", [TNamed "ctap1::authenticate::Request"]); ("Version", [])].
Definition auth_variants : list (string * list ty) :=
  [("Ctap1", [TNamed "ctap1::Request"]); ("Ctap2", [TNamed "ctap2::Request"])].

Definition spec_request_enums : list (string * list (string * list ty)) :=
  [("ctap2::Request", ctap2_variants); ("ctap1::Request", ctap1_variants); ("authenticator::Request", auth_variants)].

Definition variants_eqb (a b : list (string * list ty)) : bool := list_eqb (pair_eqb String.eqb (list_eqb ty_eqb)) a b.

Definition request_enums_hold (decls : feats -> list (cfg * rdecl)) : bool :=
  forallb (fun f => forallb (fun p => variants_eqb (enum_variants (decls f) f (fst p)) (snd p)) spec_request_enums) all_feats.
