(* Specification tables, written by hand from the CTAP 2.0 / 2.1 / 2.2 authenticator API
   (parameter and response member tables), WebAuthn (entities, descriptors, extension
   identifiers), the U2F raw message formats and RFC 8949 section 4.2 / CTAP2 canonical CBOR.
   Nothing here depends on Gen/Generated.v.

   For each message or dictionary: wire key -> member (named by the crate's public field
   identifier, which is the API the values are observed through) -> wire type and capacity ->
   required or optional.  Members are listed in CTAP2 canonical key order, which is the order
   an encoder must emit them in. *)
From Ctap Require Export Base Schema.
Local Open Scope string_scope.
Local Open Scope Z_scope.

(* integer-keyed members *)
Definition ireq (k : Z) (l : string) (t : ty) : field :=
  {| f_label := l; f_key := KInt k; f_aliases := []; f_ty := t; f_opt := false;
     f_skip_none := false; f_skip_ser := false; f_default := false; f_with := None |}.
Definition iopt (k : Z) (l : string) (t : ty) : field :=
  {| f_label := l; f_key := KInt k; f_aliases := []; f_ty := TOpt t; f_opt := true;
     f_skip_none := true; f_skip_ser := false; f_default := false; f_with := None |}.
(* text-keyed members *)
Definition treq (key l : string) (t : ty) : field :=
  {| f_label := l; f_key := KText key; f_aliases := []; f_ty := t; f_opt := false;
     f_skip_none := false; f_skip_ser := false; f_default := false; f_with := None |}.
Definition topt (key l : string) (t : ty) : field :=
  {| f_label := l; f_key := KText key; f_aliases := []; f_ty := TOpt t; f_opt := true;
     f_skip_none := true; f_skip_ser := false; f_default := false; f_with := None |}.
(* optional text member decoded through one of the lossy helpers *)
Definition tlossy (key l : string) (t : ty) (helper : string) : field :=
  {| f_label := l; f_key := KText key; f_aliases := []; f_ty := TOpt t; f_opt := true;
     f_skip_none := true; f_skip_ser := false; f_default := true; f_with := Some helper |}.

Definition when (b : bool) {A} (l : list A) : list A := if b then l else [].

Definition n_rp := "webauthn::PublicKeyCredentialRpEntity".
Definition n_user := "webauthn::PublicKeyCredentialUserEntity".
Definition n_icon := "webauthn::Icon".
Definition n_params := "webauthn::PublicKeyCredentialParameters".
Definition n_filtered := "webauthn::FilteredPublicKeyCredentialParameters".
Definition n_desc := "webauthn::PublicKeyCredentialDescriptor".
Definition n_descref := "webauthn::PublicKeyCredentialDescriptorRef".
Definition n_options := "ctap2::AuthenticatorOptions".
Definition n_attfmt := "ctap2::AttestationStatementFormat".
Definition n_attpref := "ctap2::AttestationFormatsPreference".
Definition n_attstmt := "ctap2::AttestationStatement".
Definition n_none_att := "ctap2::NoneAttestationStatement".
Definition n_packed_att := "ctap2::PackedAttestationStatement".
Definition n_mc_req := "ctap2::make_credential::Request".
Definition n_mc_resp := "ctap2::make_credential::Response".
Definition n_mc_ext := "ctap2::make_credential::Extensions".
Definition n_mc_ueo := "ctap2::make_credential::UnsignedExtensionOutputs".
Definition n_ga_req := "ctap2::get_assertion::Request".
Definition n_ga_resp := "ctap2::get_assertion::Response".
Definition n_ga_extin := "ctap2::get_assertion::ExtensionsInput".
Definition n_ga_extout := "ctap2::get_assertion::ExtensionsOutput".
Definition n_ga_hmac := "ctap2::get_assertion::HmacSecretInput".
Definition n_ga_ueo := "ctap2::get_assertion::UnsignedExtensionOutputs".
Definition n_cp_req := "ctap2::client_pin::Request".
Definition n_cp_resp := "ctap2::client_pin::Response".
Definition n_cp_sub := "ctap2::client_pin::PinV1Subcommand".
Definition n_cm_req := "ctap2::credential_management::Request".
Definition n_cm_resp := "ctap2::credential_management::Response".
Definition n_cm_sub := "ctap2::credential_management::Subcommand".
Definition n_cm_params := "ctap2::credential_management::SubcommandParameters".
Definition n_cm_policy := "ctap2::credential_management::CredentialProtectionPolicy".
Definition n_lb_req := "ctap2::large_blobs::Request".
Definition n_lb_resp := "ctap2::large_blobs::Response".
Definition n_gi_resp := "ctap2::get_info::Response".
Definition n_gi_version := "ctap2::get_info::Version".
Definition n_gi_ext := "ctap2::get_info::Extension".
Definition n_gi_transport := "ctap2::get_info::Transport".
Definition n_gi_options := "ctap2::get_info::CtapOptions".
Definition n_gi_certs := "ctap2::get_info::Certifications".
Definition n_cose_ecdh := "ext::EcdhEsHkdf256PublicKey".
Definition n_cose_any := "ext::PublicKey".

(* limits (CTAP 2.1 section 6, WebAuthn, and the crate's documented capacities) *)
Definition L_authdata := 676.
Definition L_signature := 77.
Definition L_cred_id := 255.
Definition L_allow_list := 10.
Definition L_exclude_list := 16.
Definition L_large_blob_fragment (f : feats) : Z := if has_feat f "large-blobs" then 3008 else 0.
Definition L_max_msg := 7609.

Definition known_algs : list Z := [-7; -8].     (* ES256, EdDSA *)
Definition count_known_algs : Z := 2.

Definition spec_env (f : feats) : env :=
  let full := has_feat f "get-info-full" in
  let tpp := has_feat f "third-party-payment" in
  ([
  (* ---------------- WebAuthn dictionaries *)
  (n_rp, DStruct false true true [
     treq "id" "id" (TStrCap 256);
     tlossy "name" "name" (TStrCap 64) "deserialize_from_str_and_truncate";
     {| f_label := "icon"; f_key := KText "icon"; f_aliases := ["url"]; f_ty := TOpt (TNamed n_icon);
        f_opt := true; f_skip_none := false; f_skip_ser := true; f_default := false; f_with := None |} ]);
  (n_icon, DCustom n_icon false true []);
  (n_user, DStruct false true true [
     treq "id" "id" (TBytesCap 64);
     tlossy "icon" "icon" (TStrCap 128) "deserialize_from_str_and_skip_if_too_long";
     tlossy "name" "name" (TStrCap 64) "deserialize_from_str_and_truncate";
     tlossy "displayName" "display_name" (TStrCap 64) "deserialize_from_str_and_truncate" ]);
  (n_filtered, DCustom n_filtered true true (count_known_algs :: known_algs));
  (n_params, DStruct false true true [
     treq "alg" "alg" TI32;
     treq "type" "key_type" (TStrCap 32) ]);
  (n_desc, DStruct false true true [
     treq "id" "id" (TBytesCap L_cred_id);
     treq "type" "key_type" (TStrCap 32) ]);
  (n_descref, DStruct false true true [
     treq "id" "id" TBytesRef;
     treq "type" "key_type" TStrRef ]);
  (* ---------------- shared CTAP2 types *)
  (n_options, DStruct false true true [
     topt "rk" "rk" TBool; topt "up" "up" TBool; topt "uv" "uv" TBool ]);
  (n_attstmt, DUntagged true [("None", TNamed n_none_att); ("Packed", TNamed n_packed_att)]);
  (n_attfmt, DStrEnum true true [("None", "none"); ("Packed", "packed")]
                                [("none", "None"); ("packed", "Packed")]);
  (n_none_att, DStruct false true false []);
  (n_packed_att, DStruct false true false [
     treq "alg" "alg" TI32;
     treq "sig" "sig" (TBytesCap L_signature);
     topt "x5c" "x5c" (TVec (TBytesCap 1024) 1) ]);
  (n_attpref, DCustom n_attpref false true [2]);   (* keeps at most two known formats: Vec<AttestationStatementFormat, 2> *)
  (* ---------------- authenticatorClientPIN (0x06) *)
  (n_cp_sub, DRepr "u8" true true [
     ("GetRetries", 1); ("GetKeyAgreement", 2); ("SetPin", 3); ("ChangePin", 4); ("GetPinToken", 5);
     ("GetPinUvAuthTokenUsingUvWithPermissions", 6); ("GetUVRetries", 7);
     ("GetPinUvAuthTokenUsingPinWithPermissions", 9) ]);
  (n_cp_req, DStruct true true true [
     ireq 1 "pin_protocol" TU8;
     ireq 2 "sub_command" (TNamed n_cp_sub);
     iopt 3 "key_agreement" (TNamed n_cose_ecdh);
     iopt 4 "pin_auth" TBytesRef;
     iopt 5 "new_pin_enc" TBytesRef;
     iopt 6 "pin_hash_enc" TBytesRef;
     iopt 7 "_placeholder07" TUnit;
     iopt 8 "_placeholder08" TUnit;
     iopt 9 "permissions" TU8;
     iopt 10 "rp_id" TStrRef ]);
  (n_cp_resp, DStruct true true true [
     iopt 1 "key_agreement" (TNamed n_cose_ecdh);
     iopt 2 "pin_token" (TBytesCap 48);
     iopt 3 "retries" TU8;
     iopt 4 "power_cycle_state" TBool;
     iopt 5 "uv_retries" TU8 ]);
  (* ---------------- authenticatorCredentialManagement (0x0A / 0x41) *)
  (n_cm_policy, DRepr "u8" true true [
     ("Optional", 1); ("OptionalWithCredentialIdList", 2); ("Required", 3) ]);
  (n_cm_sub, DRepr "u8" true true [
     ("GetCredsMetadata", 1); ("EnumerateRpsBegin", 2); ("EnumerateRpsGetNextRp", 3);
     ("EnumerateCredentialsBegin", 4); ("EnumerateCredentialsGetNextCredential", 5);
     ("DeleteCredential", 6); ("UpdateUserInformation", 7) ]);
  (n_cm_params, DStruct true true true [
     iopt 1 "rp_id_hash" (TByteArrRef 32);
     iopt 2 "credential_id" (TNamed n_descref);
     iopt 3 "user" (TNamed n_user) ]);
  (n_cm_req, DStruct true true true [
     ireq 1 "sub_command" (TNamed n_cm_sub);
     iopt 2 "sub_command_params" (TNamed n_cm_params);
     iopt 3 "pin_protocol" TU8;
     iopt 4 "pin_auth" TBytesRef ]);
  (n_cm_resp, DStruct true true false (
     [ iopt 1 "existing_resident_credentials_count" TU32;
       iopt 2 "max_possible_remaining_residential_credentials_count" TU32;
       iopt 3 "rp" (TNamed n_rp);
       iopt 4 "rp_id_hash" (TByteArr 32);
       iopt 5 "total_rps" TU32;
       iopt 6 "user" (TNamed n_user);
       iopt 7 "credential_id" (TNamed n_desc);
       iopt 8 "public_key" (TNamed n_cose_any);
       iopt 9 "total_credentials" TU32;
       iopt 10 "cred_protect" (TNamed n_cm_policy);
       iopt 11 "large_blob_key" (TByteArr 32) ]
     ++ when tpp [ iopt 12 "third_party_payment" TBool ])%list);
  (* ---------------- authenticatorGetAssertion (0x02) *)
  (n_ga_hmac, DStruct true true true [
     ireq 1 "key_agreement" (TNamed n_cose_ecdh);
     ireq 2 "salt_enc" (TBytesCap 80);
     ireq 3 "salt_auth" (TBytesCap 32);
     iopt 4 "pin_protocol" TU32 ]);
  (n_ga_extin, DStruct false true true (
     [ topt "hmac-secret" "hmac_secret" (TNamed n_ga_hmac);
       topt "largeBlobKey" "large_blob_key" TBool ]
     ++ when tpp [ topt "thirdPartyPayment" "third_party_payment" TBool ])%list);
  (n_ga_extout, DStruct false true true (
     [ topt "hmac-secret" "hmac_secret" (TBytesCap 80) ]
     ++ when tpp [ topt "thirdPartyPayment" "third_party_payment" TBool ])%list);
  (n_ga_req, DStruct true false true [
     ireq 1 "rp_id" TStrRef;
     ireq 2 "client_data_hash" TBytesRef;
     iopt 3 "allow_list" (TVec (TNamed n_descref) L_allow_list);
     iopt 4 "extensions" (TNamed n_ga_extin);
     iopt 5 "options" (TNamed n_options);
     iopt 6 "pin_auth" TBytesRef;
     iopt 7 "pin_protocol" TU32;
     iopt 8 "enterprise_attestation" TU32;
     iopt 9 "attestation_formats_preference" (TNamed n_attpref) ]);
  (n_ga_resp, DStruct true true false [
     ireq 1 "credential" (TNamed n_desc);
     ireq 2 "auth_data" (TBytesCap L_authdata);
     ireq 3 "signature" (TBytesCap L_signature);
     iopt 4 "user" (TNamed n_user);
     iopt 5 "number_of_credentials" TU32;
     iopt 6 "user_selected" TBool;
     iopt 7 "large_blob_key" (TByteArr 32);
     iopt 8 "unsigned_extension_outputs" (TNamed n_ga_ueo);
     iopt 9 "ep_att" TBool;
     iopt 10 "att_stmt" (TNamed n_attstmt) ]);
  (n_ga_ueo, DStruct false true true []);
  (* ---------------- authenticatorGetInfo (0x04) *)
  (n_gi_resp, DStruct true true true (
     [ ireq 1 "versions" (TVec (TNamed n_gi_version) 4);
       iopt 2 "extensions" (TVec (TNamed n_gi_ext) 4);
       ireq 3 "aaguid" (TBytesCap 16);
       iopt 4 "options" (TNamed n_gi_options);
       iopt 5 "max_msg_size" TUsize;
       iopt 6 "pin_protocols" (TVec TU8 2);
       iopt 7 "max_creds_in_list" TUsize;
       iopt 8 "max_cred_id_length" TUsize;
       iopt 9 "transports" (TVec (TNamed n_gi_transport) 4);
       iopt 10 "algorithms" (TNamed n_filtered);
       iopt 11 "max_serialized_large_blob_array" TUsize ]
     ++ when full
     [ iopt 12 "force_pin_change" TBool;
       iopt 13 "min_pin_length" TUsize;
       iopt 14 "firmware_version" TUsize;
       iopt 15 "max_cred_blob_length" TUsize;
       iopt 16 "max_rpids_for_set_min_pin_length" TUsize;
       iopt 17 "preferred_platform_uv_attempts" TUsize;
       iopt 18 "uv_modality" TUsize;
       iopt 19 "certifications" (TNamed n_gi_certs);
       iopt 20 "remaining_discoverable_credentials" TUsize;
       iopt 21 "vendor_prototype_config_commands" TUsize;
       iopt 22 "attestation_formats" (TVec (TNamed n_attfmt) 2);
       iopt 23 "uv_count_since_last_pin_entry" TUsize;
       iopt 24 "long_touch_for_reset" TBool ])%list);
  (n_gi_version, DStrEnum true true
     [("Fido2_0", "FIDO_2_0"); ("Fido2_1", "FIDO_2_1"); ("Fido2_1Pre", "FIDO_2_1_PRE"); ("U2fV2", "U2F_V2")]
     [("FIDO_2_0", "Fido2_0"); ("FIDO_2_1", "Fido2_1"); ("FIDO_2_1_PRE", "Fido2_1Pre"); ("U2F_V2", "U2fV2")]);
  (n_gi_ext, DStrEnum true true
     [("CredProtect", "credProtect"); ("HmacSecret", "hmac-secret"); ("LargeBlobKey", "largeBlobKey");
      ("ThirdPartyPayment", "thirdPartyPayment")]
     [("credProtect", "CredProtect"); ("hmac-secret", "HmacSecret"); ("largeBlobKey", "LargeBlobKey");
      ("thirdPartyPayment", "ThirdPartyPayment")]);
  (n_gi_transport, DStrEnum true true [("Nfc", "nfc"); ("Usb", "usb")] [("nfc", "Nfc"); ("usb", "Usb")]);
  (* option ids in CTAP2 canonical order: shorter first, then bytewise *)
  (n_gi_options, DStruct false true true (
     when full [ topt "ep" "ep" TBool ]
     ++ [ treq "rk" "rk" TBool; treq "up" "up" TBool; topt "uv" "uv" TBool; topt "plat" "plat" TBool ]
     ++ when full [ topt "uvAcfg" "uv_acfg" TBool; topt "alwaysUv" "always_uv" TBool ]
     ++ [ topt "credMgmt" "cred_mgmt" TBool ]
     ++ when full [ topt "authnrCfg" "authnr_cfg" TBool; topt "bioEnroll" "bio_enroll" TBool ]
     ++ [ topt "clientPin" "client_pin" TBool; topt "largeBlobs" "large_blobs" TBool ]
     ++ when full [ topt "uvBioEnroll" "uv_bio_enroll" TBool ]
     ++ [ topt "pinUvAuthToken" "pin_uv_auth_token" TBool ]
     ++ when full [ topt "setMinPINLength" "set_min_pin_length" TBool;
                    topt "makeCredUvNotRqd" "make_cred_uv_not_rqd" TBool;
                    topt "credentialMgmtPreview" "credential_mgmt_preview" TBool;
                    topt "userVerificationMgmtPreview" "user_verification_mgmt_preview" TBool;
                    topt "noMcGaPermissionsWithClientPin" "no_mc_ga_permissions_with_client_pin" TBool ])%list)
  ]
  ++ when full [
  (* certification ids in canonical order *)
  (n_gi_certs, DStruct false true true [
     topt "FIDO" "fido" TU8;
     topt "CC-EAL" "cc_eal" TU8;
     topt "FIPS-CMVP-2" "fips_cmpv2" TU8;
     topt "FIPS-CMVP-3" "fips_cmpv3" TU8;
     topt "FIPS-CMVP-2-PHY" "fips_cmpv2_phy" TU8;
     topt "FIPS-CMVP-3-PHY" "fips_cmpv3_phy" TU8 ]) ]
  ++ [
  (* ---------------- authenticatorLargeBlobs (0x0C) *)
  (n_lb_req, DStruct true true true [
     iopt 1 "get" TU32;
     iopt 2 "set" TBytesRef;
     ireq 3 "offset" TU32;
     iopt 4 "length" TU32;
     iopt 5 "pin_uv_auth_param" TBytesRef;
     iopt 6 "pin_uv_auth_protocol" TU32 ]);
  (n_lb_resp, DStruct true true true [
     iopt 1 "config" (TBytesCap (L_large_blob_fragment f)) ]);
  (* ---------------- authenticatorMakeCredential (0x01) *)
  (n_mc_ext, DStruct false true true (
     [ topt "credProtect" "cred_protect" TU8;
       topt "hmac-secret" "hmac_secret" TBool;
       topt "largeBlobKey" "large_blob_key" TBool ]
     ++ when tpp [ topt "thirdPartyPayment" "third_party_payment" TBool ])%list);
  (n_mc_req, DStruct true false true [
     ireq 1 "client_data_hash" TBytesRef;
     ireq 2 "rp" (TNamed n_rp);
     ireq 3 "user" (TNamed n_user);
     ireq 4 "pub_key_cred_params" (TNamed n_filtered);
     iopt 5 "exclude_list" (TVec (TNamed n_descref) L_exclude_list);
     iopt 6 "extensions" (TNamed n_mc_ext);
     iopt 7 "options" (TNamed n_options);
     iopt 8 "pin_auth" TBytesRef;
     iopt 9 "pin_protocol" TU32;
     iopt 10 "enterprise_attestation" TU32;
     iopt 11 "attestation_formats_preference" (TNamed n_attpref) ]);
  (n_mc_resp, DStruct true true false [
     ireq 1 "fmt" (TNamed n_attfmt);
     ireq 2 "auth_data" (TBytesCap L_authdata);
     iopt 3 "att_stmt" (TNamed n_attstmt);
     iopt 4 "ep_att" TBool;
     iopt 5 "large_blob_key" (TByteArr 32);
     iopt 6 "unsigned_extension_outputs" (TNamed n_mc_ueo) ]);
  (n_mc_ueo, DStruct false true false []);
  (* ---------------- COSE keys (cosey) *)
  (n_cose_ecdh, DCustom n_cose_ecdh true true []);
  (n_cose_any, DCustom n_cose_any true false [])
  ])%list.
