(* Obligation on the regenerated source: the bodies of the hand-modelled functions (response) are the ones the model was written for. *)
From Ctap Require Import FnShapes Shapes.

Lemma generated_shapes_response : shapes_hold fn_shapes shapes_response = true.
Proof. vm_compute. reflexivity. Qed.
