(* Obligation on the regenerated declarations: well-formedness for the round-trip theorem (C15). *)
From Ctap Require Import Base Schema Typed WellTyped Inst.

Lemma generated_env_rt : forallb (fun f => env_rt (gen_env f)) all_feats = true.
Proof. vm_compute. reflexivity. Qed.
