(* Obligation on the regenerated declarations: every deserialisable declaration is decodable within the model's fuel. *)
From Ctap Require Import Base Schema Wire Typed Inst WireP TotalP.

(* every declaration that can be deserialised at all *)
Definition all_de_decodable (e : env) : bool :=
  forallb (fun p => if decl_de (snd p) then decodable e type_fuel (TNamed (fst p)) else true) e.

Lemma all_de_total : forall e name d i, all_de_decodable e = true -> In (name, d) e -> decl_de d = true ->
  clean (decode e (TNamed name) i).
Proof.
  intros e name d i H Hin Hd. unfold all_de_decodable in H. rewrite forallb_forall in H.
  specialize (H (name, d) Hin). cbn [fst snd] in H. rewrite Hd in H.
  apply decode_clean_of_decodable. exact H.
Qed.

Lemma generated_all_de_decodable : forallb (fun f => all_de_decodable (gen_env f)) all_feats = true.
Proof. vm_compute. reflexivity. Qed.
