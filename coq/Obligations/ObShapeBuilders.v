(* Obligation on the regenerated source: the bodies of the functions in group builders are the ones recorded. *)
From Ctap Require Import FnShapes Shapes.

Lemma generated_shapes_builders : shapes_hold fn_shapes shapes_builders = true.
Proof. vm_compute. reflexivity. Qed.
