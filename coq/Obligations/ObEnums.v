(* Obligation on the regenerated declarations: enumerations. *)
From Ctap Require Import Base Schema Typed Procs Inst Tables ProcTables Finite FramingP C18P.
Local Open Scope string_scope.
Local Open Scope Z_scope.

Lemma generated_enums_exact : forallb (fun f => enums_exact (gen_env f)) all_feats = true.
Proof. vm_compute. reflexivity. Qed.
