(* Obligation on the regenerated declarations and tables: on the names a response can reach (closed under
   "refers to") the regenerated declarations are the specification's; every Response variant has the same arm
   kind and payload type; the status of a buffer that is too small is the same. *)
From Ctap Require Import Base Schema Wire Typed Procs Inst Tables ProcTables Finite AgreeP.
Local Open Scope string_scope.
Local Open Scope Z_scope.

Definition response_names (f : feats) : list string := closure (spec_env f) response_roots.

Lemma generated_response_agreement :
  forallb (fun f => response_bundle spec_tables (gen_tables f) (spec_env f) (gen_env f) (response_names f)) all_feats = true.
Proof. vm_compute. reflexivity. Qed.
