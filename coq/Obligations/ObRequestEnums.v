(* Obligation on the regenerated declarations: the variants of the three request enumerations, in declaration order (the order
   derive(Arbitrary) selects by), are the recorded ones in every feature set. *)
From Ctap Require Import Base Schema PlainDecls Generated.

Lemma generated_request_enums : request_enums_hold raw_decls = true.
Proof. vm_compute. reflexivity. Qed.
