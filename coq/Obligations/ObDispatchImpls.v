(* Obligation on the regenerated source: the impls of the dispatch traits are exactly the three blanket impls recorded. *)
From Ctap Require Import Base Schema PlainDecls Generated.

Lemma generated_dispatch_impls : dispatch_impls_hold dispatch_impls = true.
Proof. vm_compute. reflexivity. Qed.
