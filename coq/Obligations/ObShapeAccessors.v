(* Obligation on the regenerated source: the bodies of the functions in group accessors are the ones recorded. *)
From Ctap Require Import FnShapes Shapes.

Lemma generated_shapes_accessors : shapes_hold fn_shapes shapes_accessors = true.
Proof. vm_compute. reflexivity. Qed.
