(* Obligation on the regenerated declarations and tables: on the set of names a request can reach (closed
   under "refers to"), the regenerated declarations agree with the specification's; the error-status tables
   agree; every parameter type lies in that set. *)
From Ctap Require Import Base Schema Wire Typed Procs Inst Tables ProcTables Finite C11P AgreeP.
Local Open Scope string_scope.
Local Open Scope Z_scope.

Definition request_names (f : feats) : list string := closure (spec_env f) request_roots.

Lemma generated_request_agreement :
  forallb (fun f => agreement_bundle spec_tables (gen_tables f) (spec_env f) (gen_env f) (request_names f) spec_route) all_feats = true.
Proof. vm_compute. reflexivity. Qed.
