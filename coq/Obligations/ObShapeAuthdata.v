(* Obligation on the regenerated source: the bodies of the hand-modelled functions (authdata) are the ones the model was written for. *)
From Ctap Require Import FnShapes Shapes.

Lemma generated_shapes_authdata : shapes_hold fn_shapes shapes_authdata = true.
Proof. vm_compute. reflexivity. Qed.
