(* Obligation on the regenerated source: the bodies of the functions in group tables_info are the ones recorded. *)
From Ctap Require Import FnShapes Shapes.

Lemma generated_shapes_tables_info : shapes_hold fn_shapes shapes_tables_info = true.
Proof. vm_compute. reflexivity. Qed.
