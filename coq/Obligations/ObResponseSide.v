(* Obligation on the regenerated declarations: generated_response_side. *)
From Ctap Require Import Base Schema Wire Typed Procs Inst Tables ProcTables Finite FramingP.
Local Open Scope string_scope.
Local Open Scope Z_scope.

Lemma generated_response_side :
  forallb (fun f => response_side_conforms (gen_env f) (spec_env f)) all_feats = true.
Proof. vm_compute. reflexivity. Qed.
