(* Obligation on the regenerated declarations: byte-valued tables. *)
From Ctap Require Import Base Schema Typed Procs Inst Tables ProcTables Finite FramingP C18P.
Local Open Scope string_scope.
Local Open Scope Z_scope.

Lemma generated_byte_tables : forallb (fun f => byte_tables_equiv (gen_tables f)) all_feats = true.
Proof. vm_compute. reflexivity. Qed.
