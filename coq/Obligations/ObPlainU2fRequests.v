(* Obligation on the regenerated declarations: the member lists of the plain structures in group u2f_requests are the recorded ones. *)
From Ctap Require Import Base Schema PlainDecls Generated.

Lemma generated_plain_u2f_requests : plain_hold raw_decls plain_u2f_requests = true.
Proof. vm_compute. reflexivity. Qed.
