(* Obligation on the regenerated source: the bodies of the functions in group arb_requests are the ones recorded. *)
From Ctap Require Import FnShapes Shapes.

Lemma generated_shapes_arb_requests : shapes_hold fn_shapes shapes_arb_requests = true.
Proof. vm_compute. reflexivity. Qed.
