(* Obligation on the regenerated declarations: every type the generators of src/arbitrary.rs (and the derived impls) produce is
   covered by the validity theorem - positive capacities below 256 for vectors, optional members declared as Option, enumerations
   non-empty with declared spellings - in every feature set. *)
From Ctap Require Import Base Schema Typed Inst Tables ArbTy ArbTyP.

Lemma generated_arb_genable : forallb (fun f => all_genable_k (gen_env f) type_fuel) all_feats = true.
Proof. vm_compute. reflexivity. Qed.
