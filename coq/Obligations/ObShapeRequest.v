(* Obligation on the regenerated source: the bodies of the hand-modelled functions (request) are the ones the model was written for. *)
From Ctap Require Import FnShapes Shapes.

Lemma generated_shapes_request : shapes_hold fn_shapes shapes_request = true.
Proof. vm_compute. reflexivity. Qed.
