(* Obligation on the regenerated declarations: every request parameter type is decodable (C04). *)
From Ctap Require Import Base Schema Wire Typed Procs Inst Tables ProcTables Finite C11P TotalP.
Local Open Scope string_scope.
Local Open Scope Z_scope.

Lemma generated_request_total : forallb (fun f => forallb (route_ok (gen_env f)) bytes256) all_feats = true.
Proof. vm_compute. reflexivity. Qed.
