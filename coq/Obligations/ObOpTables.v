(* Obligation on the regenerated declarations: command-byte tables and Request::deserialize arms. *)
From Ctap Require Import Base Schema Procs Inst ProcTables Finite C11P.
Local Open Scope string_scope.
Local Open Scope Z_scope.

Lemma generated_op_tables : forallb (fun f => op_tables_equiv (gen_tables f)) all_feats = true.
Proof. vm_compute. reflexivity. Qed.

Lemma generated_route : forall f b, In f all_feats -> 0 <= b < 256 ->
  route_of (gen_tables f) b = spec_route b.
Proof.
  intros f b Hf Hb.
  pose proof generated_op_tables as G. rewrite forallb_forall in G. specialize (G f Hf).
  rewrite (op_tables_equiv_route (gen_tables f) G b Hb).
  apply route_of_spec. exact Hb.
Qed.
