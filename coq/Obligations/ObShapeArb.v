(* Obligation on the regenerated source: the bodies of the hand-modelled functions (arb) are the ones the model was written for. *)
From Ctap Require Import FnShapes Shapes.

Lemma generated_shapes_arb : shapes_hold fn_shapes shapes_arb = true.
Proof. vm_compute. reflexivity. Qed.
