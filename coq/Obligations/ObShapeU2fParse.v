(* Obligation on the regenerated source: the bodies of the hand-modelled functions (u2f_parse) are the ones the model was written for. *)
From Ctap Require Import FnShapes Shapes.

Lemma generated_shapes_u2f_parse : shapes_hold fn_shapes shapes_u2f_parse = true.
Proof. vm_compute. reflexivity. Qed.
