(* Obligation on the regenerated declarations: generated_de_role. *)
From Ctap Require Import Base Schema Wire Typed Procs Inst Tables ProcTables Finite FramingP.
Local Open Scope string_scope.
Local Open Scope Z_scope.

Lemma generated_de_role :
  forallb (fun f => env_conforms_role decl_de (gen_env f) (spec_env f)) all_feats = true.
Proof. vm_compute. reflexivity. Qed.
