(* Obligation on the regenerated declarations: the member lists of the plain structures in group builders are the recorded ones. *)
From Ctap Require Import Base Schema PlainDecls Generated.

Lemma generated_plain_builders : plain_hold raw_decls plain_builders = true.
Proof. vm_compute. reflexivity. Qed.
