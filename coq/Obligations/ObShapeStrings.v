(* Obligation on the regenerated source: the bodies of the hand-modelled functions (strings) are the ones the model was written for. *)
From Ctap Require Import FnShapes Shapes.

Lemma generated_shapes_strings : shapes_hold fn_shapes shapes_strings = true.
Proof. vm_compute. reflexivity. Qed.
