(* Obligation on the regenerated source: the bodies of the hand-modelled functions (dispatch) are the ones the model was written for. *)
From Ctap Require Import FnShapes Shapes.

Lemma generated_shapes_dispatch : shapes_hold fn_shapes shapes_dispatch = true.
Proof. vm_compute. reflexivity. Qed.
