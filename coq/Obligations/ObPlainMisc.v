(* Obligation on the regenerated declarations: the member lists of the plain structures in group misc are the recorded ones. *)
From Ctap Require Import Base Schema PlainDecls Generated.

Lemma generated_plain_misc : plain_hold raw_decls plain_misc = true.
Proof. vm_compute. reflexivity. Qed.
