(* Obligation on the regenerated source: the bodies of the functions in group tables_req are the ones recorded. *)
From Ctap Require Import FnShapes Shapes.

Lemma generated_shapes_tables_req : shapes_hold fn_shapes shapes_tables_req = true.
Proof. vm_compute. reflexivity. Qed.
