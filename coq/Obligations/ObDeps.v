(* Obligation on /repo/Cargo.lock and /repo/Cargo.toml: the modelled third-party crates are pinned at the versions the model was written against. *)
From Ctap Require Import Deps Generated.

Lemma generated_deps : deps_hold repo_lock_present lock_versions harness_lock_versions cargo_deps = true.
Proof. vm_compute. reflexivity. Qed.

Lemma generated_features : features_hold cargo_features = true.
Proof. vm_compute. reflexivity. Qed.
