(* Obligation on the regenerated declarations: canonical declaration order of serialisable structs. *)
From Ctap Require Import Base Schema Typed Inst Tables Canonical SerP.
Local Open Scope Z_scope.

Lemma generated_decl_order : forallb (fun f => decl_order_canonical (gen_env f)) all_feats = true.
Proof. vm_compute. reflexivity. Qed.

Lemma generated_structs_ordered : forallb (fun f => structs_ordered (gen_env f)) all_feats = true.
Proof. vm_compute. reflexivity. Qed.
