(* Obligation on the regenerated source: the bodies of the hand-modelled functions (filters) are the ones the model was written for. *)
From Ctap Require Import FnShapes Shapes.

Lemma generated_shapes_filters : shapes_hold fn_shapes shapes_filters = true.
Proof. vm_compute. reflexivity. Qed.
