(* Obligation on the regenerated declarations: the member lists of the plain structures in group authdata are the recorded ones. *)
From Ctap Require Import Base Schema PlainDecls Generated.

Lemma generated_plain_authdata : plain_hold raw_decls plain_authdata = true.
Proof. vm_compute. reflexivity. Qed.
