(* Obligation on the regenerated declarations: generated_resp_tables. *)
From Ctap Require Import Base Schema Wire Typed Procs Inst Tables ProcTables Finite FramingP.
Local Open Scope string_scope.
Local Open Scope Z_scope.

Lemma generated_resp_tables : forallb (fun f => resp_tables_equiv (gen_tables f)) all_feats = true.
Proof. vm_compute. reflexivity. Qed.
