Model/Base.vo Model/Base.glob Model/Base.v.beautified Model/Base.required_vo: Model/Base.v 
Model/Base.vio: Model/Base.v 
Model/Base.vos Model/Base.vok Model/Base.required_vos: Model/Base.v 
Model/Schema.vo Model/Schema.glob Model/Schema.v.beautified Model/Schema.required_vo: Model/Schema.v Model/Base.vo
Model/Schema.vio: Model/Schema.v Model/Base.vio
Model/Schema.vos Model/Schema.vok Model/Schema.required_vos: Model/Schema.v Model/Base.vos
Gen/Generated.vo Gen/Generated.glob Gen/Generated.v.beautified Gen/Generated.required_vo: Gen/Generated.v Model/Schema.vo
Gen/Generated.vio: Gen/Generated.v Model/Schema.vio
Gen/Generated.vos Gen/Generated.vok Gen/Generated.required_vos: Gen/Generated.v Model/Schema.vos
Model/Wire.vo Model/Wire.glob Model/Wire.v.beautified Model/Wire.required_vo: Model/Wire.v Model/Base.vo
Model/Wire.vio: Model/Wire.v Model/Base.vio
Model/Wire.vos Model/Wire.vok Model/Wire.required_vos: Model/Wire.v Model/Base.vos
Model/Utf8.vo Model/Utf8.glob Model/Utf8.v.beautified Model/Utf8.required_vo: Model/Utf8.v Model/Base.vo
Model/Utf8.vio: Model/Utf8.v Model/Base.vio
Model/Utf8.vos Model/Utf8.vok Model/Utf8.required_vos: Model/Utf8.v Model/Base.vos
Model/Typed.vo Model/Typed.glob Model/Typed.v.beautified Model/Typed.required_vo: Model/Typed.v Model/Base.vo Model/Schema.vo Model/Wire.vo Model/Utf8.vo
Model/Typed.vio: Model/Typed.v Model/Base.vio Model/Schema.vio Model/Wire.vio Model/Utf8.vio
Model/Typed.vos Model/Typed.vok Model/Typed.required_vos: Model/Typed.v Model/Base.vos Model/Schema.vos Model/Wire.vos Model/Utf8.vos
Model/Procs.vo Model/Procs.glob Model/Procs.v.beautified Model/Procs.required_vo: Model/Procs.v Model/Base.vo Model/Schema.vo Model/Wire.vo Model/Utf8.vo Model/Typed.vo
Model/Procs.vio: Model/Procs.v Model/Base.vio Model/Schema.vio Model/Wire.vio Model/Utf8.vio Model/Typed.vio
Model/Procs.vos Model/Procs.vok Model/Procs.required_vos: Model/Procs.v Model/Base.vos Model/Schema.vos Model/Wire.vos Model/Utf8.vos Model/Typed.vos
Model/Inst.vo Model/Inst.glob Model/Inst.v.beautified Model/Inst.required_vo: Model/Inst.v Model/Schema.vo Model/Procs.vo Gen/Generated.vo
Model/Inst.vio: Model/Inst.v Model/Schema.vio Model/Procs.vio Gen/Generated.vio
Model/Inst.vos Model/Inst.vok Model/Inst.required_vos: Model/Inst.v Model/Schema.vos Model/Procs.vos Gen/Generated.vos
Spec/Tables.vo Spec/Tables.glob Spec/Tables.v.beautified Spec/Tables.required_vo: Spec/Tables.v Model/Base.vo Model/Schema.vo
Spec/Tables.vio: Spec/Tables.v Model/Base.vio Model/Schema.vio
Spec/Tables.vos Spec/Tables.vok Spec/Tables.required_vos: Spec/Tables.v Model/Base.vos Model/Schema.vos
Spec/ProcTables.vo Spec/ProcTables.glob Spec/ProcTables.v.beautified Spec/ProcTables.required_vo: Spec/ProcTables.v Model/Base.vo Model/Schema.vo Model/Procs.vo
Spec/ProcTables.vio: Spec/ProcTables.v Model/Base.vio Model/Schema.vio Model/Procs.vio
Spec/ProcTables.vos Spec/ProcTables.vok Spec/ProcTables.required_vos: Spec/ProcTables.v Model/Base.vos Model/Schema.vos Model/Procs.vos
Proofs/Finite.vo Proofs/Finite.glob Proofs/Finite.v.beautified Proofs/Finite.required_vo: Proofs/Finite.v Model/Base.vo Model/Schema.vo Model/Procs.vo
Proofs/Finite.vio: Proofs/Finite.v Model/Base.vio Model/Schema.vio Model/Procs.vio
Proofs/Finite.vos Proofs/Finite.vok Proofs/Finite.required_vos: Proofs/Finite.v Model/Base.vos Model/Schema.vos Model/Procs.vos
Proofs/C11P.vo Proofs/C11P.glob Proofs/C11P.v.beautified Proofs/C11P.required_vo: Proofs/C11P.v Model/Base.vo Model/Schema.vo Model/Procs.vo Model/Inst.vo Spec/ProcTables.vo Proofs/Finite.vo
Proofs/C11P.vio: Proofs/C11P.v Model/Base.vio Model/Schema.vio Model/Procs.vio Model/Inst.vio Spec/ProcTables.vio Proofs/Finite.vio
Proofs/C11P.vos Proofs/C11P.vok Proofs/C11P.required_vos: Proofs/C11P.v Model/Base.vos Model/Schema.vos Model/Procs.vos Model/Inst.vos Spec/ProcTables.vos Proofs/Finite.vos
Properties/C11.vo Properties/C11.glob Properties/C11.v.beautified Properties/C11.required_vo: Properties/C11.v Model/Base.vo Model/Schema.vo Model/Procs.vo Model/Inst.vo Spec/ProcTables.vo Proofs/Finite.vo Proofs/C11P.vo
Properties/C11.vio: Properties/C11.v Model/Base.vio Model/Schema.vio Model/Procs.vio Model/Inst.vio Spec/ProcTables.vio Proofs/Finite.vio Proofs/C11P.vio
Properties/C11.vos Properties/C11.vok Properties/C11.required_vos: Properties/C11.v Model/Base.vos Model/Schema.vos Model/Procs.vos Model/Inst.vos Spec/ProcTables.vos Proofs/Finite.vos Proofs/C11P.vos
Spec/Canonical.vo Spec/Canonical.glob Spec/Canonical.v.beautified Spec/Canonical.required_vo: Spec/Canonical.v Model/Base.vo Model/Schema.vo Model/Wire.vo Model/Typed.vo
Spec/Canonical.vio: Spec/Canonical.v Model/Base.vio Model/Schema.vio Model/Wire.vio Model/Typed.vio
Spec/Canonical.vos Spec/Canonical.vok Spec/Canonical.required_vos: Spec/Canonical.v Model/Base.vos Model/Schema.vos Model/Wire.vos Model/Typed.vos
Proofs/C03P.vo Proofs/C03P.glob Proofs/C03P.v.beautified Proofs/C03P.required_vo: Proofs/C03P.v Model/Base.vo Model/Schema.vo Model/Typed.vo Model/Inst.vo Spec/Tables.vo Spec/Canonical.vo
Proofs/C03P.vio: Proofs/C03P.v Model/Base.vio Model/Schema.vio Model/Typed.vio Model/Inst.vio Spec/Tables.vio Spec/Canonical.vio
Proofs/C03P.vos Proofs/C03P.vok Proofs/C03P.required_vos: Proofs/C03P.v Model/Base.vos Model/Schema.vos Model/Typed.vos Model/Inst.vos Spec/Tables.vos Spec/Canonical.vos
Properties/C03.vo Properties/C03.glob Properties/C03.v.beautified Properties/C03.required_vo: Properties/C03.v Model/Base.vo Model/Schema.vo Model/Typed.vo Model/Inst.vo Spec/Tables.vo Spec/Canonical.vo Proofs/C03P.vo
Properties/C03.vio: Properties/C03.v Model/Base.vio Model/Schema.vio Model/Typed.vio Model/Inst.vio Spec/Tables.vio Spec/Canonical.vio Proofs/C03P.vio
Properties/C03.vos Properties/C03.vok Properties/C03.required_vos: Properties/C03.v Model/Base.vos Model/Schema.vos Model/Typed.vos Model/Inst.vos Spec/Tables.vos Spec/Canonical.vos Proofs/C03P.vos
Proofs/FramingP.vo Proofs/FramingP.glob Proofs/FramingP.v.beautified Proofs/FramingP.required_vo: Proofs/FramingP.v Model/Base.vo Model/Schema.vo Model/Wire.vo Model/Typed.vo Model/Procs.vo Model/Inst.vo Spec/Tables.vo Spec/ProcTables.vo Proofs/Finite.vo
Proofs/FramingP.vio: Proofs/FramingP.v Model/Base.vio Model/Schema.vio Model/Wire.vio Model/Typed.vio Model/Procs.vio Model/Inst.vio Spec/Tables.vio Spec/ProcTables.vio Proofs/Finite.vio
Proofs/FramingP.vos Proofs/FramingP.vok Proofs/FramingP.required_vos: Proofs/FramingP.v Model/Base.vos Model/Schema.vos Model/Wire.vos Model/Typed.vos Model/Procs.vos Model/Inst.vos Spec/Tables.vos Spec/ProcTables.vos Proofs/Finite.vos
Properties/C17.vo Properties/C17.glob Properties/C17.v.beautified Properties/C17.required_vo: Properties/C17.v Model/Base.vo Model/Schema.vo Model/Wire.vo Model/Typed.vo Model/Procs.vo Model/Inst.vo Spec/Tables.vo Spec/ProcTables.vo Proofs/Finite.vo Proofs/FramingP.vo
Properties/C17.vio: Properties/C17.v Model/Base.vio Model/Schema.vio Model/Wire.vio Model/Typed.vio Model/Procs.vio Model/Inst.vio Spec/Tables.vio Spec/ProcTables.vio Proofs/Finite.vio Proofs/FramingP.vio
Properties/C17.vos Properties/C17.vok Properties/C17.required_vos: Properties/C17.v Model/Base.vos Model/Schema.vos Model/Wire.vos Model/Typed.vos Model/Procs.vos Model/Inst.vos Spec/Tables.vos Spec/ProcTables.vos Proofs/Finite.vos Proofs/FramingP.vos
Properties/C02.vo Properties/C02.glob Properties/C02.v.beautified Properties/C02.required_vo: Properties/C02.v Model/Base.vo Model/Schema.vo Model/Wire.vo Model/Typed.vo Model/Procs.vo Model/Inst.vo Spec/Tables.vo Spec/ProcTables.vo Proofs/Finite.vo Proofs/FramingP.vo
Properties/C02.vio: Properties/C02.v Model/Base.vio Model/Schema.vio Model/Wire.vio Model/Typed.vio Model/Procs.vio Model/Inst.vio Spec/Tables.vio Spec/ProcTables.vio Proofs/Finite.vio Proofs/FramingP.vio
Properties/C02.vos Properties/C02.vok Properties/C02.required_vos: Properties/C02.v Model/Base.vos Model/Schema.vos Model/Wire.vos Model/Typed.vos Model/Procs.vos Model/Inst.vos Spec/Tables.vos Spec/ProcTables.vos Proofs/Finite.vos Proofs/FramingP.vos
Properties/C01.vo Properties/C01.glob Properties/C01.v.beautified Properties/C01.required_vo: Properties/C01.v Model/Base.vo Model/Schema.vo Model/Wire.vo Model/Typed.vo Model/Procs.vo Model/Inst.vo Spec/Tables.vo Spec/ProcTables.vo Proofs/Finite.vo Proofs/FramingP.vo Proofs/C11P.vo
Properties/C01.vio: Properties/C01.v Model/Base.vio Model/Schema.vio Model/Wire.vio Model/Typed.vio Model/Procs.vio Model/Inst.vio Spec/Tables.vio Spec/ProcTables.vio Proofs/Finite.vio Proofs/FramingP.vio Proofs/C11P.vio
Properties/C01.vos Properties/C01.vok Properties/C01.required_vos: Properties/C01.v Model/Base.vos Model/Schema.vos Model/Wire.vos Model/Typed.vos Model/Procs.vos Model/Inst.vos Spec/Tables.vos Spec/ProcTables.vos Proofs/Finite.vos Proofs/FramingP.vos Proofs/C11P.vos
