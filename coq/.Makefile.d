Model/Base.vo Model/Base.glob Model/Base.v.beautified Model/Base.required_vo: Model/Base.v 
Model/Base.vio: Model/Base.v 
Model/Base.vos Model/Base.vok Model/Base.required_vos: Model/Base.v 
Model/Schema.vo Model/Schema.glob Model/Schema.v.beautified Model/Schema.required_vo: Model/Schema.v Model/Base.vo
Model/Schema.vio: Model/Schema.v Model/Base.vio
Model/Schema.vos Model/Schema.vok Model/Schema.required_vos: Model/Schema.v Model/Base.vos
Gen/Generated.vo Gen/Generated.glob Gen/Generated.v.beautified Gen/Generated.required_vo: Gen/Generated.v Model/Schema.vo
Gen/Generated.vio: Gen/Generated.v Model/Schema.vio
Gen/Generated.vos Gen/Generated.vok Gen/Generated.required_vos: Gen/Generated.v Model/Schema.vos
Model/Wire.vo Model/Wire.glob Model/Wire.v.beautified Model/Wire.required_vo: Model/Wire.v Model/Base.vo
Model/Wire.vio: Model/Wire.v Model/Base.vio
Model/Wire.vos Model/Wire.vok Model/Wire.required_vos: Model/Wire.v Model/Base.vos
Model/Utf8.vo Model/Utf8.glob Model/Utf8.v.beautified Model/Utf8.required_vo: Model/Utf8.v Model/Base.vo
Model/Utf8.vio: Model/Utf8.v Model/Base.vio
Model/Utf8.vos Model/Utf8.vok Model/Utf8.required_vos: Model/Utf8.v Model/Base.vos
Model/Typed.vo Model/Typed.glob Model/Typed.v.beautified Model/Typed.required_vo: Model/Typed.v Model/Base.vo Model/Schema.vo Model/Wire.vo Model/Utf8.vo
Model/Typed.vio: Model/Typed.v Model/Base.vio Model/Schema.vio Model/Wire.vio Model/Utf8.vio
Model/Typed.vos Model/Typed.vok Model/Typed.required_vos: Model/Typed.v Model/Base.vos Model/Schema.vos Model/Wire.vos Model/Utf8.vos
Model/Procs.vo Model/Procs.glob Model/Procs.v.beautified Model/Procs.required_vo: Model/Procs.v Model/Base.vo Model/Schema.vo Model/Wire.vo Model/Utf8.vo Model/Typed.vo
Model/Procs.vio: Model/Procs.v Model/Base.vio Model/Schema.vio Model/Wire.vio Model/Utf8.vio Model/Typed.vio
Model/Procs.vos Model/Procs.vok Model/Procs.required_vos: Model/Procs.v Model/Base.vos Model/Schema.vos Model/Wire.vos Model/Utf8.vos Model/Typed.vos
Model/Arb.vo Model/Arb.glob Model/Arb.v.beautified Model/Arb.required_vo: Model/Arb.v Model/Base.vo Model/Utf8.vo Model/Typed.vo
Model/Arb.vio: Model/Arb.v Model/Base.vio Model/Utf8.vio Model/Typed.vio
Model/Arb.vos Model/Arb.vok Model/Arb.required_vos: Model/Arb.v Model/Base.vos Model/Utf8.vos Model/Typed.vos
Model/Inst.vo Model/Inst.glob Model/Inst.v.beautified Model/Inst.required_vo: Model/Inst.v Model/Schema.vo Model/Procs.vo Gen/Generated.vo
Model/Inst.vio: Model/Inst.v Model/Schema.vio Model/Procs.vio Gen/Generated.vio
Model/Inst.vos Model/Inst.vok Model/Inst.required_vos: Model/Inst.v Model/Schema.vos Model/Procs.vos Gen/Generated.vos
Spec/Tables.vo Spec/Tables.glob Spec/Tables.v.beautified Spec/Tables.required_vo: Spec/Tables.v Model/Base.vo Model/Schema.vo
Spec/Tables.vio: Spec/Tables.v Model/Base.vio Model/Schema.vio
Spec/Tables.vos Spec/Tables.vok Spec/Tables.required_vos: Spec/Tables.v Model/Base.vos Model/Schema.vos
Spec/ProcTables.vo Spec/ProcTables.glob Spec/ProcTables.v.beautified Spec/ProcTables.required_vo: Spec/ProcTables.v Model/Base.vo Model/Schema.vo Model/Procs.vo
Spec/ProcTables.vio: Spec/ProcTables.v Model/Base.vio Model/Schema.vio Model/Procs.vio
Spec/ProcTables.vos Spec/ProcTables.vok Spec/ProcTables.required_vos: Spec/ProcTables.v Model/Base.vos Model/Schema.vos Model/Procs.vos
Proofs/Finite.vo Proofs/Finite.glob Proofs/Finite.v.beautified Proofs/Finite.required_vo: Proofs/Finite.v Model/Base.vo Model/Schema.vo Model/Procs.vo
Proofs/Finite.vio: Proofs/Finite.v Model/Base.vio Model/Schema.vio Model/Procs.vio
Proofs/Finite.vos Proofs/Finite.vok Proofs/Finite.required_vos: Proofs/Finite.v Model/Base.vos Model/Schema.vos Model/Procs.vos
Proofs/C11P.vo Proofs/C11P.glob Proofs/C11P.v.beautified Proofs/C11P.required_vo: Proofs/C11P.v Model/Base.vo Model/Schema.vo Model/Procs.vo Model/Inst.vo Spec/ProcTables.vo Proofs/Finite.vo
Proofs/C11P.vio: Proofs/C11P.v Model/Base.vio Model/Schema.vio Model/Procs.vio Model/Inst.vio Spec/ProcTables.vio Proofs/Finite.vio
Proofs/C11P.vos Proofs/C11P.vok Proofs/C11P.required_vos: Proofs/C11P.v Model/Base.vos Model/Schema.vos Model/Procs.vos Model/Inst.vos Spec/ProcTables.vos Proofs/Finite.vos
Properties/C11.vo Properties/C11.glob Properties/C11.v.beautified Properties/C11.required_vo: Properties/C11.v Model/Base.vo Model/Schema.vo Model/Procs.vo Model/Inst.vo Spec/ProcTables.vo Proofs/Finite.vo Proofs/C11P.vo
Properties/C11.vio: Properties/C11.v Model/Base.vio Model/Schema.vio Model/Procs.vio Model/Inst.vio Spec/ProcTables.vio Proofs/Finite.vio Proofs/C11P.vio
Properties/C11.vos Properties/C11.vok Properties/C11.required_vos: Properties/C11.v Model/Base.vos Model/Schema.vos Model/Procs.vos Model/Inst.vos Spec/ProcTables.vos Proofs/Finite.vos Proofs/C11P.vos
Spec/Canonical.vo Spec/Canonical.glob Spec/Canonical.v.beautified Spec/Canonical.required_vo: Spec/Canonical.v Model/Base.vo Model/Schema.vo Model/Wire.vo Model/Typed.vo
Spec/Canonical.vio: Spec/Canonical.v Model/Base.vio Model/Schema.vio Model/Wire.vio Model/Typed.vio
Spec/Canonical.vos Spec/Canonical.vok Spec/Canonical.required_vos: Spec/Canonical.v Model/Base.vos Model/Schema.vos Model/Wire.vos Model/Typed.vos
Proofs/C03P.vo Proofs/C03P.glob Proofs/C03P.v.beautified Proofs/C03P.required_vo: Proofs/C03P.v Model/Base.vo Model/Schema.vo Model/Typed.vo Model/Inst.vo Spec/Tables.vo Spec/Canonical.vo
Proofs/C03P.vio: Proofs/C03P.v Model/Base.vio Model/Schema.vio Model/Typed.vio Model/Inst.vio Spec/Tables.vio Spec/Canonical.vio
Proofs/C03P.vos Proofs/C03P.vok Proofs/C03P.required_vos: Proofs/C03P.v Model/Base.vos Model/Schema.vos Model/Typed.vos Model/Inst.vos Spec/Tables.vos Spec/Canonical.vos
Properties/C03.vo Properties/C03.glob Properties/C03.v.beautified Properties/C03.required_vo: Properties/C03.v Model/Base.vo Model/Schema.vo Model/Wire.vo Model/Typed.vo Model/Procs.vo Model/Inst.vo Spec/Tables.vo Spec/ProcTables.vo Spec/Canonical.vo Proofs/WireP.vo Proofs/SerP.vo Proofs/FramingP.vo Proofs/C03P.vo
Properties/C03.vio: Properties/C03.v Model/Base.vio Model/Schema.vio Model/Wire.vio Model/Typed.vio Model/Procs.vio Model/Inst.vio Spec/Tables.vio Spec/ProcTables.vio Spec/Canonical.vio Proofs/WireP.vio Proofs/SerP.vio Proofs/FramingP.vio Proofs/C03P.vio
Properties/C03.vos Properties/C03.vok Properties/C03.required_vos: Properties/C03.v Model/Base.vos Model/Schema.vos Model/Wire.vos Model/Typed.vos Model/Procs.vos Model/Inst.vos Spec/Tables.vos Spec/ProcTables.vos Spec/Canonical.vos Proofs/WireP.vos Proofs/SerP.vos Proofs/FramingP.vos Proofs/C03P.vos
Proofs/FramingP.vo Proofs/FramingP.glob Proofs/FramingP.v.beautified Proofs/FramingP.required_vo: Proofs/FramingP.v Model/Base.vo Model/Schema.vo Model/Wire.vo Model/Typed.vo Model/Procs.vo Model/Inst.vo Spec/Tables.vo Spec/ProcTables.vo Proofs/Finite.vo
Proofs/FramingP.vio: Proofs/FramingP.v Model/Base.vio Model/Schema.vio Model/Wire.vio Model/Typed.vio Model/Procs.vio Model/Inst.vio Spec/Tables.vio Spec/ProcTables.vio Proofs/Finite.vio
Proofs/FramingP.vos Proofs/FramingP.vok Proofs/FramingP.required_vos: Proofs/FramingP.v Model/Base.vos Model/Schema.vos Model/Wire.vos Model/Typed.vos Model/Procs.vos Model/Inst.vos Spec/Tables.vos Spec/ProcTables.vos Proofs/Finite.vos
Properties/C17.vo Properties/C17.glob Properties/C17.v.beautified Properties/C17.required_vo: Properties/C17.v Model/Base.vo Model/Schema.vo Model/Wire.vo Model/Typed.vo Model/Procs.vo Model/Inst.vo Spec/Tables.vo Spec/ProcTables.vo Proofs/Finite.vo Proofs/FramingP.vo
Properties/C17.vio: Properties/C17.v Model/Base.vio Model/Schema.vio Model/Wire.vio Model/Typed.vio Model/Procs.vio Model/Inst.vio Spec/Tables.vio Spec/ProcTables.vio Proofs/Finite.vio Proofs/FramingP.vio
Properties/C17.vos Properties/C17.vok Properties/C17.required_vos: Properties/C17.v Model/Base.vos Model/Schema.vos Model/Wire.vos Model/Typed.vos Model/Procs.vos Model/Inst.vos Spec/Tables.vos Spec/ProcTables.vos Proofs/Finite.vos Proofs/FramingP.vos
Properties/C02.vo Properties/C02.glob Properties/C02.v.beautified Properties/C02.required_vo: Properties/C02.v Model/Base.vo Model/Schema.vo Model/Wire.vo Model/Typed.vo Model/Procs.vo Model/Inst.vo Spec/Tables.vo Spec/ProcTables.vo Proofs/Finite.vo Spec/Canonical.vo Proofs/WireP.vo Proofs/SerP.vo Proofs/FramingP.vo
Properties/C02.vio: Properties/C02.v Model/Base.vio Model/Schema.vio Model/Wire.vio Model/Typed.vio Model/Procs.vio Model/Inst.vio Spec/Tables.vio Spec/ProcTables.vio Proofs/Finite.vio Spec/Canonical.vio Proofs/WireP.vio Proofs/SerP.vio Proofs/FramingP.vio
Properties/C02.vos Properties/C02.vok Properties/C02.required_vos: Properties/C02.v Model/Base.vos Model/Schema.vos Model/Wire.vos Model/Typed.vos Model/Procs.vos Model/Inst.vos Spec/Tables.vos Spec/ProcTables.vos Proofs/Finite.vos Spec/Canonical.vos Proofs/WireP.vos Proofs/SerP.vos Proofs/FramingP.vos
Properties/C01.vo Properties/C01.glob Properties/C01.v.beautified Properties/C01.required_vo: Properties/C01.v Model/Base.vo Model/Schema.vo Model/Wire.vo Model/Utf8.vo Model/Typed.vo Model/Procs.vo Model/Inst.vo Spec/Tables.vo Spec/ProcTables.vo Proofs/Finite.vo Spec/CborItem.vo Proofs/WireP.vo Proofs/SkipP.vo Proofs/TypedP.vo Proofs/EntriesP.vo Proofs/FramingP.vo Proofs/C11P.vo
Properties/C01.vio: Properties/C01.v Model/Base.vio Model/Schema.vio Model/Wire.vio Model/Utf8.vio Model/Typed.vio Model/Procs.vio Model/Inst.vio Spec/Tables.vio Spec/ProcTables.vio Proofs/Finite.vio Spec/CborItem.vio Proofs/WireP.vio Proofs/SkipP.vio Proofs/TypedP.vio Proofs/EntriesP.vio Proofs/FramingP.vio Proofs/C11P.vio
Properties/C01.vos Properties/C01.vok Properties/C01.required_vos: Properties/C01.v Model/Base.vos Model/Schema.vos Model/Wire.vos Model/Utf8.vos Model/Typed.vos Model/Procs.vos Model/Inst.vos Spec/Tables.vos Spec/ProcTables.vos Proofs/Finite.vos Spec/CborItem.vos Proofs/WireP.vos Proofs/SkipP.vos Proofs/TypedP.vos Proofs/EntriesP.vos Proofs/FramingP.vos Proofs/C11P.vos
Properties/C05.vo Properties/C05.glob Properties/C05.v.beautified Properties/C05.required_vo: Properties/C05.v Model/Base.vo Model/Schema.vo Model/Wire.vo Model/Utf8.vo Model/Typed.vo Model/Procs.vo Model/Inst.vo Spec/Tables.vo Spec/ProcTables.vo Proofs/Finite.vo Spec/CborItem.vo Proofs/WireP.vo Proofs/SkipP.vo Proofs/TypedP.vo Proofs/EntriesP.vo Proofs/FramingP.vo Proofs/C11P.vo
Properties/C05.vio: Properties/C05.v Model/Base.vio Model/Schema.vio Model/Wire.vio Model/Utf8.vio Model/Typed.vio Model/Procs.vio Model/Inst.vio Spec/Tables.vio Spec/ProcTables.vio Proofs/Finite.vio Spec/CborItem.vio Proofs/WireP.vio Proofs/SkipP.vio Proofs/TypedP.vio Proofs/EntriesP.vio Proofs/FramingP.vio Proofs/C11P.vio
Properties/C05.vos Properties/C05.vok Properties/C05.required_vos: Properties/C05.v Model/Base.vos Model/Schema.vos Model/Wire.vos Model/Utf8.vos Model/Typed.vos Model/Procs.vos Model/Inst.vos Spec/Tables.vos Spec/ProcTables.vos Proofs/Finite.vos Spec/CborItem.vos Proofs/WireP.vos Proofs/SkipP.vos Proofs/TypedP.vos Proofs/EntriesP.vos Proofs/FramingP.vos Proofs/C11P.vos
Spec/CborItem.vo Spec/CborItem.glob Spec/CborItem.v.beautified Spec/CborItem.required_vo: Spec/CborItem.v Model/Base.vo Model/Wire.vo
Spec/CborItem.vio: Spec/CborItem.v Model/Base.vio Model/Wire.vio
Spec/CborItem.vos Spec/CborItem.vok Spec/CborItem.required_vos: Spec/CborItem.v Model/Base.vos Model/Wire.vos
Proofs/WireP.vo Proofs/WireP.glob Proofs/WireP.v.beautified Proofs/WireP.required_vo: Proofs/WireP.v Model/Base.vo Model/Wire.vo
Proofs/WireP.vio: Proofs/WireP.v Model/Base.vio Model/Wire.vio
Proofs/WireP.vos Proofs/WireP.vok Proofs/WireP.required_vos: Proofs/WireP.v Model/Base.vos Model/Wire.vos
Proofs/SkipP.vo Proofs/SkipP.glob Proofs/SkipP.v.beautified Proofs/SkipP.required_vo: Proofs/SkipP.v Model/Base.vo Model/Wire.vo Spec/CborItem.vo Proofs/WireP.vo
Proofs/SkipP.vio: Proofs/SkipP.v Model/Base.vio Model/Wire.vio Spec/CborItem.vio Proofs/WireP.vio
Proofs/SkipP.vos Proofs/SkipP.vok Proofs/SkipP.required_vos: Proofs/SkipP.v Model/Base.vos Model/Wire.vos Spec/CborItem.vos Proofs/WireP.vos
Proofs/TypedP.vo Proofs/TypedP.glob Proofs/TypedP.v.beautified Proofs/TypedP.required_vo: Proofs/TypedP.v Model/Base.vo Model/Schema.vo Model/Wire.vo Model/Utf8.vo Model/Typed.vo Spec/CborItem.vo Proofs/WireP.vo Proofs/SkipP.vo
Proofs/TypedP.vio: Proofs/TypedP.v Model/Base.vio Model/Schema.vio Model/Wire.vio Model/Utf8.vio Model/Typed.vio Spec/CborItem.vio Proofs/WireP.vio Proofs/SkipP.vio
Proofs/TypedP.vos Proofs/TypedP.vok Proofs/TypedP.required_vos: Proofs/TypedP.v Model/Base.vos Model/Schema.vos Model/Wire.vos Model/Utf8.vos Model/Typed.vos Spec/CborItem.vos Proofs/WireP.vos Proofs/SkipP.vos
Proofs/EntriesP.vo Proofs/EntriesP.glob Proofs/EntriesP.v.beautified Proofs/EntriesP.required_vo: Proofs/EntriesP.v Model/Base.vo Model/Schema.vo Model/Wire.vo Model/Utf8.vo Model/Typed.vo Spec/CborItem.vo Proofs/WireP.vo Proofs/SkipP.vo Proofs/TypedP.vo
Proofs/EntriesP.vio: Proofs/EntriesP.v Model/Base.vio Model/Schema.vio Model/Wire.vio Model/Utf8.vio Model/Typed.vio Spec/CborItem.vio Proofs/WireP.vio Proofs/SkipP.vio Proofs/TypedP.vio
Proofs/EntriesP.vos Proofs/EntriesP.vok Proofs/EntriesP.required_vos: Proofs/EntriesP.v Model/Base.vos Model/Schema.vos Model/Wire.vos Model/Utf8.vos Model/Typed.vos Spec/CborItem.vos Proofs/WireP.vos Proofs/SkipP.vos Proofs/TypedP.vos
Proofs/SerP.vo Proofs/SerP.glob Proofs/SerP.v.beautified Proofs/SerP.required_vo: Proofs/SerP.v Model/Base.vo Model/Schema.vo Model/Wire.vo Model/Utf8.vo Model/Typed.vo Spec/Canonical.vo Proofs/WireP.vo
Proofs/SerP.vio: Proofs/SerP.v Model/Base.vio Model/Schema.vio Model/Wire.vio Model/Utf8.vio Model/Typed.vio Spec/Canonical.vio Proofs/WireP.vio
Proofs/SerP.vos Proofs/SerP.vok Proofs/SerP.required_vos: Proofs/SerP.v Model/Base.vos Model/Schema.vos Model/Wire.vos Model/Utf8.vos Model/Typed.vos Spec/Canonical.vos Proofs/WireP.vos
Properties/C06.vo Properties/C06.glob Properties/C06.v.beautified Properties/C06.required_vo: Properties/C06.v Model/Base.vo Model/Schema.vo Model/Wire.vo Model/Utf8.vo Model/Typed.vo Model/Procs.vo Model/Inst.vo Spec/Tables.vo Spec/CborItem.vo Proofs/WireP.vo Proofs/SkipP.vo Proofs/TypedP.vo Proofs/EntriesP.vo Proofs/FramingP.vo
Properties/C06.vio: Properties/C06.v Model/Base.vio Model/Schema.vio Model/Wire.vio Model/Utf8.vio Model/Typed.vio Model/Procs.vio Model/Inst.vio Spec/Tables.vio Spec/CborItem.vio Proofs/WireP.vio Proofs/SkipP.vio Proofs/TypedP.vio Proofs/EntriesP.vio Proofs/FramingP.vio
Properties/C06.vos Properties/C06.vok Properties/C06.required_vos: Properties/C06.v Model/Base.vos Model/Schema.vos Model/Wire.vos Model/Utf8.vos Model/Typed.vos Model/Procs.vos Model/Inst.vos Spec/Tables.vos Spec/CborItem.vos Proofs/WireP.vos Proofs/SkipP.vos Proofs/TypedP.vos Proofs/EntriesP.vos Proofs/FramingP.vos
Properties/C04.vo Properties/C04.glob Properties/C04.v.beautified Properties/C04.required_vo: Properties/C04.v Model/Base.vo Model/Schema.vo Model/Wire.vo Model/Utf8.vo Model/Typed.vo Model/Procs.vo Model/Inst.vo Spec/Tables.vo Spec/ProcTables.vo Spec/CborItem.vo Proofs/WireP.vo Proofs/SkipP.vo Proofs/TypedP.vo Proofs/FramingP.vo Proofs/C11P.vo Proofs/Finite.vo Proofs/Utf8P.vo Proofs/StrsP.vo
Properties/C04.vio: Properties/C04.v Model/Base.vio Model/Schema.vio Model/Wire.vio Model/Utf8.vio Model/Typed.vio Model/Procs.vio Model/Inst.vio Spec/Tables.vio Spec/ProcTables.vio Spec/CborItem.vio Proofs/WireP.vio Proofs/SkipP.vio Proofs/TypedP.vio Proofs/FramingP.vio Proofs/C11P.vio Proofs/Finite.vio Proofs/Utf8P.vio Proofs/StrsP.vio
Properties/C04.vos Properties/C04.vok Properties/C04.required_vos: Properties/C04.v Model/Base.vos Model/Schema.vos Model/Wire.vos Model/Utf8.vos Model/Typed.vos Model/Procs.vos Model/Inst.vos Spec/Tables.vos Spec/ProcTables.vos Spec/CborItem.vos Proofs/WireP.vos Proofs/SkipP.vos Proofs/TypedP.vos Proofs/FramingP.vos Proofs/C11P.vos Proofs/Finite.vos Proofs/Utf8P.vos Proofs/StrsP.vos
Spec/Limits.vo Spec/Limits.glob Spec/Limits.v.beautified Spec/Limits.required_vo: Spec/Limits.v Model/Base.vo Model/Schema.vo Spec/Tables.vo
Spec/Limits.vio: Spec/Limits.v Model/Base.vio Model/Schema.vio Spec/Tables.vio
Spec/Limits.vos Spec/Limits.vok Spec/Limits.required_vos: Spec/Limits.v Model/Base.vos Model/Schema.vos Spec/Tables.vos
Properties/C12.vo Properties/C12.glob Properties/C12.v.beautified Properties/C12.required_vo: Properties/C12.v Model/Base.vo Model/Schema.vo Model/Wire.vo Model/Utf8.vo Model/Typed.vo Model/Procs.vo Model/Inst.vo Spec/Tables.vo Spec/Limits.vo Proofs/WireP.vo Proofs/TypedP.vo Proofs/FramingP.vo
Properties/C12.vio: Properties/C12.v Model/Base.vio Model/Schema.vio Model/Wire.vio Model/Utf8.vio Model/Typed.vio Model/Procs.vio Model/Inst.vio Spec/Tables.vio Spec/Limits.vio Proofs/WireP.vio Proofs/TypedP.vio Proofs/FramingP.vio
Properties/C12.vos Properties/C12.vok Properties/C12.required_vos: Properties/C12.v Model/Base.vos Model/Schema.vos Model/Wire.vos Model/Utf8.vos Model/Typed.vos Model/Procs.vos Model/Inst.vos Spec/Tables.vos Spec/Limits.vos Proofs/WireP.vos Proofs/TypedP.vos Proofs/FramingP.vos
Properties/C15.vo Properties/C15.glob Properties/C15.v.beautified Properties/C15.required_vo: Properties/C15.v Model/Base.vo Model/Schema.vo Model/Wire.vo Model/Utf8.vo Model/Typed.vo Model/Procs.vo Model/Inst.vo Spec/Tables.vo Spec/Limits.vo Proofs/WireP.vo Proofs/TypedP.vo Proofs/FramingP.vo
Properties/C15.vio: Properties/C15.v Model/Base.vio Model/Schema.vio Model/Wire.vio Model/Utf8.vio Model/Typed.vio Model/Procs.vio Model/Inst.vio Spec/Tables.vio Spec/Limits.vio Proofs/WireP.vio Proofs/TypedP.vio Proofs/FramingP.vio
Properties/C15.vos Properties/C15.vok Properties/C15.required_vos: Properties/C15.v Model/Base.vos Model/Schema.vos Model/Wire.vos Model/Utf8.vos Model/Typed.vos Model/Procs.vos Model/Inst.vos Spec/Tables.vos Spec/Limits.vos Proofs/WireP.vos Proofs/TypedP.vos Proofs/FramingP.vos
Spec/Extends.vo Spec/Extends.glob Spec/Extends.v.beautified Spec/Extends.required_vo: Spec/Extends.v Model/Base.vo Model/Schema.vo
Spec/Extends.vio: Spec/Extends.v Model/Base.vio Model/Schema.vio
Spec/Extends.vos Spec/Extends.vok Spec/Extends.required_vos: Spec/Extends.v Model/Base.vos Model/Schema.vos
Properties/C16.vo Properties/C16.glob Properties/C16.v.beautified Properties/C16.required_vo: Properties/C16.v Model/Base.vo Model/Schema.vo Model/Typed.vo Model/Inst.vo Spec/Tables.vo Spec/Limits.vo Spec/Extends.vo
Properties/C16.vio: Properties/C16.v Model/Base.vio Model/Schema.vio Model/Typed.vio Model/Inst.vio Spec/Tables.vio Spec/Limits.vio Spec/Extends.vio
Properties/C16.vos Properties/C16.vok Properties/C16.required_vos: Properties/C16.v Model/Base.vos Model/Schema.vos Model/Typed.vos Model/Inst.vos Spec/Tables.vos Spec/Limits.vos Spec/Extends.vos
Proofs/C18P.vo Proofs/C18P.glob Proofs/C18P.v.beautified Proofs/C18P.required_vo: Proofs/C18P.v Model/Base.vo Model/Schema.vo Model/Typed.vo Model/Procs.vo Model/Inst.vo Spec/Tables.vo Spec/ProcTables.vo Proofs/Finite.vo Proofs/FramingP.vo
Proofs/C18P.vio: Proofs/C18P.v Model/Base.vio Model/Schema.vio Model/Typed.vio Model/Procs.vio Model/Inst.vio Spec/Tables.vio Spec/ProcTables.vio Proofs/Finite.vio Proofs/FramingP.vio
Proofs/C18P.vos Proofs/C18P.vok Proofs/C18P.required_vos: Proofs/C18P.v Model/Base.vos Model/Schema.vos Model/Typed.vos Model/Procs.vos Model/Inst.vos Spec/Tables.vos Spec/ProcTables.vos Proofs/Finite.vos Proofs/FramingP.vos
Properties/C18.vo Properties/C18.glob Properties/C18.v.beautified Properties/C18.required_vo: Properties/C18.v Model/Base.vo Model/Schema.vo Model/Wire.vo Model/Typed.vo Model/Procs.vo Model/Inst.vo Spec/Tables.vo Spec/ProcTables.vo Proofs/Finite.vo Proofs/FramingP.vo Proofs/C18P.vo
Properties/C18.vio: Properties/C18.v Model/Base.vio Model/Schema.vio Model/Wire.vio Model/Typed.vio Model/Procs.vio Model/Inst.vio Spec/Tables.vio Spec/ProcTables.vio Proofs/Finite.vio Proofs/FramingP.vio Proofs/C18P.vio
Properties/C18.vos Properties/C18.vok Properties/C18.required_vos: Properties/C18.v Model/Base.vos Model/Schema.vos Model/Wire.vos Model/Typed.vos Model/Procs.vos Model/Inst.vos Spec/Tables.vos Spec/ProcTables.vos Proofs/Finite.vos Proofs/FramingP.vos Proofs/C18P.vos
Proofs/LayoutP.vo Proofs/LayoutP.glob Proofs/LayoutP.v.beautified Proofs/LayoutP.required_vo: Proofs/LayoutP.v Model/Base.vo Model/Schema.vo Model/Wire.vo Model/Typed.vo Model/Procs.vo Proofs/WireP.vo
Proofs/LayoutP.vio: Proofs/LayoutP.v Model/Base.vio Model/Schema.vio Model/Wire.vio Model/Typed.vio Model/Procs.vio Proofs/WireP.vio
Proofs/LayoutP.vos Proofs/LayoutP.vok Proofs/LayoutP.required_vos: Proofs/LayoutP.v Model/Base.vos Model/Schema.vos Model/Wire.vos Model/Typed.vos Model/Procs.vos Proofs/WireP.vos
Properties/C07.vo Properties/C07.glob Properties/C07.v.beautified Properties/C07.required_vo: Properties/C07.v Model/Base.vo Model/Schema.vo Model/Wire.vo Model/Typed.vo Model/Procs.vo Model/Inst.vo Spec/Tables.vo Spec/ProcTables.vo Proofs/Finite.vo Proofs/FramingP.vo Proofs/WireP.vo Proofs/LayoutP.vo Proofs/C18P.vo
Properties/C07.vio: Properties/C07.v Model/Base.vio Model/Schema.vio Model/Wire.vio Model/Typed.vio Model/Procs.vio Model/Inst.vio Spec/Tables.vio Spec/ProcTables.vio Proofs/Finite.vio Proofs/FramingP.vio Proofs/WireP.vio Proofs/LayoutP.vio Proofs/C18P.vio
Properties/C07.vos Properties/C07.vok Properties/C07.required_vos: Properties/C07.v Model/Base.vos Model/Schema.vos Model/Wire.vos Model/Typed.vos Model/Procs.vos Model/Inst.vos Spec/Tables.vos Spec/ProcTables.vos Proofs/Finite.vos Proofs/FramingP.vos Proofs/WireP.vos Proofs/LayoutP.vos Proofs/C18P.vos
Properties/C09.vo Properties/C09.glob Properties/C09.v.beautified Properties/C09.required_vo: Properties/C09.v Model/Base.vo Model/Schema.vo Model/Wire.vo Model/Typed.vo Model/Procs.vo Model/Inst.vo Spec/Tables.vo Spec/ProcTables.vo Proofs/Finite.vo Proofs/FramingP.vo Proofs/WireP.vo Proofs/LayoutP.vo
Properties/C09.vio: Properties/C09.v Model/Base.vio Model/Schema.vio Model/Wire.vio Model/Typed.vio Model/Procs.vio Model/Inst.vio Spec/Tables.vio Spec/ProcTables.vio Proofs/Finite.vio Proofs/FramingP.vio Proofs/WireP.vio Proofs/LayoutP.vio
Properties/C09.vos Properties/C09.vok Properties/C09.required_vos: Properties/C09.v Model/Base.vos Model/Schema.vos Model/Wire.vos Model/Typed.vos Model/Procs.vos Model/Inst.vos Spec/Tables.vos Spec/ProcTables.vos Proofs/Finite.vos Proofs/FramingP.vos Proofs/WireP.vos Proofs/LayoutP.vos
Proofs/U2fP.vo Proofs/U2fP.glob Proofs/U2fP.v.beautified Proofs/U2fP.required_vo: Proofs/U2fP.v Model/Base.vo Model/Schema.vo Model/Wire.vo Model/Typed.vo Model/Procs.vo Model/Inst.vo Spec/Tables.vo Spec/ProcTables.vo Proofs/Finite.vo Proofs/FramingP.vo Proofs/WireP.vo Proofs/C18P.vo
Proofs/U2fP.vio: Proofs/U2fP.v Model/Base.vio Model/Schema.vio Model/Wire.vio Model/Typed.vio Model/Procs.vio Model/Inst.vio Spec/Tables.vio Spec/ProcTables.vio Proofs/Finite.vio Proofs/FramingP.vio Proofs/WireP.vio Proofs/C18P.vio
Proofs/U2fP.vos Proofs/U2fP.vok Proofs/U2fP.required_vos: Proofs/U2fP.v Model/Base.vos Model/Schema.vos Model/Wire.vos Model/Typed.vos Model/Procs.vos Model/Inst.vos Spec/Tables.vos Spec/ProcTables.vos Proofs/Finite.vos Proofs/FramingP.vos Proofs/WireP.vos Proofs/C18P.vos
Properties/C08.vo Properties/C08.glob Properties/C08.v.beautified Properties/C08.required_vo: Properties/C08.v Model/Base.vo Model/Schema.vo Model/Wire.vo Model/Typed.vo Model/Procs.vo Model/Inst.vo Spec/Tables.vo Spec/ProcTables.vo Proofs/Finite.vo Proofs/FramingP.vo Proofs/WireP.vo Proofs/C18P.vo Proofs/U2fP.vo
Properties/C08.vio: Properties/C08.v Model/Base.vio Model/Schema.vio Model/Wire.vio Model/Typed.vio Model/Procs.vio Model/Inst.vio Spec/Tables.vio Spec/ProcTables.vio Proofs/Finite.vio Proofs/FramingP.vio Proofs/WireP.vio Proofs/C18P.vio Proofs/U2fP.vio
Properties/C08.vos Properties/C08.vok Properties/C08.required_vos: Properties/C08.v Model/Base.vos Model/Schema.vos Model/Wire.vos Model/Typed.vos Model/Procs.vos Model/Inst.vos Spec/Tables.vos Spec/ProcTables.vos Proofs/Finite.vos Proofs/FramingP.vos Proofs/WireP.vos Proofs/C18P.vos Proofs/U2fP.vos
Properties/C10.vo Properties/C10.glob Properties/C10.v.beautified Properties/C10.required_vo: Properties/C10.v Model/Base.vo Model/Schema.vo Model/Wire.vo Model/Typed.vo Model/Procs.vo Model/Inst.vo Spec/Tables.vo Spec/ProcTables.vo Proofs/Finite.vo Proofs/FramingP.vo
Properties/C10.vio: Properties/C10.v Model/Base.vio Model/Schema.vio Model/Wire.vio Model/Typed.vio Model/Procs.vio Model/Inst.vio Spec/Tables.vio Spec/ProcTables.vio Proofs/Finite.vio Proofs/FramingP.vio
Properties/C10.vos Properties/C10.vok Properties/C10.required_vos: Properties/C10.v Model/Base.vos Model/Schema.vos Model/Wire.vos Model/Typed.vos Model/Procs.vos Model/Inst.vos Spec/Tables.vos Spec/ProcTables.vos Proofs/Finite.vos Proofs/FramingP.vos
Proofs/FilterP.vo Proofs/FilterP.glob Proofs/FilterP.v.beautified Proofs/FilterP.required_vo: Proofs/FilterP.v Model/Base.vo Model/Schema.vo Model/Wire.vo Model/Utf8.vo Model/Typed.vo Proofs/WireP.vo
Proofs/FilterP.vio: Proofs/FilterP.v Model/Base.vio Model/Schema.vio Model/Wire.vio Model/Utf8.vio Model/Typed.vio Proofs/WireP.vio
Proofs/FilterP.vos Proofs/FilterP.vok Proofs/FilterP.required_vos: Proofs/FilterP.v Model/Base.vos Model/Schema.vos Model/Wire.vos Model/Utf8.vos Model/Typed.vos Proofs/WireP.vos
Properties/C14.vo Properties/C14.glob Properties/C14.v.beautified Properties/C14.required_vo: Properties/C14.v Model/Base.vo Model/Schema.vo Model/Wire.vo Model/Utf8.vo Model/Typed.vo Model/Procs.vo Model/Inst.vo Spec/Tables.vo Spec/ProcTables.vo Proofs/Finite.vo Proofs/FramingP.vo Proofs/WireP.vo Proofs/FilterP.vo
Properties/C14.vio: Properties/C14.v Model/Base.vio Model/Schema.vio Model/Wire.vio Model/Utf8.vio Model/Typed.vio Model/Procs.vio Model/Inst.vio Spec/Tables.vio Spec/ProcTables.vio Proofs/Finite.vio Proofs/FramingP.vio Proofs/WireP.vio Proofs/FilterP.vio
Properties/C14.vos Properties/C14.vok Properties/C14.required_vos: Properties/C14.v Model/Base.vos Model/Schema.vos Model/Wire.vos Model/Utf8.vos Model/Typed.vos Model/Procs.vos Model/Inst.vos Spec/Tables.vos Spec/ProcTables.vos Proofs/Finite.vos Proofs/FramingP.vos Proofs/WireP.vos Proofs/FilterP.vos
Proofs/Utf8P.vo Proofs/Utf8P.glob Proofs/Utf8P.v.beautified Proofs/Utf8P.required_vo: Proofs/Utf8P.v Model/Base.vo Model/Utf8.vo Proofs/WireP.vo
Proofs/Utf8P.vio: Proofs/Utf8P.v Model/Base.vio Model/Utf8.vio Proofs/WireP.vio
Proofs/Utf8P.vos Proofs/Utf8P.vok Proofs/Utf8P.required_vos: Proofs/Utf8P.v Model/Base.vos Model/Utf8.vos Proofs/WireP.vos
Proofs/StrsP.vo Proofs/StrsP.glob Proofs/StrsP.v.beautified Proofs/StrsP.required_vo: Proofs/StrsP.v Model/Base.vo Model/Utf8.vo Proofs/WireP.vo Proofs/Utf8P.vo
Proofs/StrsP.vio: Proofs/StrsP.v Model/Base.vio Model/Utf8.vio Proofs/WireP.vio Proofs/Utf8P.vio
Proofs/StrsP.vos Proofs/StrsP.vok Proofs/StrsP.required_vos: Proofs/StrsP.v Model/Base.vos Model/Utf8.vos Proofs/WireP.vos Proofs/Utf8P.vos
Properties/C13.vo Properties/C13.glob Properties/C13.v.beautified Properties/C13.required_vo: Properties/C13.v Model/Base.vo Model/Schema.vo Model/Wire.vo Model/Utf8.vo Model/Typed.vo Model/Procs.vo Model/Inst.vo Spec/Tables.vo Spec/Limits.vo Proofs/WireP.vo Proofs/TypedP.vo Proofs/FramingP.vo Proofs/Utf8P.vo Proofs/StrsP.vo
Properties/C13.vio: Properties/C13.v Model/Base.vio Model/Schema.vio Model/Wire.vio Model/Utf8.vio Model/Typed.vio Model/Procs.vio Model/Inst.vio Spec/Tables.vio Spec/Limits.vio Proofs/WireP.vio Proofs/TypedP.vio Proofs/FramingP.vio Proofs/Utf8P.vio Proofs/StrsP.vio
Properties/C13.vos Properties/C13.vok Properties/C13.required_vos: Properties/C13.v Model/Base.vos Model/Schema.vos Model/Wire.vos Model/Utf8.vos Model/Typed.vos Model/Procs.vos Model/Inst.vos Spec/Tables.vos Spec/Limits.vos Proofs/WireP.vos Proofs/TypedP.vos Proofs/FramingP.vos Proofs/Utf8P.vos Proofs/StrsP.vos
Proofs/ArbP.vo Proofs/ArbP.glob Proofs/ArbP.v.beautified Proofs/ArbP.required_vo: Proofs/ArbP.v Model/Base.vo Model/Utf8.vo Model/Typed.vo Model/Arb.vo Proofs/WireP.vo Proofs/Utf8P.vo
Proofs/ArbP.vio: Proofs/ArbP.v Model/Base.vio Model/Utf8.vio Model/Typed.vio Model/Arb.vio Proofs/WireP.vio Proofs/Utf8P.vio
Proofs/ArbP.vos Proofs/ArbP.vok Proofs/ArbP.required_vos: Proofs/ArbP.v Model/Base.vos Model/Utf8.vos Model/Typed.vos Model/Arb.vos Proofs/WireP.vos Proofs/Utf8P.vos
Properties/C19.vo Properties/C19.glob Properties/C19.v.beautified Properties/C19.required_vo: Properties/C19.v Model/Base.vo Model/Schema.vo Model/Utf8.vo Model/Typed.vo Model/Arb.vo Model/Inst.vo Spec/Tables.vo Spec/Limits.vo Proofs/WireP.vo Proofs/Utf8P.vo Proofs/ArbP.vo
Properties/C19.vio: Properties/C19.v Model/Base.vio Model/Schema.vio Model/Utf8.vio Model/Typed.vio Model/Arb.vio Model/Inst.vio Spec/Tables.vio Spec/Limits.vio Proofs/WireP.vio Proofs/Utf8P.vio Proofs/ArbP.vio
Properties/C19.vos Properties/C19.vok Properties/C19.required_vos: Properties/C19.v Model/Base.vos Model/Schema.vos Model/Utf8.vos Model/Typed.vos Model/Arb.vos Model/Inst.vos Spec/Tables.vos Spec/Limits.vos Proofs/WireP.vos Proofs/Utf8P.vos Proofs/ArbP.vos
