(* The only file with extraction directives.  ExtrOcamlBasic maps bool, option, unit, list, prod,
   sumbool, sumor to OCaml's; ExtrOcamlString maps ascii to char and string to char list.
   Numbers stay Coq's positive / Z / nat (no Extract Constant, no OCaml int). *)
From Ctap Require Import Typed WellTyped Within Procs Arb ArbTy Tables ProcTables PlainDecls.
Require Import ExtrOcamlBasic ExtrOcamlString.
Extraction Language OCaml.
Extraction "model.ml"
  spec_env spec_tables decode encode request_deserialize response_serialize authdata_serialize
  apdu_parse u2f_request_of u2f_serialize u2f_pubkey op_of_u8 u8_of_op vendor_of_u8 dispatch
  truncate utf8_valid floor_char_boundary skip_item status_of_cerr status_invalid_command
  match_u8 match_var bytes_of_string Z.add Z.mul Z.sub Z.div Z.modulo Z.of_nat Z.to_nat
  Z.eqb Z.ltb Z.leb lookup type_fuel arb_rp arb_user arb_hmac arb_filtered arb_subparams arb_descref wt env_rt canon_val within arb_named arb_ctap1_register arb_ctap1_authenticate arb_ctap2_request arb_ctap1_request arb_authenticator_request spec_request_enums.
