(* Hand-written models of the procedural functions of the crate, interpreting the regenerated
   match tables where the code is a table (operation.rs, ctap2.rs, ctap1.rs). *)
From Ctap Require Export Base Schema Wire Utf8 Typed.
Local Open Scope string_scope.
Local Open Scope Z_scope.

(* ------------------------------------------------------------------ tables *)
Definition arms := list (mpat * mbody).

Record tables := {
  t_op_try : arms;          (* impl TryFrom<u8> for Operation *)
  t_vendor_try : arms;      (* impl TryFrom<u8> for VendorOperation *)
  t_op_into : arms;         (* impl From<Operation> for u8 *)
  t_req_arms : arms;        (* match in ctap2::Request::deserialize *)
  t_req_variants : list (string * list ty);
  t_resp_arms : arms;       (* match in ctap2::Response::serialize *)
  t_resp_variants : list (string * list ty);
  t_err_outer : arms;       (* From<CtapMappingError> for Error *)
  t_err_parsing : arms;
  t_err_codes : list (string * Z);      (* ctap2::Error discriminants *)
  t_call2 : arms;           (* Authenticator::call_ctap2 *)
  t_call1 : arms;           (* ctap1::Authenticator::call_ctap1 *)
  t_control_try : arms;     (* TryFrom<u8> for ControlByte *)
  t_control_codes : list (string * Z);
  t_credprotect_try : arms; (* TryFrom<u8> for CredentialProtectionPolicy *)
  t_flags : list (string * Z);          (* AuthenticatorDataFlags *)
  t_permissions : list (string * Z);
  t_authdata_len : Z;
  t_max_msg : Z
}.

Fixpoint find_enum (name : string) (l : list rdecl) : list (string * cfg * list ty) :=
  match l with
  | [] => []
  | REnum n _ _ _ vs :: r => if String.eqb n name then vs else find_enum name r
  | _ :: r => find_enum name r
  end.
Fixpoint find_repr (name : string) (l : list rdecl) : list (string * Z) :=
  match l with
  | [] => []
  | RReprEnum n _ _ _ vs :: r => if String.eqb n name then vs else find_repr name r
  | _ :: r => find_repr name r
  end.
Fixpoint find_flags (name : string) (l : list rdecl) : list (string * Z) :=
  match l with
  | [] => []
  | RFlags n _ bits :: r => if String.eqb n name then bits else find_flags name r
  | _ :: r => find_flags name r
  end.

Definition live_variants (f : feats) (vs : list (string * cfg * list ty)) : list (string * list ty) :=
  flat_map (fun v => match v with (n, c, ts) => if cfg_eval f c then [(n, map resolve_ty ts)] else [] end) vs.

Definition tables_of (f : feats) (raw : list (cfg * rdecl)) (consts : list (string * Z)) : tables :=
  let all := strip f raw in
  let m n := match find_match n all with Some a => a | None => [] end in
  let k n := match assoc n consts with Some z => z | None => -1 end in
  {| t_op_try := m "operation::TryFrom<u8> for Operation";
     t_vendor_try := m "operation::TryFrom<u8> for VendorOperation";
     t_op_into := m "operation::From<Operation> for u8";
     t_req_arms := m "ctap2::Request::deserialize";
     t_req_variants := live_variants f (find_enum "ctap2::Request" all);
     t_resp_arms := m "ctap2::Response::serialize";
     t_resp_variants := live_variants f (find_enum "ctap2::Response" all);
     t_err_outer := m "ctap2::From<CtapMappingError> for Error";
     t_err_parsing := m "ctap2::From<CtapMappingError> for Error/ParsingError";
     t_err_codes := find_repr "ctap2::Error" all;
     t_call2 := m "ctap2::Authenticator::call_ctap2";
     t_call1 := m "ctap1::Authenticator::call_ctap1";
     t_control_try := m "ctap1::TryFrom<u8> for ControlByte";
     t_control_codes := find_repr "ctap1::ControlByte" all;
     t_credprotect_try := m "ctap2::make_credential::TryFrom<u8> for CredentialProtectionPolicy";
     t_flags := find_flags "ctap2::AuthenticatorDataFlags" all;
     t_permissions := find_flags "ctap2::client_pin::Permissions" all;
     t_authdata_len := k "sizes::AUTHENTICATOR_DATA_LENGTH";
     t_max_msg := k "sizes::THEORETICAL_MAX_MESSAGE_SIZE" |}.

(* first-match evaluation of a byte-pattern table *)
Fixpoint match_u8 (a : arms) (b : Z) : option mbody :=
  match a with
  | [] => None
  | (MP_Int z, body) :: r => if z =? b then Some body else match_u8 r b
  | (MP_Range lo hi, body) :: r => if (lo <=? b) && (b <=? hi) then Some body else match_u8 r b
  | (MP_Wild, body) :: _ => Some body
  | _ :: r => match_u8 r b
  end.

Fixpoint match_var (a : arms) (v : string) : option mbody :=
  match a with
  | [] => None
  | (MP_Var n, body) :: r => if String.eqb n v then Some body else match_var r v
  | (MP_Wild, body) :: _ => Some body
  | _ :: r => match_var r v
  end.

Inductive opv := OpNamed (name : string) | OpVendor (code : Z).

Definition vendor_of_u8 (T : tables) (b : Z) : option Z :=
  match match_u8 (t_vendor_try T) b with
  | Some (MB_Wrap _) => Some b
  | _ => None
  end.

Definition op_of_u8 (T : tables) (b : Z) : option opv :=
  match match_u8 (t_op_try T) b with
  | Some (MB_Var n) => Some (OpNamed n)
  | Some (MB_WrapTry "Vendor") => option_map OpVendor (vendor_of_u8 T b)
  | _ => None
  end.

Definition u8_of_op (T : tables) (o : opv) : option Z :=
  match o with
  | OpVendor c => Some c
  | OpNamed n => match match_var (t_op_into T) n with Some (MB_Int z) => Some z | _ => None end
  end.

Definition err_code (T : tables) (name : string) : Z :=
  match assoc name (t_err_codes T) with Some z => z | None => -1 end.

(* impl From<CtapMappingError> for Error *)
Definition status_of_cerr (T : tables) (e : cerr) : Z :=
  let vname := match e with SerdeMissingField => "SerdeMissingField" | _ => "<other>" end in
  match match_var (t_err_outer T) "ParsingError" with
  | Some MB_Match =>
      match match_var (t_err_parsing T) vname with
      | Some (MB_Var s) => err_code T s
      | _ => -1
      end
  | _ => -1
  end.
Definition status_invalid_command (T : tables) : Z :=
  match match_var (t_err_outer T) "InvalidCommand" with
  | Some (MB_Var s) => err_code T s
  | _ => -1
  end.

(* ------------------------------------------------------------------ ctap2::Request::deserialize *)
Inductive request :=
| ReqUnit (variant : string)
| ReqVendor (code : Z)
| ReqBody (variant : string) (v : val).

Inductive rres (A : Type) := ROk (a : A) | RErr (status : Z) | RPanic (site : string) | RFuel.
Arguments ROk {A} a. Arguments RErr {A} status. Arguments RPanic {A} site. Arguments RFuel {A}.

(* what the command byte alone decides *)
Inductive route :=
| RtDecode (variant : string) (t : ty)
| RtUnit (variant : string)
| RtVendor (code : Z)
| RtInvalid
| RtBroken (why : string).

Definition route_of (T : tables) (op : Z) : route :=
  match op_of_u8 T op with
  | None => RtInvalid
  | Some o =>
      let vname := match o with OpNamed n => n | OpVendor _ => "Vendor" end in
      match match_var (t_req_arms T) vname, o with
      | Some (MB_Decode v), _ =>
          match assoc v (t_req_variants T) with
          | Some [t] => RtDecode v t
          | _ => RtBroken "request variant without payload type"
          end
      | Some (MB_Var v), _ => RtUnit v
      | Some (MB_Wrap "Vendor"), OpVendor c => RtVendor c
      | Some (MB_Err "InvalidCommand"), _ => RtInvalid
      | _, _ => RtBroken "unmodelled arm of Request::deserialize"
      end
  end.

Definition run_route (T : tables) (e : env) (r : route) (body : bytes) : rres request :=
  match r with
  | RtDecode v t =>
      match decode e t body with
      | Ok (x, _) => ROk (ReqBody v x)          (* trailing bytes are ignored *)
      | Err ce => RErr (status_of_cerr T ce)
      | Panic s => RPanic s
      | Fuel => RFuel
      end
  | RtUnit v => ROk (ReqUnit v)
  | RtVendor c => ROk (ReqVendor c)
  | RtInvalid => RErr (status_invalid_command T)
  | RtBroken s => RPanic s
  end.

Definition request_deserialize (T : tables) (e : env) (data : bytes) : rres request :=
  match data with
  | [] => RErr (status_of_cerr T UnexpectedEnd)
  | op :: body => run_route T e (route_of T op) body
  end.

(* ------------------------------------------------------------------ ctap2::Response::serialize *)
(* cbor_serialize into a slice of [cap] bytes: every write_all is atomic and the first one that
   does not fit aborts, so the call fails iff the complete encoding is longer than the slice. *)
Definition ser_into (cap : Z) (b : bytes) : option bytes :=
  if blen b <=? cap then Some b else None.

(* returns the contents of the buffer after the call; [n] is the capacity N of Vec<u8, N>.
   The prior contents are irrelevant: resize_default(capacity) keeps them, the status byte and the
   body overwrite them, the final resize truncates. *)
Definition response_serialize (T : tables) (e : env) (variant : string) (payload : val)
  (n : Z) (prior : bytes) : res bytes :=
  if n <=? 0 then Panic "split_first_mut().unwrap() on an empty buffer"
  else
    let outcome :=
      match match_var (t_resp_arms T) variant with
      | Some MB_Ser =>
          match assoc variant (t_resp_variants T) with
          | Some [t] =>
              match encode e t payload with
              | Some b => Ok (ser_into (n - 1) b)
              | None => Panic "ill-typed response value"
              end
          | _ => Panic "response variant without payload type"
          end
      | Some (MB_Other _) => Ok (Some [])
      | _ => Panic "unmodelled arm of Response::serialize"
      end in
    o <- outcome ;;
    match o with
    | Some body => if bytes_eqb body [160] then Ok [0] else Ok (0 :: body)
    | None => Ok [err_code T "Other"]
    end.

(* ------------------------------------------------------------------ AuthenticatorData::serialize *)
Definition ErrOther {A} : res A := Err SerializeBufferFull.   (* stands for ctap2::Error::Other *)

Definition push_chunk (cap : Z) (buf chunk : bytes) : res bytes :=
  if blen buf + blen chunk <=? cap then Ok (buf ++ chunk)%list else ErrOther.

Record attested := { ac_aaguid : bytes; ac_id : bytes; ac_key : bytes }.

(* rpIdHash || flags || signCount *)
Definition ad_header (cap : Z) (rp : bytes) (flags count : Z) : res bytes :=
  b <- push_chunk cap [] rp ;;
  b <- push_chunk cap b [flags] ;;
  push_chunk cap b (be 4 count).

(* impl SerializeAttestedCredentialData for AttestedCredentialData: aaguid || u16 BE length || id || key *)
Definition ad_acd (cap : Z) (b : bytes) (a : attested) : res bytes :=
  b <- push_chunk cap b (ac_aaguid a) ;;
  _ <- (if 65535 <? blen (ac_id a) then ErrOther else Ok tt) ;;
  b <- push_chunk cap b (be 2 (blen (ac_id a))) ;;
  b <- push_chunk cap b (ac_id a) ;;
  push_chunk cap b (ac_key a).

Definition authdata_serialize (T : tables) (e : env) (rp : bytes) (flags count : Z)
  (acd : option attested) (ext : option (ty * val)) : res bytes :=
  let cap := t_authdata_len T in
  b <- ad_header cap rp flags count ;;
  b <- match acd with
       | None => Ok b
       | Some a => ad_acd cap b a
       end ;;
  match ext with
  | None => Ok b
  | Some (t, v) =>
      match encode e t v with
      | Some x => push_chunk cap b x
      | None => Panic "ill-typed extension value"
      end
  end.

(* ------------------------------------------------------------------ ISO 7816 framing (iso7816 0.1.4) *)
Record apdu := { a_cla : Z; a_ins : Z; a_p1 : Z; a_p2 : Z; a_data : bytes; a_le : Z; a_ext : bool }.

Inductive apdu_err := TooShort | InvalidClass | InvalidFirstBodyByteForExtended | InvalidSliceLength.

Definition rz (v r : Z) : Z := if v =? 0 then r else v.

(* parse_lengths: (lc, le, offset, extended) *)
Definition parse_lengths (body : bytes) : apdu_err + (Z * Z * Z * bool) :=
  let l := blen body in
  if l =? 0 then inr (0, 0, 0, false)
  else
    let b1 := nth 0 body 0 in
    if l =? 1 then inr (0, rz b1 256, 0, false)
    else if (l =? 1 + b1) && negb (b1 =? 0) then inr (b1, 0, 1, false)
    else if (l =? 2 + b1) && negb (b1 =? 0) then inr (b1, rz (nth (Z.to_nat (l - 1)) body 0) 256, 1, false)
    else if negb (b1 =? 0) then inl InvalidFirstBodyByteForExtended
    else if l <? 3 then inl InvalidSliceLength
    else
      let w := of_be [nth 1 body 0; nth 2 body 0] in
      if l =? 3 then inr (0, rz w 65536, 0, true)
      else if l =? 3 + w then inr (w, 0, 3, true)
      else if l =? 5 + w then
        inr (w, rz (of_be [nth (Z.to_nat (l - 2)) body 0; nth (Z.to_nat (l - 1)) body 0]) 65536, 3, true)
      else inl InvalidSliceLength.

Definition apdu_parse (raw : bytes) : apdu_err + apdu :=
  if blen raw <? 4 then inl TooShort
  else
    let cla := nth 0 raw 0 in
    if cla =? 255 then inl InvalidClass
    else match parse_lengths (skipn 4 raw) with
    | inl e => inl e
    | inr (lc, le, off, ext) =>
        inr {| a_cla := cla; a_ins := nth 1 raw 0; a_p1 := nth 2 raw 0; a_p2 := nth 3 raw 0;
               a_data := firstn (Z.to_nat lc) (skipn (Z.to_nat off) (skipn 4 raw));
               a_le := le; a_ext := ext |}
    end.

(* instruction bytes iso7816 gives a name: Instruction::from maps them away from Unknown(_) *)
Definition iso_named_ins : list Z := [32; 36; 44; 71; 135; 164; 192; 203; 219; 176; 208].

(* ------------------------------------------------------------------ ctap1 *)
Inductive u2f_request :=
| U2fRegister (challenge app_id : bytes)
| U2fAuthenticate (control : string) (challenge app_id key_handle : bytes)
| U2fVersion.

Inductive u2f_res := U2fOk (r : u2f_request) | U2fErr (status : string) | U2fPanic (site : string).

Definition slice (lo hi : Z) (l : bytes) : bytes := firstn (Z.to_nat (hi - lo)) (skipn (Z.to_nat lo) l).

(* impl TryFrom<CommandView> for ctap1::Request *)
Definition u2f_request_of (T : tables) (a : apdu) : u2f_res :=
  let ins := if zmem (a_ins a) iso_named_ins then 0 else a_ins a in
  if negb (a_cla a =? 0) then U2fErr "ClassNotSupported"
  else if ins =? 3 then U2fOk U2fVersion
  else
    let req := a_data a in
    if ins =? 1 then
      if negb (blen req =? 64) then U2fErr "IncorrectDataParameter"
      else U2fOk (U2fRegister (slice 0 32 req) (slice 32 64 req))
    else if ins =? 2 then
      match match_u8 (t_control_try T) (a_p1 a) with
      | Some (MB_Var cb) =>
          if blen req <? 65 then U2fErr "IncorrectDataParameter"
          else
            let khl := nth 64 req 0 in
            if negb (blen req =? 65 + khl) then U2fErr "IncorrectDataParameter"
            else U2fOk (U2fAuthenticate cb (slice 0 32 req) (slice 32 64 req) (skipn 65 req))
      | Some (MB_Err s) => U2fErr s
      | _ => U2fPanic "unmodelled ControlByte arm"
      end
    else U2fErr "InstructionNotSupportedOrInvalid".

Inductive u2f_response :=
| U2fRegisterResp (header : Z) (public_key key_handle cert sig : bytes)
| U2fAuthResp (presence count : Z) (sig : bytes)
| U2fVersionResp (v : bytes).

(* heapless Vec push / extend_from_slice: all-or-nothing per call *)
Definition vpush (cap : Z) (buf chunk : bytes) : option bytes :=
  if blen buf + blen chunk <=? cap then Some (buf ++ chunk)%list else None.

Fixpoint vpush_all (cap : Z) (buf : bytes) (parts : list bytes) : bool * bytes :=
  match parts with
  | [] => (true, buf)
  | p :: r => match vpush cap buf p with
              | Some b => vpush_all cap b r
              | None => (false, buf)
              end
  end.

Definition u2f_parts (r : u2f_response) : list bytes :=
  match r with
  | U2fRegisterResp h pk kh cert sig => [[h]; pk; [blen kh mod 256]; kh; cert; sig]
  | U2fAuthResp up count sig => [[up]; be 4 count; sig]
  | U2fVersionResp v => [v]
  end.

(* ctap1::Response::serialize into iso7816::Data<S> holding [prior] *)
Definition u2f_serialize (r : u2f_response) (cap : Z) (prior : bytes) : bool * bytes :=
  vpush_all cap prior (u2f_parts r).

(* register::Response::new: 0x04 || x || y into Bytes<65> with unwraps *)
Definition u2f_pubkey (x y : bytes) : res bytes :=
  match vpush 65 [] [4] with
  | None => Panic "push(0x04).unwrap()"
  | Some b => match vpush 65 b x with
              | None => Panic "extend_from_slice(x).unwrap()"
              | Some b => match vpush 65 b y with
                          | None => Panic "extend_from_slice(y).unwrap()"
                          | Some b => Ok b
                          end
              end
  end.

(* ------------------------------------------------------------------ dispatch *)
Inductive hres := HOk (v : val) | HErr (code : Z).

Section Dispatch.
  Variable St : Type.
  (* the authenticator: one handler per trait method, arbitrary *)
  Variable handler : string -> val -> St -> St * hres.

  Definition dispatch (a : arms) (variant : string) (payload : val) (st : St)
    : option (St * hres) :=
    match match_var a variant with
    | Some (MB_Call [m] ctor fallible) =>
        let '(st', r) := handler m payload st in
        match r with
        | HOk v => Some (st', HOk (VVar ctor v))
        | HErr c => if fallible then Some (st', HErr c) else None
        end
    | _ => None
    end.
End Dispatch.
