(* UTF-8 validity (= core::str::from_utf8, Unicode Table 3-7) and the string helpers of
   src/webauthn.rs: is_utf8_char_boundary, floor_char_boundary, truncate. *)
From Ctap Require Export Base.

Definition in_rng (lo hi b : Z) : bool := (lo <=? b) && (b <=? hi).
Definition cont (b : Z) : bool := in_rng 128 191 b.

(* length of the well-formed UTF-8 sequence starting the list, 0 if ill-formed *)
Definition utf8_first (l : bytes) : nat :=
  match l with
  | [] => 0%nat
  | b0 :: r =>
      if in_rng 0 127 b0 then 1%nat
      else match r with
      | [] => 0%nat
      | b1 :: r1 =>
          if in_rng 194 223 b0 then (if cont b1 then 2%nat else 0%nat)
          else match r1 with
          | [] => 0%nat
          | b2 :: r2 =>
              if in_rng 224 239 b0 then
                if (if b0 =? 224 then in_rng 160 191 b1
                    else if b0 =? 237 then in_rng 128 159 b1
                    else cont b1) && cont b2 then 3%nat else 0%nat
              else match r2 with
              | [] => 0%nat
              | b3 :: _ =>
                  if in_rng 240 244 b0 then
                    if (if b0 =? 240 then in_rng 144 191 b1
                        else if b0 =? 244 then in_rng 128 143 b1
                        else cont b1) && cont b2 && cont b3 then 4%nat else 0%nat
                  else 0%nat
              end
          end
      end
  end.

(* fuel = length suffices: every step consumes at least one byte *)
Fixpoint utf8_valid_fuel (fuel : nat) (l : bytes) : bool :=
  match l with
  | [] => true
  | _ =>
      match fuel with
      | O => false
      | S k =>
          match utf8_first l with
          | O => false
          | n => utf8_valid_fuel k (skipn n l)
          end
      end
  end.
Definition utf8_valid (l : bytes) : bool := utf8_valid_fuel (List.length l) l.

(* Utf8Error::valid_up_to(): length of the longest prefix made of whole well-formed sequences *)
Fixpoint valid_up_to (fuel : nat) (l : bytes) : nat :=
  match fuel with
  | O => O
  | S f => match utf8_first l with
           | O => O
           | n => (n + valid_up_to f (skipn n l))%nat
           end
  end.
Definition valid_prefix_len (l : bytes) : nat := valid_up_to (List.length l) l.

(* (b as i8) >= -0x40  <=>  b < 128 || b >= 192 *)
Definition is_boundary_byte (b : Z) : bool := (b <? 128) || (192 <=? b).

(* position of the last element satisfying p *)
Fixpoint rposition (p : Z -> bool) (l : bytes) : option Z :=
  match l with
  | [] => None
  | x :: r =>
      match rposition p r with
      | Some k => Some (k + 1)
      | None => if p x then Some 0 else None
      end
  end.

(* webauthn.rs floor_char_boundary (copy of the nightly str::floor_char_boundary) *)
Definition floor_char_boundary (s : bytes) (index : Z) : res Z :=
  if blen s <=? index then Ok (blen s)
  else
    let lower := Z.max 0 (index - 3) in
    (* s.as_bytes()[lower..=index]: in bounds because index < len *)
    let window := firstn (Z.to_nat (index - lower + 1)) (skipn (Z.to_nat lower) s) in
    match rposition is_boundary_byte window with
    | Some k => Ok (lower + k)
    | None => Panic "floor_char_boundary: unwrap_unchecked on None"
    end.

(* str::is_char_boundary *)
Definition is_char_boundary (s : bytes) (k : Z) : bool :=
  if k =? 0 then true
  else if k =? blen s then true
  else if blen s <? k then false
  else is_boundary_byte (nth (Z.to_nat k) s 0).

(* webauthn.rs truncate::<L> *)
Definition truncate (L : Z) (s : bytes) : res bytes :=
  split <- floor_char_boundary s L ;;
  if negb (is_char_boundary s split) then Panic "truncate: &s[..split] off a char boundary"
  else
    let t := firstn (Z.to_nat split) s in
    if L <? blen t then Panic "truncate: push_str(..).unwrap()" else Ok t.
