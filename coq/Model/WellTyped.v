(* Well-typed (canonical) values and well-formed declarations: the domain of the round-trip theorem
   (Proofs/RoundTripP.v).  Definitions only; evaluated by the kernel on the declaration tables and by the
   extracted driver on the values of the differential runs. *)
From Ctap Require Export Base Schema Wire Utf8 Typed.
Local Open Scope string_scope.
Local Open Scope list_scope.
Local Open Scope Z_scope.

Definition idx_key (fd : field) : Z := match f_key fd with KInt z => z | KText _ => -1 end.

Definition lim32 : Z := 4294967296.
Definition lim64 : Z := 18446744073709551616.

Definition ty_not_null (t : ty) : bool := match t with TOpt _ | TUnit => false | _ => true end.
Definition is_none (v : val) : bool := match v with VNone => true | _ => false end.

Definition w_trunc := "deserialize_from_str_and_truncate".
Definition w_skip := "deserialize_from_str_and_skip_if_too_long".

(* ---------------------------------------------------------------- well-typed (canonical) values *)
Definition str_ok (cap : Z) (v : val) : bool :=
  match v with VStr s => utf8_valid s && (blen s <=? cap) && (blen s <? lim32) | _ => false end.

(* member of an integer-keyed struct *)
Definition field_ok_idx (wtf : ty -> val -> bool) (fd : field) (v : val) : bool :=
  if emitted fd v then
    if f_opt fd then match v with VSome _ => is_opt_ty (f_ty fd) && wtf (f_ty fd) v | _ => false end
    else wtf (f_ty fd) v
  else is_none v && f_opt fd.

(* member of a text-keyed struct *)
Definition field_ok_txt (wtf : ty -> val -> bool) (fd : field) (v : val) : bool :=
  if emitted fd v then
    match f_with fd with
    | None => wtf (f_ty fd) v
    | Some w =>
        match v with
        | VNone => String.eqb w w_trunc
        | VSome s => str_ok (str_cap (f_ty fd)) s
        | _ => false
        end
    end
  else is_none v && f_opt fd.

Fixpoint wt_fields (ok : field -> val -> bool) (fs : list field) (vs : list (string * val)) : bool :=
  match fs, vs with
  | [], [] => true
  | fd :: fs', (l, v) :: vs' => String.eqb l (f_label fd) && ok fd v && wt_fields ok fs' vs'
  | _, _ => false
  end.

Definition full_param (a : Z) : val :=
  VRec [("alg", VZ a); ("key_type", VStr (bytes_of_string "public-key"))].

Fixpoint wt (e : env) (fuel : nat) (t : ty) (v : val) {struct fuel} : bool :=
  match fuel with
  | O => false
  | S k =>
      match t, v with
      | TU8, VZ z => (0 <=? z) && (z <? 256)
      | TU16, VZ z => (0 <=? z) && (z <? 65536)
      | TU32, VZ z => (0 <=? z) && (z <? lim32)
      | (TU64 | TUsize), VZ z => (0 <=? z) && (z <? lim64)
      | TI8, VZ z => (-128 <=? z) && (z <=? 127)
      | TI32, VZ z => (-2147483648 <=? z) && (z <=? 2147483647)
      | TBool, VBool _ => true
      | TUnit, VUnit => true
      | TBytesRef, VBytes b => blen b <? lim32
      | TBytesCap n, VBytes b => (blen b <=? n) && (blen b <? lim32)
      | TByteArrRef n, VBytes b => (blen b =? n) && (blen b <? lim32)
      | TStrRef, VStr s => utf8_valid s && (blen s <? lim32)
      | TStrCap n, VStr s => utf8_valid s && (blen s <=? n) && (blen s <? lim32)
      | TVec u cap, VList l => (blen l <=? cap) && (blen l <? lim32) && forallb (wt e k u) l
      | TOpt _, VNone => true
      | TOpt u, VSome w => ty_not_null u && wt e k u w
      | TNamed name, _ =>
          match lookup e name, v with
          | Some (DStruct true _ _ fs), VRec vs => wt_fields (field_ok_idx (wt e k)) fs vs
          | Some (DStruct false _ _ fs), VRec vs => wt_fields (field_ok_txt (wt e k)) fs vs
          | Some (DStrEnum _ _ _ _), VEnum _ => true
          | Some (DRepr _ _ _ _), VEnum _ => true
          | Some (DCustom kind _ _ _), VRec [("x", VBytes x); ("y", VBytes y)] =>
              String.eqb kind "ext::EcdhEsHkdf256PublicKey" && (blen x <=? 32) && (blen y <=? 32)
          | Some (DCustom kind _ _ params), VList l =>
              (* the filtered parameter list: known algorithms only, at most COUNT_KNOWN_ALGS of them *)
              String.eqb kind "webauthn::FilteredPublicKeyCredentialParameters"
              && (blen l <=? hd 0 params) && (blen l <? lim32)
              && forallb (fun kp => match kp with
                                    | VRec [("alg", VZ a)] =>
                                        zmem a (tl params) && wt e k (TNamed n_PKCP) (full_param a)
                                    | _ => false end) l
          | _, _ => false
          end
      | _, _ => false
      end
  end.

(* ---------------------------------------------------------------- well-formed declarations *)
Fixpoint nodup_s (l : list string) : bool :=
  match l with [] => true | x :: r => negb (smem x r) && nodup_s r end.
Fixpoint nodup_z (l : list Z) : bool :=
  match l with [] => true | x :: r => negb (zmem x r) && nodup_z r end.

Definition key_text (fd : field) : bytes :=
  match f_key fd with KText s => bytes_of_string s | KInt _ => [] end.

Definition idx_field_wf (fd : field) : bool :=
  match f_key fd with KInt z => (0 <=? z) && (z <? lim64) | KText _ => false end
  && negb (f_skip_ser fd).

Definition txt_field_wf (fs : list field) (fd : field) : bool :=
  match f_key fd with KText _ => true | KInt _ => false end
  && utf8_valid (key_text fd) && (blen (key_text fd) <? lim32)
  && match find_txt_field (key_text fd) fs with Some fd' => String.eqb (f_label fd') (f_label fd) | None => false end
  && match f_with fd with
     | None => true
     | Some w => (String.eqb w w_trunc || String.eqb w w_skip) && f_skip_none fd && f_opt fd
                 && match f_ty fd with TOpt (TStrCap n) => 0 <=? n | _ => false end
     end.

Definition decl_rt (d : decl) : bool :=
  match d with
  | DStruct true _ _ fs =>
      forallb idx_field_wf fs && nodup_z (map idx_key fs) && nodup_s (map f_label fs) && (blen fs <? lim32)
  | DStruct false _ _ fs =>
      forallb (txt_field_wf fs) fs && nodup_s (map f_label fs) && (blen fs <? lim32)
  | DStrEnum _ _ into tf =>
      forallb (fun p => utf8_valid (bytes_of_string (snd p)) && (blen (bytes_of_string (snd p)) <? lim32)
                        && match lookup_tryfrom (bytes_of_string (snd p)) tf with
                           | Some v => String.eqb v (fst p) | None => false end) into
  | DRepr repr _ _ vs =>
      String.eqb repr "u8" &&
      forallb (fun p => (0 <=? snd p) && (snd p <? 256)
                        && match variant_of_discr (snd p) vs with
                           | Some v => String.eqb v (fst p) | None => false end) vs
  | _ => true
  end.

Definition env_rt (e : env) : bool := forallb (fun p => decl_rt (snd p)) e.


(* Records in declaration order (the harness prints members alphabetically): used by the driver before it
   evaluates [wt]; the driver also checks that the reordered value has the same encoding. *)
Fixpoint canon_val (e : env) (fuel : nat) (t : ty) (v : val) {struct fuel} : val :=
  match fuel with
  | O => v
  | S k =>
      match t, v with
      | TVec u _, VList l => VList (map (canon_val e k u) l)
      | TOpt u, VSome w => VSome (canon_val e k u w)
      | TNamed name, VRec vs =>
          match lookup e name with
          | Some (DStruct _ _ _ fs) =>
              VRec (flat_map (fun fd => match rget (f_label fd) vs with
                                        | Some fv => [(f_label fd, canon_val e k (f_ty fd) fv)]
                                        | None => [] end) fs)
          | _ => v
          end
      | _, _ => v
      end
  end.
