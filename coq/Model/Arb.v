(* Model of src/arbitrary.rs (feature "arbitrary") on top of the primitives of arbitrary 1.4.2's
   Unstructured that the crate's hand-written impls use.  The input is the remaining byte string. *)
From Ctap Require Export Base Utf8 Typed.
Local Open Scope string_scope.
Local Open Scope Z_scope.

Definition U := bytes.

Inductive ares (A : Type) :=
| AOk (a : A) (u : U)
| ANotEnough                  (* arbitrary::Error::NotEnoughData *)
| APanic (site : string).
Arguments AOk {A} a u. Arguments ANotEnough {A}. Arguments APanic {A} site.

Definition abind {A B} (r : ares A) (k : A -> U -> ares B) : ares B :=
  match r with AOk a u => k a u | ANotEnough => ANotEnough | APanic s => APanic s end.

(* Unstructured::fill_buffer + from_le_bytes: missing bytes read as zero, never fails *)
Definition of_le (l : bytes) : Z := fold_right (fun b acc => b + 256 * acc) 0 l.
Definition fill (n : nat) (u : U) : Z * U := (of_le (firstn n u), skipn n u).
Definition arb_u8 (u : U) : Z * U := fill 1 u.
Definition arb_u32 (u : U) : Z * U := fill 4 u.
Definition arb_usize (u : U) : Z * U := fill 8 u.
Definition arb_bool (u : U) : bool * U := let '(b, u') := arb_u8 u in (Z.odd b, u').

(* Unstructured::bytes / peek_bytes *)
Definition u_bytes (n : Z) (u : U) : ares bytes :=
  if blen u <? n then ANotEnough else AOk (firstn (Z.to_nat n) u) (skipn (Z.to_nat n) u).
Definition u_peek (n : Z) (u : U) : option bytes :=
  if blen u <? n then None else Some (firstn (Z.to_nat n) u).

(* int_in_range(0..=maxv) for 0 < maxv < 256 (one byte of entropy, none when the input is empty) *)
Definition int_small (maxv : Z) (u : U) : Z * U :=
  match u with [] => (0, []) | b :: r => (b mod (maxv + 1), r) end.

(* ---- the five helpers of src/arbitrary.rs *)
Definition arbitrary_bytes (N : Z) (u : U) : ares bytes :=
  let '(n0, u1) := arb_usize u in
  let n := Z.min n0 N in
  abind (u_bytes n u1) (fun b u2 =>
    if blen b <=? N then AOk b u2 else APanic "Bytes::from_slice(..).unwrap()").

Definition arbitrary_byte_array (N : Z) (u : U) : ares bytes :=
  abind (u_bytes N u) (fun b u2 =>
    if blen b =? N then AOk b u2 else APanic "try_into().unwrap()").

Definition arbitrary_str (N : Z) (u : U) : ares bytes :=
  let '(n0, u1) := arb_usize u in
  let n := Z.min n0 N in
  match u_peek n u1 with
  | None => ANotEnough
  | Some p =>
      if utf8_valid p then
        abind (u_bytes n u1) (fun s u2 =>
          if blen s <=? N then AOk s u2 else APanic "String::try_from(&str).unwrap()")
      else
        let i := Z.of_nat (Utf8.valid_prefix_len p) in
        abind (u_bytes i u1) (fun s u2 =>
          (* from_utf8_unchecked: the bytes handed over must be valid UTF-8 *)
          if negb (utf8_valid s) then APanic "from_utf8_unchecked on ill-formed bytes"
          else if blen s <=? N then AOk s u2 else APanic "String::try_from(&str).unwrap()")
  end.

Definition arbitrary_key (u : U) : ares (bytes * bytes) :=
  abind (arbitrary_bytes 32 u) (fun x u1 =>
  abind (arbitrary_bytes 32 u1) (fun y u2 => AOk (x, y) u2)).

Definition arbitrary_option {A} (f : U -> ares A) (u : U) : ares (option A) :=
  let '(b, u1) := arb_bool u in
  if b then abind (f u1) (fun a u2 => AOk (Some a) u2) else AOk None u1.

(* arbitrary_vec::<T, N>: arbitrary_loop(Some(0), Some(N)) draws the count with int_in_range(0..=N) *)
Fixpoint rep_loop {A} (f : U -> ares A) (count : nat) (acc : list A) (u : U) : ares (list A) :=
  match count with
  | O => AOk (rev acc) u
  | S k => abind (f u) (fun a u' => rep_loop f k (a :: acc) u')
  end.
Definition arbitrary_vec {A} (N : Z) (f : U -> ares A) (u : U) : ares (list A) :=
  let '(c, u1) := int_small N u in
  abind (rep_loop f (Z.to_nat c) [] u1) (fun l u2 =>
    if blen l <=? N then AOk l u2 else APanic "vec.push(..).unwrap()").

(* ---- generator programs of the public types that expose each helper *)
Definition vopt (o : option val) : val := match o with Some v => VSome v | None => VNone end.

(* webauthn::KnownPublicKeyCredentialParameters: *u.choose(&KNOWN_ALGS) *)
Definition arb_known_param (algs : list Z) (u : U) : ares val :=
  let '(ix, u1) := int_small (blen algs - 1) u in
  AOk (VRec [("alg", VZ (nth (Z.to_nat ix) algs 0))]) u1.

Definition arb_filtered (algs : list Z) (u : U) : ares val :=
  abind (arbitrary_vec 2 (arb_known_param algs) u) (fun l u1 => AOk (VList l) u1).

Definition arb_rp (u : U) : ares val :=
  abind (arbitrary_str 256 u) (fun id u1 =>
  let '(b, u2) := arb_bool u1 in
  abind (if b then abind (arbitrary_str 64 u2) (fun s u' => AOk (Some (VStr s)) u') else AOk None u2) (fun name u3 =>
  let '(bi, u4) := arb_bool u3 in       (* Option<Icon>: Icon is a unit struct *)
  AOk (VRec [("id", VStr id); ("name", vopt name); ("icon", if bi then VSome VUnit else VNone)]) u4)).

Definition arb_opt_str (N : Z) (u : U) : ares (option val) :=
  let '(b, u1) := arb_bool u in
  if b then abind (arbitrary_str N u1) (fun s u' => AOk (Some (VStr s)) u') else AOk None u1.

Definition arb_user (u : U) : ares val :=
  abind (arbitrary_bytes 64 u) (fun id u1 =>
  abind (arb_opt_str 128 u1) (fun icon u2 =>
  abind (arb_opt_str 64 u2) (fun name u3 =>
  abind (arb_opt_str 64 u3) (fun dn u4 =>
  AOk (VRec [("id", VBytes id); ("icon", vopt icon); ("name", vopt name); ("display_name", vopt dn)]) u4)))).

Definition arb_hmac (u : U) : ares val :=
  abind (arbitrary_key u) (fun k u1 =>
  abind (arbitrary_bytes 80 u1) (fun se u2 =>
  abind (arbitrary_bytes 32 u2) (fun sa u3 =>
  let '(b, u4) := arb_bool u3 in
  let '(pp, u5) := if b then (let '(v, u') := arb_u32 u4 in (VSome (VZ v), u')) else (VNone, u4) in
  AOk (VRec [("key_agreement", VRec [("x", VBytes (fst k)); ("y", VBytes (snd k))]);
             ("salt_enc", VBytes se); ("salt_auth", VBytes sa); ("pin_protocol", pp)]) u5))).

(* ---- Unstructured::arbitrary_byte_size / arbitrary_len::<u8>: the length is taken from the END of the
   input (one byte when at most 256 bytes remain, two bytes up to 65537) *)
Definition arb_byte_size (u : U) : Z * U :=
  let n := blen u in
  if n =? 0 then (0, u)
  else if n =? 1 then (0, [])
  else if n <=? 256 then
    let m := n - 1 in
    let rest := firstn (Z.to_nat m) u in
    let b := nth (Z.to_nat m) u 0 in
    ((if m =? 255 then b else b mod (m + 1)), rest)
  else
    let m := n - 2 in
    let rest := firstn (Z.to_nat m) u in
    let b0 := nth (Z.to_nat m) u 0 in
    let b1 := nth (Z.to_nat (m + 1)) u 0 in
    let v := if 256 <=? m then b0 * 256 + b1 else b0 in
    ((if m =? 65535 then v else v mod (m + 1)), rest).

(* <&[u8] as Arbitrary>::arbitrary *)
Definition arb_slice (u : U) : ares bytes :=
  let '(len, u1) := arb_byte_size u in u_bytes len u1.

(* <&str as Arbitrary>::arbitrary *)
Definition arb_strref (u : U) : ares bytes :=
  let '(size, u1) := arb_byte_size u in
  match u_peek size u1 with
  | None => APanic "peek_bytes(size).unwrap()"
  | Some p =>
      if utf8_valid p then u_bytes size u1
      else abind (u_bytes (Z.of_nat (Utf8.valid_prefix_len p)) u1) (fun s u2 =>
             if negb (utf8_valid s) then APanic "from_utf8_unchecked on ill-formed bytes" else AOk s u2)
  end.

(* webauthn::PublicKeyCredentialDescriptorRef *)
Definition arb_descref (u : U) : ares val :=
  abind (arb_slice u) (fun id u1 =>
  abind (arb_strref u1) (fun kt u2 =>
  AOk (VRec [("id", VBytes id); ("key_type", VStr kt)]) u2)).

Definition arb_opt {A} (f : U -> ares A) (u : U) : ares (option A) := arbitrary_option f u.

(* credential_management::SubcommandParameters *)
Definition arb_subparams (u : U) : ares val :=
  abind (arbitrary_option (arbitrary_byte_array 32) u) (fun h u1 =>
  abind (arb_opt arb_descref u1) (fun c u2 =>
  abind (arb_opt arb_user u2) (fun us u3 =>
  AOk (VRec [("rp_id_hash", match h with Some b => VSome (VBytes b) | None => VNone end);
             ("credential_id", vopt c); ("user", vopt us)]) u3))).
