(* CBOR wire level, mirroring cbor-smol 0.5.1: de.rs raw_deserialize_uN and ignore_X; ser.rs write_uN. *)
From Ctap Require Export Base.

(* ------------------------------------------------------------------ writer *)
(* Serializer::write_u8/u16/u32/u64: shortest head *)
Definition put_head (maj v : Z) : bytes :=
  if v <=? 23 then [maj * 32 + v]
  else if v <=? 255 then [maj * 32 + 24; v]
  else if v <=? 65535 then (maj * 32 + 25) :: be 2 v
  else if v <=? 4294967295 then (maj * 32 + 26) :: be 4 v
  else (maj * 32 + 27) :: be 8 v.

(* ------------------------------------------------------------------ reader *)
Definition expect_major (maj : Z) (i : bytes) : res (Z * bytes) :=
  match i with
  | [] => Err UnexpectedEnd
  | b :: r => if b / 32 =? maj then Ok (b mod 32, r) else Err BadMajor
  end.

Definition peek_major (i : bytes) : res Z :=
  match i with [] => Err UnexpectedEnd | b :: _ => Ok (b / 32) end.

Definition raw_u8 (maj : Z) (i : bytes) : res (Z * bytes) :=
  '(a, r) <- expect_major maj i ;;
  if a <=? 23 then Ok (a, r)
  else if a =? 24 then
    '(l, r') <- take 1 r ;;
    let v := of_be l in
    if v <=? 23 then Err NonMinimal else Ok (v, r')
  else Err BadU8.

Definition raw_u32 (maj : Z) (i : bytes) : res (Z * bytes) :=
  '(a, r) <- expect_major maj i ;;
  if a <=? 23 then Ok (a, r)
  else if a =? 24 then
    '(l, r') <- take 1 r ;;
    let v := of_be l in if v <=? 23 then Err NonMinimal else Ok (v, r')
  else if a =? 25 then
    '(l, r') <- take 2 r ;;
    let v := of_be l in if v <=? 255 then Err NonMinimal else Ok (v, r')
  else if a =? 26 then
    '(l, r') <- take 4 r ;;
    let v := of_be l in if v <=? 65535 then Err NonMinimal else Ok (v, r')
  else Err BadU32.

Definition raw_u16 (maj : Z) (i : bytes) : res (Z * bytes) :=
  '(v, r) <- raw_u32 maj i ;;
  if v <=? 65535 then Ok (v, r) else Err BadU16.

Definition raw_u64 (maj : Z) (i : bytes) : res (Z * bytes) :=
  '(a, r) <- expect_major maj i ;;
  if a <=? 23 then Ok (a, r)
  else if a =? 24 then
    '(l, r') <- take 1 r ;;
    let v := of_be l in if v <=? 23 then Err NonMinimal else Ok (v, r')
  else if a =? 25 then
    '(l, r') <- take 2 r ;;
    let v := of_be l in if v <=? 255 then Err NonMinimal else Ok (v, r')
  else if a =? 26 then
    '(l, r') <- take 4 r ;;
    let v := of_be l in if v <=? 65535 then Err NonMinimal else Ok (v, r')
  else if a =? 27 then
    '(l, r') <- take 8 r ;;
    let v := of_be l in if v <=? 4294967295 then Err NonMinimal else Ok (v, r')
  else Err BadU64.

(* ------------------------------------------------------------------ skipper (ignore) *)
(* ignore_int / ignore_float: skip by additional-info width, no minimality check *)
Definition ignore_head (maj : Z) (bad : cerr) (i : bytes) : res bytes :=
  '(a, r) <- expect_major maj i ;;
  if a <=? 23 then Ok r
  else if a =? 24 then '(_, r') <- take 1 r ;; Ok r'
  else if a =? 25 then '(_, r') <- take 2 r ;; Ok r'
  else if a =? 26 then '(_, r') <- take 4 r ;; Ok r'
  else if a =? 27 then '(_, r') <- take 8 r ;; Ok r'
  else Err bad.

Definition ignore_bytes (maj : Z) (i : bytes) : res bytes :=
  '(n, r) <- raw_u32 maj i ;;
  '(_, r') <- take n r ;;
  Ok r'.

(* One unit of fuel per call of [ignore]; the element loop of ignore_array spends fuel too,
   so that fuel bounds depth + iterations along any path.  Every nesting level and every
   iteration consumes at least one input byte, so 2 * length input + 2 always suffices
   (Proofs/SkipP.v). *)
Fixpoint skip (fuel : nat) (i : bytes) : res bytes :=
  match fuel with
  | O => Fuel
  | S k =>
      match i with
      | [] => Err UnexpectedEnd
      | b :: _ =>
          let m := b / 32 in
          if m <=? 1 then ignore_head m BadU16 i
          else if m <=? 3 then ignore_bytes m i
          else if m =? 4 then '(n, r) <- raw_u32 4 i ;; skip_n k n r
          else if m =? 5 then '(n, r) <- raw_u32 5 i ;; skip_n k (n * 2) r
          else if m =? 6 then r <- ignore_head 6 BadU16 i ;; skip k r
          else if m =? 7 then ignore_head 7 BadMajor i
          else Err BadMajor
      end
  end
with skip_n (fuel : nat) (n : Z) (i : bytes) : res bytes :=
  match fuel with
  | O => if n <=? 0 then Ok i else Fuel
  | S k => if n <=? 0 then Ok i else r <- skip k i ;; skip_n k (n - 1) r
  end.

Definition skip_fuel (i : bytes) : nat := S (S (2 * List.length i)).
Definition skip_item (i : bytes) : res bytes := skip (skip_fuel i) i.
