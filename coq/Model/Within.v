(* The validity predicate shared by C12 / C13 / C14 (whatever the decoder accepts) and C19 (whatever the generators produce):
   a value respects every declared capacity, exact length, integer range and element count of its type, text is valid UTF-8,
   records list exactly the declared members, enumerations hold a declared variant. *)
From Ctap Require Export Base Schema Wire Utf8 Typed.
Local Open Scope string_scope.
Local Open Scope list_scope.
Local Open Scope Z_scope.

Definition str_within (cap : Z) (v : val) : bool :=
  match v with VStr s => utf8_valid s && (blen s <=? cap) | _ => false end.

(* member of a decoded record *)
Definition member_within (wf : ty -> val -> bool) (indexed : bool) (fd : field) (v : val) : bool :=
  match v with
  | VNone => true                                   (* absent / defaulted / null *)
  | _ =>
      if indexed then
        if f_opt fd then match v with VSome w => wf (inner_ty (f_ty fd)) w | _ => false end
        else wf (f_ty fd) v
      else match f_with fd with
           | None => wf (f_ty fd) v
           | Some _ => match v with VSome s => str_within (str_cap (f_ty fd)) s | _ => false end
           end
  end.

Fixpoint members_within (ok : field -> val -> bool) (fs : list field) (vs : list (string * val)) : bool :=
  match fs, vs with
  | [], [] => true
  | fd :: fs', (l, v) :: vs' => String.eqb l (f_label fd) && ok fd v && members_within ok fs' vs'
  | _, _ => false
  end.

Fixpoint within (e : env) (fuel : nat) (t : ty) (v : val) {struct fuel} : bool :=
  match fuel with
  | O => false
  | S k =>
      match t, v with
      | TU8, VZ z => (0 <=? z) && (z <? 256)
      | TU16, VZ z => (0 <=? z) && (z <? 65536)
      | TU32, VZ z => (0 <=? z) && (z <? 4294967296)
      | (TU64 | TUsize), VZ z => (0 <=? z) && (z <? 18446744073709551616)
      | TI8, VZ z => (-128 <=? z) && (z <=? 127)
      | TI32, VZ z => (-2147483648 <=? z) && (z <=? 2147483647)
      | TBool, VBool _ => true
      | TUnit, VUnit => true
      | TBytesRef, VBytes _ => true
      | TBytesCap n, VBytes b => blen b <=? n
      | TByteArrRef n, VBytes b => blen b =? n
      | TStrRef, VStr s => utf8_valid s
      | TStrCap n, VStr s => utf8_valid s && (blen s <=? n)
      | TVec u cap, VList l => (blen l <=? Z.max 0 cap) && forallb (within e k u) l
      | TOpt _, VNone => true
      | TOpt u, VSome w => within e k u w
      | TNamed name, _ =>
          match lookup e name, v with
          | Some (DStruct ix _ _ fs), VRec vs => members_within (member_within (within e k) ix) fs vs
          | Some (DStrEnum _ _ _ tf), VEnum vn => smem vn (map snd tf)
          | Some (DRepr _ _ _ vs), VEnum vn => smem vn (map fst vs)
          | Some (DCustom kind _ _ params), _ =>
              if String.eqb kind "webauthn::Icon" then match v with VUnit => true | _ => false end
              else if String.eqb kind "webauthn::FilteredPublicKeyCredentialParameters" then
                match v with
                | VList l => (blen l <=? Z.max 0 (hd 0 params))
                             && forallb (fun kp => match kp with VRec [("alg", VZ a)] => zmem a (tl params) | _ => false end) l
                | _ => false end
              else if String.eqb kind "ctap2::AttestationFormatsPreference" then
                match v with
                | VRec [("known_formats", VList l); ("unknown", VBool _)] =>
                    (blen l <=? 2) && forallb (fun x => match x with VEnum _ => true | _ => false end) l
                | _ => false end
              else if String.eqb kind "ext::EcdhEsHkdf256PublicKey" then
                match v with VRec [("x", VBytes x); ("y", VBytes y)] => (blen x <=? 32) && (blen y <=? 32) | _ => false end
              else false
          | _, _ => false
          end
      | _, _ => false
      end
  end.
