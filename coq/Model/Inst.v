(* Instantiation of the schema semantics at the regenerated declarations. *)
From Ctap Require Export Schema Procs Generated.

Local Open Scope string_scope.
Definition gen_const (f : feats) (name : string) : Z :=
  match assoc name (int_consts f) with Some z => z | None => -1 end.
Definition gen_arr (f : feats) (name : string) : list Z :=
  match assoc name (arr_consts f) with Some l => l | None => [] end.

Definition gen_env (f : feats) : env :=
  resolve f (raw_decls f) (gen_arr f "webauthn::KNOWN_ALGS") (gen_const f "webauthn::COUNT_KNOWN_ALGS").

Definition gen_tables (f : feats) : tables := tables_of f (raw_decls f) (int_consts f).

(* every serde-relevant declaration of [spec] is declared identically in [gen] ... *)
Definition env_covers (gen spec : env) : bool :=
  forallb (fun p => match lookup gen (fst p) with
                    | Some d => decl_eqb d (snd p)
                    | None => false end) spec.
(* ... and [gen] declares nothing with a wire meaning that [spec] does not know *)
Definition env_no_extras (gen spec : env) : bool :=
  forallb (fun p => match snd p with
                    | DOpaque => true
                    | _ => match lookup spec (fst p) with Some _ => true | None => false end
                    end) gen.
Definition env_conforms (gen spec : env) : bool := env_covers gen spec && env_no_extras gen spec.

(* names of the declarations of [spec] that differ in [gen] (diagnostics for the witness search) *)
Definition env_diff (gen spec : env) : list string :=
  (map fst (filter (fun p => match lookup gen (fst p) with
                            | Some d => negb (decl_eqb d (snd p))
                            | None => true end) spec)
  ++ map fst (filter (fun p => match snd p with
                               | DOpaque => false
                               | _ => match lookup spec (fst p) with Some _ => false | None => true end
                               end) gen))%list.

(* role-restricted conformance: the declarations that can be serialised / deserialised *)
Definition decl_ser (d : decl) : bool :=
  match d with
  | DStruct _ s _ _ => s | DStrEnum s _ _ _ => s | DRepr _ s _ _ => s | DUntagged s _ => s
  | DCustom _ s _ _ => s | DOpaque => false
  end.
Definition decl_de (d : decl) : bool :=
  match d with
  | DStruct _ _ d' _ => d' | DStrEnum _ d' _ _ => d' | DRepr _ _ d' _ => d' | DUntagged _ _ => false
  | DCustom _ _ d' _ => d' | DOpaque => false
  end.

Definition env_conforms_role (role : decl -> bool) (gen spec : env) : bool :=
  forallb (fun p => if role (snd p)
                    then match lookup gen (fst p) with Some d => decl_eqb d (snd p) | None => false end
                    else true) spec
  && forallb (fun p => if role (snd p)
                       then match lookup spec (fst p) with Some _ => true | None => false end
                       else true) gen.

(* ---- conformance restricted to what a set of root types can reach *)
Fixpoint ty_names (t : ty) : list string :=
  match t with
  | TNamed s => [s]
  | TVec u _ | TOpt u | TRef u => ty_names u
  | _ => []
  end.

Definition decl_refs (d : decl) : list string :=
  match d with
  | DStruct _ _ _ fs => flat_map (fun fd => ty_names (f_ty fd)) fs
  | DUntagged _ vs => flat_map (fun p => ty_names (snd p)) vs
  | DCustom k _ _ _ =>
      if String.eqb k "webauthn::FilteredPublicKeyCredentialParameters" then ["webauthn::PublicKeyCredentialParameters"]
      else if String.eqb k "ctap2::AttestationFormatsPreference" then ["ctap2::AttestationStatementFormat"]
      else []
  | _ => []
  end.

Fixpoint reach (e : env) (fuel : nat) (todo seen : list string) : list string :=
  match fuel with
  | O => seen
  | S k =>
      match todo with
      | [] => seen
      | n :: r =>
          if smem n seen then reach e k r seen
          else match lookup e n with
               | Some d => reach e k (decl_refs d ++ r)%list (n :: seen)
               | None => reach e k r (n :: seen)
               end
      end
  end.

Definition request_roots : list string :=
  ["ctap2::make_credential::Request"; "ctap2::get_assertion::Request"; "ctap2::client_pin::Request";
   "ctap2::credential_management::Request"; "ctap2::large_blobs::Request"].
Definition response_roots : list string :=
  ["ctap2::get_info::Response"; "ctap2::make_credential::Response"; "ctap2::get_assertion::Response";
   "ctap2::client_pin::Response"; "ctap2::credential_management::Response"; "ctap2::large_blobs::Response";
   "ctap2::make_credential::Extensions"; "ctap2::get_assertion::ExtensionsOutput"].

Definition closure (e : env) (roots : list string) : list string := reach e 400 roots [].

Definition env_conforms_on (names : list string) (gen spec : env) : bool :=
  forallb (fun n => match lookup gen n, lookup spec n with
                    | Some a, Some b => decl_eqb a b
                    | _, _ => false end) names.

(* everything a request (resp. response) can reach, per the SPECIFICATION tables, is declared
   identically in the regenerated environment *)
Definition request_side_conforms (gen spec : env) : bool := env_conforms_on (closure spec request_roots) gen spec.
Definition response_side_conforms (gen spec : env) : bool := env_conforms_on (closure spec response_roots) gen spec.

(* raw (plain) struct member types, for declarations without a serde meaning (ctap1 responses) *)
Fixpoint find_struct_field_ty (l : list rdecl) (sname fname : string) : option ty :=
  match l with
  | [] => None
  | RStruct s :: r =>
      if String.eqb (rs_name s) sname
      then match find (fun rf => String.eqb (rf_name rf) fname) (rs_fields s) with
           | Some rf => Some (rf_ty rf)
           | None => None
           end
      else find_struct_field_ty r sname fname
  | _ :: r => find_struct_field_ty r sname fname
  end.
