(* Instantiation of the schema semantics at the regenerated declarations. *)
From Ctap Require Export Schema Procs Generated.

Local Open Scope string_scope.
Definition gen_const (f : feats) (name : string) : Z :=
  match assoc name (int_consts f) with Some z => z | None => -1 end.
Definition gen_arr (f : feats) (name : string) : list Z :=
  match assoc name (arr_consts f) with Some l => l | None => [] end.

Definition gen_env (f : feats) : env :=
  resolve f (raw_decls f) (gen_arr f "webauthn::KNOWN_ALGS") (gen_const f "webauthn::COUNT_KNOWN_ALGS").

Definition gen_tables (f : feats) : tables := tables_of f (raw_decls f) (int_consts f).

(* every serde-relevant declaration of [spec] is declared identically in [gen] ... *)
Definition env_covers (gen spec : env) : bool :=
  forallb (fun p => match lookup gen (fst p) with
                    | Some d => decl_eqb d (snd p)
                    | None => false end) spec.
(* ... and [gen] declares nothing with a wire meaning that [spec] does not know *)
Definition env_no_extras (gen spec : env) : bool :=
  forallb (fun p => match snd p with
                    | DOpaque => true
                    | _ => match lookup spec (fst p) with Some _ => true | None => false end
                    end) gen.
Definition env_conforms (gen spec : env) : bool := env_covers gen spec && env_no_extras gen spec.

(* names of the declarations of [spec] that differ in [gen] (diagnostics for the witness search) *)
Definition env_diff (gen spec : env) : list string :=
  (map fst (filter (fun p => match lookup gen (fst p) with
                            | Some d => negb (decl_eqb d (snd p))
                            | None => true end) spec)
  ++ map fst (filter (fun p => match snd p with
                               | DOpaque => false
                               | _ => match lookup spec (fst p) with Some _ => false | None => true end
                               end) gen))%list.

(* role-restricted conformance: the declarations that can be serialised / deserialised *)
Definition decl_ser (d : decl) : bool :=
  match d with
  | DStruct _ s _ _ => s | DStrEnum s _ _ _ => s | DRepr _ s _ _ => s | DUntagged s _ => s
  | DCustom _ s _ _ => s | DOpaque => false
  end.
Definition decl_de (d : decl) : bool :=
  match d with
  | DStruct _ _ d' _ => d' | DStrEnum _ d' _ _ => d' | DRepr _ _ d' _ => d' | DUntagged _ _ => false
  | DCustom _ _ d' _ => d' | DOpaque => false
  end.

Definition env_conforms_role (role : decl -> bool) (gen spec : env) : bool :=
  forallb (fun p => if role (snd p)
                    then match lookup gen (fst p) with Some d => decl_eqb d (snd p) | None => false end
                    else true) spec
  && forallb (fun p => if role (snd p)
                       then match lookup spec (fst p) with Some _ => true | None => false end
                       else true) gen.
