(* Type-directed model of EVERY generator of src/arbitrary.rs and of the derived Arbitrary impls (feature "arbitrary"):
   what `T::arbitrary(u)` draws for a declared type T is determined by T's declaration - members in declaration order, each
   by the generator of its type: integers by fill_buffer, Option by one bool, borrowed slices / text with the length taken
   from the end of the input, heapless containers through the five helpers, enumerations by (u32 * count) >> 32.
   The hand-written impls of src/arbitrary.rs exist only because the foreign container types lack an impl; that they draw
   exactly what this type-directed generator draws is what the differential run of C19 compares, request by request. *)
From Ctap Require Export Arb Schema.
Local Open Scope string_scope.
Local Open Scope Z_scope.

(* derive(Arbitrary) on an enumeration: index = (u64::from(u32::arbitrary(u)) * COUNT) >> 32 *)
Definition arb_variant (count : Z) (u : U) : Z * U :=
  let '(x, u1) := arb_u32 u in ((x * count) / 4294967296, u1).

Definition arb_i32 (u : U) : Z * U :=
  let '(x, u1) := arb_u32 u in ((if x <? 2147483648 then x else x - 4294967296), u1).

Definition amap {A B} (f : A -> B) (r : ares A) : ares B := abind r (fun a u => AOk (f a) u).

Fixpoint arb_fields (gen : ty -> U -> ares val) (fs : list field) (u : U) : ares (list (string * val)) :=
  match fs with
  | [] => AOk [] u
  | fd :: rest =>
      abind (gen (f_ty fd) u) (fun v u1 =>
      abind (arb_fields gen rest u1) (fun l u2 => AOk ((f_label fd, v) :: l) u2))
  end.

Fixpoint arb_ty (e : env) (fuel : nat) (t : ty) (u : U) : ares val :=
  match fuel with
  | O => APanic "fuel"
  | S k =>
      match t with
      | TU8 => let '(v, u1) := arb_u8 u in AOk (VZ v) u1
      | TU16 => let '(v, u1) := fill 2 u in AOk (VZ v) u1
      | TU32 => let '(v, u1) := arb_u32 u in AOk (VZ v) u1
      | TU64 | TUsize => let '(v, u1) := arb_usize u in AOk (VZ v) u1
      | TI32 => let '(v, u1) := arb_i32 u in AOk (VZ v) u1
      | TBool => let '(b, u1) := arb_bool u in AOk (VBool b) u1
      | TUnit => AOk VUnit u
      | TBytesRef => amap VBytes (arb_slice u)
      | TStrRef => amap VStr (arb_strref u)
      | TBytesCap n => amap VBytes (arbitrary_bytes n u)
      | TStrCap n => amap VStr (arbitrary_str n u)
      | TByteArrRef n => amap VBytes (arbitrary_byte_array n u)
      | TOpt t' => amap vopt (arbitrary_option (arb_ty e k t') u)
      | TVec t' n => amap VList (arbitrary_vec n (arb_ty e k t') u)
      | TNamed name =>
          match lookup e name with
          | Some (DStruct _ _ _ fs) => amap VRec (arb_fields (arb_ty e k) fs u)
          | Some (DStrEnum _ _ into _) =>
              let '(ix, u1) := arb_variant (blen into) u in
              match nth_error into (Z.to_nat ix) with
              | Some (v, _) => AOk (VEnum v) u1
              | None => APanic "variant index out of range"
              end
          | Some (DRepr _ _ _ vs) =>
              let '(ix, u1) := arb_variant (blen vs) u in
              match nth_error vs (Z.to_nat ix) with
              | Some (v, _) => AOk (VEnum v) u1
              | None => APanic "variant index out of range"
              end
          | Some (DCustom kind _ _ params) =>
              if String.eqb kind "webauthn::Icon" then AOk VUnit u
              else if String.eqb kind "webauthn::FilteredPublicKeyCredentialParameters" then
                amap VList (arbitrary_vec (hd 0 params) (arb_known_param (tl params)) u)
              else if String.eqb kind "ctap2::AttestationFormatsPreference" then
                abind (arbitrary_vec (hd 0 params) (arb_ty e k (TNamed n_ASF)) u) (fun l u1 =>
                let '(b, u2) := arb_bool u1 in
                AOk (VRec [("known_formats", VList l); ("unknown", VBool b)]) u2)
              else if String.eqb kind "ext::EcdhEsHkdf256PublicKey" then
                amap (fun xy => VRec [("x", VBytes (fst xy)); ("y", VBytes (snd xy))]) (arbitrary_key u)
              else APanic ("no generator for " ++ kind)
          | _ => APanic ("no generator for " ++ name)
          end
      | _ => APanic "no generator for this type"
      end
  end.

Definition arb_named (e : env) (name : string) (u : U) : ares val := arb_ty e type_fuel (TNamed name) u.

(* the two CTAP1 requests (plain structs outside the declaration tables): &[u8; 32] by u.bytes(32), ControlByte by derive *)
Definition arb_ctap1_register (u : U) : ares val :=
  abind (arbitrary_byte_array 32 u) (fun c u1 =>
  abind (arbitrary_byte_array 32 u1) (fun a u2 =>
  AOk (VRec [("challenge", VBytes c); ("app_id", VBytes a)]) u2)).

Definition arb_ctap1_authenticate (control_bytes : list string) (u : U) : ares val :=
  let '(ix, u0) := arb_variant (blen control_bytes) u in
  abind (arbitrary_byte_array 32 u0) (fun c u1 =>
  abind (arbitrary_byte_array 32 u1) (fun a u2 =>
  abind (arb_slice u2) (fun kh u3 =>
  AOk (VRec [("control_byte", VEnum (nth (Z.to_nat ix) control_bytes "")); ("challenge", VBytes c); ("app_id", VBytes a);
             ("key_handle", VBytes kh)]) u3))).

(* ---- the three request enumerations (derive(Arbitrary)): variant by index, then the variant's payload.
   The result is (variant path, payload value). *)
Definition control_bytes : list string := ["CheckOnly"; "EnforceUserPresenceAndSign"; "DontEnforceUserPresenceAndSign"].

Definition pick_variant {A} (variants : list (string * A)) (u : U) : ares (string * A) :=
  let '(ix, u1) := arb_variant (blen variants) u in
  match nth_error variants (Z.to_nat ix) with
  | Some va => AOk va u1
  | None => APanic "variant index out of range"
  end.

Definition arb_ctap2_request (e : env) (variants : list (string * list ty)) (u : U) : ares (string * val) :=
  abind (pick_variant variants u) (fun va u1 =>
    match snd va with
    | [] => AOk (fst va, VUnit) u1
    | [TNamed n] =>
        if String.eqb n "operation::VendorOperation"
        then let '(c, u2) := arb_u8 u1 in AOk (fst va, VZ c) u2                       (* VendorOperation(u8) *)
        else abind (arb_ty e type_fuel (TNamed n) u1) (fun v u2 => AOk (fst va, v) u2)
    | _ => APanic "unexpected variant payload"
    end).

Definition arb_ctap1_request (variants : list (string * list ty)) (u : U) : ares (string * val) :=
  abind (pick_variant variants u) (fun va u1 =>
    match snd va with
    | [] => AOk (fst va, VUnit) u1
    | [TNamed n] =>
        if String.eqb n "ctap1::register::Request" then abind (arb_ctap1_register u1) (fun v u2 => AOk (fst va, v) u2)
        else if String.eqb n "ctap1::authenticate::Request" then abind (arb_ctap1_authenticate control_bytes u1) (fun v u2 => AOk (fst va, v) u2)
        else APanic "unknown CTAP1 variant"
    | _ => APanic "unexpected variant payload"
    end).

Definition arb_authenticator_request (e : env) (top v1 v2 : list (string * list ty)) (u : U) : ares (string * val) :=
  abind (pick_variant top u) (fun va u1 =>
    match snd va with
    | [TNamed n] =>
        if String.eqb n "ctap1::Request" then abind (arb_ctap1_request v1 u1) (fun r u2 => AOk (fst va ++ ":" ++ fst r, snd r) u2)
        else if String.eqb n "ctap2::Request" then abind (arb_ctap2_request e v2 u1) (fun r u2 => AOk (fst va ++ ":" ++ fst r, snd r) u2)
        else APanic "unknown protocol variant"
    | _ => APanic "unexpected variant payload"
    end).
