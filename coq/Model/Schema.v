(* The schema language.
   Part 1: the RAW declarations the translator emits (verbatim transcription of /repo).
   Part 2: their meaning: cfg evaluation, serde-indexed / serde-derive key assignment,
           renaming, optionality -> a resolved environment [env] the codec interprets. *)
From Ctap Require Export Base.
Local Open Scope string_scope.

(* ---------------------------------------------------------------- features / cfg *)
Definition feats := list string.            (* enabled cargo features *)
Definition has_feat (f : feats) (s : string) : bool := smem s f.

Inductive cfg :=
| CTrue | CTest
| CFeat (s : string)
| CNot (c : cfg)
| CAll (l : list cfg)
| CAny (l : list cfg)
| COther (s : string).

Fixpoint cfg_eval (f : feats) (c : cfg) : bool :=
  match c with
  | CTrue => true
  | CTest => false
  | CFeat s => has_feat f s
  | CNot c => negb (cfg_eval f c)
  | CAll l => forallb (cfg_eval f) l
  | CAny l => existsb (cfg_eval f) l
  | COther _ => false
  end.

(* value of a constant that has one definition per cfg alternative; -1 when none applies *)
Fixpoint cfg_pick (f : feats) (l : list (cfg * Z)) : Z :=
  match l with
  | [] => -1
  | (c, v) :: r => if cfg_eval f c then v else cfg_pick f r
  end.

(* ---------------------------------------------------------------- types *)
Inductive ty :=
| TU8 | TU16 | TU32 | TU64 | TUsize | TI8 | TI32 | TBool | TUnit
| TBytesRef                (* &serde_bytes::Bytes *)
| TBytesCap (n : Z)        (* heapless_bytes::Bytes<N> *)
| TByteArrRef (n : Z)      (* &serde_bytes::ByteArray<N> *)
| TByteArr (n : Z)         (* serde_bytes::ByteArray<N> *)
| TArrRef (n : Z)          (* &[u8; N] *)
| TArr (n : Z)             (* [u8; N] *)
| TSliceRef                (* &[u8] *)
| TStrRef                  (* &str *)
| TStrCap (n : Z)          (* heapless::String<N> *)
| TVec (t : ty) (n : Z)    (* heapless::Vec<T, N> *)
| TOpt (t : ty)
| TRef (t : ty)
| TNamed (s : string)
| TExt (s : string)        (* type from another crate (cosey, iso7816) *)
| TUnknown (s : string).

Fixpoint ty_eqb (a b : ty) : bool :=
  match a, b with
  | TU8, TU8 | TU16, TU16 | TU32, TU32 | TU64, TU64 | TUsize, TUsize | TI8, TI8
  | TI32, TI32 | TBool, TBool | TUnit, TUnit | TBytesRef, TBytesRef
  | TSliceRef, TSliceRef | TStrRef, TStrRef => true
  | TBytesCap n, TBytesCap m | TByteArrRef n, TByteArrRef m | TByteArr n, TByteArr m
  | TArrRef n, TArrRef m | TArr n, TArr m | TStrCap n, TStrCap m => Z.eqb n m
  | TVec t n, TVec u m => ty_eqb t u && Z.eqb n m
  | TOpt t, TOpt u | TRef t, TRef u => ty_eqb t u
  | TNamed s, TNamed t | TExt s, TExt t | TUnknown s, TUnknown t => String.eqb s t
  | _, _ => false
  end.

(* ---------------------------------------------------------------- raw declarations *)
Inductive attr :=
| ASkipIf (s : string) | ARename (s : string) | AAlias (s : string)
| ADefault | ASkipSer | AWith (s : string) | AOther (s : string).

Record rfield := {
  rf_name : string; rf_cfg : cfg; rf_ty : ty; rf_attrs : list attr; rf_pub : bool }.

Inductive skind := KIdx (offset : Z) | KTxt (rename_all : option string) | KPlain.

Record rstruct := {
  rs_name : string; rs_kind : skind; rs_ser : bool; rs_de : bool; rs_nonexh : bool;
  rs_cattrs : list string; rs_derives : list (cfg * string); rs_fields : list rfield }.

Inductive mpat :=
| MP_Int (z : Z) | MP_Range (lo hi : Z) | MP_Wild | MP_Var (s : string)
| MP_Str (s : string) | MP_Other (s : string).

Inductive mbody :=
| MB_Int (z : Z) | MB_Var (s : string) | MB_Str (s : string) | MB_Err (s : string)
| MB_Call (methods : list string) (ctor : string) (fallible : bool)
| MB_Decode (ctor : string) | MB_Wrap (ctor : string) | MB_WrapTry (ctor : string)
| MB_Ser | MB_Match | MB_Other (s : string).

Inductive rdecl :=
| RStruct (s : rstruct)
| RStrEnum (name : string) (ser de : bool) (into try_from : string) (variants : list string)
| RReprEnum (name repr : string) (ser de : bool) (variants : list (string * Z))
| REnum (name : string) (untagged ser de : bool) (variants : list (string * cfg * list ty))
| RCustom (name trait : string)
| RFlags (name repr : string) (bits : list (string * Z))
| RMatch (name : string) (arms : list (mpat * mbody))
| RUnknown (what : string).

Definition strip {A} (f : feats) (l : list (cfg * A)) : list A :=
  map snd (filter (fun p => cfg_eval f (fst p)) l).

(* ---------------------------------------------------------------- resolved schema *)
Inductive key := KInt (z : Z) | KText (s : string).

Definition key_eqb (a b : key) : bool :=
  match a, b with
  | KInt x, KInt y => Z.eqb x y
  | KText s, KText t => String.eqb s t
  | _, _ => false
  end.

Record field := {
  f_label : string;          (* Rust field identifier *)
  f_key : key;               (* wire key *)
  f_aliases : list string;   (* additional text keys accepted on decode *)
  f_ty : ty;                 (* declared type *)
  f_opt : bool;              (* decode: member may be absent *)
  f_skip_none : bool;        (* encode: omitted when None *)
  f_skip_ser : bool;         (* encode: never emitted *)
  f_default : bool;          (* serde(default) *)
  f_with : option string     (* deserialize_with function *)
}.

Inductive decl :=
| DStruct (indexed ser de : bool) (fields : list field)
| DStrEnum (ser de : bool) (into : list (string * string)) (try_from : list (string * string))
| DRepr (repr : string) (ser de : bool) (variants : list (string * Z))
| DUntagged (ser : bool) (variants : list (string * ty))
| DCustom (kind : string) (ser de : bool) (params : list Z)
| DOpaque.                  (* declared, but no serde meaning (plain structs, enums) *)

Definition env := list (string * decl).

(* --- attribute helpers *)
Definition attr_skip_if (a : list attr) : bool :=
  existsb (fun x => match x with ASkipIf _ => true | _ => false end) a.
Definition attr_skip_if_is_none (a : list attr) : bool :=
  existsb (fun x => match x with ASkipIf s => String.eqb s "Option::is_none" | _ => false end) a.
Definition attr_default (a : list attr) : bool :=
  existsb (fun x => match x with ADefault => true | _ => false end) a.
Definition attr_skip_ser (a : list attr) : bool :=
  existsb (fun x => match x with ASkipSer => true | _ => false end) a.
Fixpoint attr_rename (a : list attr) : option string :=
  match a with [] => None | ARename s :: _ => Some s | _ :: r => attr_rename r end.
(* an attribute the model does not interpret (serialize_with, with, flatten, skip, ...) is recorded like a conversion
   function, so that the declaration no longer conforms to any specification table *)
Fixpoint attr_with (a : list attr) : option string :=
  match a with [] => None | AWith s :: _ => Some s | AOther s :: _ => Some ("uninterpreted attribute: " ++ s) | _ :: r => attr_with r end.
Fixpoint attr_aliases (a : list attr) : list string :=
  match a with [] => [] | AAlias s :: r => s :: attr_aliases r | _ :: r => attr_aliases r end.

(* serde's RenameRule::CamelCase on a snake_case field name: capitalise the letter after
   each '_' and drop the '_' (first letter stays lower-case). *)
Definition upcase (c : ascii) : ascii :=
  let n := nat_of_ascii c in
  if andb (Nat.leb 97 n) (Nat.leb n 122) then ascii_of_nat (n - 32) else c.

Fixpoint camel_go (up : bool) (s : string) : string :=
  match s with
  | EmptyString => EmptyString
  | String c r =>
      if Ascii.eqb c "_"%char then camel_go true r
      else String (if up then upcase c else c) (camel_go false r)
  end.
Definition camel_case (s : string) : string := camel_go false s.

Definition rename_field (rename_all : option string) (name : string) : string :=
  match rename_all with
  | Some "camelCase"%string => camel_case name
  | Some _ => name     (* other rules are not used by the crate; conformance then fails *)
  | None => name
  end.

Definition is_opt_ty (t : ty) : bool := match t with TOpt _ => true | _ => false end.

Fixpoint resolve_ty (t : ty) : ty :=
  match t with
  | TExt s => TNamed ("ext::" ++ s)
  | TVec t n => TVec (resolve_ty t) n
  | TOpt t => TOpt (resolve_ty t)
  | TRef t => TRef (resolve_ty t)
  | t => t
  end.

Fixpoint idx_fields (off : Z) (pos : Z) (l : list rfield) : list field :=
  match l with
  | [] => []
  | r :: rest =>
      {| f_label := rf_name r; f_key := KInt (pos + off); f_aliases := [];
         f_ty := resolve_ty (rf_ty r);
         (* serde-indexed 0.1.1: a member is optional on decode iff it carries skip_serializing_if *)
         f_opt := attr_skip_if (rf_attrs r);
         f_skip_none := attr_skip_if_is_none (rf_attrs r);
         f_skip_ser := false; f_default := false; f_with := attr_with (rf_attrs r) |}
      :: idx_fields off (pos + 1) rest
  end.

Definition txt_field (ra : option string) (r : rfield) : field :=
  let a := rf_attrs r in
  {| f_label := rf_name r;
     f_key := KText (match attr_rename a with Some s => s | None => rename_field ra (rf_name r) end);
     f_aliases := attr_aliases a;
     f_ty := resolve_ty (rf_ty r);
     (* serde_derive: missing member -> default if serde(default); else missing_field error if
        deserialize_with is set; else None for Option<T>, error otherwise *)
     f_opt := attr_default a || (is_opt_ty (rf_ty r) && match attr_with a with None => true | Some _ => false end);
     f_skip_none := attr_skip_if_is_none a;
     f_skip_ser := attr_skip_ser a;
     f_default := attr_default a;
     f_with := attr_with a |}.

Definition live_fields (f : feats) (l : list rfield) : list rfield :=
  filter (fun r => cfg_eval f (rf_cfg r)) l.

Fixpoint find_match (name : string) (l : list rdecl) : option (list (mpat * mbody)) :=
  match l with
  | [] => None
  | RMatch n arms :: r => if String.eqb n name then Some arms else find_match name r
  | _ :: r => find_match name r
  end.

Definition customs_of (l : list rdecl) (name : string) : list string :=
  flat_map (fun d => match d with RCustom n t => if String.eqb n name then [t] else [] | _ => [] end) l.

(* module prefix of "a::b::Name" *)
Fixpoint last_sep (s : string) (pos : nat) (best : option nat) : option nat :=
  match s with
  | EmptyString => best
  | String c r =>
      match r with
      | String c2 _ =>
          if andb (Ascii.eqb c ":"%char) (Ascii.eqb c2 ":"%char) then last_sep r (S pos) (Some pos)
          else last_sep r (S pos) best
      | EmptyString => best
      end
  end.
Definition module_of (s : string) : string :=
  match last_sep s 0 None with Some p => substring 0 p s | None => EmptyString end.
Definition short_of (s : string) : string :=
  match last_sep s 0 None with Some p => substring (p + 2) (String.length s) s | None => s end.

Definition into_arms (arms : list (mpat * mbody)) : list (string * string) :=
  flat_map (fun a => match a with (MP_Var v, MB_Str s) => [(v, s)] | _ => [] end) arms.
Definition tryfrom_arms (arms : list (mpat * mbody)) : list (string * string) :=
  flat_map (fun a => match a with (MP_Str s, MB_Var v) => [(s, v)] | _ => [] end) arms.
(* a string match table is well-formed when every arm is `CONST => Ok(Variant)` except a final
   `_ => Err(..)` *)
Fixpoint tryfrom_shape_ok (arms : list (mpat * mbody)) : bool :=
  match arms with
  | [] => false
  | [(MP_Wild, MB_Err _)] => true
  | (MP_Str _, MB_Var _) :: r => tryfrom_shape_ok r
  | _ => false
  end.
Definition into_shape_ok (arms : list (mpat * mbody)) : bool :=
  forallb (fun a => match a with (MP_Var _, MB_Str _) => true | _ => false end) arms.

Section Resolve.
  Variable f : feats.
  Variable all : list rdecl.           (* stripped declarations *)
  Variable known_algs : list Z.
  Variable count_known_algs : Z.

  (* capacities of the Vec members of a hand-deserialised struct (the attestation-format preference keeps at most as many
     known formats as its `known_formats` vector holds) *)
  Fixpoint vec_caps (l : list rfield) : list Z :=
    match l with
    | [] => []
    | r :: rest => match rf_ty r with TVec _ n => n :: vec_caps rest | _ => vec_caps rest end
    end.

  Definition custom_params (s : rstruct) : list Z :=
    if String.eqb (rs_name s) "webauthn::FilteredPublicKeyCredentialParameters"
    then (* the result vector's own capacity decides how many known algorithms are kept *)
         match vec_caps (live_fields f (rs_fields s)) with c :: _ => c | [] => count_known_algs end :: known_algs
    else vec_caps (live_fields f (rs_fields s)).

  Definition resolve_struct (s : rstruct) : decl :=
    let cs := customs_of all (rs_name s) in
    if negb (match cs with [] => true | _ => false end) then
      DCustom (rs_name s) (smem "Serialize" cs) (smem "Deserialize" cs) (custom_params s)
    else
      let fs := live_fields f (rs_fields s) in
      (* a container attribute the model does not interpret (deny_unknown_fields, default, transparent, tag, ...) makes the
         declaration opaque: it then conforms to no specification table *)
      match (match rs_cattrs s with [] => rs_kind s | _ :: _ => KPlain end) with
      | KIdx off => DStruct true (rs_ser s) (rs_de s) (idx_fields off 0 fs)
      | KTxt ra => DStruct false (rs_ser s) (rs_de s) (map (txt_field ra) fs)
      | KPlain => DOpaque
      end.

  Definition resolve_decl (d : rdecl) : list (string * decl) :=
    match d with
    | RStruct s => [(rs_name s, resolve_struct s)]
    | RStrEnum name ser de into tf variants =>
        let m := module_of name in
        let sh := short_of name in
        let ia := match find_match (m ++ "::From<" ++ sh ++ "> for &str") all with Some a => a | None => [] end in
        let ta := match find_match (m ++ "::TryFrom<&str> for " ++ sh) all with Some a => a | None => [] end in
        if into_shape_ok ia && tryfrom_shape_ok ta && String.eqb into "&str" && String.eqb tf "&str"
           && forallb (fun v => existsb (fun p => String.eqb (short_of (fst p)) v || String.eqb (fst p) v) (into_arms ia)) variants
        then [(name, DStrEnum ser de (into_arms ia) (tryfrom_arms ta))]
        else [(name, DCustom ("malformed string enum " ++ name) false false [])]
    | RReprEnum name repr ser de variants =>
        if ser || de then [(name, DRepr repr ser de variants)] else [(name, DOpaque)]
    | REnum name untagged ser de variants =>
        if untagged then
          [(name, DUntagged ser
             (flat_map (fun v => match v with
                                 | (vn, c, [t]) => if cfg_eval f c then [(vn, resolve_ty t)] else []
                                 | _ => [] end) variants))]
        else [(name, DOpaque)]
    | _ => []
    end.

  Definition resolve_all : env := flat_map resolve_decl all.
End Resolve.

(* hand-modelled foreign types (cosey 0.3.2) referenced by the declarations *)
Definition prelude : env :=
  [ ("ext::EcdhEsHkdf256PublicKey", DCustom "ext::EcdhEsHkdf256PublicKey" true true []);
    ("ext::PublicKey", DCustom "ext::PublicKey" true false []) ].

Definition resolve (f : feats) (raw : list (cfg * rdecl)) (known_algs : list Z) (count_known : Z) : env :=
  let all := strip f raw in
  app (resolve_all f all known_algs count_known) prelude.

Definition lookup (e : env) (name : string) : option decl := assoc name e.

(* --- equality of environments (for the reflexive conformance obligations) *)
Definition opt_str_eqb (a b : option string) : bool :=
  match a, b with
  | None, None => true
  | Some x, Some y => String.eqb x y
  | _, _ => false
  end.
Fixpoint list_eqb {A} (eq : A -> A -> bool) (a b : list A) : bool :=
  match a, b with
  | [], [] => true
  | x :: a', y :: b' => eq x y && list_eqb eq a' b'
  | _, _ => false
  end.
Definition field_eqb (a b : field) : bool :=
  String.eqb (f_label a) (f_label b) && key_eqb (f_key a) (f_key b)
  && list_eqb String.eqb (f_aliases a) (f_aliases b) && ty_eqb (f_ty a) (f_ty b)
  && Bool.eqb (f_opt a) (f_opt b) && Bool.eqb (f_skip_none a) (f_skip_none b)
  && Bool.eqb (f_skip_ser a) (f_skip_ser b) && Bool.eqb (f_default a) (f_default b)
  && opt_str_eqb (f_with a) (f_with b).
Definition pair_eqb {A B} (ea : A -> A -> bool) (eb : B -> B -> bool) (a b : A * B) : bool :=
  ea (fst a) (fst b) && eb (snd a) (snd b).
Definition decl_eqb (a b : decl) : bool :=
  match a, b with
  | DStruct i s d fs, DStruct i' s' d' fs' =>
      Bool.eqb i i' && Bool.eqb s s' && Bool.eqb d d' && list_eqb field_eqb fs fs'
  | DStrEnum s d i t, DStrEnum s' d' i' t' =>
      Bool.eqb s s' && Bool.eqb d d' && list_eqb (pair_eqb String.eqb String.eqb) i i'
      && list_eqb (pair_eqb String.eqb String.eqb) t t'
  | DRepr r s d v, DRepr r' s' d' v' =>
      String.eqb r r' && Bool.eqb s s' && Bool.eqb d d' && list_eqb (pair_eqb String.eqb Z.eqb) v v'
  | DUntagged s v, DUntagged s' v' => Bool.eqb s s' && list_eqb (pair_eqb String.eqb ty_eqb) v v'
  | DCustom k s d p, DCustom k' s' d' p' =>
      String.eqb k k' && Bool.eqb s s' && Bool.eqb d d' && list_eqb Z.eqb p p'
  | DOpaque, DOpaque => true
  | _, _ => false
  end.
Definition env_eqb (a b : env) : bool := list_eqb (pair_eqb String.eqb decl_eqb) a b.

(* the 2^5 feature sets over the crate's five behaviour-relevant features *)
Definition feature_names : list string :=
  ["get-info-full"; "large-blobs"; "third-party-payment"; "std"; "arbitrary"]%string.
Fixpoint subsets {A} (l : list A) : list (list A) :=
  match l with
  | [] => [[]]
  | x :: r => let s := subsets r in app s (map (cons x) s)
  end.
Definition all_feats : list feats := subsets feature_names.
Definition wire_feature_names : list string := ["get-info-full"; "large-blobs"; "third-party-payment"]%string.
Definition wire_feats : list feats := subsets wire_feature_names.
