(* Base definitions shared by the whole model: bytes, results, small list helpers.
   Definitions only; no proofs here (so the executable model builds even if a proof breaks). *)
From Coq Require Export ZArith List Bool.
From Coq Require Export String Ascii.
Export ListNotations.
Open Scope Z_scope.

Definition bytes := list Z.

Definition blen {A} (l : list A) : Z := Z.of_nat (List.length l).

Definition byte_ok (b : Z) : bool := (0 <=? b) && (b <? 256).
Definition bytes_ok (l : bytes) : bool := forallb byte_ok l.

(* one constructor per cbor_smol::Error variant (cbor-smol 0.5.1 error.rs) *)
Inductive cerr :=
| WontImplement | NotYetImplemented | SerializeBufferFull | UnexpectedEnd | BadBool
| BadUtf8 | BadEnum | BadMajor | BadI8 | BadI16 | BadI32 | BadI64 | BadU8 | BadU16
| BadU32 | BadU64 | ExpectedNull | InexistentSliceToArrayError | NonMinimal
| SerdeSerCustom | SerdeDeCustom | SerdeMissingField.

(* Result of a modelled Rust computation.
   [Panic] marks every place where the Rust code would unwind (unwrap, slice, index,
   unchecked arithmetic); [Fuel] is fuel exhaustion of the model itself.  Theorems
   exclude both: neither is ever a "normal" value. *)
Inductive res (A : Type) :=
| Ok (a : A)
| Err (e : cerr)
| Panic (site : string)
| Fuel.
Arguments Ok {A} a.
Arguments Err {A} e.
Arguments Panic {A} site.
Arguments Fuel {A}.

Definition bind {A B} (r : res A) (k : A -> res B) : res B :=
  match r with
  | Ok a => k a
  | Err e => Err e
  | Panic s => Panic s
  | Fuel => Fuel
  end.

Notation "x <- r ;; k" := (bind r (fun x => k)) (at level 61, r at next level, right associativity).
Notation "' p <- r ;; k" := (bind r (fun x => match x with p => k end))
  (at level 61, p pattern, r at next level, right associativity).

Definition cerr_eqb (a b : cerr) : bool :=
  match a, b with
  | WontImplement, WontImplement | NotYetImplemented, NotYetImplemented
  | SerializeBufferFull, SerializeBufferFull | UnexpectedEnd, UnexpectedEnd
  | BadBool, BadBool | BadUtf8, BadUtf8 | BadEnum, BadEnum | BadMajor, BadMajor
  | BadI8, BadI8 | BadI16, BadI16 | BadI32, BadI32 | BadI64, BadI64 | BadU8, BadU8
  | BadU16, BadU16 | BadU32, BadU32 | BadU64, BadU64 | ExpectedNull, ExpectedNull
  | InexistentSliceToArrayError, InexistentSliceToArrayError | NonMinimal, NonMinimal
  | SerdeSerCustom, SerdeSerCustom | SerdeDeCustom, SerdeDeCustom
  | SerdeMissingField, SerdeMissingField => true
  | _, _ => false
  end.

(* big-endian *)
Definition of_be (l : bytes) : Z := fold_left (fun a b => a * 256 + b) l 0.

Fixpoint be (n : nat) (v : Z) : bytes :=
  match n with
  | O => []
  | S k => be k (v / 256) ++ [v mod 256]
  end.

(* bytes of a Coq string (ASCII / raw bytes) *)
Fixpoint bytes_of_string (s : string) : bytes :=
  match s with
  | EmptyString => []
  | String a r => Z.of_nat (nat_of_ascii a) :: bytes_of_string r
  end.

Fixpoint bytes_eqb (a b : bytes) : bool :=
  match a, b with
  | [], [] => true
  | x :: a', y :: b' => (x =? y) && bytes_eqb a' b'
  | _, _ => false
  end.

Fixpoint assoc {A} (k : string) (l : list (string * A)) : option A :=
  match l with
  | [] => None
  | (k', v) :: r => if String.eqb k k' then Some v else assoc k r
  end.

Fixpoint zassoc {A} (k : Z) (l : list (Z * A)) : option A :=
  match l with
  | [] => None
  | (k', v) :: r => if k =? k' then Some v else zassoc k r
  end.

Fixpoint index_of (s : string) (l : list string) : option nat :=
  match l with
  | [] => None
  | x :: r => if String.eqb s x then Some O else option_map S (index_of s r)
  end.

Definition zmem (z : Z) (l : list Z) : bool := existsb (Z.eqb z) l.
Definition smem (s : string) (l : list string) : bool := existsb (String.eqb s) l.

(* take n bytes if available (cbor-smol try_take_n) *)
Definition take (n : Z) (i : bytes) : res (bytes * bytes) :=
  if blen i <? n then Err UnexpectedEnd
  else Ok (firstn (Z.to_nat n) i, skipn (Z.to_nat n) i).
