(* The generic typed codec: an interpreter of resolved environments (Schema.env) that mirrors
   cbor-smol 0.5.1 + serde-indexed 0.1.1 + serde_derive 1.0.229 + serde_repr + the
   heapless / heapless-bytes / serde_bytes capacity rules + the hand-written serde impls of
   the crate (webauthn.rs, ctap2.rs) and of cosey 0.3.2. *)
From Ctap Require Export Base Schema Wire Utf8.
Local Open Scope string_scope.
Local Open Scope Z_scope.

Inductive val :=
| VZ (z : Z)
| VBytes (b : bytes)
| VStr (b : bytes)
| VBool (b : bool)
| VUnit
| VNone
| VSome (v : val)
| VList (l : list val)
| VRec (fs : list (string * val))
| VEnum (variant : string)
| VVar (variant : string) (v : val).

Definition rget (k : string) (fs : list (string * val)) : option val := assoc k fs.

(* behaviour switch for webauthn.rs deserialize_from_str_and_skip_if_too_long, see DESIGN F4:
   the pinned heapless 0.7.17 has no fallible TryFrom<&str>, so `String::try_from(s)` resolves to
   the blanket impl over the panicking `From<&str>`.  The repaired code uses FromStr. *)
Definition skip_long_panics : bool := false.

(* ================================================================== decoding *)

Definition dec_bool (i : bytes) : res (val * bytes) :=
  '(l, r) <- take 1 i ;;
  match l with
  | [244] => Ok (VBool false, r)
  | [245] => Ok (VBool true, r)
  | _ => Err BadBool
  end.

Definition dec_unit (i : bytes) : res (val * bytes) :=
  match i with
  | [] => Err UnexpectedEnd
  | 246 :: r => Ok (VUnit, r)
  | _ => Err ExpectedNull
  end.

(* deserialize_i8, with the cast-precedence quirk: -1 - (raw as i16) as i8 *)
Definition dec_i8 (i : bytes) : res (val * bytes) :=
  m <- peek_major i ;;
  if m =? 0 then
    '(v, r) <- raw_u8 0 i ;;
    if v <=? 127 then Ok (VZ v, r) else Err BadI8
  else if m =? 1 then
    '(v, r) <- raw_u8 1 i ;;
    (* `-1 - (raw as i16) as i8`: the cast binds tighter, so raw = 128 gives -1 - (-128) = 127 *)
    if v <=? 128 then Ok (VZ (if v =? 128 then 127 else -1 - v), r)
    else Err BadI8
  else Err BadI8.

Definition dec_i32 (i : bytes) : res (val * bytes) :=
  m <- peek_major i ;;
  if m <=? 1 then
    '(v, r) <- raw_u32 m i ;;
    if v <=? 2147483647 then Ok (VZ (if m =? 0 then v else -1 - v), r) else Err BadI32
  else Err BadI16.

(* deserialize_bytes with a visitor that has no visit_seq: an array head is read, then the default
   visit_seq reports invalid_type *)
Definition dec_bytes_raw (i : bytes) : res (bytes * bytes) :=
  m <- peek_major i ;;
  if m =? 4 then '(_, _) <- raw_u32 4 i ;; Err SerdeDeCustom
  else if m =? 2 then '(n, r) <- raw_u32 2 i ;; take n r
  else Err BadMajor.

Definition dec_str_raw (i : bytes) : res (bytes * bytes) :=
  '(n, r) <- raw_u32 3 i ;;
  '(s, r') <- take n r ;;
  if utf8_valid s then Ok (s, r') else Err BadUtf8.

(* element loop of heapless::Vec<T, N>::deserialize (visit_seq): each element is parsed, then
   pushed; a full vector reports invalid_length *)
Fixpoint seq_loop (decf : bytes -> res (val * bytes)) (fuel : nat) (n cap : Z) (acc : list val)
  (i : bytes) : res (list val * bytes) :=
  if n <=? 0 then Ok (rev acc, i)
  else match fuel with
  | O => Fuel
  | S k =>
      '(v, r) <- decf i ;;
      if blen acc <? cap then seq_loop decf k (n - 1) cap (v :: acc) r else Err SerdeDeCustom
  end.

(* generic element loop with a caller-supplied step on the accumulator (filters) *)
Fixpoint fold_loop {St : Type} (decf : bytes -> res (val * bytes)) (step : St -> val -> St)
  (fuel : nat) (n : Z) (acc : St) (i : bytes) : res (St * bytes) :=
  if n <=? 0 then Ok (acc, i)
  else match fuel with
  | O => Fuel
  | S k => '(v, r) <- decf i ;; fold_loop decf step k (n - 1) (step acc v) r
  end.

Fixpoint find_idx_field (k : Z) (fs : list field) : option field :=
  match fs with
  | [] => None
  | fd :: r => match f_key fd with
               | KInt z => if z =? k then Some fd else find_idx_field k r
               | _ => find_idx_field k r
               end
  end.

Definition field_names_match (name : bytes) (fd : field) : bool :=
  match f_key fd with
  | KText s => bytes_eqb name (bytes_of_string s)
  | _ => false
  end || existsb (fun a => bytes_eqb name (bytes_of_string a)) (f_aliases fd).

Fixpoint find_txt_field (name : bytes) (fs : list field) : option field :=
  match fs with
  | [] => None
  | fd :: r => if field_names_match name fd then Some fd else find_txt_field name r
  end.

Definition inner_ty (t : ty) : ty := match t with TOpt u => u | u => u end.
Definition str_cap (t : ty) : Z :=
  match t with TOpt (TStrCap n) => n | TStrCap n => n | _ => -1 end.

(* serde-indexed visit_map: keys are usize (deserialize_u64), unknown index and duplicates are
   custom errors, an optional member is decoded as its inner type *)
Fixpoint idx_loop (decf : ty -> bytes -> res (val * bytes)) (fs : list field) (fuel : nat)
  (n : Z) (acc : list (string * val)) (i : bytes) : res (list (string * val) * bytes) :=
  if n <=? 0 then Ok (acc, i)
  else match fuel with
  | O => Fuel
  | S k =>
      '(key, r) <- raw_u64 0 i ;;
      match find_idx_field key fs with
      | None => Err SerdeDeCustom
      | Some fd =>
          match rget (f_label fd) acc with
          | Some _ => Err SerdeDeCustom
          | None =>
              '(v, r') <- decf (if f_opt fd then inner_ty (f_ty fd) else f_ty fd) r ;;
              idx_loop decf fs k (n - 1)
                ((f_label fd, if f_opt fd then VSome v else v) :: acc) r'
          end
      end
  end.

Fixpoint idx_finish (fs : list field) (acc : list (string * val)) : res (list (string * val)) :=
  match fs with
  | [] => Ok []
  | fd :: r =>
      match rget (f_label fd) acc with
      | Some v => rest <- idx_finish r acc ;; Ok ((f_label fd, v) :: rest)
      | None => if f_opt fd then rest <- idx_finish r acc ;; Ok ((f_label fd, VNone) :: rest)
                else Err SerdeMissingField
      end
  end.

(* value of a text-keyed member, honouring deserialize_with *)
Definition dec_with (decf : ty -> bytes -> res (val * bytes)) (fd : field) (i : bytes)
  : res (val * bytes) :=
  match f_with fd with
  | None => decf (f_ty fd) i
  | Some w =>
      if String.eqb w "deserialize_from_str_and_truncate" then
        '(v, r) <- decf (TOpt TStrRef) i ;;
        match v with
        | VSome (VStr s) => t <- truncate (str_cap (f_ty fd)) s ;; Ok (VSome (VStr t), r)
        | _ => Ok (VNone, r)
        end
      else if String.eqb w "deserialize_from_str_and_skip_if_too_long" then
        '(v, r) <- decf TStrRef i ;;
        match v with
        | VStr s =>
            if blen s <=? str_cap (f_ty fd) then Ok (VSome (VStr s), r)
            else if skip_long_panics then Panic "String::try_from(&str) -> From::from -> unwrap"
            else Ok (VNone, r)
        | _ => Panic "dec_with: non-string"
        end
      else Panic "unmodelled deserialize_with"
  end.

(* serde_derive visit_map through cbor-smol deserialize_identifier: a key is text, a byte string
   or an unsigned integer i meaning the i-th declared field; unknown keys are skipped *)
Fixpoint txt_loop (decf : ty -> bytes -> res (val * bytes)) (fs : list field) (fuel : nat)
  (n : Z) (acc : list (string * val)) (i : bytes) : res (list (string * val) * bytes) :=
  if n <=? 0 then Ok (acc, i)
  else match fuel with
  | O => Fuel
  | S k =>
      m <- peek_major i ;;
      '(fo, r) <-
        (if (m =? 2) || (m =? 3) then
           '(len, r) <- raw_u32 m i ;;
           '(name, r') <- take len r ;;
           if utf8_valid name then Ok (find_txt_field name fs, r') else Err BadUtf8
         else if m =? 0 then
           '(ix, r) <- raw_u64 0 i ;;
           Ok (if ix <? blen fs then nth_error fs (Z.to_nat ix) else None, r)
         else Err BadMajor) ;;
      match fo with
      | None => r' <- skip_item r ;; txt_loop decf fs k (n - 1) acc r'
      | Some fd =>
          match rget (f_label fd) acc with
          | Some _ => Err SerdeDeCustom
          | None =>
              '(v, r') <- dec_with decf fd r ;;
              txt_loop decf fs k (n - 1) ((f_label fd, v) :: acc) r'
          end
      end
  end.

Fixpoint txt_finish (fs : list field) (acc : list (string * val)) : res (list (string * val)) :=
  match fs with
  | [] => Ok []
  | fd :: r =>
      match rget (f_label fd) acc with
      | Some v => rest <- txt_finish r acc ;; Ok ((f_label fd, v) :: rest)
      | None => if f_opt fd then rest <- txt_finish r acc ;; Ok ((f_label fd, VNone) :: rest)
                else Err SerdeMissingField
      end
  end.

(* ---- cosey 0.3.2: RawPublicKey::deserialize + EcdhEsHkdf256PublicKey::deserialize *)
Record rawkey := { rk_kty : option Z; rk_alg : option Z; rk_crv : option Z;
                   rk_x : option bytes; rk_y : option bytes }.

Inductive ckey := CK_Label (l : Z) | CK_Unknown | CK_None.

Definition cose_labels : list Z := [1; 3; -1; -2; -3].

(* next_key: Option<i8> through MapAccess (len decremented per key) *)
Definition cose_next_key (len : Z) (i : bytes) : res (ckey * Z * bytes) :=
  if len <=? 0 then Ok (CK_None, len, i)
  else
    '(v, r) <- dec_i8 i ;;
    match v with
    | VZ z => Ok (if zmem z cose_labels then CK_Label z else CK_Unknown, len - 1, r)
    | _ => Panic "cose_next_key"
    end.

Definition is_label (k : ckey) (l : Z) : bool :=
  match k with CK_Label z => z =? l | _ => false end.

Definition dec_repr_i8 (allowed : list Z) (i : bytes) : res (Z * bytes) :=
  '(v, r) <- dec_i8 i ;;
  match v with
  | VZ z => if zmem z allowed then Ok (z, r) else Err SerdeDeCustom
  | _ => Panic "dec_repr_i8"
  end.

Definition dec_bytes_cap (cap : Z) (i : bytes) : res (bytes * bytes) :=
  '(b, r) <- dec_bytes_raw i ;;
  if cap <? blen b then Err SerdeDeCustom else Ok (b, r).

Definition dec_rawkey (i : bytes) : res (rawkey * bytes) :=
  '(len, r) <- raw_u32 5 i ;;
  '(k, len, r) <- cose_next_key len r ;;
  '(kty, k, len, r) <-
     (if is_label k 1 then
        '(v, r) <- dec_repr_i8 [1; 2; 4] r ;;
        '(k', len', r) <- cose_next_key len r ;; Ok (Some v, k', len', r)
      else Ok (None, k, len, r)) ;;
  '(alg, k, len, r) <-
     (if is_label k 3 then
        '(v, r) <- dec_repr_i8 [-7; -8; -9; -25] r ;;
        '(k', len', r) <- cose_next_key len r ;; Ok (Some v, k', len', r)
      else Ok (None, k, len, r)) ;;
  '(crv, k, len, r) <-
     (if is_label k (-1) then
        '(v, r) <- dec_repr_i8 [0; 1; 4; 6] r ;;
        '(k', len', r) <- cose_next_key len r ;; Ok (Some v, k', len', r)
      else Ok (None, k, len, r)) ;;
  '(x, k, len, r) <-
     (if is_label k (-2) then
        '(v, r) <- dec_bytes_cap 32 r ;;
        '(k', len', r) <- cose_next_key len r ;; Ok (Some v, k', len', r)
      else Ok (None, k, len, r)) ;;
  '(y, k, len, r) <-
     (if is_label k (-3) then
        '(v, r) <- dec_bytes_cap 32 r ;;
        '(k', len', r) <- cose_next_key len r ;; Ok (Some v, k', len', r)
      else Ok (None, k, len, r)) ;;
  match k with
  | CK_Label _ => Err SerdeDeCustom
  | _ => Ok ({| rk_kty := kty; rk_alg := alg; rk_crv := crv; rk_x := x; rk_y := y |}, r)
  end.

(* check_key_constants::<EcdhEsHkdf256PublicKey> then x, y *)
Definition dec_cose_ecdh (i : bytes) : res (val * bytes) :=
  '(k, r) <- dec_rawkey i ;;
  match rk_kty k with
  | None => Err SerdeMissingField
  | Some kty =>
      if negb (kty =? 2) then Err SerdeDeCustom
      else if match rk_alg k with Some a => negb (a =? -25) | None => false end then Err SerdeDeCustom
      else match rk_crv k with
      | None => Err SerdeMissingField
      | Some c =>
          if negb (c =? 1) then Err SerdeDeCustom
          else match rk_x k, rk_y k with
          | Some x, Some y => Ok (VRec [("x", VBytes x); ("y", VBytes y)], r)
          | _, _ => Err SerdeMissingField
          end
      end
  end.

Fixpoint lookup_tryfrom (s : bytes) (arms : list (string * string)) : option string :=
  match arms with
  | [] => None
  | (sp, v) :: r => if bytes_eqb s (bytes_of_string sp) then Some v else lookup_tryfrom s r
  end.

Fixpoint variant_of_discr (z : Z) (vs : list (string * Z)) : option string :=
  match vs with
  | [] => None
  | (n, d) :: r => if d =? z then Some n else variant_of_discr z r
  end.

Definition known_param (algs : list Z) (v : val) : option val :=
  match v with
  | VRec fs =>
      match rget "alg" fs, rget "key_type" fs with
      | Some (VZ a), Some (VStr t) =>
          if negb (bytes_eqb t (bytes_of_string "public-key")) then None
          else if zmem a algs then Some (VRec [("alg", VZ a)]) else None
      | _, _ => None
      end
  | _ => None
  end.

Definition n_PKCP := "webauthn::PublicKeyCredentialParameters".
Definition n_ASF := "ctap2::AttestationStatementFormat".

Fixpoint dec (e : env) (fuel : nat) (t : ty) (i : bytes) {struct fuel} : res (val * bytes) :=
  match fuel with
  | O => Fuel
  | S k =>
      match t with
      | TU8 => '(v, r) <- raw_u8 0 i ;; Ok (VZ v, r)
      | TU16 => '(v, r) <- raw_u16 0 i ;; Ok (VZ v, r)
      | TU32 => '(v, r) <- raw_u32 0 i ;; Ok (VZ v, r)
      | TU64 | TUsize => '(v, r) <- raw_u64 0 i ;; Ok (VZ v, r)
      | TI8 => dec_i8 i
      | TI32 => dec_i32 i
      | TBool => dec_bool i
      | TUnit => dec_unit i
      | TBytesRef => '(b, r) <- dec_bytes_raw i ;; Ok (VBytes b, r)
      | TBytesCap n => '(b, r) <- dec_bytes_cap n i ;; Ok (VBytes b, r)
      | TByteArrRef n =>
          '(b, r) <- dec_bytes_raw i ;;
          if blen b =? n then Ok (VBytes b, r) else Err SerdeDeCustom
      | TStrRef => '(s, r) <- dec_str_raw i ;; Ok (VStr s, r)
      | TStrCap n =>
          '(s, r) <- dec_str_raw i ;;
          if n <? blen s then Err SerdeDeCustom else Ok (VStr s, r)
      | TVec u cap =>
          '(n, r) <- raw_u32 4 i ;;
          '(l, r') <- seq_loop (dec e k u) (S (List.length r)) n cap [] r ;;
          Ok (VList l, r')
      | TOpt u =>
          match i with
          | [] => Err UnexpectedEnd
          | 246 :: r => Ok (VNone, r)
          | _ => '(v, r) <- dec e k u i ;; Ok (VSome v, r)
          end
      | TNamed name =>
          match lookup e name with
          | None => Panic ("undeclared type " ++ name)
          | Some (DStruct true _ _ fs) =>
              '(n, r) <- raw_u32 5 i ;;
              '(acc, r') <- idx_loop (dec e k) fs (S (List.length r)) n [] r ;;
              rec <- idx_finish fs acc ;;
              Ok (VRec rec, r')
          | Some (DStruct false _ _ fs) =>
              '(n, r) <- raw_u32 5 i ;;
              '(acc, r') <- txt_loop (dec e k) fs (S (List.length r)) n [] r ;;
              rec <- txt_finish fs acc ;;
              Ok (VRec rec, r')
          | Some (DStrEnum _ _ _ tf) =>
              '(s, r) <- dec_str_raw i ;;
              match lookup_tryfrom s tf with
              | Some v => Ok (VEnum v, r)
              | None => Err SerdeDeCustom
              end
          | Some (DRepr repr _ _ vs) =>
              '(z, r) <- (if String.eqb repr "u8" then raw_u8 0 i else Panic "unmodelled repr") ;;
              match variant_of_discr z vs with
              | Some v => Ok (VEnum v, r)
              | None => Err SerdeDeCustom
              end
          | Some (DUntagged _ _) => Panic "untagged enum is not deserializable"
          | Some DOpaque => Panic ("opaque type " ++ name)
          | Some (DCustom kind _ _ params) =>
              if String.eqb kind "webauthn::Icon" then
                '(_, r) <- dec_str_raw i ;; Ok (VUnit, r)
              else if String.eqb kind "webauthn::FilteredPublicKeyCredentialParameters" then
                '(n, r) <- raw_u32 4 i ;;
                let cap := hd 0 params in
                let algs := tl params in
                '(acc, r') <- fold_loop (dec e k (TNamed n_PKCP))
                   (fun acc v => match known_param algs v with
                                 | Some kp => if blen acc <? cap then acc ++ [kp] else acc
                                 | None => acc end)%list
                   (S (List.length r)) n [] r ;;
                Ok (VList acc, r')
              else if String.eqb kind "ctap2::AttestationFormatsPreference" then
                '(n, r) <- raw_u32 4 i ;;
                let tf := match lookup e n_ASF with Some (DStrEnum _ _ _ tf) => tf | _ => [] end in
                '(acc, r') <- fold_loop (dec e k TStrRef)
                   (fun (acc : list val * bool) v =>
                      match v with
                      | VStr s => match lookup_tryfrom s tf with
                                  | Some fmt => (if blen (fst acc) <? 2 then fst acc ++ [VEnum fmt] else fst acc, snd acc)
                                  | None => (fst acc, true)
                                  end
                      | _ => acc
                      end)%list
                   (S (List.length r)) n ([], false) r ;;
                Ok (VRec [("known_formats", VList (fst acc)); ("unknown", VBool (snd acc))], r')
              else if String.eqb kind "ext::EcdhEsHkdf256PublicKey" then dec_cose_ecdh i
              else Panic ("unmodelled custom deserializer " ++ kind)
          end
      | TByteArr _ | TArrRef _ | TArr _ | TSliceRef | TRef _ | TExt _ | TUnknown _ =>
          Panic "type is not deserializable"
      end
  end.

(* ================================================================== encoding *)
(* Unbounded writer: the result is the complete byte string, or None when the value does not have
   the shape of the type (ill-typed value).  Bounded writers are modelled on top (Procs.v). *)

Definition omap {A B} (f : A -> option B) (o : option A) : option B :=
  match o with Some a => f a | None => None end.

Fixpoint concat_opt (l : list (option bytes)) : option bytes :=
  match l with
  | [] => Some []
  | None :: _ => None
  | Some b :: r => match concat_opt r with Some t => Some (b ++ t)%list | None => None end
  end.

Definition ser_int (z : Z) : bytes := if 0 <=? z then put_head 0 z else put_head 1 (-1 - z).
Definition ser_bytes (b : bytes) : bytes := (put_head 2 (blen b) ++ b)%list.
Definition ser_text (b : bytes) : bytes := (put_head 3 (blen b) ++ b)%list.

(* which members of a record value are emitted *)
Definition emitted (fd : field) (v : val) : bool :=
  negb (f_skip_ser fd) && negb (f_skip_none fd && match v with VNone => true | _ => false end).

Definition ser_key (k : key) : bytes :=
  match k with
  | KInt z => ser_int z
  | KText s => ser_text (bytes_of_string s)
  end.

Fixpoint lookup_into (v : string) (arms : list (string * string)) : option string :=
  match arms with
  | [] => None
  | (vn, sp) :: r => if String.eqb v vn then Some sp else lookup_into v r
  end.

(* cosey RawPublicKey::serialize for the four key kinds *)
Definition ser_cose (kind : string) (v : val) : option bytes :=
  let entry k body := (ser_int k ++ body)%list in
  let bytes_of f fs := match rget f fs with Some (VBytes b) => Some b | _ => None end in
  match v with
  | VRec fs =>
      if String.eqb kind "P256Key" || String.eqb kind "EcdhEsHkdf256Key" then
        match bytes_of "x" fs, bytes_of "y" fs with
        | Some x, Some y =>
            Some (put_head 5 5 ++ entry 1 (ser_int 2)
                  ++ entry 3 (ser_int (if String.eqb kind "P256Key" then -7 else -25))
                  ++ entry (-1) (ser_int 1) ++ entry (-2) (ser_bytes x) ++ entry (-3) (ser_bytes y))%list
        | _, _ => None
        end
      else if String.eqb kind "Ed25519Key" then
        match bytes_of "x" fs with
        | Some x =>
            Some (put_head 5 4 ++ entry 1 (ser_int 1) ++ entry 3 (ser_int (-8))
                  ++ entry (-1) (ser_int 6) ++ entry (-2) (ser_bytes x))%list
        | None => None
        end
      else if String.eqb kind "TotpKey" then
        Some (put_head 5 2 ++ entry 1 (ser_int 4) ++ entry 3 (ser_int (-9)))%list
      else None
  | _ => None
  end.

Fixpoint ser (e : env) (fuel : nat) (t : ty) (v : val) {struct fuel} : option bytes :=
  match fuel with
  | O => None
  | S k =>
      match t, v with
      | (TU8 | TU16 | TU32 | TU64 | TUsize), VZ z => if 0 <=? z then Some (put_head 0 z) else None
      | (TI8 | TI32), VZ z => Some (ser_int z)
      | TBool, VBool b => Some [if b then 245 else 244]
      | TUnit, VUnit => Some [246]
      | (TBytesRef | TBytesCap _ | TByteArrRef _ | TByteArr _), VBytes b => Some (ser_bytes b)
      | (TStrRef | TStrCap _), VStr s => Some (ser_text s)
      | TVec u _, VList l =>
          match concat_opt (map (ser e k u) l) with
          | Some body => Some (put_head 4 (blen l) ++ body)%list
          | None => None
          end
      | TOpt _, VNone => Some [246]
      | TOpt u, VSome w => ser e k u w
      | TNamed name, _ =>
          match lookup e name, v with
          | Some (DStruct _ _ _ fs), VRec vs =>
              let parts :=
                map (fun fd =>
                       match rget (f_label fd) vs with
                       | None => if f_skip_none fd || f_skip_ser fd then Some [] else None
                       | Some fv =>
                           if emitted fd fv then
                             match ser e k (f_ty fd) fv with
                             | Some b => Some (ser_key (f_key fd) ++ b)%list
                             | None => None
                             end
                           else Some []
                       end) fs in
              let count := blen (filter (fun fd => match rget (f_label fd) vs with
                                                   | Some fv => emitted fd fv | None => false end) fs) in
              match concat_opt parts with
              | Some body => Some (put_head 5 count ++ body)%list
              | None => None
              end
          | Some (DStrEnum _ _ into _), VEnum vn =>
              match lookup_into vn into with
              | Some sp => Some (ser_text (bytes_of_string sp))
              | None => None
              end
          | Some (DRepr _ _ _ vs), VEnum vn =>
              match assoc vn vs with Some z => Some (ser_int z) | None => None end
          | Some (DUntagged _ vs), VVar vn w =>
              match assoc vn vs with Some u => ser e k u w | None => None end
          | Some (DCustom kind _ _ _), _ =>
              if String.eqb kind "webauthn::FilteredPublicKeyCredentialParameters" then
                match v with
                | VList l =>
                    match concat_opt
                            (map (fun kp => match kp with
                                            | VRec fs =>
                                                match rget "alg" fs with
                                                | Some a => ser e k (TNamed n_PKCP)
                                                              (VRec [("alg", a); ("key_type", VStr (bytes_of_string "public-key"))])
                                                | None => None
                                                end
                                            | _ => None end) l) with
                    | Some body => Some (put_head 4 (blen l) ++ body)%list
                    | None => None
                    end
                | _ => None
                end
              else if String.eqb kind "ext::PublicKey" then
                match v with VVar vn w => ser_cose vn w | _ => None end
              else if String.eqb kind "ext::EcdhEsHkdf256PublicKey" then ser_cose "EcdhEsHkdf256Key" v
              else None
          | _, _ => None
          end
      | _, _ => None
      end
  end.

(* fuel that always suffices for the crate's (acyclic, shallow) declarations *)
Definition type_fuel : nat := 24.
Definition decode (e : env) (t : ty) (i : bytes) : res (val * bytes) := dec e type_fuel t i.
Definition encode (e : env) (t : ty) (v : val) : option bytes := ser e type_fuel t v.
