(* The encoder emits CTAP2 canonical CBOR at every nesting level (C03), and a struct is emitted as one map
   holding exactly its set members, each once, under its key, in declaration order (C02). *)
From Ctap Require Import Base Schema Wire Utf8 Typed Canonical WireP.
From Coq Require Import Lia.
Local Open Scope Z_scope.

(* ---- canonical form as a predicate on bytes: heads written by the shortest-head writer, definite
   lengths, no tags / floats / undefined, map keys strictly increasing in canonical order *)
Inductive canon : bytes -> Prop :=
| cn_uint : forall v, 0 <= v -> canon (put_head 0 v)
| cn_nint : forall v, 0 <= v -> canon (put_head 1 v)
| cn_bytes : forall b, canon (put_head 2 (blen b) ++ b)
| cn_text : forall b, canon (put_head 3 (blen b) ++ b)
| cn_arr : forall items, Forall canon items -> canon (put_head 4 (blen items) ++ List.concat items)
| cn_map : forall kvs : list (bytes * bytes),
    Forall (fun p => canon (fst p) /\ canon (snd p)) kvs ->
    all_pairs enc_key_lt (map fst kvs) = true ->
    canon (put_head 5 (blen kvs) ++ List.concat (map (fun p => fst p ++ snd p) kvs))
| cn_simple : forall b, b = 244 \/ b = 245 \/ b = 246 -> canon [b].

Lemma canon_ser_int : forall z, canon (ser_int z).
Proof.
  intros z. unfold ser_int. destruct (0 <=? z) eqn:E.
  - apply Z.leb_le in E. apply cn_uint. exact E.
  - apply Z.leb_gt in E. apply cn_nint. lia.
Qed.

Lemma canon_ser_key : forall k, canon (ser_key k).
Proof. intros [z|s]; cbn [ser_key]; [apply canon_ser_int|apply cn_text]. Qed.

(* ---- sublists keep pairwise order *)
Inductive sublist {A} : list A -> list A -> Prop :=
| sl_nil : forall l, sublist [] l
| sl_skip : forall x l' l, sublist l' l -> sublist l' (x :: l)
| sl_take : forall x l' l, sublist l' l -> sublist (x :: l') (x :: l).

Lemma sublist_in {A} : forall (l' l : list A), sublist l' l -> forall x, In x l' -> In x l.
Proof.
  intros l' l H. induction H as [l|x l' l H IH|x l' l H IH]; intros y Hy; [destruct Hy| |].
  - right. apply IH. exact Hy.
  - destruct Hy as [->|Hy]; [left; reflexivity|right; apply IH; exact Hy].
Qed.

Lemma all_pairs_sublist {A} (lt : A -> A -> bool) : forall l' l,
  sublist l' l -> all_pairs lt l = true -> all_pairs lt l' = true.
Proof.
  intros l' l H. induction H as [l|x l' l H IH|x l' l H IH]; intros Hp; cbn [all_pairs] in *.
  - reflexivity.
  - apply andb_true_iff in Hp. destruct Hp as [_ Hp]. apply IH. exact Hp.
  - apply andb_true_iff in Hp. destruct Hp as [Hx Hp]. apply andb_true_iff. split; [|apply IH; exact Hp].
    rewrite forallb_forall in *. intros y Hy. apply Hx. eapply sublist_in; eassumption.
Qed.

Lemma forallb_map' {A B} (f : A -> B) (p : B -> bool) : forall l, forallb p (map f l) = forallb (fun a => p (f a)) l.
Proof. induction l as [|x l IH]; cbn [map forallb]; [reflexivity|rewrite IH; reflexivity]. Qed.

Lemma all_pairs_map {A B} (f : A -> B) (lt : B -> B -> bool) : forall l,
  all_pairs lt (map f l) = all_pairs (fun a b => lt (f a) (f b)) l.
Proof.
  induction l as [|x l IH]; cbn [map all_pairs]; [reflexivity|].
  rewrite IH. f_equal. apply forallb_map'.
Qed.

(* ---- what a struct emits: the (key, encoded value) list of its set members, in declaration order *)
Fixpoint emit_list (serf : ty -> val -> option bytes) (vs : list (string * val)) (fs : list field)
  : option (list (key * bytes)) :=
  match fs with
  | [] => Some []
  | fd :: r =>
      match rget (f_label fd) vs with
      | None => if f_skip_none fd || f_skip_ser fd then emit_list serf vs r else None
      | Some fv =>
          if emitted fd fv then
            match serf (f_ty fd) fv, emit_list serf vs r with
            | Some b, Some l => Some ((f_key fd, b) :: l)
            | _, _ => None
            end
          else emit_list serf vs r
      end
  end.

Definition parts_of (serf : ty -> val -> option bytes) (vs : list (string * val)) (fs : list field) :=
  map (fun fd =>
         match rget (f_label fd) vs with
         | None => if f_skip_none fd || f_skip_ser fd then Some [] else None
         | Some fv =>
             if emitted fd fv then
               match serf (f_ty fd) fv with
               | Some b => Some (ser_key (f_key fd) ++ b)
               | None => None
               end
             else Some []
         end) fs.
Definition count_of (vs : list (string * val)) (fs : list field) : Z :=
  blen (filter (fun fd => match rget (f_label fd) vs with Some fv => emitted fd fv | None => false end) fs).

Lemma parts_emit : forall serf vs fs,
  match emit_list serf vs fs with
  | Some l => concat_opt (parts_of serf vs fs) = Some (List.concat (map (fun p => ser_key (fst p) ++ snd p) l))
              /\ count_of vs fs = blen l
  | None => concat_opt (parts_of serf vs fs) = None
  end.
Proof.
  intros serf vs fs. induction fs as [|fd fs IH].
  - cbn. split; reflexivity.
  - cbn [emit_list parts_of map concat_opt]. fold (parts_of serf vs fs).
    unfold count_of in *. cbn [filter].
    destruct (rget (f_label fd) vs) as [fv|] eqn:Eg.
    + destruct (emitted fd fv) eqn:Ee.
      * destruct (serf (f_ty fd) fv) as [b|]; [|reflexivity].
        destruct (emit_list serf vs fs) as [l|].
        { destruct IH as [IH1 IH2]. rewrite IH1. cbn [map List.concat fst snd]. rewrite !blen_cons.
          split; [rewrite <- app_assoc; reflexivity|lia]. }
        { rewrite IH. reflexivity. }
      * destruct (emit_list serf vs fs) as [l|].
        { destruct IH as [IH1 IH2]. rewrite IH1. split; [reflexivity|exact IH2]. }
        { rewrite IH. reflexivity. }
    + destruct (f_skip_none fd || f_skip_ser fd); [|reflexivity].
      destruct (emit_list serf vs fs) as [l|].
      { destruct IH as [IH1 IH2]. rewrite IH1. split; [reflexivity|exact IH2]. }
      { rewrite IH. reflexivity. }
Qed.

(* C02 shape: a struct is emitted as ONE map whose entries are exactly the emitted members *)
Theorem ser_struct_shape : forall e k name i s d fs vs,
  lookup e name = Some (DStruct i s d fs) ->
  ser e (S k) (TNamed name) (VRec vs) =
    match emit_list (ser e k) vs fs with
    | Some l => Some (put_head 5 (blen l) ++ List.concat (map (fun p => ser_key (fst p) ++ snd p) l))
    | None => None
    end.
Proof.
  intros e k name i s d fs vs Hl. cbn [ser]. rewrite Hl.
  change (map _ fs) with (parts_of (ser e k) vs fs).
  change (blen (filter _ fs)) with (count_of vs fs).
  pose proof (parts_emit (ser e k) vs fs) as H.
  destruct (emit_list (ser e k) vs fs) as [l|].
  - destruct H as [H1 H2]. rewrite H1, H2. reflexivity.
  - rewrite H. reflexivity.
Qed.

(* the emitted keys are a sublist (in order) of the declared, serialisable members' keys; every emitted
   body is the encoding of that member's value; an unset (None) skip-if-none member is never emitted *)
Lemma emit_list_keys : forall serf vs fs l, emit_list serf vs fs = Some l ->
  sublist (map fst l) (emitted_keys fs).
Proof.
  intros serf vs fs. induction fs as [|fd fs IH]; intros l H; cbn [emit_list] in H.
  - injection H as <-. constructor.
  - unfold emitted_keys in *. cbn [filter map].
    destruct (rget (f_label fd) vs) as [fv|].
    + destruct (emitted fd fv) eqn:Ee.
      * destruct (serf (f_ty fd) fv) as [b|]; [|discriminate].
        destruct (emit_list serf vs fs) as [l0|]; [|discriminate]. injection H as <-.
        unfold emitted in Ee. apply andb_true_iff in Ee. destruct Ee as [Ee _]. rewrite Ee.
        cbn [map fst]. apply sl_take. apply IH. reflexivity.
      * destruct (negb (f_skip_ser fd)); [apply sl_skip|]; apply IH; exact H.
    + destruct (f_skip_none fd || f_skip_ser fd); [|discriminate].
      destruct (negb (f_skip_ser fd)); [apply sl_skip|]; apply IH; exact H.
Qed.

Lemma emit_list_bodies : forall serf vs fs l, emit_list serf vs fs = Some l ->
  Forall (fun p => exists fd fv, In fd fs /\ f_key fd = fst p /\ rget (f_label fd) vs = Some fv /\
                                 emitted fd fv = true /\ serf (f_ty fd) fv = Some (snd p)) l.
Proof.
  intros serf vs fs. induction fs as [|fd fs IH]; intros l H; cbn [emit_list] in H.
  - injection H as <-. constructor.
  - assert (Hw : forall l0, Forall (fun p => exists fd0 fv, In fd0 fs /\ f_key fd0 = fst p /\ rget (f_label fd0) vs = Some fv /\ emitted fd0 fv = true /\ serf (f_ty fd0) fv = Some (snd p)) l0 ->
                           Forall (fun p => exists fd0 fv, In fd0 (fd :: fs) /\ f_key fd0 = fst p /\ rget (f_label fd0) vs = Some fv /\ emitted fd0 fv = true /\ serf (f_ty fd0) fv = Some (snd p)) l0).
    { intros l0 H0. eapply Forall_impl; [|exact H0]. intros p [fd0 [fv [H1 H2]]]. exists fd0, fv. split; [right; exact H1|exact H2]. }
    destruct (rget (f_label fd) vs) as [fv|] eqn:Eg.
    + destruct (emitted fd fv) eqn:Ee.
      * destruct (serf (f_ty fd) fv) as [b|] eqn:Es; [|discriminate].
        destruct (emit_list serf vs fs) as [l0|]; [|discriminate]. injection H as <-.
        constructor; [|apply Hw; apply IH; reflexivity].
        exists fd, fv. cbn [fst snd]. repeat split; try assumption. left. reflexivity.
      * apply Hw. apply IH. exact H.
    + destruct (f_skip_none fd || f_skip_ser fd); [|discriminate]. apply Hw. apply IH. exact H.
Qed.

(* ---- every struct of the environment lists its members in canonical key order *)
Definition structs_ordered (e : env) : bool :=
  forallb (fun p => match snd p with
                    | DStruct _ _ _ fs => all_pairs key_lt (emitted_keys fs)
                    | _ => true end) e.

Lemma structs_ordered_lookup : forall e name i s d fs,
  structs_ordered e = true -> lookup e name = Some (DStruct i s d fs) ->
  all_pairs key_lt (emitted_keys fs) = true.
Proof.
  intros e name i s d fs H Hl. unfold structs_ordered in H. rewrite forallb_forall in H.
  unfold lookup in Hl. induction e as [|[n dd] e IH]; cbn [assoc] in Hl; [discriminate|].
  destruct (String.eqb name n).
  - injection Hl as ->. apply (H (n, DStruct i s d fs)). left. reflexivity.
  - apply IH; [intros x Hx; apply H; right; exact Hx|exact Hl].
Qed.

Lemma concat_opt_forall : forall (P : bytes -> Prop) (l : list (option bytes)) body,
  concat_opt l = Some body -> (forall b, In (Some b) l -> P b) ->
  exists items, Forall P items /\ body = List.concat items /\ List.length items = List.length l.
Proof.
  intros P l. induction l as [|o l IH]; intros body H HP; cbn [concat_opt] in H.
  - injection H as <-. exists []. repeat split. constructor.
  - destruct o as [b|]; [|discriminate]. destruct (concat_opt l) as [t|] eqn:E; [|discriminate].
    injection H as <-. destruct (IH t eq_refl) as [items [H1 [H2 H3]]]; [intros b' Hb'; apply HP; right; exact Hb'|].
    exists (b :: items). repeat split; [constructor; [apply HP; left; reflexivity|exact H1]|cbn; rewrite H2; reflexivity|cbn; lia].
Qed.

Lemma canon_map_eq : forall (kvs : list (bytes * bytes)) out,
  Forall (fun p => canon (fst p) /\ canon (snd p)) kvs ->
  all_pairs enc_key_lt (map fst kvs) = true ->
  out = put_head 5 (blen kvs) ++ List.concat (map (fun p => fst p ++ snd p) kvs) ->
  canon out.
Proof. intros kvs out H1 H2 ->. apply cn_map; assumption. Qed.

(* the COSE key maps: labels 1, 3, -1, -2, -3 in that order *)
Lemma ser_cose_canon : forall kind v b, ser_cose kind v = Some b -> canon b.
Proof.
  intros kind v b H. unfold ser_cose in H. destruct v as [| | | | | | | |fs| |]; try discriminate.
  destruct (String.eqb kind "P256Key" || String.eqb kind "EcdhEsHkdf256Key")%bool.
  - destruct (rget "x" fs) as [[ |x| | | | | | | | | ]|]; try discriminate.
    destruct (rget "y" fs) as [[ |y| | | | | | | | | ]|]; try discriminate.
    injection H as <-.
    set (alg := if String.eqb kind "P256Key" then -7 else -25).
    apply (canon_map_eq [(ser_int 1, ser_int 2); (ser_int 3, ser_int alg); (ser_int (-1), ser_int 1);
                         (ser_int (-2), ser_bytes x); (ser_int (-3), ser_bytes y)]).
    + repeat (apply Forall_cons; [split; cbn [fst snd]; [apply canon_ser_int|first [apply canon_ser_int|apply cn_bytes]]|]); apply Forall_nil.
    + vm_compute. reflexivity.
    + cbn [map List.concat fst snd]. rewrite app_nil_r, <- !app_assoc. reflexivity.
  - destruct (String.eqb kind "Ed25519Key").
    + destruct (rget "x" fs) as [[ |x| | | | | | | | | ]|]; try discriminate. injection H as <-.
      apply (canon_map_eq [(ser_int 1, ser_int 1); (ser_int 3, ser_int (-8)); (ser_int (-1), ser_int 6);
                           (ser_int (-2), ser_bytes x)]).
      * repeat (apply Forall_cons; [split; cbn [fst snd]; [apply canon_ser_int|first [apply canon_ser_int|apply cn_bytes]]|]); apply Forall_nil.
      * vm_compute. reflexivity.
      * cbn [map List.concat fst snd]. rewrite app_nil_r, <- !app_assoc. reflexivity.
    + destruct (String.eqb kind "TotpKey"); [|discriminate]. injection H as <-.
      apply (canon_map_eq [(ser_int 1, ser_int 4); (ser_int 3, ser_int (-9))]).
      * repeat (apply Forall_cons; [split; cbn [fst snd]; apply canon_ser_int|]); apply Forall_nil.
      * vm_compute. reflexivity.
      * cbn [map List.concat fst snd]. rewrite app_nil_r, <- !app_assoc. reflexivity.
Qed.

(* ---- C03: everything the encoder emits is canonical, at every nesting level, for every value *)
Theorem ser_canon : forall e, structs_ordered e = true ->
  forall k t v b, ser e k t v = Some b -> canon b.
Proof.
  intros e He. induction k as [|k IH]; intros t v b H; [discriminate|].
  destruct t.
  (* unsigned integers *)
  1-5: (destruct v; cbn [ser] in H; try discriminate;
        destruct (0 <=? z) eqn:E; [injection H as <-; apply cn_uint; apply Z.leb_le; exact E|discriminate]).
  (* signed integers *)
  1-2: (destruct v; cbn [ser] in H; try discriminate; injection H as <-; apply canon_ser_int).
  - (* bool *) destruct v; cbn [ser] in H; try discriminate. injection H as <-. apply cn_simple. destruct b0; auto.
  - (* unit *) destruct v; cbn [ser] in H; try discriminate. injection H as <-. apply cn_simple. auto.
  - destruct v; cbn [ser] in H; try discriminate. injection H as <-. apply cn_bytes.
  - destruct v; cbn [ser] in H; try discriminate. injection H as <-. apply cn_bytes.
  - destruct v; cbn [ser] in H; try discriminate. injection H as <-. apply cn_bytes.
  - destruct v; cbn [ser] in H; try discriminate. injection H as <-. apply cn_bytes.
  - destruct v; cbn [ser] in H; discriminate.
  - destruct v; cbn [ser] in H; discriminate.
  - destruct v; cbn [ser] in H; discriminate.
  - destruct v; cbn [ser] in H; try discriminate. injection H as <-. apply cn_text.
  - destruct v; cbn [ser] in H; try discriminate. injection H as <-. apply cn_text.
  - (* TVec *)
    destruct v; cbn [ser] in H; try discriminate.
    destruct (concat_opt (map (ser e k t) l)) as [body|] eqn:Ec; [|discriminate]. injection H as <-.
    destruct (concat_opt_forall canon _ _ Ec) as [items [H1 [H2 H3]]].
    { intros b0 Hb0. apply in_map_iff in Hb0. destruct Hb0 as [x [Hx _]]. eapply IH. exact Hx. }
    rewrite map_length in H3. subst body.
    replace (blen l) with (blen items) by (unfold blen; rewrite H3; reflexivity).
    apply cn_arr. exact H1.
  - (* TOpt *)
    destruct v; cbn [ser] in H; try discriminate.
    + injection H as <-. apply cn_simple. auto.
    + eapply IH. exact H.
  - destruct v; cbn [ser] in H; discriminate.
  - (* TNamed *)
    destruct (lookup e s) as [d|] eqn:El; [|destruct v; cbn [ser] in H; rewrite El in H; discriminate].
    destruct d as [i s0 d fs|s0 d into tf|repr s0 d vs|s0 vs|kind s0 d ps|].
    + (* struct *)
      destruct v; try (cbn [ser] in H; rewrite El in H; discriminate).
      rewrite (ser_struct_shape e k s i s0 d fs fs0 El) in H.
      destruct (emit_list (ser e k) fs0 fs) as [l|] eqn:Em; [|discriminate]. injection H as <-.
      apply (canon_map_eq (map (fun p => (ser_key (fst p), snd p)) l)).
      * pose proof (emit_list_bodies _ _ _ _ Em) as Hb.
        apply Forall_forall. intros p Hp. apply in_map_iff in Hp. destruct Hp as [q [<- Hq]].
        rewrite Forall_forall in Hb. destruct (Hb q Hq) as [fd [fv [_ [_ [_ [_ Hs]]]]]].
        cbn [fst snd]. split; [apply canon_ser_key|eapply IH; exact Hs].
      * rewrite map_map. cbn [fst].
        rewrite <- (map_map fst ser_key). rewrite all_pairs_map.
        change (all_pairs key_lt (map fst l) = true).
        eapply all_pairs_sublist; [eapply emit_list_keys; exact Em|].
        eapply structs_ordered_lookup; eassumption.
      * unfold blen. rewrite map_length. rewrite map_map. reflexivity.
    + (* string enum *)
      destruct v; cbn [ser] in H; rewrite El in H; try discriminate.
      destruct (lookup_into variant into); [|discriminate]. injection H as <-. apply cn_text.
    + destruct v; cbn [ser] in H; rewrite El in H; try discriminate.
      destruct (assoc variant vs); [|discriminate]. injection H as <-. apply canon_ser_int.
    + destruct v; cbn [ser] in H; rewrite El in H; try discriminate.
      destruct (assoc variant vs); [|discriminate]. eapply IH. exact H.
    + (* custom *)
      assert (H' : (if String.eqb kind "webauthn::FilteredPublicKeyCredentialParameters" then
                      match v with
                      | VList l =>
                          match concat_opt (map (fun kp => match kp with
                                                           | VRec fs => match rget "alg" fs with
                                                                        | Some a => ser e k (TNamed n_PKCP) (VRec [("alg"%string, a); ("key_type"%string, VStr (bytes_of_string "public-key"))])
                                                                        | None => None end
                                                           | _ => None end) l) with
                          | Some body => Some (put_head 4 (blen l) ++ body)
                          | None => None end
                      | _ => None end
                    else if String.eqb kind "ext::PublicKey" then match v with VVar vn w => ser_cose vn w | _ => None end
                    else if String.eqb kind "ext::EcdhEsHkdf256PublicKey" then ser_cose "EcdhEsHkdf256Key" v
                    else None) = Some b).
      { destruct v; cbn [ser] in H; rewrite El in H; exact H. }
      clear H. destruct (String.eqb kind "webauthn::FilteredPublicKeyCredentialParameters").
      * destruct v; try discriminate.
        match type of H' with match concat_opt ?m with _ => _ end = _ => destruct (concat_opt m) as [body|] eqn:Ec end; [|discriminate].
        injection H' as <-.
        destruct (concat_opt_forall canon _ _ Ec) as [items [H1 [H2 H3]]].
        { intros b0 Hb0. apply in_map_iff in Hb0. destruct Hb0 as [x [Hx _]].
          destruct x; try discriminate. destruct (rget "alg" fs); [|discriminate]. eapply IH. exact Hx. }
        rewrite map_length in H3. subst body.
        replace (blen l) with (blen items) by (unfold blen; rewrite H3; reflexivity).
        apply cn_arr. exact H1.
      * destruct (String.eqb kind "ext::PublicKey").
        { destruct v; try discriminate. eapply ser_cose_canon. exact H'. }
        destruct (String.eqb kind "ext::EcdhEsHkdf256PublicKey"); [|discriminate].
        eapply ser_cose_canon. exact H'.
    + destruct v; cbn [ser] in H; rewrite El in H; discriminate.
  - destruct v; cbn [ser] in H; discriminate.
  - destruct v; cbn [ser] in H; discriminate.
Qed.

Lemma encode_unfold : forall e t v, encode e t v = ser e type_fuel t v.
Proof. intros. unfold encode. reflexivity. Qed.

Lemma forallb_In {A} (p : A -> bool) : forall l x, forallb p l = true -> In x l -> p x = true.
Proof. intros l x H Hin. rewrite forallb_forall in H. apply H. exact Hin. Qed.

Theorem encode_canon : forall e, structs_ordered e = true ->
  forall t v b, encode e t v = Some b -> canon b.
Proof. intros e He t v b H. rewrite encode_unfold in H. eapply ser_canon; eassumption. Qed.
