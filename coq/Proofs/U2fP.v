(* C08: the CTAP1 request conversion against the U2F raw-message decision table. *)
From Ctap Require Import Base Schema Wire Typed Procs Inst Tables ProcTables Finite FramingP WireP C18P.
From Coq Require Import Lia.
Local Open Scope string_scope.
Local Open Scope Z_scope.

(* the decision table of the property, written from the U2F raw message formats (section 3, 4.1, 5.1, 6.1) *)
Definition control_name (p1 : Z) : option string :=
  if p1 =? 3 then Some "EnforceUserPresenceAndSign"
  else if p1 =? 7 then Some "CheckOnly"
  else if p1 =? 8 then Some "DontEnforceUserPresenceAndSign"
  else None.

Definition u2f_decision (cla ins p1 : Z) (data : bytes) : u2f_res :=
  if negb (cla =? 0) then U2fErr "ClassNotSupported"
  else if ins =? 3 then U2fOk U2fVersion
  else if ins =? 1 then
    if blen data =? 64 then U2fOk (U2fRegister (slice 0 32 data) (slice 32 64 data))
    else U2fErr "IncorrectDataParameter"
  else if ins =? 2 then
    match control_name p1 with
    | None => U2fErr "IncorrectDataParameter"
    | Some cb =>
        if (65 <=? blen data) && (blen data =? 65 + nth 64 data 0)
        then U2fOk (U2fAuthenticate cb (slice 0 32 data) (slice 32 64 data) (skipn 65 data))
        else U2fErr "IncorrectDataParameter"
    end
  else U2fErr "InstructionNotSupportedOrInvalid".

Lemma named_ins_not_u2f : forall ins, zmem ins iso_named_ins = true -> ins <> 1 /\ ins <> 2 /\ ins <> 3.
Proof.
  intros ins H. repeat split; intros ->; vm_compute in H; discriminate.
Qed.

Lemma auth_len_case : forall (data : bytes) (cb : string),
  (if blen data <? 65 then U2fErr "IncorrectDataParameter"
   else let khl := nth 64 data 0 in
        if negb (blen data =? 65 + khl) then U2fErr "IncorrectDataParameter"
        else U2fOk (U2fAuthenticate cb (slice 0 32 data) (slice 32 64 data) (skipn 65 data)))
  = (if (65 <=? blen data) && (blen data =? 65 + nth 64 data 0)
     then U2fOk (U2fAuthenticate cb (slice 0 32 data) (slice 32 64 data) (skipn 65 data))
     else U2fErr "IncorrectDataParameter").
Proof.
  intros data cb. cbv zeta.
  destruct (blen data <? 65) eqn:E1.
  - apply Z.ltb_lt in E1. destruct (65 <=? blen data) eqn:E2; [apply Z.leb_le in E2; lia|reflexivity].
  - apply Z.ltb_ge in E1. destruct (65 <=? blen data) eqn:E2; [|apply Z.leb_gt in E2; lia].
    cbn [andb]. destruct (blen data =? 65 + nth 64 data 0); reflexivity.
Qed.

Theorem u2f_request_of_decision : forall a, 0 <= a_p1 a < 256 ->
  u2f_request_of spec_tables a = u2f_decision (a_cla a) (a_ins a) (a_p1 a) (a_data a).
Proof.
  intros a Hp1. unfold u2f_request_of, u2f_decision.
  destruct (negb (a_cla a =? 0)); [reflexivity|].
  destruct (zmem (a_ins a) iso_named_ins) eqn:Ez.
  - destruct (named_ins_not_u2f _ Ez) as [N1 [N2 N3]].
    apply Z.eqb_neq in N1, N2, N3. rewrite N1, N2, N3. reflexivity.
  - destruct (a_ins a =? 3); [reflexivity|].
    destruct (a_ins a =? 1); [destruct (blen (a_data a) =? 64); reflexivity|].
    destruct (a_ins a =? 2); [|reflexivity].
    rewrite (control_byte_table (a_p1 a) Hp1). unfold control_name.
    destruct (a_p1 a =? 3); [apply auth_len_case|].
    destruct (a_p1 a =? 7); [apply auth_len_case|].
    destruct (a_p1 a =? 8); [apply auth_len_case|reflexivity].
Qed.

(* the decision table never reaches a Panic: the guards imply the slice bounds *)
Lemma u2f_decision_total : forall cla ins p1 data,
  match u2f_decision cla ins p1 data with U2fPanic _ => False | _ => True end.
Proof.
  intros. unfold u2f_decision.
  repeat match goal with
         | |- context [if ?c then _ else _] => destruct c
         | |- context [match control_name ?p with _ => _ end] => destruct (control_name p)
         end; exact I.
Qed.

Lemma slice_len : forall lo hi (l : bytes), 0 <= lo <= hi -> hi <= blen l -> blen (slice lo hi l) = hi - lo.
Proof.
  intros lo hi l H1 H2. unfold slice, blen in *. rewrite firstn_length, skipn_length. lia.
Qed.

(* accepted requests carry 32-byte challenge and application parameters *)
Lemma register_fields : forall data, blen data = 64 ->
  blen (slice 0 32 data) = 32 /\ blen (slice 32 64 data) = 32.
Proof. intros data H. split; rewrite slice_len; lia. Qed.

Lemma authenticate_fields : forall data, 65 <= blen data -> blen data = 65 + nth 64 data 0 ->
  blen (slice 0 32 data) = 32 /\ blen (slice 32 64 data) = 32 /\ blen (skipn 65 data) = nth 64 data 0.
Proof.
  intros data H1 H2. repeat split; try (rewrite slice_len; lia).
  unfold blen in *. rewrite skipn_length. lia.
Qed.
