(* C19: the helpers of src/arbitrary.rs return NotEnoughData or a value within capacity; text is valid
   UTF-8; no unwrap / try_into().unwrap() / from_utf8_unchecked site is reachable. *)
From Ctap Require Import Base Utf8 Typed Arb WireP Utf8P.
From Coq Require Import Lia.
Local Open Scope Z_scope.

Definition good {A} (P : A -> Prop) (r : ares A) : Prop :=
  match r with AOk a _ => P a | ANotEnough => True | APanic _ => False end.

Lemma u_bytes_len : forall n u b u', u_bytes n u = AOk b u' -> blen b = Z.max 0 n /\ b = firstn (Z.to_nat n) u.
Proof.
  intros n u b u' H. unfold u_bytes in H. destruct (blen u <? n) eqn:E; [discriminate|].
  apply Z.ltb_ge in E. injection H as <- <-. split; [|reflexivity].
  unfold blen in *. rewrite firstn_length. lia.
Qed.

Theorem arbitrary_bytes_ok : forall N u, 0 <= N -> good (fun b => blen b <= N) (arbitrary_bytes N u).
Proof.
  intros N u HN. unfold arbitrary_bytes. destruct (arb_usize u) as [n0 u1].
  destruct (u_bytes (Z.min n0 N) u1) as [b u2| |] eqn:E; cbn [abind good]; try exact I.
  - apply u_bytes_len in E. destruct E as [E _].
    destruct (blen b <=? N) eqn:E1; cbn [good]; lia.
  - unfold u_bytes in E. destruct (blen u1 <? Z.min n0 N); discriminate.
Qed.

Theorem arbitrary_byte_array_ok : forall N u, 0 <= N -> good (fun b => blen b = N) (arbitrary_byte_array N u).
Proof.
  intros N u HN. unfold arbitrary_byte_array.
  destruct (u_bytes N u) as [b u2| |] eqn:E; cbn [abind good]; try exact I.
  - apply u_bytes_len in E. destruct E as [E _].
    destruct (blen b =? N) eqn:E1; cbn [good]; lia.
  - unfold u_bytes in E. destruct (blen u <? N); discriminate.
Qed.

Lemma valid_prefix_len_le : forall p, (valid_prefix_len p <= List.length p)%nat.
Proof. intros p. apply valid_up_to_le. Qed.

Lemma valid_prefix_valid : forall p, utf8_valid (firstn (valid_prefix_len p) p) = true.
Proof. intros p. apply utf8_valid_iff. apply valid_up_to_wf. Qed.

Theorem arbitrary_str_ok : forall N u, 0 <= N ->
  good (fun s => blen s <= N /\ utf8_valid s = true) (arbitrary_str N u).
Proof.
  intros N u HN. unfold arbitrary_str. destruct (arb_usize u) as [n0 u1].
  set (n := Z.min n0 N).
  unfold u_peek. destruct (blen u1 <? n) eqn:En; [exact I|]. apply Z.ltb_ge in En.
  set (p := firstn (Z.to_nat n) u1).
  destruct (utf8_valid p) eqn:Ev.
  - unfold u_bytes. destruct (blen u1 <? n) eqn:En'; [apply Z.ltb_lt in En'; lia|].
    cbn [abind]. fold p.
    assert (Hl : blen p <= N) by (unfold p, blen in *; rewrite firstn_length; lia).
    destruct (blen p <=? N) eqn:E1; cbn [good]; [split; [lia|exact Ev]|lia].
  - pose proof (valid_prefix_len_le p) as Hi.
    assert (Hp : (List.length p <= Z.to_nat n)%nat) by (unfold p; rewrite firstn_length; lia).
    unfold u_bytes. destruct (blen u1 <? Z.of_nat (valid_prefix_len p)) eqn:Ei.
    { apply Z.ltb_lt in Ei. unfold blen in *. lia. }
    cbn [abind]. rewrite Nat2Z.id.
    assert (Hs : firstn (valid_prefix_len p) u1 = firstn (valid_prefix_len p) p).
    { remember (valid_prefix_len p) as i eqn:Ei'. unfold p. rewrite firstn_firstn. f_equal. lia. }
    rewrite Hs. rewrite valid_prefix_valid. cbn [negb].
    assert (Hl : blen (firstn (valid_prefix_len p) p) <= N).
    { unfold blen in *. rewrite firstn_length. lia. }
    destruct (blen (firstn (valid_prefix_len p) p) <=? N) eqn:E1; cbn [good]; [|lia].
    split; [lia|apply valid_prefix_valid].
Qed.

Theorem arbitrary_key_ok : forall u, good (fun k => blen (fst k) <= 32 /\ blen (snd k) <= 32) (arbitrary_key u).
Proof.
  intros u. unfold arbitrary_key.
  pose proof (arbitrary_bytes_ok 32 u ltac:(lia)) as H1.
  destruct (arbitrary_bytes 32 u) as [x u1| |]; cbn [abind good] in *; try exact I; try contradiction.
  pose proof (arbitrary_bytes_ok 32 u1 ltac:(lia)) as H2.
  destruct (arbitrary_bytes 32 u1) as [y u2| |]; cbn [abind good fst snd] in *; try exact I; try contradiction.
  split; assumption.
Qed.

Lemma rep_loop_len : forall {A} (f : U -> ares A) count acc u,
  good (fun l => List.length l = (List.length acc + count)%nat) (rep_loop f count acc u) \/
  exists s, rep_loop f count acc u = APanic s /\ exists u', f u' = APanic s.
Proof.
  intros A f count. induction count as [|k IH]; intros acc u; cbn [rep_loop].
  - left. cbn [good]. rewrite rev_length. lia.
  - destruct (f u) as [a u'| |s] eqn:E; cbn [abind].
    + destruct (IH (a :: acc) u') as [H|H].
      * left. destruct (rep_loop f k (a :: acc) u'); cbn [good] in *; try exact I; try contradiction.
        cbn [List.length] in H. lia.
      * right. exact H.
    + left. exact I.
    + right. exists s. split; [reflexivity|]. exists u. exact E.
Qed.

Theorem arbitrary_vec_ok : forall {A} (f : U -> ares A) N u, 0 < N < 256 ->
  (forall u', match f u' with APanic _ => False | _ => True end) ->
  good (fun l => blen l <= N) (arbitrary_vec N f u).
Proof.
  intros A f N u HN Hf. unfold arbitrary_vec.
  destruct (int_small N u) as [c u1] eqn:Ec.
  assert (Hc : 0 <= c <= N).
  { unfold int_small in Ec. destruct u as [|b r]; injection Ec as <- <-; [lia|].
    pose proof (Z.mod_pos_bound b (N + 1) ltac:(lia)). lia. }
  destruct (rep_loop_len f (Z.to_nat c) [] u1) as [H|[s [_ [u' Hp]]]].
  - destruct (rep_loop f (Z.to_nat c) [] u1) as [l u2| |]; cbn [abind good] in *; try exact I; try contradiction.
    cbn [List.length] in H.
    assert (blen l <= N) by (unfold blen; lia).
    destruct (blen l <=? N) eqn:E; cbn [good]; lia.
  - specialize (Hf u'). rewrite Hp in Hf. contradiction.
Qed.

(* ---------------------------------------------------------------- the generator programs (C19) *)
Local Open Scope string_scope.
Local Open Scope Z_scope.
Lemma good_bind {A B} (P : A -> Prop) (Q : B -> Prop) (r : ares A) (k : A -> U -> ares B) :
  good P r -> (forall a u', P a -> good Q (k a u')) -> good Q (abind r k).
Proof. destruct r as [a u'| |s]; cbn; intros H K; [apply K; exact H|exact I|destruct H]. Qed.

Definition text_ok (N : Z) (s : bytes) : Prop := blen s <= N /\ utf8_valid s = true.

Definition opt_text_ok (N : Z) (v : val) : Prop :=
  v = VNone \/ exists s, v = VSome (VStr s) /\ text_ok N s.

Lemma arb_opt_str_ok : forall N u, 0 <= N ->
  good (fun o => opt_text_ok N (vopt o)) (arb_opt_str N u).
Proof.
  intros N u HN. unfold arb_opt_str. destruct (arb_bool u) as [b u1]. destruct b.
  - apply (good_bind (text_ok N)); [apply arbitrary_str_ok; exact HN|].
    intros s u' Hs. cbn. right. exists s. split; [reflexivity|exact Hs].
  - cbn. left. reflexivity.
Qed.

(* relying-party entity: id is valid UTF-8 of at most 256 bytes, name (if any) valid UTF-8 of at most 64 *)
Theorem arb_rp_ok : forall u,
  good (fun v => exists id name icon, v = VRec [("id", VStr id); ("name", name); ("icon", icon)] /\
                 text_ok 256 id /\ opt_text_ok 64 name) (arb_rp u).
Proof.
  intros u. unfold arb_rp.
  apply (good_bind (text_ok 256)); [apply arbitrary_str_ok; lia|]. intros id u1 Hid.
  destruct (arb_bool u1) as [b u2].
  apply (good_bind (fun o => opt_text_ok 64 (vopt o))).
  - destruct b.
    + apply (good_bind (text_ok 64)); [apply arbitrary_str_ok; lia|].
      intros s u' Hs. cbn. right. exists s. split; [reflexivity|exact Hs].
    + cbn. left. reflexivity.
  - intros name u3 Hn. destruct (arb_bool u3) as [bi u4]. cbn.
    eexists; eexists; eexists. split; [reflexivity|]. split; assumption.
Qed.

(* user entity: id at most 64 bytes; icon / name / displayName absent or valid UTF-8 within 128 / 64 / 64 *)
Theorem arb_user_ok : forall u,
  good (fun v => exists id icon name dn,
          v = VRec [("id", VBytes id); ("icon", icon); ("name", name); ("display_name", dn)] /\
          blen id <= 64 /\ opt_text_ok 128 icon /\ opt_text_ok 64 name /\ opt_text_ok 64 dn) (arb_user u).
Proof.
  intros u. unfold arb_user.
  apply (good_bind (fun b => blen b <= 64)); [apply arbitrary_bytes_ok; lia|]. intros id u1 Hid.
  apply (good_bind (fun o => opt_text_ok 128 (vopt o))); [apply arb_opt_str_ok; lia|]. intros icon u2 Hi.
  apply (good_bind (fun o => opt_text_ok 64 (vopt o))); [apply arb_opt_str_ok; lia|]. intros name u3 Hn.
  apply (good_bind (fun o => opt_text_ok 64 (vopt o))); [apply arb_opt_str_ok; lia|]. intros dn u4 Hd.
  cbn. eexists; eexists; eexists; eexists. split; [reflexivity|]. repeat split; assumption.
Qed.

(* hmac-secret input: key coordinates at most 32 bytes, salt at most 80, salt authentication at most 32 *)
Theorem arb_hmac_ok : forall u,
  good (fun v => exists x y se sa pp,
          v = VRec [("key_agreement", VRec [("x", VBytes x); ("y", VBytes y)]);
                    ("salt_enc", VBytes se); ("salt_auth", VBytes sa); ("pin_protocol", pp)] /\
          blen x <= 32 /\ blen y <= 32 /\ blen se <= 80 /\ blen sa <= 32) (arb_hmac u).
Proof.
  intros u. unfold arb_hmac.
  apply (good_bind (fun k => blen (fst k) <= 32 /\ blen (snd k) <= 32)); [apply arbitrary_key_ok|]. intros k u1 [Hx Hy].
  apply (good_bind (fun b => blen b <= 80)); [apply arbitrary_bytes_ok; lia|]. intros se u2 Hse.
  apply (good_bind (fun b => blen b <= 32)); [apply arbitrary_bytes_ok; lia|]. intros sa u3 Hsa.
  destruct (arb_bool u3) as [b u4].
  destruct (if b then let '(v, u') := arb_u32 u4 in (VSome (VZ v), u') else (VNone, u4)) as [pp u5].
  cbn. do 5 eexists. split; [reflexivity|]. repeat split; assumption.
Qed.

(* ---- <&[u8]> / <&str> generators and the types built from them *)
Lemma arb_byte_size_bound : forall u len u1, bytes_ok u = true -> arb_byte_size u = (len, u1) ->
  0 <= len <= blen u1.
Proof.
  intros u len u1 Hb H. unfold arb_byte_size in H. pose proof (blen_nonneg u) as Hn.
  assert (Hnth : forall j, 0 <= nth j u 0 < 256).
  { intros j. destruct (Nat.lt_ge_cases j (List.length u)) as [Hj|Hj].
    - unfold bytes_ok in Hb. rewrite forallb_forall in Hb. specialize (Hb (nth j u 0) (nth_In u 0 Hj)).
      unfold byte_ok in Hb. lia.
    - rewrite nth_overflow by lia. lia. }
  destruct (blen u =? 0) eqn:E0; [injection H as <- <-; lia|].
  destruct (blen u =? 1) eqn:E1; [injection H as <- <-; cbn; lia|].
  destruct (blen u <=? 256) eqn:E2.
  - injection H as <- <-. unfold blen in *. rewrite firstn_length.
    specialize (Hnth (Z.to_nat (Z.of_nat (List.length u) - 1))).
    destruct (Z.of_nat (List.length u) - 1 =? 255) eqn:E3.
    + lia.
    + pose proof (Z.mod_pos_bound (nth (Z.to_nat (Z.of_nat (List.length u) - 1)) u 0) (Z.of_nat (List.length u) - 1 + 1) ltac:(lia)). lia.
  - injection H as <- <-. unfold blen in *. rewrite firstn_length.
    pose proof (Hnth (Z.to_nat (Z.of_nat (List.length u) - 2))) as H0.
    pose proof (Hnth (Z.to_nat (Z.of_nat (List.length u) - 2 + 1))) as H1.
    set (m := Z.of_nat (List.length u) - 2) in *.
    set (v := if 256 <=? m then nth (Z.to_nat m) u 0 * 256 + nth (Z.to_nat (m + 1)) u 0 else nth (Z.to_nat m) u 0).
    assert (Hv : 0 <= v < 65536) by (unfold v; destruct (256 <=? m); lia).
    destruct (m =? 65535) eqn:E3.
    + lia.
    + pose proof (Z.mod_pos_bound v (m + 1) ltac:(lia)). lia.
Qed.

Theorem arb_slice_ok : forall u, bytes_ok u = true -> good (fun _ => True) (arb_slice u).
Proof.
  intros u Hb. unfold arb_slice. destruct (arb_byte_size u) as [len u1] eqn:E.
  unfold u_bytes. destruct (blen u1 <? len); exact I.
Qed.

Theorem arb_strref_ok : forall u, bytes_ok u = true -> good (fun s => utf8_valid s = true) (arb_strref u).
Proof.
  intros u Hb. unfold arb_strref. destruct (arb_byte_size u) as [size u1] eqn:E.
  destruct (arb_byte_size_bound u size u1 Hb E) as [H0 H1].
  unfold u_peek. destruct (blen u1 <? size) eqn:En; [lia|].
  set (p := firstn (Z.to_nat size) u1).
  destruct (utf8_valid p) eqn:Ev.
  - unfold u_bytes. rewrite En. cbn. exact Ev.
  - set (k := Utf8.valid_prefix_len p).
    assert (Hk : (k <= List.length p)%nat) by apply valid_prefix_len_le.
    assert (Hp : (List.length p <= List.length u1)%nat) by (unfold p; rewrite firstn_length; lia).
    unfold u_bytes. destruct (blen u1 <? Z.of_nat k) eqn:Ek; [unfold blen in Ek; lia|].
    cbn [abind]. rewrite Nat2Z.id.
    assert (Hs : firstn k u1 = firstn k p).
    { unfold p. rewrite firstn_firstn. f_equal. unfold p in Hk. rewrite firstn_length in Hk. lia. }
    rewrite Hs. unfold k. rewrite valid_prefix_valid. cbn. apply valid_prefix_valid.
Qed.

Lemma in_skipn' {A} : forall n (l : list A) x, In x (skipn n l) -> In x l.
Proof. induction n as [|n IH]; intros [|y l] x H; cbn in *; auto. Qed.
Lemma in_firstn' {A} : forall n (l : list A) x, In x (firstn n l) -> In x l.
Proof. induction n as [|n IH]; intros [|y l] x H; cbn in *; try contradiction. destruct H as [H|H]; [left; exact H|right; apply IH; exact H]. Qed.

Theorem arb_descref_ok : forall u, bytes_ok u = true ->
  good (fun v => exists id kt, v = VRec [("id", VBytes id); ("key_type", VStr kt)] /\ utf8_valid kt = true) (arb_descref u).
Proof.
  intros u Hb. unfold arb_descref. unfold arb_slice. destruct (arb_byte_size u) as [len u1] eqn:E.
  unfold u_bytes. destruct (blen u1 <? len); [exact I|]. cbn [abind].
  assert (Hb1 : bytes_ok (skipn (Z.to_nat len) u1) = true).
  { unfold arb_byte_size in E. unfold bytes_ok in *. apply forallb_forall. intros x Hx.
    rewrite forallb_forall in Hb. apply Hb.
    assert (Hin : In x u1) by (eapply in_skipn'; exact Hx).
    repeat match type of E with (if ?c then _ else _) = _ => destruct c end; injection E as _ <-;
      try exact Hin; try (destruct Hin); eapply in_firstn'; exact Hin. }
  apply (good_bind (fun s => utf8_valid s = true)); [apply arb_strref_ok; exact Hb1|].
  intros kt u2 Hk. cbn. eexists; eexists. split; [reflexivity|exact Hk].
Qed.
