(* Totality of the typed decoder (C04): for every declaration environment whose reachable types are
   decodable, [dec] terminates within its fuel, never reaches a Panic site, and every successful
   read consumes at least one byte of its input -- for EVERY input byte string. *)
From Ctap Require Import Base Schema Wire Utf8 Typed WellTyped Procs WireP Utf8P StrsP Finite C11P.
From Coq Require Import Lia ZifyBool.
Local Open Scope string_scope.
Local Open Scope Z_scope.

(* result is Ok/Err (never Panic, never Fuel) and, when Ok, the remaining input is shorter than n
   (strict) or at most n *)
Definition okl {A} (strict : bool) (n : nat) (x : res (A * bytes)) : Prop :=
  match x with
  | Ok (_, r) => if strict then (List.length r < n)%nat else (List.length r <= n)%nat
  | Err _ => True
  | _ => False
  end.

Lemma okl_clean {A} s n (x : res (A * bytes)) : okl s n x -> clean x.
Proof. destruct x as [[a r]| | |]; cbn; auto. Qed.

Lemma okl_weaken {A} s n m (x : res (A * bytes)) : okl s n x -> (n <= m)%nat -> okl false m x.
Proof. destruct x as [[a r]| | |]; cbn; auto. destruct s; lia. Qed.

Lemma okl_mono {A} s n m (x : res (A * bytes)) : okl s n x -> (n <= m)%nat -> okl s m x.
Proof. destruct x as [[a r]| | |]; cbn; auto. destruct s; lia. Qed.

Lemma okl_bind {A B} s n (x : res (A * bytes)) (k : A * bytes -> res (B * bytes)) :
  okl s n x -> (forall v r, x = Ok (v, r) -> okl false (List.length r) (k (v, r))) -> okl s n (bind x k).
Proof.
  destruct x as [[a r]| | |]; cbn; auto. intros H K. specialize (K a r eq_refl).
  destruct (k (a, r)) as [[b r']| | |]; cbn in *; auto. destruct s; lia.
Qed.

Lemma okl_bind_late {A B} n (x : res (A * bytes)) (k : A * bytes -> res (B * bytes)) :
  okl false n x -> (forall v r, x = Ok (v, r) -> okl true (List.length r) (k (v, r))) -> okl true n (bind x k).
Proof.
  destruct x as [[a r]| | |]; cbn; auto. intros H K. specialize (K a r eq_refl).
  destruct (k (a, r)) as [[b r']| | |]; cbn in *; auto. lia.
Qed.

Lemma okl_of {A} n (x : res (A * bytes)) :
  clean x -> (forall v r, x = Ok (v, r) -> (List.length r < n)%nat) -> okl true n x.
Proof. destruct x as [[a r]| | |]; cbn; auto. intros _ H. apply (H a r eq_refl). Qed.

(* ---------------------------------------------------------------- wire primitives *)
Lemma okl_take : forall n i, okl false (List.length i) (take n i).
Proof.
  intros n i. pose proof (take_clean n i) as C. destruct (take n i) as [[a r]| | |] eqn:E; cbn; auto.
  apply take_len in E. exact E.
Qed.

Lemma okl_expect_major : forall m i, okl true (List.length i) (expect_major m i).
Proof.
  intros m [|b i]; cbn; [exact I|]. destruct (b / 32 =? m); cbn; [lia|exact I].
Qed.

Ltac okl_step :=
  match goal with
  | |- okl _ _ (Ok (_, _)) => cbn; lia
  | |- okl _ _ (Err _) => exact I
  | |- okl _ _ (if ?c then _ else _) => destruct c
  | |- okl _ _ (bind (take _ _) _) =>
      apply okl_bind; [apply okl_take|intros ? ? _; cbv beta iota]
  | |- okl _ _ (match ?p with (_, _) => _ end) => destruct p
  end.

Lemma okl_raw_u32 : forall m i, okl true (List.length i) (raw_u32 m i).
Proof. intros m i. apply okl_of; [apply raw_u32_clean|intros v r; apply raw_u32_len]. Qed.

Lemma okl_head_then {A} : forall m i (k : Z * bytes -> res (A * bytes)),
  (forall a r, okl false (List.length r) (k (a, r))) -> okl true (List.length i) (bind (expect_major m i) k).
Proof.
  intros m i k H. apply okl_bind; [apply okl_expect_major|]. intros a r _. apply H.
Qed.

Lemma okl_raw_u8 : forall m i, okl true (List.length i) (raw_u8 m i).
Proof.
  intros m i. unfold raw_u8. apply okl_head_then. intros a r. cbv beta iota.
  repeat okl_step.
Qed.

Lemma okl_raw_u64 : forall m i, okl true (List.length i) (raw_u64 m i).
Proof.
  intros m i. unfold raw_u64. apply okl_head_then. intros a r. cbv beta iota.
  repeat okl_step.
Qed.

Lemma okl_raw_u16 : forall m i, okl true (List.length i) (raw_u16 m i).
Proof.
  intros m i. unfold raw_u16. apply okl_bind; [apply okl_raw_u32|]. intros v r _. cbv beta iota.
  repeat okl_step.
Qed.

Lemma okl_skip_item : forall i, okl true (List.length i) (r <- skip_item i ;; Ok (tt, r)).
Proof.
  intros i. pose proof (skip_item_total i) as C. unfold skip_item in *.
  remember (skip_fuel i) as f eqn:Ef. clear Ef.
  destruct (skip f i) as [r| | |] eqn:E; cbn [bind okl clean] in *; auto.
  apply (proj1 (skip_len f)) in E. exact E.
Qed.

(* ---------------------------------------------------------------- scalar decoders *)
Lemma okl_dec_bool : forall i, okl true (List.length i) (dec_bool i).
Proof.
  intros i. unfold dec_bool, take. destruct i as [|b i]; [cbn; exact I|].
  replace (blen (b :: i) <? 1) with false by (unfold blen; cbn [List.length]; lia).
  change (Z.to_nat 1) with 1%nat. cbn [firstn skipn bind].
  destruct b as [|p|p]; try exact I.
  repeat (destruct p as [p|p|]; try exact I); cbn [okl List.length]; lia.
Qed.

Lemma okl_dec_unit : forall i, okl true (List.length i) (dec_unit i).
Proof.
  intros [|b i]; cbn [dec_unit okl]; [exact I|]. destruct b as [|p|p]; try exact I.
  repeat (destruct p as [p|p|]; try exact I); cbn [okl List.length]; lia.
Qed.

Lemma okl_dec_i8 : forall i, okl true (List.length i) (dec_i8 i).
Proof.
  intros i. unfold dec_i8. destruct i as [|b i]; [cbn; exact I|]. cbn [peek_major bind].
  destruct (b / 32 =? 0).
  - apply okl_bind; [apply okl_raw_u8|]. intros v r _. cbv beta iota. repeat okl_step.
  - destruct (b / 32 =? 1); [|exact I].
    apply okl_bind; [apply okl_raw_u8|]. intros v r _. cbv beta iota. repeat okl_step.
Qed.

Lemma okl_dec_i32 : forall i, okl true (List.length i) (dec_i32 i).
Proof.
  intros i. unfold dec_i32. destruct i as [|b i]; [cbn; exact I|]. cbn [peek_major bind].
  destruct (b / 32 <=? 1); [|exact I].
  apply okl_bind; [apply okl_raw_u32|]. intros v r _. cbv beta iota. repeat okl_step.
Qed.

Lemma okl_dec_bytes_raw : forall i, okl true (List.length i) (dec_bytes_raw i).
Proof.
  intros i. unfold dec_bytes_raw. destruct i as [|b i]; [cbn; exact I|]. cbn [peek_major bind].
  destruct (b / 32 =? 4).
  - apply okl_bind; [apply okl_raw_u32|]. intros v r _. exact I.
  - destruct (b / 32 =? 2); [|exact I].
    apply okl_bind; [apply okl_raw_u32|]. intros v r _. cbv beta iota. apply okl_take.
Qed.

Lemma okl_dec_str_raw : forall i, okl true (List.length i) (dec_str_raw i).
Proof.
  intros i. unfold dec_str_raw. apply okl_bind; [apply okl_raw_u32|]. intros n r _. cbv beta iota.
  apply okl_bind; [apply okl_take|]. intros s r' _. cbv beta iota. repeat okl_step.
Qed.

Lemma dec_str_raw_valid : forall i s r, dec_str_raw i = Ok (s, r) -> utf8_valid s = true.
Proof.
  intros i s r H. unfold dec_str_raw in H.
  destruct (raw_u32 3 i) as [[n r0]| | |]; cbn [bind] in H; try discriminate.
  destruct (take n r0) as [[s0 r1]| | |]; cbn [bind] in H; try discriminate.
  destruct (utf8_valid s0) eqn:E; [|discriminate]. injection H as <- <-. exact E.
Qed.

Lemma okl_dec_bytes_cap : forall n i, okl true (List.length i) (dec_bytes_cap n i).
Proof.
  intros n i. unfold dec_bytes_cap. apply okl_bind; [apply okl_dec_bytes_raw|]. intros b r _.
  cbv beta iota. repeat okl_step.
Qed.

(* ---------------------------------------------------------------- cosey *)
Lemma okl_cose_next_key : forall len i,
  match cose_next_key len i with
  | Ok (_, _, r) => (List.length r <= List.length i)%nat
  | Err _ => True
  | _ => False
  end.
Proof.
  intros len i. unfold cose_next_key. destruct (len <=? 0); [lia|].
  pose proof (okl_dec_i8 i) as H. unfold dec_i8 in *.
  destruct i as [|b i]; [cbn; exact I|]. cbn [peek_major bind] in *.
  destruct (b / 32 =? 0).
  - destruct (raw_u8 0 (b :: i)) as [[v r]| | |]; cbn [bind] in *; auto.
    destruct (v <=? 127); cbn [bind] in *; auto. cbn [okl List.length] in *. lia.
  - destruct (b / 32 =? 1); [|exact I].
    destruct (raw_u8 1 (b :: i)) as [[v r]| | |]; cbn [bind] in *; auto.
    destruct (v <=? 128); cbn [bind] in *; auto. cbn [okl List.length] in *. lia.
Qed.

Lemma okl_dec_repr_i8 : forall allowed i, okl true (List.length i) (dec_repr_i8 allowed i).
Proof.
  intros allowed i. unfold dec_repr_i8. pose proof (okl_dec_i8 i) as H. unfold dec_i8 in *.
  destruct i as [|b i]; [cbn; exact I|]. cbn [peek_major bind] in *.
  destruct (b / 32 =? 0).
  - destruct (raw_u8 0 (b :: i)) as [[v r]| | |]; cbn [bind] in *; auto.
    destruct (v <=? 127); cbn [bind] in *; auto. destruct (zmem v allowed); cbn in *; auto.
  - destruct (b / 32 =? 1); [|exact I].
    destruct (raw_u8 1 (b :: i)) as [[v r]| | |]; cbn [bind] in *; auto.
    destruct (v <=? 128); cbn [bind] in *; auto.
    destruct (zmem (if v =? 128 then 127 else -1 - v) allowed); cbn in *; auto.
Qed.

(* one optional member step of RawPublicKey::deserialize *)
Definition cose_step {A} (cond : bool) (decv : bytes -> res (A * bytes)) (k : ckey) (len : Z) (r : bytes)
  : res (option A * ckey * Z * bytes) :=
  if cond then
    '(v, r) <- decv r ;;
    '(k', len', r) <- cose_next_key len r ;; Ok (Some v, k', len', r)
  else Ok (None, k, len, r).

Definition okl4 {A} (n : nat) (x : res (A * bytes)) : Prop := okl false n x.

Lemma cose_step_ok {A} : forall cond (decv : bytes -> res (A * bytes)) k len r,
  (forall i, okl true (List.length i) (decv i)) ->
  okl false (List.length r) (cose_step cond decv k len r).
Proof.
  intros cond decv k len r H. unfold cose_step. destruct cond; [|cbn; lia].
  specialize (H r). destruct (decv r) as [[v r1]| | |]; cbn [bind] in *; auto.
  pose proof (okl_cose_next_key len r1) as N.
  destruct (cose_next_key len r1) as [[[k' len'] r2]| | |]; cbn [bind] in *; auto.
  cbn in *. lia.
Qed.

Lemma okl_dec_rawkey : forall i, okl true (List.length i) (dec_rawkey i).
Proof.
  intros i. unfold dec_rawkey.
  apply okl_bind; [apply okl_raw_u32|]. intros len r0 _. cbv beta iota.
  pose proof (okl_cose_next_key len r0) as N.
  destruct (cose_next_key len r0) as [[[k0 len0] r1]| | |]; cbn [bind]; auto.
  apply (@okl_weaken _ false (List.length r1)); [|exact N].
  change (if is_label k0 1 then _ else _) with (cose_step (is_label k0 1) (dec_repr_i8 [1; 2; 4]) k0 len0 r1).
  pose proof (cose_step_ok (is_label k0 1) (dec_repr_i8 [1; 2; 4]) k0 len0 r1 (okl_dec_repr_i8 _)) as S1.
  destruct (cose_step (is_label k0 1) (dec_repr_i8 [1; 2; 4]) k0 len0 r1) as [[[[kty k1] len1] r2]| | |]; cbn [bind]; auto.
  apply (@okl_weaken _ false (List.length r2)); [|exact S1].
  change (if is_label k1 3 then _ else _) with (cose_step (is_label k1 3) (dec_repr_i8 [-7; -8; -9; -25]) k1 len1 r2).
  pose proof (cose_step_ok (is_label k1 3) (dec_repr_i8 [-7; -8; -9; -25]) k1 len1 r2 (okl_dec_repr_i8 _)) as S2.
  destruct (cose_step (is_label k1 3) (dec_repr_i8 [-7; -8; -9; -25]) k1 len1 r2) as [[[[alg k2] len2] r3]| | |]; cbn [bind]; auto.
  apply (@okl_weaken _ false (List.length r3)); [|exact S2].
  change (if is_label k2 (-1) then _ else _) with (cose_step (is_label k2 (-1)) (dec_repr_i8 [0; 1; 4; 6]) k2 len2 r3).
  pose proof (cose_step_ok (is_label k2 (-1)) (dec_repr_i8 [0; 1; 4; 6]) k2 len2 r3 (okl_dec_repr_i8 _)) as S3.
  destruct (cose_step (is_label k2 (-1)) (dec_repr_i8 [0; 1; 4; 6]) k2 len2 r3) as [[[[crv k3] len3] r4]| | |]; cbn [bind]; auto.
  apply (@okl_weaken _ false (List.length r4)); [|exact S3].
  change (if is_label k3 (-2) then _ else _) with (cose_step (is_label k3 (-2)) (dec_bytes_cap 32) k3 len3 r4).
  pose proof (cose_step_ok (is_label k3 (-2)) (dec_bytes_cap 32) k3 len3 r4 (okl_dec_bytes_cap _)) as S4.
  destruct (cose_step (is_label k3 (-2)) (dec_bytes_cap 32) k3 len3 r4) as [[[[x k4] len4] r5]| | |]; cbn [bind]; auto.
  apply (@okl_weaken _ false (List.length r5)); [|exact S4].
  change (if is_label k4 (-3) then _ else _) with (cose_step (is_label k4 (-3)) (dec_bytes_cap 32) k4 len4 r5).
  pose proof (cose_step_ok (is_label k4 (-3)) (dec_bytes_cap 32) k4 len4 r5 (okl_dec_bytes_cap _)) as S5.
  destruct (cose_step (is_label k4 (-3)) (dec_bytes_cap 32) k4 len4 r5) as [[[[y k5] len5] r6]| | |]; cbn [bind]; auto.
  destruct k5; cbn [okl] in *; auto.
Qed.

Lemma okl_dec_cose_ecdh : forall i, okl true (List.length i) (dec_cose_ecdh i).
Proof.
  intros i. unfold dec_cose_ecdh. apply okl_bind; [apply okl_dec_rawkey|]. intros k r _. cbv beta iota.
  destruct (rk_kty k); [|exact I].
  repeat match goal with
         | |- okl _ _ (if ?c then _ else _) => destruct c; try exact I
         | |- okl _ _ (match ?o with Some _ => _ | None => _ end) => destruct o; try exact I
         end.
  cbn. lia.
Qed.

(* ---------------------------------------------------------------- element loops *)
Section Loops.
  Variable decf : bytes -> res (val * bytes).
  Hypothesis Hd : forall i, okl true (List.length i) (decf i).

  Lemma okl_seq_loop : forall fuel n cap acc i, (List.length i < fuel)%nat ->
    okl false (List.length i) (seq_loop decf fuel n cap acc i).
  Proof.
    induction fuel as [|k IH]; intros n cap acc i Hf; [lia|].
    cbn [seq_loop]. destruct (n <=? 0); [cbn; lia|].
    specialize (Hd i). destruct (decf i) as [[v r]| | |]; cbn [bind] in *; auto.
    destruct (blen acc <? cap); [|exact I].
    cbn in Hd. eapply okl_weaken; [apply IH; lia|lia].
  Qed.

  Lemma okl_fold_loop {St} : forall (step : St -> val -> St) fuel n acc i, (List.length i < fuel)%nat ->
    okl false (List.length i) (fold_loop decf step fuel n acc i).
  Proof.
    intros step. induction fuel as [|k IH]; intros n acc i Hf; [lia|].
    cbn [fold_loop]. destruct (n <=? 0); [cbn; lia|].
    specialize (Hd i). destruct (decf i) as [[v r]| | |]; cbn [bind] in *; auto.
    cbn in Hd. eapply okl_weaken; [apply IH; lia|lia].
  Qed.
End Loops.

Lemma find_idx_field_in : forall k fs fd, find_idx_field k fs = Some fd -> In fd fs.
Proof.
  intros k fs. induction fs as [|x fs IH]; intros fd H; [discriminate|]. cbn [find_idx_field] in H.
  destruct (f_key x) as [z|s].
  - destruct (z =? k); [injection H as <-; left; reflexivity|right; apply IH; exact H].
  - right. apply IH. exact H.
Qed.

Lemma find_txt_field_in : forall name fs fd, find_txt_field name fs = Some fd -> In fd fs.
Proof.
  intros name fs. induction fs as [|x fs IH]; intros fd H; [discriminate|]. cbn [find_txt_field] in H.
  destruct (field_names_match name x); [injection H as <-; left; reflexivity|right; apply IH; exact H].
Qed.

Definition idx_member_ty (fd : field) : ty := if f_opt fd then inner_ty (f_ty fd) else f_ty fd.

Lemma okl_idx_loop : forall (decf : ty -> bytes -> res (val * bytes)) fs,
  (forall fd, In fd fs -> forall i, okl true (List.length i) (decf (idx_member_ty fd) i)) ->
  forall fuel n acc i, (List.length i < fuel)%nat ->
  okl false (List.length i) (idx_loop decf fs fuel n acc i).
Proof.
  intros decf fs Hd. induction fuel as [|k IH]; intros n acc i Hf; [lia|].
  cbn [idx_loop]. destruct (n <=? 0); [cbn; lia|].
  pose proof (okl_raw_u64 0 i) as K. destruct (raw_u64 0 i) as [[key r]| | |]; cbn [bind] in *; auto.
  destruct (find_idx_field key fs) as [fd|] eqn:F; [|exact I].
  destruct (rget (f_label fd) acc); [exact I|].
  apply find_idx_field_in in F. specialize (Hd fd F r). unfold idx_member_ty in Hd.
  destruct (decf (if f_opt fd then inner_ty (f_ty fd) else f_ty fd) r) as [[v r']| | |]; cbn [bind] in *; auto.
  cbn in K, Hd. eapply okl_weaken; [apply IH; lia|lia].
Qed.

Lemma idx_finish_clean : forall fs acc, match idx_finish fs acc with Ok _ | Err _ => True | _ => False end.
Proof.
  induction fs as [|fd fs IH]; intros acc; cbn [idx_finish]; [exact I|].
  specialize (IH acc).
  destruct (rget (f_label fd) acc).
  - destruct (idx_finish fs acc); cbn [bind] in *; auto.
  - destruct (f_opt fd); [|exact I]. destruct (idx_finish fs acc); cbn [bind] in *; auto.
Qed.

Lemma txt_finish_clean : forall fs acc, match txt_finish fs acc with Ok _ | Err _ => True | _ => False end.
Proof.
  induction fs as [|fd fs IH]; intros acc; cbn [txt_finish]; [exact I|].
  specialize (IH acc).
  destruct (rget (f_label fd) acc).
  - destruct (txt_finish fs acc); cbn [bind] in *; auto.
  - destruct (f_opt fd); [|exact I]. destruct (txt_finish fs acc); cbn [bind] in *; auto.
Qed.

(* ---------------------------------------------------------------- decodable types *)

Definition with_ok (decodable : ty -> bool) (fd : field) : bool :=
  match f_with fd with
  | None => decodable (f_ty fd)
  | Some w =>
      if String.eqb w w_trunc then decodable (TOpt TStrRef) && (0 <=? str_cap (f_ty fd))
      else if String.eqb w w_skip then decodable TStrRef
      else false
  end.

Fixpoint decodable (e : env) (fuel : nat) (t : ty) {struct fuel} : bool :=
  match fuel with
  | O => false
  | S k =>
      match t with
      | TU8 | TU16 | TU32 | TU64 | TUsize | TI8 | TI32 | TBool | TUnit | TBytesRef | TBytesCap _
      | TByteArrRef _ | TStrRef | TStrCap _ => true
      | TVec u _ => decodable e k u
      | TOpt u => decodable e k u
      | TNamed name =>
          match lookup e name with
          | Some (DStruct true _ _ fs) => forallb (fun fd => decodable e k (idx_member_ty fd)) fs
          | Some (DStruct false _ _ fs) => forallb (with_ok (decodable e k)) fs
          | Some (DStrEnum _ _ _ _) => true
          | Some (DRepr repr _ _ _) => String.eqb repr "u8"
          | Some (DCustom kind _ _ _) =>
              if String.eqb kind "webauthn::Icon" then true
              else if String.eqb kind "webauthn::FilteredPublicKeyCredentialParameters" then decodable e k (TNamed n_PKCP)
              else if String.eqb kind "ctap2::AttestationFormatsPreference" then decodable e k TStrRef
              else if String.eqb kind "ext::EcdhEsHkdf256PublicKey" then true
              else false
          | _ => false
          end
      | _ => false
      end
  end.

Definition tot (e : env) (k : nat) (t : ty) : Prop := forall i, okl true (List.length i) (dec e k t i).

Lemma decodable_opt_str : forall e k, decodable e k (TOpt TStrRef) = true -> exists k', k = S (S k').
Proof.
  intros e [|[|k']] H; cbn in H; try discriminate. exists k'. reflexivity.
Qed.

Lemma decodable_str : forall e k, decodable e k TStrRef = true -> exists k', k = S k'.
Proof. intros e [|k'] H; cbn in H; try discriminate. exists k'. reflexivity. Qed.

(* deserialize_with members: the str::floor_char_boundary / unwrap_unchecked / push_str().unwrap() sites
   of webauthn.rs are unreachable because the text has been validated before it is truncated *)
Lemma okl_dec_with : forall e k fd,
  with_ok (decodable e k) fd = true ->
  (forall t, decodable e k t = true -> tot e k t) ->
  forall i, okl true (List.length i) (dec_with (dec e k) fd i).
Proof.
  intros e k fd W IH i. unfold dec_with, with_ok in *.
  destruct (f_with fd) as [w|]; [|apply IH; exact W].
  fold w_trunc. fold w_skip.
  destruct (String.eqb w w_trunc).
  - apply andb_prop in W. destruct W as [W1 W2].
    destruct (decodable_opt_str e k W1) as [k' ->]. cbn [dec].
    destruct i as [|b i]; [exact I|].
    assert (G : okl true (List.length (b :: i))
      ('(v, r) <- ('(v0, r0) <- ('(s, r1) <- dec_str_raw (b :: i) ;; Ok (VStr s, r1)) ;; Ok (VSome v0, r0)) ;;
       match v with
       | VSome (VStr s) => t <- truncate (str_cap (f_ty fd)) s ;; Ok (VSome (VStr t), r)
       | _ => Ok (VNone, r)
       end)).
    { pose proof (okl_dec_str_raw (b :: i)) as S.
      destruct (dec_str_raw (b :: i)) as [[s r1]| | |] eqn:E; cbn [bind] in *; auto.
      apply dec_str_raw_valid in E. apply utf8_valid_iff in E.
      destruct (truncate_spec s E (str_cap (f_ty fd)) ltac:(lia)) as [n [T _]].
      rewrite T. cbn [bind]. exact S. }
    destruct b as [|p|p]; try exact G.
    (* the byte 246 is null -> None *)
    destruct (Pos.eq_dec p 246) as [->|Hp].
    + cbn. lia.
    + assert (Hm : forall (X Y : res (val * bytes)), okl true (List.length (Z.pos p :: i)) Y ->
                (match Z.pos p with 246 => X | _ => Y end = Y)).
      { intros X Y _. destruct p as [p|p|]; try reflexivity;
          repeat (destruct p as [p|p|]; try reflexivity). congruence. }
      match goal with |- okl _ _ (bind ?d _) =>
        match d with
        | match _ with _ => _ end =>
          replace d with ('(v0, r0) <- ('(s, r1) <- dec_str_raw (Z.pos p :: i) ;; Ok (VStr s, r1)) ;; Ok (VSome v0, r0))
        end
      end; [exact G|].
      destruct p as [p|p|]; try reflexivity; repeat (destruct p as [p|p|]; try reflexivity). congruence.
  - destruct (String.eqb w w_skip); [|discriminate].
    destruct (decodable_str e k W) as [k' ->]. cbn [dec].
    pose proof (okl_dec_str_raw i) as S.
    destruct (dec_str_raw i) as [[s r1]| | |]; cbn [bind] in *; auto.
    destruct (blen s <=? str_cap (f_ty fd)); [exact S|]. unfold skip_long_panics. exact S.
Qed.

Lemma nth_error_in' {A} : forall (l : list A) n x, nth_error l n = Some x -> In x l.
Proof. intros l n x H. eapply nth_error_In. exact H. Qed.

Lemma okl_txt_loop : forall e k fs,
  forallb (with_ok (decodable e k)) fs = true ->
  (forall t, decodable e k t = true -> tot e k t) ->
  forall fuel n acc i, (List.length i < fuel)%nat ->
  okl false (List.length i) (txt_loop (dec e k) fs fuel n acc i).
Proof.
  intros e k fs W IHt. rewrite forallb_forall in W.
  induction fuel as [|f IH]; intros n acc i Hf; [lia|].
  cbn [txt_loop]. destruct (n <=? 0); [cbn; lia|].
  destruct i as [|b i]; [exact I|]. cbn [peek_major bind].
  (* the key *)
  assert (K : okl true (List.length (b :: i))
     (if (b / 32 =? 2) || (b / 32 =? 3)
      then '(len, r) <- raw_u32 (b / 32) (b :: i);;
           '(name, r') <- take len r;;
           (if utf8_valid name then Ok (find_txt_field name fs, r') else Err BadUtf8)
      else if b / 32 =? 0
           then '(ix, r) <- raw_u64 0 (b :: i);;
                Ok (if ix <? blen fs then nth_error fs (Z.to_nat ix) else None, r)
           else Err BadMajor)).
  { destruct ((b / 32 =? 2) || (b / 32 =? 3)).
    - apply okl_bind; [apply okl_raw_u32|]. intros len r _. cbv beta iota.
      apply okl_bind; [apply okl_take|]. intros name r' _. cbv beta iota. repeat okl_step.
    - destruct (b / 32 =? 0); [|exact I].
      apply okl_bind; [apply okl_raw_u64|]. intros ix r _. cbv beta iota. cbn. lia. }
  match type of K with okl _ _ ?x => destruct x as [[fo r]| | |] eqn:EK end; cbn [bind] in *; auto.
  assert (Hfo : forall fd, fo = Some fd -> In fd fs).
  { intros fd ->. clear K.
    destruct ((b / 32 =? 2) || (b / 32 =? 3)).
    - destruct (raw_u32 (b / 32) (b :: i)) as [[len r0]| | |]; cbn [bind] in EK; try discriminate.
      destruct (take len r0) as [[name r1]| | |]; cbn [bind] in EK; try discriminate.
      destruct (utf8_valid name); [|discriminate]. injection EK as E1 _. apply find_txt_field_in in E1. exact E1.
    - destruct (b / 32 =? 0); [|discriminate].
      destruct (raw_u64 0 (b :: i)) as [[ix r0]| | |]; cbn [bind] in EK; try discriminate.
      injection EK as E1 _. destruct (ix <? blen fs); [|discriminate]. apply nth_error_in' in E1. exact E1. }
  destruct fo as [fd|].
  - destruct (rget (f_label fd) acc); [exact I|].
    pose proof (okl_dec_with e k fd (W fd (Hfo fd eq_refl)) IHt r) as D.
    destruct (dec_with (dec e k) fd r) as [[v r']| | |]; cbn [bind] in *; auto.
    cbn in K, D. eapply okl_weaken; [apply IH; cbn [List.length] in *; lia|cbn [List.length] in *; lia].
  - pose proof (okl_skip_item r) as S.
    destruct (skip_item r) as [r'| | |]; cbn [bind] in *; auto.
    cbn in K, S. eapply okl_weaken; [apply IH; cbn [List.length] in *; lia|cbn [List.length] in *; lia].
Qed.

(* ---------------------------------------------------------------- the theorem *)
Theorem dec_total : forall e k t, decodable e k t = true -> tot e k t.
Proof.
  intros e. induction k as [|k IH]; intros t D; [discriminate|].
  intros i. cbn [decodable] in D. cbn [dec].
  destruct t; try discriminate.
  - apply okl_bind; [apply okl_raw_u8|]. intros v r _. cbn. lia.
  - apply okl_bind; [apply okl_raw_u16|]. intros v r _. cbn. lia.
  - apply okl_bind; [apply okl_raw_u32|]. intros v r _. cbn. lia.
  - apply okl_bind; [apply okl_raw_u64|]. intros v r _. cbn. lia.
  - apply okl_bind; [apply okl_raw_u64|]. intros v r _. cbn. lia.
  - apply okl_dec_i8.
  - apply okl_dec_i32.
  - apply okl_dec_bool.
  - apply okl_dec_unit.
  - apply okl_bind; [apply okl_dec_bytes_raw|]. intros v r _. cbn. lia.
  - apply okl_bind; [apply okl_dec_bytes_cap|]. intros v r _. cbn. lia.
  - apply okl_bind; [apply okl_dec_bytes_raw|]. intros v r _. cbv beta iota. repeat okl_step.
  - apply okl_bind; [apply okl_dec_str_raw|]. intros v r _. cbn. lia.
  - apply okl_bind; [apply okl_dec_str_raw|]. intros v r _. cbv beta iota. repeat okl_step.
  - (* Vec *)
    apply okl_bind; [apply okl_raw_u32|]. intros n0 r _. cbv beta iota.
    apply okl_bind; [apply okl_seq_loop; [apply IH; exact D|lia]|]. intros l r' _. cbn. lia.
  - (* Option *)
    destruct i as [|b i]; [exact I|].
    assert (G : okl true (List.length (b :: i)) ('(v, r) <- dec e k t (b :: i) ;; Ok (VSome v, r))).
    { apply okl_bind; [apply IH; exact D|]. intros v r _. cbn. lia. }
    destruct b as [|p|p]; try exact G.
    repeat (destruct p as [p|p|]; try exact G). cbn. lia.
  - (* named *)
    destruct (lookup e s) as [d|]; [|discriminate].
    destruct d as [ix sr de fs|sr de into tf|repr sr de vs|sr vs|kind sr de params|]; try discriminate.
    + destruct ix.
      * apply okl_bind; [apply okl_raw_u32|]. intros n0 r _. cbv beta iota.
        rewrite forallb_forall in D.
        apply okl_bind; [apply okl_idx_loop; [intros fd Hfd; apply IH; apply D; exact Hfd|lia]|].
        intros acc r' _. cbv beta iota.
        pose proof (idx_finish_clean fs acc) as C. destruct (idx_finish fs acc); cbn [bind] in *; auto. cbn. lia.
      * apply okl_bind; [apply okl_raw_u32|]. intros n0 r _. cbv beta iota.
        apply okl_bind; [apply okl_txt_loop; [exact D|exact IH|lia]|].
        intros acc r' _. cbv beta iota.
        pose proof (txt_finish_clean fs acc) as C. destruct (txt_finish fs acc); cbn [bind] in *; auto. cbn. lia.
    + apply okl_bind; [apply okl_dec_str_raw|]. intros v r _. cbv beta iota.
      destruct (lookup_tryfrom v tf); [cbn; lia|exact I].
    + rewrite D. apply okl_bind; [apply okl_raw_u8|]. intros v r _. cbv beta iota.
      destruct (variant_of_discr v vs); [cbn; lia|exact I].
    + destruct (String.eqb kind "webauthn::Icon").
      { apply okl_bind; [apply okl_dec_str_raw|]. intros v r _. cbn. lia. }
      destruct (String.eqb kind "webauthn::FilteredPublicKeyCredentialParameters").
      { apply okl_bind; [apply okl_raw_u32|]. intros n0 r _. cbv beta iota.
        apply okl_bind; [apply okl_fold_loop; [apply IH; exact D|lia]|]. intros acc r' _. cbn. lia. }
      destruct (String.eqb kind "ctap2::AttestationFormatsPreference").
      { apply okl_bind; [apply okl_raw_u32|]. intros n0 r _. cbv beta iota.
        apply okl_bind; [apply okl_fold_loop; [apply IH; exact D|lia]|]. intros acc r' _. cbn. lia. }
      destruct (String.eqb kind "ext::EcdhEsHkdf256PublicKey"); [|discriminate].
      apply okl_dec_cose_ecdh.
Qed.

(* read-outs *)
Corollary dec_never_panics : forall e k t i site, decodable e k t = true -> dec e k t i <> Panic site.
Proof. intros e k t i site D H. pose proof (dec_total e k t D i) as T. rewrite H in T. exact T. Qed.

Corollary dec_terminates : forall e k t i, decodable e k t = true -> dec e k t i <> Fuel.
Proof. intros e k t i D H. pose proof (dec_total e k t D i) as T. rewrite H in T. exact T. Qed.

Corollary dec_consumes : forall e k t i v r, decodable e k t = true -> dec e k t i = Ok (v, r) ->
  (List.length r < List.length i)%nat.
Proof. intros e k t i v r D H. pose proof (dec_total e k t D i) as T. rewrite H in T. exact T. Qed.

(* ---------------------------------------------------------------- whole requests *)
Lemma decode_clean_of_decodable : forall e t d, decodable e type_fuel t = true -> clean (decode e t d).
Proof. intros e t d H. unfold decode. eapply okl_clean. apply (dec_total e type_fuel t H d). Qed.

(* the parameter type selected by command byte b (if any) is decodable within the model's fuel *)
Definition route_ok (e : env) (b : Z) : bool :=
  match spec_route b with RtDecode _ t => decodable e type_fuel t | _ => true end.

Lemma route_ok_decodable : forall e b v t, route_ok e b = true -> spec_route b = RtDecode v t ->
  decodable e type_fuel t = true.
Proof. intros e b v t H R. unfold route_ok in H. rewrite R in H. exact H. Qed.

(* every request type a command byte routes to is decoded without panic or fuel exhaustion, in every feature set of a
   family of environments whose routes are decodable (a reflexive obligation, discharged for the specification and for the
   regenerated declarations) *)
Lemma routes_clean : forall (envs : feats -> env),
  forallb (fun f => forallb (route_ok (envs f)) bytes256) all_feats = true ->
  forall f b v t d, In f all_feats -> 0 <= b < 256 -> spec_route b = RtDecode v t -> clean (decode (envs f) t d).
Proof.
  intros envs H f b v t d Hf Hb R.
  pose proof (proj1 (forallb_forall (fun f => forallb (route_ok (envs f)) bytes256) all_feats) H f Hf) as D.
  cbv beta in D.
  apply decode_clean_of_decodable. apply (route_ok_decodable (envs f) b v t); [|exact R].
  exact (forall_bytes (route_ok (envs f)) D b Hb).
Qed.
