(* UTF-8 lemmas: structure of one well-formed sequence, validity of prefixes cut at sequence ends. *)
From Ctap Require Import Base Utf8 WireP.
From Coq Require Import Lia.
Local Open Scope Z_scope.

Ltac split_ifs :=
  repeat match goal with
         | |- context [if ?c then _ else _] => destruct c eqn:?
         | H : context [if ?c then _ else _] |- _ => destruct c eqn:?
         end.

Lemma utf8_first_bound : forall l, (utf8_first l <= 4)%nat /\ (utf8_first l <= List.length l)%nat.
Proof.
  intros l. destruct l as [|b0 [|b1 [|b2 [|b3 l]]]]; cbn [utf8_first List.length]; split_ifs; lia.
Qed.

(* the first sequence only depends on its own bytes *)
Lemma utf8_first_app : forall l n r, utf8_first l = n -> (0 < n)%nat ->
  utf8_first (firstn n l ++ r) = n.
Proof.
  intros l n r H Hn. subst n.
  destruct l as [|b0 [|b1 [|b2 [|b3 l]]]]; cbn [utf8_first] in *; split_ifs; try lia;
    cbn [firstn app utf8_first]; rewrite ?Heqb, ?Heqb0, ?Heqb1, ?Heqb2, ?Heqb3; try reflexivity;
    split_ifs; try reflexivity; try lia; try congruence.
Qed.

From Coq Require Import ZifyBool.

(* lead byte is a boundary byte, the others are continuation bytes *)
Lemma utf8_first_bytes : forall l n, utf8_first l = n -> (0 < n)%nat ->
  is_boundary_byte (nth 0 l 0) = true /\
  forall j, (0 < j < n)%nat -> is_boundary_byte (nth j l 0) = false.
Proof.
  intros l n H Hn. subst n.
  destruct l as [|b0 [|b1 [|b2 [|b3 l]]]]; cbn [utf8_first] in *; split_ifs; try lia;
    (split; [cbn [nth]; unfold cont in *; unfold is_boundary_byte, in_rng in *; lia|]);
    intros j Hj;
    (destruct j as [|[|[|[|j]]]]; try lia; cbn [nth]; unfold cont in *; unfold is_boundary_byte, in_rng in *; lia).
Qed.

(* well-formed UTF-8 as a sequence of well-formed characters *)
Inductive wf_utf8 : bytes -> Prop :=
| wf_nil : wf_utf8 []
| wf_cons : forall l n, utf8_first l = n -> (0 < n)%nat -> wf_utf8 (skipn n l) -> wf_utf8 l.

Lemma utf8_valid_fuel_wf : forall f l, utf8_valid_fuel f l = true -> wf_utf8 l.
Proof.
  induction f as [|f IH]; intros l H; destruct l as [|b l]; try constructor; cbn [utf8_valid_fuel] in H; try discriminate.
  destruct (utf8_first (b :: l)) as [|n] eqn:E; [discriminate|].
  eapply wf_cons; [exact E|lia|]. apply IH. exact H.
Qed.

Lemma wf_utf8_valid_fuel : forall l, wf_utf8 l -> forall f, (List.length l <= f)%nat -> utf8_valid_fuel f l = true.
Proof.
  intros l H. induction H as [|l n E Hn Hw IH]; intros f Hf.
  - destruct f; reflexivity.
  - destruct l as [|b l]; [destruct f; reflexivity|].
    destruct f as [|f]; [cbn in Hf; lia|]. cbn [utf8_valid_fuel].
    rewrite E. destruct n as [|n]; [lia|]. apply IH.
    rewrite skipn_length. cbn [List.length] in *. lia.
Qed.

Lemma utf8_valid_iff : forall l, utf8_valid l = true <-> wf_utf8 l.
Proof.
  intros l. split.
  - apply utf8_valid_fuel_wf.
  - intros H. apply wf_utf8_valid_fuel; [exact H|lia].
Qed.

Lemma wf_utf8_app_char : forall l n r, utf8_first l = n -> (0 < n)%nat -> wf_utf8 r -> wf_utf8 (firstn n l ++ r).
Proof.
  intros l n r E Hn Hr. eapply wf_cons.
  - apply utf8_first_app; eassumption.
  - exact Hn.
  - pose proof (utf8_first_bound l) as [_ B]. rewrite E in B.
    rewrite skipn_app. rewrite firstn_length. replace (Nat.min n (List.length l)) with n by lia.
    rewrite Nat.sub_diag. cbn [skipn]. rewrite skipn_all2 by (rewrite firstn_length; lia). exact Hr.
Qed.

Lemma valid_up_to_le : forall f l, (valid_up_to f l <= List.length l)%nat.
Proof.
  induction f as [|f IH]; intros l; cbn [valid_up_to]; [lia|].
  destruct (utf8_first l) as [|n] eqn:E; [lia|].
  pose proof (utf8_first_bound l) as [_ B]. rewrite E in B.
  specialize (IH (skipn (S n) l)). rewrite skipn_length in IH. lia.
Qed.

Lemma firstn_plus {A} : forall (a b : nat) (l : list A),
  firstn (a + b) l = firstn a l ++ firstn b (skipn a l).
Proof.
  induction a as [|a IH]; intros b l; [reflexivity|].
  destruct l as [|x l]; [cbn; rewrite firstn_nil; reflexivity|].
  cbn [Nat.add firstn skipn app]. rewrite IH. reflexivity.
Qed.

Lemma valid_up_to_wf : forall f l, wf_utf8 (firstn (valid_up_to f l) l).
Proof.
  induction f as [|f IH]; intros l; cbn [valid_up_to]; [constructor|].
  destruct (utf8_first l) as [|n] eqn:E; [constructor|].
  pose proof (utf8_first_bound l) as [_ B]. rewrite E in B.
  rewrite firstn_plus. apply wf_utf8_app_char; [exact E|lia|apply IH].
Qed.
