(* Byte layouts: authenticator data (C07) and U2F responses (C09). *)
From Ctap Require Import Base Schema Wire Typed Procs WireP.
From Coq Require Import Lia.
Local Open Scope Z_scope.

Lemma blen_be : forall n v, blen (be n v) = Z.of_nat n.
Proof. intros. unfold blen. rewrite be_length. reflexivity. Qed.

Lemma push_chunk_ok : forall cap buf chunk, blen buf + blen chunk <= cap ->
  push_chunk cap buf chunk = Ok (buf ++ chunk).
Proof. intros. unfold push_chunk. destruct (blen buf + blen chunk <=? cap) eqn:E; [reflexivity|apply Z.leb_gt in E; lia]. Qed.
Lemma push_chunk_err : forall cap buf chunk, cap < blen buf + blen chunk ->
  push_chunk cap buf chunk = ErrOther.
Proof. intros. unfold push_chunk. destruct (blen buf + blen chunk <=? cap) eqn:E; [apply Z.leb_le in E; lia|reflexivity]. Qed.
Lemma push_chunk_cases : forall cap buf chunk,
  push_chunk cap buf chunk = if blen buf + blen chunk <=? cap then Ok (buf ++ chunk) else ErrOther.
Proof. reflexivity. Qed.

(* WebAuthn 6.1 / 6.5.1: the layout as one concatenation *)
Definition acd_bytes (a : attested) : bytes :=
  ac_aaguid a ++ be 2 (blen (ac_id a)) ++ ac_id a ++ ac_key a.

Definition authdata_layout (rp : bytes) (flags count : Z) (acd : option attested) (ext : option bytes) : bytes :=
  (rp ++ [flags] ++ be 4 count)
  ++ match acd with Some a => acd_bytes a | None => [] end
  ++ match ext with Some x => x | None => [] end.

Definition id_ok (acd : option attested) : bool :=
  match acd with Some a => blen (ac_id a) <=? 65535 | None => true end.

Ltac lens := repeat rewrite ?blen_app, ?blen_be, ?blen_cons in *; unfold blen in *; cbn [List.length] in *.

Lemma ad_header_spec : forall cap rp flags count,
  ad_header cap rp flags count =
    if blen (rp ++ [flags] ++ be 4 count) <=? cap then Ok (rp ++ [flags] ++ be 4 count) else ErrOther.
Proof.
  intros cap rp flags count. unfold ad_header.
  destruct (blen (rp ++ [flags] ++ be 4 count) <=? cap) eqn:E.
  - apply Z.leb_le in E.
    rewrite push_chunk_ok by (lens; lia). cbn [bind app].
    rewrite push_chunk_ok by (lens; lia). cbn [bind].
    rewrite push_chunk_ok by (lens; lia). rewrite <- app_assoc. reflexivity.
  - apply Z.leb_gt in E.
    rewrite push_chunk_cases. destruct (blen [] + blen rp <=? cap) eqn:E1; [|reflexivity]. cbn [bind app].
    apply Z.leb_le in E1.
    rewrite push_chunk_cases. destruct (blen rp + blen [flags] <=? cap) eqn:E2; [|reflexivity]. cbn [bind].
    apply Z.leb_le in E2.
    apply push_chunk_err. lens. lia.
Qed.

Lemma ad_acd_spec : forall cap b a,
  ad_acd cap b a =
    if (blen b + blen (acd_bytes a) <=? cap) && (blen (ac_id a) <=? 65535)
    then Ok (b ++ acd_bytes a) else ErrOther.
Proof.
  intros cap b a. unfold ad_acd, acd_bytes.
  destruct (blen (ac_id a) <=? 65535) eqn:Eid.
  - apply Z.leb_le in Eid. rewrite andb_true_r.
    destruct (65535 <? blen (ac_id a)) eqn:E0; [apply Z.ltb_lt in E0; lia|].
    destruct (blen b + blen (ac_aaguid a ++ be 2 (blen (ac_id a)) ++ ac_id a ++ ac_key a) <=? cap) eqn:E.
    + apply Z.leb_le in E.
      rewrite push_chunk_ok by (lens; lia). cbn [bind].
      rewrite push_chunk_ok by (lens; lia). cbn [bind].
      rewrite push_chunk_ok by (lens; lia). cbn [bind].
      rewrite push_chunk_ok by (lens; lia). rewrite <- !app_assoc. reflexivity.
    + apply Z.leb_gt in E.
      rewrite push_chunk_cases. destruct (blen b + blen (ac_aaguid a) <=? cap) eqn:E1; [|reflexivity]. cbn [bind].
      apply Z.leb_le in E1.
      rewrite push_chunk_cases. destruct (_ <=? cap) eqn:E2; [|reflexivity]. cbn [bind]. apply Z.leb_le in E2.
      rewrite push_chunk_cases. destruct (_ <=? cap) eqn:E3; [|reflexivity]. cbn [bind]. apply Z.leb_le in E3.
      apply push_chunk_err. lens. lia.
  - apply Z.leb_gt in Eid. rewrite andb_false_r.
    destruct (65535 <? blen (ac_id a)) eqn:E0; [|apply Z.ltb_ge in E0; lia].
    rewrite push_chunk_cases. destruct (_ <=? cap); reflexivity.
Qed.

(* C07: the serializer returns exactly the layout, or fails with Other; nothing in between *)
Theorem authdata_serialize_layout : forall T e rp flags count acd ext x,
  match ext with
  | Some (t, v) => encode e t v = Some x
  | None => True
  end ->
  authdata_serialize T e rp flags count acd ext =
    let L := authdata_layout rp flags count acd (match ext with Some _ => Some x | None => None end) in
    if (blen L <=? t_authdata_len T) && id_ok acd then Ok L else ErrOther.
Proof.
  intros T e rp flags count acd ext x Hx. unfold authdata_serialize, authdata_layout.
  set (cap := t_authdata_len T). set (H := rp ++ [flags] ++ be 4 count).
  rewrite ad_header_spec. fold H. cbv zeta.
  destruct (blen H <=? cap) eqn:EH.
  2:{ apply Z.leb_gt in EH. cbn [bind].
      destruct ((blen (H ++ _ ++ _) <=? cap) && id_ok acd) eqn:E; [|reflexivity].
      apply andb_true_iff in E. destruct E as [E _]. apply Z.leb_le in E.
      rewrite blen_app in E.
      match type of E with context [blen H + blen ?X] => pose proof (blen_nonneg X) end. lia. }
  apply Z.leb_le in EH. cbn [bind].
  destruct acd as [a|].
  - rewrite ad_acd_spec. cbn [id_ok].
    destruct ((blen H + blen (acd_bytes a) <=? cap) && (blen (ac_id a) <=? 65535)) eqn:EA.
    + apply andb_true_iff in EA. destruct EA as [EA1 EA2]. apply Z.leb_le in EA1. rewrite EA2. rewrite andb_true_r.
      cbn [bind]. destruct ext as [[t v]|].
      * rewrite Hx. rewrite push_chunk_cases. rewrite !blen_app.
        rewrite <- app_assoc. rewrite Z.add_assoc. destruct (blen H + blen (acd_bytes a) + blen x <=? cap); reflexivity.
      * rewrite app_nil_r. rewrite blen_app.
        destruct (blen H + blen (acd_bytes a) <=? cap) eqn:E; [reflexivity|apply Z.leb_gt in E; lia].
    + cbn [bind]. apply andb_false_iff in EA. destruct EA as [EA|EA].
      * apply Z.leb_gt in EA.
        destruct ((blen (H ++ acd_bytes a ++ _) <=? cap) && _) eqn:E; [|reflexivity].
        apply andb_true_iff in E. destruct E as [E _]. apply Z.leb_le in E.
        rewrite !blen_app in E.
        match type of E with context [blen (acd_bytes a) + blen ?X] => pose proof (blen_nonneg X) end. lia.
      * rewrite EA. rewrite andb_false_r. reflexivity.
  - cbn [id_ok app bind]. rewrite andb_true_r. destruct ext as [[t v]|].
    + rewrite Hx. rewrite push_chunk_cases. rewrite blen_app. reflexivity.
    + rewrite app_nil_r. destruct (blen H <=? cap) eqn:E; [reflexivity|apply Z.leb_gt in E; lia].
Qed.

(* ---- C09: push / extend chain into a bounded buffer *)
Lemma vpush_cases : forall cap buf chunk,
  vpush cap buf chunk = if blen buf + blen chunk <=? cap then Some (buf ++ chunk) else None.
Proof. reflexivity. Qed.

(* success: everything appended after the prior contents, which are not disturbed *)
Lemma vpush_all_fits : forall parts cap buf,
  blen buf + blen (List.concat parts) <= cap -> vpush_all cap buf parts = (true, buf ++ List.concat parts).
Proof.
  induction parts as [|p r IH]; intros cap buf H; cbn [vpush_all List.concat].
  - rewrite app_nil_r. reflexivity.
  - cbn [List.concat] in H. rewrite blen_app in H. pose proof (blen_nonneg (List.concat r)).
    rewrite vpush_cases. destruct (blen buf + blen p <=? cap) eqn:E; [|apply Z.leb_gt in E; lia].
    rewrite IH by (rewrite blen_app; lia). rewrite <- app_assoc. reflexivity.
Qed.

(* failure: the call reports failure and the buffer holds the prior contents followed by the whole
   leading parts that fitted - a proper prefix of the response, never a cut part *)
Lemma vpush_all_overflow : forall parts cap buf,
  blen buf <= cap -> cap < blen buf + blen (List.concat parts) ->
  exists k, (k < List.length parts)%nat /\
            vpush_all cap buf parts = (false, buf ++ List.concat (firstn k parts)).
Proof.
  induction parts as [|p r IH]; intros cap buf Hb H; cbn [vpush_all List.concat].
  - cbn [List.concat] in H. unfold blen in *. cbn [List.length] in H. lia.
  - cbn [List.concat] in H. rewrite blen_app in H.
    rewrite vpush_cases. destruct (blen buf + blen p <=? cap) eqn:E.
    + apply Z.leb_le in E. destruct (IH cap (buf ++ p)) as [k [Hk Hv]]; [rewrite blen_app; lia|rewrite blen_app; lia|].
      exists (S k). split; [cbn [List.length]; lia|]. rewrite Hv. cbn [firstn List.concat]. rewrite <- app_assoc. reflexivity.
    + exists O. split; [cbn [List.length]; lia|]. cbn [firstn List.concat]. rewrite app_nil_r. reflexivity.
Qed.

Lemma vpush_all_prefix_kept : forall parts cap buf,
  exists suffix, snd (vpush_all cap buf parts) = buf ++ suffix.
Proof.
  induction parts as [|p r IH]; intros cap buf; cbn [vpush_all].
  - exists []. rewrite app_nil_r. reflexivity.
  - rewrite vpush_cases. destruct (blen buf + blen p <=? cap).
    + destruct (IH cap (buf ++ p)) as [s Hs]. exists (p ++ s). rewrite Hs. rewrite <- app_assoc. reflexivity.
    + exists []. rewrite app_nil_r. reflexivity.
Qed.
