(* Byte layouts: authenticator data (C07) and U2F responses (C09). *)
From Ctap Require Import Base Schema Wire Typed Procs WireP.
From Coq Require Import Lia.
Local Open Scope Z_scope.

Lemma blen_be : forall n v, blen (be n v) = Z.of_nat n.
Proof. intros. unfold blen. rewrite be_length. reflexivity. Qed.

Lemma push_chunk_ok : forall cap buf chunk, blen buf + blen chunk <= cap ->
  push_chunk cap buf chunk = Ok (buf ++ chunk).
Proof. intros. unfold push_chunk. destruct (blen buf + blen chunk <=? cap) eqn:E; [reflexivity|apply Z.leb_gt in E; lia]. Qed.
Lemma push_chunk_err : forall cap buf chunk, cap < blen buf + blen chunk ->
  push_chunk cap buf chunk = ErrOther.
Proof. intros. unfold push_chunk. destruct (blen buf + blen chunk <=? cap) eqn:E; [apply Z.leb_le in E; lia|reflexivity]. Qed.

(* WebAuthn 6.1 / 6.5.1: the layout as one concatenation *)
Definition acd_bytes (a : attested) : bytes :=
  ac_aaguid a ++ be 2 (blen (ac_id a)) ++ ac_id a ++ ac_key a.

Definition authdata_layout (rp : bytes) (flags count : Z) (acd : option attested) (ext : option bytes) : bytes :=
  rp ++ [flags] ++ be 4 count
  ++ match acd with Some a => acd_bytes a | None => [] end
  ++ match ext with Some x => x | None => [] end.

Definition id_ok (acd : option attested) : bool :=
  match acd with Some a => blen (ac_id a) <=? 65535 | None => true end.

Ltac lens := repeat rewrite ?blen_app, ?blen_be, ?blen_cons in *; unfold blen in *; cbn [List.length] in *.

(* the fixed header *)
Lemma header_steps : forall cap rp flags count,
  (b <- push_chunk cap [] rp ;; b <- push_chunk cap b [flags] ;; push_chunk cap b (be 4 count))
  = if blen rp + 5 <=? cap then Ok (rp ++ [flags] ++ be 4 count) else ErrOther.
Proof.
  intros cap rp flags count.
  destruct (blen rp + 5 <=? cap) eqn:E.
  - apply Z.leb_le in E.
    rewrite push_chunk_ok by (lens; lia). cbn [bind app].
    rewrite push_chunk_ok by (lens; lia). cbn [bind].
    rewrite push_chunk_ok by (lens; lia). rewrite <- app_assoc. reflexivity.
  - apply Z.leb_gt in E.
    unfold push_chunk at 1. destruct (blen [] + blen rp <=? cap) eqn:E1; [|reflexivity]. cbn [bind app].
    apply Z.leb_le in E1.
    unfold push_chunk at 1. destruct (blen rp + blen [flags] <=? cap) eqn:E2; [|reflexivity]. cbn [bind].
    apply Z.leb_le in E2.
    apply push_chunk_err. lens. lia.
Qed.

Lemma acd_steps : forall cap b a,
  (b1 <- push_chunk cap b (ac_aaguid a) ;;
   _ <- (if 65535 <? blen (ac_id a) then ErrOther else Ok tt) ;;
   b2 <- push_chunk cap b1 (be 2 (blen (ac_id a))) ;;
   b3 <- push_chunk cap b2 (ac_id a) ;;
   push_chunk cap b3 (ac_key a))
  = if (blen b + blen (acd_bytes a) <=? cap) && (blen (ac_id a) <=? 65535)
    then Ok (b ++ acd_bytes a) else ErrOther.
Proof.
  intros cap b a. unfold acd_bytes.
  destruct (blen (ac_id a) <=? 65535) eqn:Eid.
  - apply Z.leb_le in Eid. rewrite andb_true_r.
    destruct (65535 <? blen (ac_id a)) eqn:E0; [apply Z.ltb_lt in E0; lia|].
    destruct (blen b + blen (ac_aaguid a ++ be 2 (blen (ac_id a)) ++ ac_id a ++ ac_key a) <=? cap) eqn:E.
    + apply Z.leb_le in E.
      rewrite push_chunk_ok by (lens; lia). cbn [bind].
      rewrite push_chunk_ok by (lens; lia). cbn [bind].
      rewrite push_chunk_ok by (lens; lia). cbn [bind].
      rewrite push_chunk_ok by (lens; lia). rewrite <- !app_assoc. reflexivity.
    + apply Z.leb_gt in E.
      unfold push_chunk at 1. destruct (blen b + blen (ac_aaguid a) <=? cap) eqn:E1; [|reflexivity]. cbn [bind].
      apply Z.leb_le in E1.
      unfold push_chunk at 1. destruct (_ <=? cap) eqn:E2; [|reflexivity]. cbn [bind]. apply Z.leb_le in E2.
      unfold push_chunk at 1. destruct (_ <=? cap) eqn:E3; [|reflexivity]. cbn [bind]. apply Z.leb_le in E3.
      apply push_chunk_err. lens. lia.
  - apply Z.leb_gt in Eid. rewrite andb_false_r.
    destruct (65535 <? blen (ac_id a)) eqn:E0; [|apply Z.ltb_ge in E0; lia].
    unfold push_chunk at 1. destruct (_ <=? cap); reflexivity.
Qed.

(* C07: the serializer returns exactly the layout, or fails; nothing in between *)
Theorem authdata_serialize_layout : forall T e rp flags count acd ext x,
  match ext with
  | Some (t, v) => encode e t v = Some x
  | None => True
  end ->
  authdata_serialize T e rp flags count acd ext =
    let L := authdata_layout rp flags count acd (match ext with Some _ => Some x | None => None end) in
    if (blen L <=? t_authdata_len T) && id_ok acd then Ok L else ErrOther.
Proof.
  intros T e rp flags count acd ext x Hx. unfold authdata_serialize.
  set (cap := t_authdata_len T).
  (* regroup the first three pushes *)
  change (b <- push_chunk cap [] rp;; b0 <- push_chunk cap b [flags];; b1 <- push_chunk cap b0 (be 4 count);; ?k b1)
    with (b1 <- (b <- push_chunk cap [] rp ;; b0 <- push_chunk cap b [flags] ;; push_chunk cap b0 (be 4 count)) ;; ?k b1).
Abort.
