(* C14: the two filtering visitors (pubKeyCredParams, attestationFormatsPreference). *)
From Ctap Require Import Base Schema Wire Utf8 Typed WireP.
From Coq Require Import Lia.
Local Open Scope Z_scope.

(* the sequence of element values an element decoder produces from an input *)
Inductive decodes (decf : bytes -> res (val * bytes)) : bytes -> list val -> bytes -> Prop :=
| decodes_nil : forall i, decodes decf i [] i
| decodes_cons : forall i v i' vs r, decf i = Ok (v, i') -> decodes decf i' vs r -> decodes decf i (v :: vs) r.

(* the element loop is a left fold of the step over the decoded elements *)
Lemma fold_loop_fold_left : forall (St : Type) decf (step : St -> val -> St) i vs r,
  decodes decf i vs r -> forall fuel acc, (List.length vs <= fuel)%nat ->
  fold_loop decf step fuel (blen vs) acc i = Ok (fold_left step vs acc, r).
Proof.
  intros St decf step i vs r H. induction H as [i|i v i' vs r Hd Hds IH]; intros fuel acc Hf.
  - destruct fuel; reflexivity.
  - cbn [List.length] in Hf. destruct fuel as [|fuel]; [lia|].
    cbn [fold_loop]. rewrite blen_cons. pose proof (blen_nonneg vs).
    destruct (1 + blen vs <=? 0) eqn:E; [apply Z.leb_le in E; lia|].
    rewrite Hd. cbn [bind]. replace (1 + blen vs - 1) with (blen vs) by lia.
    rewrite IH by lia. reflexivity.
Qed.

(* ---- filtering with a bounded result: keep the first [cap] selected elements, in order *)
Section Filter.
  Variable sel : val -> option val.
  Variable cap : nat.

  Definition fstep (acc : list val) (v : val) : list val :=
    match sel v with
    | Some k => if blen acc <? Z.of_nat cap then acc ++ [k] else acc
    | None => acc
    end.

  Fixpoint filter_map (l : list val) : list val :=
    match l with
    | [] => []
    | v :: r => match sel v with Some k => k :: filter_map r | None => filter_map r end
    end.

  Lemma fold_fstep : forall vs acc, (List.length acc <= cap)%nat ->
    fold_left fstep vs acc = firstn cap (acc ++ filter_map vs).
  Proof.
    induction vs as [|v vs IH]; intros acc Hacc; cbn [fold_left filter_map].
    - rewrite app_nil_r. rewrite firstn_all2 by lia. reflexivity.
    - unfold fstep at 2. destruct (sel v) as [k|].
      + destruct (blen acc <? Z.of_nat cap) eqn:E.
        * apply Z.ltb_lt in E. unfold blen in E. rewrite IH by (rewrite app_length; cbn; lia).
          rewrite <- app_assoc. reflexivity.
        * apply Z.ltb_ge in E. unfold blen in E. rewrite IH by exact Hacc.
          assert (List.length acc = cap) by lia.
          rewrite !firstn_app. replace (cap - List.length acc)%nat with O by lia. reflexivity.
      + apply IH. exact Hacc.
  Qed.

  Corollary fold_fstep_nil : forall vs, fold_left fstep vs [] = firstn cap (filter_map vs).
  Proof. intros vs. rewrite fold_fstep by (cbn; lia). reflexivity. Qed.
End Filter.

(* the format preference: known formats (first two, in order) and a flag for any unknown one *)
Section Formats.
  Variable fmt_of : bytes -> option string.

  Definition pstep (acc : list val * bool) (v : val) : list val * bool :=
    match v with
    | VStr s => match fmt_of s with
                | Some fmt => (if blen (fst acc) <? 2 then fst acc ++ [VEnum fmt] else fst acc, snd acc)
                | None => (fst acc, true)
                end
    | _ => acc
    end.

  Definition sel_fmt (v : val) : option val :=
    match v with VStr s => match fmt_of s with Some f => Some (VEnum f) | None => None end | _ => None end.
  Definition is_unknown (v : val) : bool :=
    match v with VStr s => match fmt_of s with Some _ => false | None => true end | _ => false end.

  Lemma pstep_split : forall acc v,
    pstep acc v = (fstep sel_fmt 2 (fst acc) v, snd acc || is_unknown v).
  Proof.
    intros [l u] v. unfold pstep, fstep, sel_fmt, is_unknown. cbn [fst snd].
    destruct v; try (rewrite orb_false_r; reflexivity).
    destruct (fmt_of b).
    - rewrite orb_false_r. reflexivity.
    - rewrite orb_true_r. reflexivity.
  Qed.

  Lemma fold_pstep : forall vs acc,
    fold_left pstep vs acc =
      (fold_left (fstep sel_fmt 2) vs (fst acc), snd acc || existsb is_unknown vs).
  Proof.
    induction vs as [|v vs IH]; intros acc; cbn [fold_left existsb].
    - rewrite orb_false_r. destruct acc; reflexivity.
    - rewrite IH. rewrite pstep_split. cbn [fst snd]. rewrite orb_assoc. reflexivity.
  Qed.
End Formats.
