(* The entry loops of the typed decoder (serde-indexed visit_map and serde_derive visit_map): for an
   entry list in ANY order with pairwise distinct members, the loop records exactly the sent values;
   the finishing pass reports unsent optional members absent and a missing required member as
   SerdeMissingField.  Generic in the element decoder (C01, C05, C06 core). *)
From Ctap Require Import Base Schema Wire Utf8 Typed WellTyped CborItem WireP SkipP TypedP.
From Coq Require Import Lia.
Local Open Scope Z_scope.

Record entry := { en_fd : field; en_enc : bytes; en_val : val }.

Definition en_label (en : entry) : string := f_label (en_fd en).
(* what the record holds for a sent member *)
Definition en_item_idx (en : entry) : string * val :=
  (en_label en, if f_opt (en_fd en) then VSome (en_val en) else en_val en).

Definition enc_idx_entry (en : entry) : bytes := put_head 0 (idx_key (en_fd en)) ++ en_enc en.

(* the element decoder returns the entry's value on the entry's encoding, whatever follows *)
Definition idx_entry_ok (decf : ty -> bytes -> res (val * bytes)) (fs : list field) (en : entry) : Prop :=
  0 <= idx_key (en_fd en) < 18446744073709551616 /\
  find_idx_field (idx_key (en_fd en)) fs = Some (en_fd en) /\
  forall r, decf (if f_opt (en_fd en) then inner_ty (f_ty (en_fd en)) else f_ty (en_fd en)) (en_enc en ++ r)
            = Ok (en_val en, r).

Lemma rget_cons_other : forall k k' v acc, k <> k' -> rget k ((k', v) :: acc) = rget k acc.
Proof.
  intros k k' v acc H. unfold rget. cbn [assoc]. destruct (String.eqb k k') eqn:E; [|reflexivity].
  apply String.eqb_eq in E. contradiction.
Qed.
Lemma rget_cons_same : forall k v acc, rget k ((k, v) :: acc) = Some v.
Proof. intros. unfold rget. cbn [assoc]. rewrite String.eqb_refl. reflexivity. Qed.

Lemma rget_none_notin : forall k acc, rget k acc = None <-> ~ In k (map fst acc).
Proof.
  intros k acc. induction acc as [|[k' v] acc IH]; cbn [map In fst].
  - split; [intros _ []|reflexivity].
  - unfold rget in *. cbn [assoc]. destruct (String.eqb k k') eqn:E.
    + apply String.eqb_eq in E. subst. split; [discriminate|intros H; exfalso; apply H; left; reflexivity].
    + apply String.eqb_neq in E. rewrite IH. split; [intros H [H1|H1]; [congruence|contradiction]|intros H H1; apply H; right; exact H1].
Qed.

(* the indexed loop on a list of well-formed entries with fresh, pairwise distinct labels *)
Lemma idx_loop_entries : forall decf fs entries fuel acc rest,
  Forall (idx_entry_ok decf fs) entries ->
  NoDup (map en_label entries) ->
  (forall en, In en entries -> ~ In (en_label en) (map fst acc)) ->
  (List.length entries <= fuel)%nat ->
  idx_loop decf fs fuel (blen entries) acc (List.concat (map enc_idx_entry entries) ++ rest)
  = Ok (rev (map en_item_idx entries) ++ acc, rest).
Proof.
  intros decf fs entries. induction entries as [|en entries IH]; intros fuel acc rest Hok Hnd Hfresh Hfuel.
  - destruct fuel; reflexivity.
  - cbn [List.length] in Hfuel. destruct fuel as [|fuel]; [lia|].
    inversion Hok as [|? ? [Hk [Hfind Hdec]] Hok']; subst.
    inversion Hnd as [|? ? Hnotin Hnd']; subst.
    cbn [idx_loop]. rewrite blen_cons. pose proof (blen_nonneg entries).
    destruct (1 + blen entries <=? 0) eqn:E; [apply Z.leb_le in E; lia|].
    cbn [map List.concat]. unfold enc_idx_entry at 1. rewrite <- !app_assoc.
    rewrite raw_u64_put_head by exact Hk. cbn [bind].
    rewrite Hfind.
    assert (Hnone : rget (f_label (en_fd en)) acc = None).
    { apply rget_none_notin. apply (Hfresh en). left. reflexivity. }
    rewrite Hnone. rewrite Hdec. cbn [bind].
    replace (1 + blen entries - 1) with (blen entries) by lia.
    rewrite IH; try assumption; try lia.
    + cbn [map rev]. rewrite <- app_assoc. reflexivity.
    + intros en' Hin. cbn [map fst In]. intros [Heq|Hin'].
      * apply Hnotin. change (f_label (en_fd en)) with (en_label en) in Heq. rewrite Heq.
        apply in_map. exact Hin.
      * apply (Hfresh en'); [right; exact Hin|exact Hin'].
Qed.

Lemma enc_idx_entries_len : forall entries,
  (List.length entries <= List.length (List.concat (map enc_idx_entry entries)))%nat.
Proof.
  induction entries as [|en entries IH]; cbn [map List.concat List.length]; [lia|].
  rewrite app_length. unfold enc_idx_entry at 1. rewrite app_length.
  pose proof (put_head_nonempty 0 (idx_key (en_fd en))). lia.
Qed.

(* value of a member in the decoded record *)
Definition sent_value (entries : list entry) (fd : field) : option val :=
  rget (f_label fd) (rev (map en_item_idx entries)).

Lemma idx_finish_all : forall fs acc,
  (forall fd, In fd fs -> f_opt fd = false -> rget (f_label fd) acc <> None) ->
  idx_finish fs acc =
    Ok (map (fun fd => (f_label fd, match rget (f_label fd) acc with Some v => v | None => VNone end)) fs).
Proof.
  induction fs as [|fd fs IH]; intros acc Hreq; cbn [idx_finish map]; [reflexivity|].
  rewrite IH by (intros fd' Hin; apply Hreq; right; exact Hin).
  destruct (rget (f_label fd) acc) as [v|] eqn:E; cbn [bind]; [reflexivity|].
  destruct (f_opt fd) eqn:Eo; [reflexivity|].
  exfalso. apply (Hreq fd); [left; reflexivity|exact Eo|exact E].
Qed.

Lemma idx_finish_missing : forall fs acc fd,
  In fd fs -> f_opt fd = false -> rget (f_label fd) acc = None ->
  idx_finish fs acc = Err SerdeMissingField.
Proof.
  induction fs as [|fd0 fs IH]; intros acc fd Hin Ho Hn; [destruct Hin|].
  cbn [idx_finish]. destruct Hin as [->|Hin].
  - rewrite Hn, Ho. destruct (rget (f_label fd) acc); reflexivity.
  - rewrite (IH acc fd Hin Ho Hn).
    destruct (rget (f_label fd0) acc); cbn [bind]; [reflexivity|].
    destruct (f_opt fd0); reflexivity.
Qed.

(* C01 core for integer-keyed maps: a map of n entries, in any order, decodes to the record that holds
   under each member exactly the value sent for it, and VNone for every unsent optional member *)
Theorem dec_indexed_struct : forall e k name s d fs entries rest,
  lookup e name = Some (DStruct true s d fs) ->
  Forall (idx_entry_ok (dec e k) fs) entries ->
  NoDup (map en_label entries) ->
  (forall fd, In fd fs -> f_opt fd = false -> In (f_label fd) (map en_label entries)) ->
  blen entries < 4294967296 ->
  dec e (S k) (TNamed name) (put_head 5 (blen entries) ++ List.concat (map enc_idx_entry entries) ++ rest)
  = Ok (VRec (map (fun fd => (f_label fd, match sent_value entries fd with Some v => v | None => VNone end)) fs), rest).
Proof.
  intros e k name s d fs entries rest Hl Hok Hnd Hreq Hn.
  cbn [dec]. rewrite Hl.
  rewrite raw_u32_put_head by (pose proof (blen_nonneg entries); lia). cbn [bind].
  rewrite idx_loop_entries; try assumption.
  - cbn [bind]. rewrite app_nil_r.
    rewrite idx_finish_all.
    + cbn [bind]. reflexivity.
    + intros fd Hin Ho. specialize (Hreq fd Hin Ho).
      intros Hnone. apply rget_none_notin in Hnone. apply Hnone.
      rewrite map_rev, <- in_rev. rewrite map_map. unfold en_item_idx. cbn [fst]. exact Hreq.
  - intros en _ [].
  - rewrite app_length. pose proof (enc_idx_entries_len entries). lia.
Qed.

(* C05 core: the same map lacking a required member is rejected with SerdeMissingField (-> 0x14) *)
Theorem dec_indexed_missing : forall e k name s d fs entries rest fd,
  lookup e name = Some (DStruct true s d fs) ->
  Forall (idx_entry_ok (dec e k) fs) entries ->
  NoDup (map en_label entries) ->
  In fd fs -> f_opt fd = false -> ~ In (f_label fd) (map en_label entries) ->
  blen entries < 4294967296 ->
  dec e (S k) (TNamed name) (put_head 5 (blen entries) ++ List.concat (map enc_idx_entry entries) ++ rest)
  = Err SerdeMissingField.
Proof.
  intros e k name s d fs entries rest fd Hl Hok Hnd Hin Ho Hmiss Hn.
  cbn [dec]. rewrite Hl.
  rewrite raw_u32_put_head by (pose proof (blen_nonneg entries); lia). cbn [bind].
  rewrite idx_loop_entries; try assumption.
  - cbn [bind]. rewrite app_nil_r.
    rewrite (idx_finish_missing fs _ fd Hin Ho); [reflexivity|].
    apply rget_none_notin. rewrite map_rev, <- in_rev. rewrite map_map. unfold en_item_idx. cbn [fst]. exact Hmiss.
  - intros en _ [].
  - rewrite app_length. pose proof (enc_idx_entries_len entries). lia.
Qed.

(* ------------------------------------------------------------------ text-keyed maps, with unknown members *)
Inductive tentry :=
| TKnown (name : bytes) (en : entry)        (* a key (field name or alias) of a declared member *)
| TUnknown (name : bytes) (c : item).       (* a key the struct does not know, holding any CBOR item *)

Definition enc_txt_entry (te : tentry) : bytes :=
  match te with
  | TKnown name en => ser_text name ++ en_enc en
  | TUnknown name c => ser_text name ++ ienc c
  end.

Definition txt_entry_ok (decf : ty -> bytes -> res (val * bytes)) (fs : list field) (te : tentry) : Prop :=
  match te with
  | TKnown name en =>
      blen name < 4294967296 /\ utf8_valid name = true /\
      find_txt_field name fs = Some (en_fd en) /\
      forall r, dec_with decf (en_fd en) (en_enc en ++ r) = Ok (en_val en, r)
  | TUnknown name c =>
      blen name < 4294967296 /\ utf8_valid name = true /\ find_txt_field name fs = None /\ iwf c
  end.

Definition known_entries (tes : list tentry) : list entry :=
  flat_map (fun te => match te with TKnown _ en => [en] | TUnknown _ _ => [] end) tes.
Definition en_item_txt (en : entry) : string * val := (en_label en, en_val en).

Lemma txt_loop_known_step : forall decf fs k n acc name en rest,
  0 < n -> blen name < 4294967296 -> utf8_valid name = true ->
  find_txt_field name fs = Some (en_fd en) ->
  rget (f_label (en_fd en)) acc = None ->
  (forall r, dec_with decf (en_fd en) (en_enc en ++ r) = Ok (en_val en, r)) ->
  txt_loop decf fs (S k) n acc (ser_text name ++ en_enc en ++ rest)
  = txt_loop decf fs k (n - 1) ((f_label (en_fd en), en_val en) :: acc) rest.
Proof.
  intros decf fs k n acc name en rest Hn Hlen Hutf Hfind Hnone Hdec.
  cbn [txt_loop]. destruct (n <=? 0) eqn:E; [apply Z.leb_le in E; lia|].
  unfold ser_text. rewrite <- app_assoc.
  rewrite peek_major_put_head by (try lia; apply blen_nonneg). cbn [bind].
  cbn [Z.eqb Pos.eqb orb].
  rewrite raw_u32_put_head by (pose proof (blen_nonneg name); lia). cbn [bind].
  rewrite take_app. cbn [bind]. rewrite Hutf, Hfind. cbn [bind].
  rewrite Hnone. rewrite Hdec. cbn [bind]. reflexivity.
Qed.

Lemma txt_loop_entries : forall decf fs tes fuel acc rest,
  Forall (txt_entry_ok decf fs) tes ->
  NoDup (map en_label (known_entries tes)) ->
  (forall en, In en (known_entries tes) -> ~ In (en_label en) (map fst acc)) ->
  (List.length tes <= fuel)%nat ->
  txt_loop decf fs fuel (blen tes) acc (List.concat (map enc_txt_entry tes) ++ rest)
  = Ok (rev (map en_item_txt (known_entries tes)) ++ acc, rest).
Proof.
  intros decf fs tes. induction tes as [|te tes IH]; intros fuel acc rest Hok Hnd Hfresh Hfuel.
  - destruct fuel; reflexivity.
  - cbn [List.length] in Hfuel. destruct fuel as [|fuel]; [lia|].
    inversion Hok as [|? ? Hte Hok']; subst.
    rewrite blen_cons. pose proof (blen_nonneg tes).
    cbn [map List.concat]. rewrite <- app_assoc.
    destruct te as [name en|name c]; cbn [txt_entry_ok] in Hte; cbn [enc_txt_entry known_entries flat_map] in *.
    + destruct Hte as [Hlen [Hutf [Hfind Hdec]]].
      cbn [app map] in Hnd. inversion Hnd as [|? ? Hnotin Hnd']; subst.
      rewrite <- app_assoc.
      rewrite txt_loop_known_step; try assumption; try lia.
      * replace (1 + blen tes - 1) with (blen tes) by lia.
        rewrite IH; try assumption; try lia.
        { cbn [app map rev]. rewrite <- app_assoc. reflexivity. }
        { intros en' Hin. cbn [map fst In]. intros [Heq|Hin'].
          - apply Hnotin. change (f_label (en_fd en)) with (en_label en) in Heq. rewrite Heq. apply in_map. exact Hin.
          - apply (Hfresh en'); [right; exact Hin|exact Hin']. }
      * apply rget_none_notin. apply (Hfresh en). left. reflexivity.
    + destruct Hte as [Hlen [Hutf [Hfind Hwf]]].
      rewrite <- app_assoc.
      rewrite txt_loop_skip_unknown; try assumption; try lia.
      replace (1 + blen tes - 1) with (blen tes) by lia.
      apply IH; try assumption; lia.
Qed.

Lemma txt_finish_all : forall fs acc,
  (forall fd, In fd fs -> f_opt fd = false -> rget (f_label fd) acc <> None) ->
  txt_finish fs acc =
    Ok (map (fun fd => (f_label fd, match rget (f_label fd) acc with Some v => v | None => VNone end)) fs).
Proof.
  induction fs as [|fd fs IH]; intros acc Hreq; cbn [txt_finish map]; [reflexivity|].
  rewrite IH by (intros fd' Hin; apply Hreq; right; exact Hin).
  destruct (rget (f_label fd) acc) as [v|] eqn:E; cbn [bind]; [reflexivity|].
  destruct (f_opt fd) eqn:Eo; [reflexivity|].
  exfalso. apply (Hreq fd); [left; reflexivity|exact Eo|exact E].
Qed.

Lemma txt_finish_missing : forall fs acc fd,
  In fd fs -> f_opt fd = false -> rget (f_label fd) acc = None ->
  txt_finish fs acc = Err SerdeMissingField.
Proof.
  induction fs as [|fd0 fs IH]; intros acc fd Hin Ho Hn; [destruct Hin|].
  cbn [txt_finish]. destruct Hin as [->|Hin].
  - rewrite Hn, Ho. destruct (rget (f_label fd) acc); reflexivity.
  - rewrite (IH acc fd Hin Ho Hn).
    destruct (rget (f_label fd0) acc); cbn [bind]; [reflexivity|].
    destruct (f_opt fd0); reflexivity.
Qed.

Lemma enc_txt_entries_len : forall tes,
  (List.length tes <= List.length (List.concat (map enc_txt_entry tes)))%nat.
Proof.
  induction tes as [|te tes IH]; cbn [map List.concat List.length]; [lia|].
  rewrite app_length. destruct te as [name en|name c]; cbn [enc_txt_entry]; unfold ser_text;
    rewrite !app_length; pose proof (put_head_nonempty 3 (blen name)); lia.
Qed.

Definition txt_record (fs : list field) (tes : list tentry) : list (string * val) :=
  map (fun fd => (f_label fd,
                  match rget (f_label fd) (rev (map en_item_txt (known_entries tes))) with
                  | Some v => v | None => VNone end)) fs.

(* C01 / C06 core for text-keyed maps: entries in ANY order, with ANY number of unknown members holding
   ANY well-formed items at ANY positions: the result is the record of the known entries *)
Theorem dec_text_struct : forall e k name s d fs tes rest,
  lookup e name = Some (DStruct false s d fs) ->
  Forall (txt_entry_ok (dec e k) fs) tes ->
  NoDup (map en_label (known_entries tes)) ->
  (forall fd, In fd fs -> f_opt fd = false -> In (f_label fd) (map en_label (known_entries tes))) ->
  blen tes < 4294967296 ->
  dec e (S k) (TNamed name) (put_head 5 (blen tes) ++ List.concat (map enc_txt_entry tes) ++ rest)
  = Ok (VRec (txt_record fs tes), rest).
Proof.
  intros e k name s d fs tes rest Hl Hok Hnd Hreq Hn.
  cbn [dec]. rewrite Hl.
  rewrite raw_u32_put_head by (pose proof (blen_nonneg tes); lia). cbn [bind].
  rewrite txt_loop_entries; try assumption.
  - cbn [bind]. rewrite app_nil_r. rewrite txt_finish_all.
    + cbn [bind]. reflexivity.
    + intros fd Hin Ho. specialize (Hreq fd Hin Ho).
      intros Hnone. apply rget_none_notin in Hnone. apply Hnone.
      rewrite map_rev, <- in_rev. rewrite map_map. unfold en_item_txt. cbn [fst]. exact Hreq.
  - intros en _ [].
  - rewrite app_length. pose proof (enc_txt_entries_len tes). lia.
Qed.

Definition without_unknown (tes : list tentry) : list tentry :=
  filter (fun te => match te with TKnown _ _ => true | TUnknown _ _ => false end) tes.

Lemma known_entries_without : forall tes, known_entries (without_unknown tes) = known_entries tes.
Proof.
  induction tes as [|te tes IH]; [reflexivity|].
  destruct te; cbn [without_unknown filter known_entries flat_map app] in *; [f_equal; exact IH|exact IH].
Qed.

Lemma Forall_without : forall decf fs tes,
  Forall (txt_entry_ok decf fs) tes -> Forall (txt_entry_ok decf fs) (without_unknown tes).
Proof.
  intros decf fs tes H. induction H as [|te tes Hte H IH]; [constructor|].
  destruct te; cbn [without_unknown filter]; [constructor; assumption|exact IH].
Qed.

Lemma blen_without : forall tes, blen (without_unknown tes) <= blen tes.
Proof.
  induction tes as [|te tes IH]; [unfold blen; cbn; lia|].
  destruct te; cbn [without_unknown filter]; rewrite ?blen_cons; fold (without_unknown tes); lia.
Qed.

(* C06: a map with unknown members decodes to exactly the same value as the map with them removed *)
Theorem dec_text_struct_unknown_irrelevant : forall e k name s d fs tes rest rest',
  lookup e name = Some (DStruct false s d fs) ->
  Forall (txt_entry_ok (dec e k) fs) tes ->
  NoDup (map en_label (known_entries tes)) ->
  (forall fd, In fd fs -> f_opt fd = false -> In (f_label fd) (map en_label (known_entries tes))) ->
  blen tes < 4294967296 ->
  exists v,
    dec e (S k) (TNamed name) (put_head 5 (blen tes) ++ List.concat (map enc_txt_entry tes) ++ rest) = Ok (v, rest) /\
    dec e (S k) (TNamed name)
      (put_head 5 (blen (without_unknown tes)) ++ List.concat (map enc_txt_entry (without_unknown tes)) ++ rest') = Ok (v, rest').
Proof.
  intros e k name s d fs tes rest rest' Hl Hok Hnd Hreq Hn.
  exists (VRec (txt_record fs tes)). split.
  - apply dec_text_struct with (s := s) (d := d); assumption.
  - replace (txt_record fs tes) with (txt_record fs (without_unknown tes))
      by (unfold txt_record; rewrite known_entries_without; reflexivity).
    apply dec_text_struct with (s := s) (d := d); try assumption.
    + apply Forall_without. exact Hok.
    + rewrite known_entries_without. exact Hnd.
    + rewrite known_entries_without. exact Hreq.
    + pose proof (blen_without tes). lia.
Qed.

Theorem dec_text_missing : forall e k name s d fs tes rest fd,
  lookup e name = Some (DStruct false s d fs) ->
  Forall (txt_entry_ok (dec e k) fs) tes ->
  NoDup (map en_label (known_entries tes)) ->
  In fd fs -> f_opt fd = false -> ~ In (f_label fd) (map en_label (known_entries tes)) ->
  blen tes < 4294967296 ->
  dec e (S k) (TNamed name) (put_head 5 (blen tes) ++ List.concat (map enc_txt_entry tes) ++ rest)
  = Err SerdeMissingField.
Proof.
  intros e k name s d fs tes rest fd Hl Hok Hnd Hin Ho Hmiss Hn.
  cbn [dec]. rewrite Hl.
  rewrite raw_u32_put_head by (pose proof (blen_nonneg tes); lia). cbn [bind].
  rewrite txt_loop_entries; try assumption.
  - cbn [bind]. rewrite app_nil_r.
    rewrite (txt_finish_missing fs _ fd Hin Ho); [reflexivity|].
    apply rget_none_notin. rewrite map_rev, <- in_rev. rewrite map_map. unfold en_item_txt. cbn [fst]. exact Hmiss.
  - intros en _ [].
  - rewrite app_length. pose proof (enc_txt_entries_len tes). lia.
Qed.

(* ------------------------------------------------------------------ duplicated keys (C05) *)
(* the loops on a valid run of entries followed by more input: they consume the run and continue *)
Lemma idx_loop_entries_then : forall decf fs entries fuel m acc rest,
  Forall (idx_entry_ok decf fs) entries ->
  NoDup (map en_label entries) ->
  (forall en, In en entries -> ~ In (en_label en) (map fst acc)) ->
  0 <= m ->
  idx_loop decf fs (List.length entries + fuel) (blen entries + m) acc (List.concat (map enc_idx_entry entries) ++ rest)
  = idx_loop decf fs fuel m (rev (map en_item_idx entries) ++ acc) rest.
Proof.
  intros decf fs entries. induction entries as [|en entries IH]; intros fuel m acc rest Hok Hnd Hfresh Hm.
  - cbn. reflexivity.
  - inversion Hok as [|? ? [Hk [Hfind Hdec]] Hok']; subst.
    inversion Hnd as [|? ? Hnotin Hnd']; subst.
    cbn [List.length Nat.add idx_loop]. rewrite blen_cons. pose proof (blen_nonneg entries).
    destruct (1 + blen entries + m <=? 0) eqn:E; [apply Z.leb_le in E; lia|].
    cbn [map List.concat]. unfold enc_idx_entry at 1. rewrite <- !app_assoc.
    rewrite raw_u64_put_head by exact Hk. cbn [bind].
    rewrite Hfind.
    assert (Hnone : rget (f_label (en_fd en)) acc = None).
    { apply rget_none_notin. apply (Hfresh en). left. reflexivity. }
    rewrite Hnone. rewrite Hdec. cbn [bind].
    replace (1 + blen entries + m - 1) with (blen entries + m) by lia.
    rewrite IH; try assumption.
    + cbn [map rev]. rewrite <- app_assoc. reflexivity.
    + intros en' Hin. cbn [map fst In]. intros [Heq|Hin'].
      * apply Hnotin. change (f_label (en_fd en)) with (en_label en) in Heq. rewrite Heq.
        apply in_map. exact Hin.
      * apply (Hfresh en'); [right; exact Hin|exact Hin'].
Qed.

(* an integer-keyed map in which a key occurs a second time - after any run of valid, distinct entries, and
   whatever the second value is or what follows - is rejected with a custom error (-> InvalidCbor), even
   though every required member may be present *)
Theorem dec_indexed_duplicate : forall e k name s d fs entries dup n rest,
  lookup e name = Some (DStruct true s d fs) ->
  Forall (idx_entry_ok (dec e k) fs) entries ->
  NoDup (map en_label entries) ->
  In dup entries ->
  blen entries < n < 4294967296 ->
  dec e (S k) (TNamed name)
      (put_head 5 n ++ List.concat (map enc_idx_entry entries) ++ put_head 0 (idx_key (en_fd dup)) ++ rest)
  = Err SerdeDeCustom.
Proof.
  intros e k name s d fs entries dup n rest Hl Hok Hnd Hin Hn.
  cbn [dec]. rewrite Hl. pose proof (blen_nonneg entries).
  rewrite raw_u32_put_head by lia. cbn [bind].
  set (tail := put_head 0 (idx_key (en_fd dup)) ++ rest).
  assert (Hlen : (List.length entries <= List.length (List.concat (map enc_idx_entry entries) ++ tail))%nat).
  { rewrite app_length. pose proof (enc_idx_entries_len entries). lia. }
  set (total := List.length (List.concat (map enc_idx_entry entries) ++ tail)) in *.
  replace (S total) with (List.length entries + S (total - List.length entries))%nat by lia.
  replace n with (blen entries + (n - blen entries)) by lia.
  rewrite idx_loop_entries_then; try assumption; try lia; [|intros en _ []].
  rewrite app_nil_r. cbn [idx_loop].
  destruct (n - blen entries <=? 0) eqn:E; [apply Z.leb_le in E; lia|].
  unfold tail. rewrite Forall_forall in Hok. destruct (Hok dup Hin) as [Hk [Hfind _]].
  rewrite raw_u64_put_head by exact Hk. cbn [bind]. rewrite Hfind.
  assert (Hsome : rget (f_label (en_fd dup)) (rev (map en_item_idx entries)) <> None).
  { intros Hnone. apply rget_none_notin in Hnone. apply Hnone.
    rewrite map_rev, <- in_rev, map_map. unfold en_item_idx. cbn [fst].
    change (f_label (en_fd dup)) with (en_label dup). apply in_map. exact Hin. }
  destruct (rget (f_label (en_fd dup)) (rev (map en_item_idx entries))); [reflexivity|contradiction].
Qed.

Lemma txt_loop_entries_then : forall decf fs tes fuel m acc rest,
  Forall (txt_entry_ok decf fs) tes ->
  NoDup (map en_label (known_entries tes)) ->
  (forall en, In en (known_entries tes) -> ~ In (en_label en) (map fst acc)) ->
  0 <= m ->
  txt_loop decf fs (List.length tes + fuel) (blen tes + m) acc (List.concat (map enc_txt_entry tes) ++ rest)
  = txt_loop decf fs fuel m (rev (map en_item_txt (known_entries tes)) ++ acc) rest.
Proof.
  intros decf fs tes. induction tes as [|te tes IH]; intros fuel m acc rest Hok Hnd Hfresh Hm.
  - cbn. reflexivity.
  - inversion Hok as [|? ? Hte Hok']; subst.
    cbn [List.length Nat.add]. rewrite blen_cons. pose proof (blen_nonneg tes).
    cbn [map List.concat]. rewrite <- app_assoc.
    destruct te as [name en|name c]; cbn [txt_entry_ok] in Hte; cbn [enc_txt_entry known_entries flat_map] in *.
    + destruct Hte as [Hlen [Hutf [Hfind Hdec]]].
      cbn [app map] in Hnd. inversion Hnd as [|? ? Hnotin Hnd']; subst.
      rewrite <- app_assoc.
      rewrite txt_loop_known_step; try assumption; try lia.
      * replace (1 + blen tes + m - 1) with (blen tes + m) by lia.
        rewrite IH; try assumption.
        { cbn [app map rev]. rewrite <- app_assoc. reflexivity. }
        { intros en' Hin. cbn [map fst In]. intros [Heq|Hin'].
          - apply Hnotin. change (f_label (en_fd en)) with (en_label en) in Heq. rewrite Heq. apply in_map. exact Hin.
          - apply (Hfresh en'); [right; exact Hin|exact Hin']. }
      * apply rget_none_notin. apply (Hfresh en). left. reflexivity.
    + destruct Hte as [Hlen [Hutf [Hfind Hwf]]].
      rewrite <- app_assoc.
      rewrite txt_loop_skip_unknown; try assumption; try lia.
      replace (1 + blen tes + m - 1) with (blen tes + m) by lia.
      apply IH; try assumption.
Qed.

(* a text-keyed map (nested structure) in which a known member's key - or one of its aliases - occurs a
   second time, after any run of valid entries including unknown ones: rejected (-> InvalidCbor) *)
Theorem dec_text_duplicate : forall e k name s d fs tes dup key n rest,
  lookup e name = Some (DStruct false s d fs) ->
  Forall (txt_entry_ok (dec e k) fs) tes ->
  NoDup (map en_label (known_entries tes)) ->
  In dup (known_entries tes) ->
  blen key < 4294967296 -> utf8_valid key = true -> find_txt_field key fs = Some (en_fd dup) ->
  blen tes < n < 4294967296 ->
  dec e (S k) (TNamed name)
      (put_head 5 n ++ List.concat (map enc_txt_entry tes) ++ ser_text key ++ rest)
  = Err SerdeDeCustom.
Proof.
  intros e k name s d fs tes dup key n rest Hl Hok Hnd Hin Hkl Hku Hkf Hn.
  cbn [dec]. rewrite Hl. pose proof (blen_nonneg tes).
  rewrite raw_u32_put_head by lia. cbn [bind].
  set (tail := ser_text key ++ rest).
  assert (Hlen : (List.length tes <= List.length (List.concat (map enc_txt_entry tes) ++ tail))%nat).
  { rewrite app_length. pose proof (enc_txt_entries_len tes). lia. }
  set (total := List.length (List.concat (map enc_txt_entry tes) ++ tail)) in *.
  replace (S total) with (List.length tes + S (total - List.length tes))%nat by lia.
  replace n with (blen tes + (n - blen tes)) by lia.
  rewrite txt_loop_entries_then; try assumption; try lia; [|intros en _ []].
  rewrite app_nil_r. cbn [txt_loop].
  destruct (n - blen tes <=? 0) eqn:E; [apply Z.leb_le in E; lia|].
  unfold tail, ser_text. rewrite <- app_assoc.
  rewrite peek_major_put_head by (try lia; apply blen_nonneg). cbn [bind].
  cbn [Z.eqb Pos.eqb orb].
  rewrite raw_u32_put_head by (pose proof (blen_nonneg key); lia). cbn [bind].
  rewrite take_app. cbn [bind]. rewrite Hku, Hkf. cbn [bind].
  assert (Hsome : rget (f_label (en_fd dup)) (rev (map en_item_txt (known_entries tes))) <> None).
  { intros Hnone. apply rget_none_notin in Hnone. apply Hnone.
    rewrite map_rev, <- in_rev, map_map. unfold en_item_txt. cbn [fst].
    change (f_label (en_fd dup)) with (en_label dup). apply in_map. exact Hin. }
  destruct (rget (f_label (en_fd dup)) (rev (map en_item_txt (known_entries tes)))); [reflexivity|contradiction].
Qed.

(* ------------------------------------------------------------------ the result depends on the entries' VALUES only (C06 nesting) *)
Lemma entries_same_items : forall a b : list entry,
  map en_fd a = map en_fd b -> map en_val a = map en_val b ->
  map en_item_idx a = map en_item_idx b /\ map en_item_txt a = map en_item_txt b /\
  map en_label a = map en_label b /\ blen a = blen b.
Proof.
  induction a as [|x a IH]; intros [|y b] Hf Hv; try discriminate.
  - repeat split.
  - cbn [map] in *. injection Hf as Hf1 Hf2. injection Hv as Hv1 Hv2.
    destruct (IH b Hf2 Hv2) as [I1 [I2 [I3 I4]]].
    unfold en_item_idx, en_item_txt, en_label in *. rewrite Hf1, Hv1, I1, I2, I3.
    repeat split. rewrite !blen_cons. lia.
Qed.

(* two integer-keyed maps whose entries carry the same members with the same decoded values - however
   differently each value is ENCODED (e.g. a nested dictionary with and without unknown members) - decode
   to the same record *)
Theorem dec_indexed_congruence : forall e k name s d fs entries entries' rest rest',
  lookup e name = Some (DStruct true s d fs) ->
  Forall (idx_entry_ok (dec e k) fs) entries -> Forall (idx_entry_ok (dec e k) fs) entries' ->
  map en_fd entries = map en_fd entries' -> map en_val entries = map en_val entries' ->
  NoDup (map en_label entries) ->
  (forall fd, In fd fs -> f_opt fd = false -> In (f_label fd) (map en_label entries)) ->
  blen entries < 4294967296 ->
  exists v,
    dec e (S k) (TNamed name) (put_head 5 (blen entries) ++ List.concat (map enc_idx_entry entries) ++ rest) = Ok (v, rest) /\
    dec e (S k) (TNamed name) (put_head 5 (blen entries') ++ List.concat (map enc_idx_entry entries') ++ rest') = Ok (v, rest').
Proof.
  intros e k name s d fs entries entries' rest rest' Hl Hok Hok' Hf Hv Hnd Hreq Hn.
  destruct (entries_same_items entries entries' Hf Hv) as [I1 [_ [I3 I4]]].
  eexists. split.
  - apply (dec_indexed_struct e k name s d fs entries rest Hl Hok Hnd Hreq Hn).
  - rewrite (dec_indexed_struct e k name s d fs entries' rest' Hl Hok'); [| | |].
    + unfold sent_value. rewrite I1. reflexivity.
    + rewrite <- I3. exact Hnd.
    + intros fd Hin Ho. rewrite <- I3. apply Hreq; assumption.
    + rewrite <- I4. exact Hn.
Qed.

Theorem dec_text_congruence : forall e k name s d fs tes tes' rest rest',
  lookup e name = Some (DStruct false s d fs) ->
  Forall (txt_entry_ok (dec e k) fs) tes -> Forall (txt_entry_ok (dec e k) fs) tes' ->
  map en_fd (known_entries tes) = map en_fd (known_entries tes') ->
  map en_val (known_entries tes) = map en_val (known_entries tes') ->
  NoDup (map en_label (known_entries tes)) ->
  (forall fd, In fd fs -> f_opt fd = false -> In (f_label fd) (map en_label (known_entries tes))) ->
  blen tes < 4294967296 -> blen tes' < 4294967296 ->
  exists v,
    dec e (S k) (TNamed name) (put_head 5 (blen tes) ++ List.concat (map enc_txt_entry tes) ++ rest) = Ok (v, rest) /\
    dec e (S k) (TNamed name) (put_head 5 (blen tes') ++ List.concat (map enc_txt_entry tes') ++ rest') = Ok (v, rest').
Proof.
  intros e k name s d fs tes tes' rest rest' Hl Hok Hok' Hf Hv Hnd Hreq Hn Hn'.
  destruct (entries_same_items _ _ Hf Hv) as [_ [I2 [I3 _]]].
  eexists. split.
  - apply (dec_text_struct e k name s d fs tes rest Hl Hok Hnd Hreq Hn).
  - rewrite (dec_text_struct e k name s d fs tes' rest' Hl Hok'); [| | |exact Hn'].
    + unfold txt_record. rewrite I2. reflexivity.
    + rewrite <- I3. exact Hnd.
    + intros fd Hin Ho. rewrite <- I3. apply Hreq; assumption.
Qed.

(* a member whose value the member decoder rejects: the request is rejected with that very error, after any
   run of valid, distinct parameters before it (errors are never swallowed or re-labelled by the map loop) *)
Theorem dec_indexed_member_error : forall e k name s d fs entries fd n i' ce,
  lookup e name = Some (DStruct true s d fs) ->
  Forall (idx_entry_ok (dec e k) fs) entries ->
  NoDup (map en_label entries) ->
  ~ In (f_label fd) (map en_label entries) ->
  0 <= idx_key fd < 18446744073709551616 -> find_idx_field (idx_key fd) fs = Some fd ->
  blen entries < n < 4294967296 ->
  dec e k (if f_opt fd then inner_ty (f_ty fd) else f_ty fd) i' = Err ce ->
  dec e (S k) (TNamed name)
      (put_head 5 n ++ List.concat (map enc_idx_entry entries) ++ put_head 0 (idx_key fd) ++ i')
  = Err ce.
Proof.
  intros e k name s d fs entries fd n i' ce Hl Hok Hnd Hfresh Hk Hfind Hn Herr.
  cbn [dec]. rewrite Hl. pose proof (blen_nonneg entries).
  rewrite raw_u32_put_head by lia. cbn [bind].
  set (tail := put_head 0 (idx_key fd) ++ i').
  assert (Hlen : (List.length entries <= List.length (List.concat (map enc_idx_entry entries) ++ tail))%nat).
  { rewrite app_length. pose proof (enc_idx_entries_len entries). lia. }
  set (total := List.length (List.concat (map enc_idx_entry entries) ++ tail)) in *.
  replace (S total) with (List.length entries + S (total - List.length entries))%nat by lia.
  replace n with (blen entries + (n - blen entries)) by lia.
  rewrite idx_loop_entries_then; try assumption; try lia; [|intros en _ []].
  rewrite app_nil_r. cbn [idx_loop].
  destruct (n - blen entries <=? 0) eqn:E; [apply Z.leb_le in E; lia|].
  unfold tail. rewrite raw_u64_put_head by exact Hk. cbn [bind]. rewrite Hfind.
  assert (Hnone : rget (f_label fd) (rev (map en_item_idx entries)) = None).
  { apply rget_none_notin. rewrite map_rev, <- in_rev, map_map. unfold en_item_idx. cbn [fst]. exact Hfresh. }
  rewrite Hnone. rewrite Herr. reflexivity.
Qed.
