(* Whatever the decoder ACCEPTS is within the declared limits - for every input byte string, canonical or
   not: byte strings and text never exceed their capacity, text is valid UTF-8 (also after truncation by the
   lossy helpers), exact-length arrays have their length, integers lie in the range of their type, lists
   never hold more than their capacity, records list exactly the declared members, enumerations hold a
   declared variant, the filtered parameter list holds known algorithms only (C12, C13, C14). *)
From Ctap Require Import Base Schema Wire Utf8 Typed WellTyped Within WireP Utf8P StrsP SerP TotalP RoundTripP.
From Coq Require Import Lia ZifyBool.
Local Open Scope string_scope.
Local Open Scope list_scope.
Local Open Scope Z_scope.

(* ---------------------------------------------------------------- sound readers *)
Definition bys (l : bytes) : Prop := Forall (fun b => 0 <= b < 256) l.

Definition sound {A} (P : A -> Prop) (f : bytes -> res (A * bytes)) : Prop :=
  forall i v r, bys i -> f i = Ok (v, r) -> P v /\ bys r.

Lemma sound_bind {A B} (P : A -> Prop) (Q : B -> Prop) (f : bytes -> res (A * bytes)) (g : A -> bytes -> res (B * bytes)) :
  sound P f -> (forall a, P a -> sound Q (g a)) -> sound Q (fun i => '(a, r) <- f i ;; g a r).
Proof.
  intros F G i v r Hb H. destruct (f i) as [[a r0]| | |] eqn:E; cbn [bind] in H; try discriminate.
  destruct (F i a r0 Hb E) as [Pa Hr0]. exact (G a Pa r0 v r Hr0 H).
Qed.
Lemma sound_ret {A} (Q : A -> Prop) w : Q w -> sound Q (fun r => Ok (w, r)).
Proof. intros Hw i v r Hb H. injection H as <- <-. split; assumption. Qed.
Lemma sound_fail {A} (Q : A -> Prop) c : sound Q (fun _ => Err c).
Proof. intros i v r _ H. discriminate. Qed.
Lemma sound_panic {A} (Q : A -> Prop) s : sound Q (fun _ => Panic s).
Proof. intros i v r _ H. discriminate. Qed.
Lemma sound_if {A} (Q : A -> Prop) (c : bool) f g :
  (c = true -> sound Q f) -> (c = false -> sound Q g) -> sound Q (fun i => if c then f i else g i).
Proof. intros F G. destruct c; [apply F|apply G]; reflexivity. Qed.
Lemma sound_weaken {A} (P Q : A -> Prop) f : (forall a, P a -> Q a) -> sound P f -> sound Q f.
Proof. intros W F i v r Hb H. destruct (F i v r Hb H) as [Pv Hr]. split; [apply W; exact Pv|exact Hr]. Qed.

Lemma bys_firstn : forall n l, bys l -> bys (firstn n l).
Proof. induction n as [|n IH]; intros [|x l] H; cbn; try constructor; inversion H; subst; [assumption|apply IH; assumption]. Qed.
Lemma bys_skipn : forall n l, bys l -> bys (skipn n l).
Proof. induction n as [|n IH]; intros [|x l] H; cbn; try assumption; inversion H; subst; apply IH; assumption. Qed.

Lemma sound_take : forall n, sound (fun a => bys a /\ (0 <= n -> List.length a = Z.to_nat n)) (take n).
Proof.
  intros n i v r Hb H. unfold take in H. destruct (blen i <? n) eqn:E; [discriminate|]. injection H as <- <-.
  repeat split; [apply bys_firstn; exact Hb| |apply bys_skipn; exact Hb].
  intros Hn. rewrite firstn_length. unfold blen in E. lia.
Qed.

Lemma of_be_bound : forall l, bys l -> 0 <= of_be l < 256 ^ Z.of_nat (List.length l).
Proof.
  intros l. induction l as [|x l IH] using rev_ind; intros H; [cbn; lia|].
  apply Forall_app in H. destruct H as [Hl Hx]. inversion Hx as [|? ? Hx0 _]; subst.
  rewrite of_be_app. specialize (IH Hl). rewrite app_length. cbn [List.length].
  replace (Z.of_nat (List.length l + 1)) with (Z.of_nat (List.length l) + 1) by lia.
  rewrite Z.pow_add_r by lia. lia.
Qed.

Lemma sound_expect_major : forall m, sound (fun a => 0 <= a < 32) (expect_major m).
Proof.
  intros m [|b i] v r Hb H; cbn in H; [discriminate|]. destruct (b / 32 =? m); [|discriminate].
  injection H as <- <-. inversion Hb; subst. split; [Z.div_mod_to_equations; lia|assumption].
Qed.

Ltac take_then n :=
  eapply sound_bind; [apply (sound_take n)|]; intros l Hll; cbv beta in Hll; destruct Hll as [Hl Hlen]; specialize (Hlen ltac:(lia));
  pose proof (of_be_bound l Hl) as Hof; rewrite Hlen in Hof; cbv zeta;
  apply sound_if; intros Hc; [apply sound_fail|apply sound_ret; cbv beta; cbn in Hof; lia].

Lemma sound_raw_u8 : forall m, sound (fun v => 0 <= v < 256) (raw_u8 m).
Proof.
  intros m. unfold raw_u8. eapply sound_bind; [apply sound_expect_major|]. intros a Ha. cbv beta in Ha |- *.
  apply sound_if; intros H1; [apply sound_ret; cbv beta; lia|].
  apply sound_if; intros H2; [|apply sound_fail]. take_then 1.
Qed.

Lemma sound_raw_u32 : forall m, sound (fun v => 0 <= v < 4294967296) (raw_u32 m).
Proof.
  intros m. unfold raw_u32. eapply sound_bind; [apply sound_expect_major|]. intros a Ha. cbv beta in Ha |- *.
  apply sound_if; intros H1; [apply sound_ret; cbv beta; lia|].
  apply sound_if; intros H2; [take_then 1|].
  apply sound_if; intros H3; [take_then 2|].
  apply sound_if; intros H4; [take_then 4|apply sound_fail].
Qed.

Lemma sound_raw_u64 : forall m, sound (fun v => 0 <= v < 18446744073709551616) (raw_u64 m).
Proof.
  intros m. unfold raw_u64. eapply sound_bind; [apply sound_expect_major|]. intros a Ha. cbv beta in Ha |- *.
  apply sound_if; intros H1; [apply sound_ret; cbv beta; lia|].
  apply sound_if; intros H2; [take_then 1|].
  apply sound_if; intros H3; [take_then 2|].
  apply sound_if; intros H4; [take_then 4|].
  apply sound_if; intros H5; [take_then 8|apply sound_fail].
Qed.

Lemma sound_raw_u16 : forall m, sound (fun v => 0 <= v < 65536) (raw_u16 m).
Proof.
  intros m. unfold raw_u16. eapply sound_bind; [apply sound_raw_u32|]. intros v Hv. cbv beta in Hv |- *.
  apply sound_if; intros H; [apply sound_ret; cbv beta; lia|apply sound_fail].
Qed.

Lemma sound_peek {A} (Q : A -> Prop) (g : Z -> bytes -> res (A * bytes)) :
  (forall m, sound Q (g m)) -> sound Q (fun i => m <- peek_major i ;; g m i).
Proof.
  intros G [|b i] v r Hb H; cbn [peek_major bind] in H; [discriminate|]. exact (G (b / 32) (b :: i) v r Hb H).
Qed.

(* ---------------------------------------------------------------- scalar decoders *)
Definition is_int (lo hi : Z) (v : val) : Prop := exists z, v = VZ z /\ lo <= z <= hi.

Lemma sound_dec_i8 : sound (is_int (-128) 127) dec_i8.
Proof.
  unfold dec_i8. apply sound_peek. intros m.
  apply sound_if; intros H0.
  - eapply sound_bind; [apply sound_raw_u8|]. intros v Hv. cbv beta in Hv |- *.
    apply sound_if; intros H1; [apply sound_ret; exists v; split; [reflexivity|lia]|apply sound_fail].
  - apply sound_if; intros H1; [|apply sound_fail].
    eapply sound_bind; [apply sound_raw_u8|]. intros v Hv. cbv beta in Hv |- *.
    apply sound_if; intros H2; [|apply sound_fail]. apply sound_ret.
    eexists. split; [reflexivity|]. destruct (v =? 128) eqn:E8; lia.
Qed.

Lemma sound_dec_i32 : sound (is_int (-2147483648) 2147483647) dec_i32.
Proof.
  unfold dec_i32. apply sound_peek. intros m. apply sound_if; intros H0; [|apply sound_fail].
  eapply sound_bind; [apply sound_raw_u32|]. intros v Hv. cbv beta in Hv |- *.
  apply sound_if; intros H1; [|apply sound_fail]. apply sound_ret.
  eexists. split; [reflexivity|]. destruct (m =? 0) eqn:E0; lia.
Qed.

Lemma sound_dec_bool : sound (fun v => exists b, v = VBool b) dec_bool.
Proof.
  intros i v r Hb H. unfold dec_bool in H.
  destruct (take 1 i) as [[l r0]| | |] eqn:E; cbn [bind] in H; try discriminate.
  destruct (sound_take 1 i l r0 Hb E) as [_ Hr0].
  destruct l as [|b0 [|b1 l]]; try discriminate.
  - destruct b0 as [|p|p]; try discriminate.
    repeat (destruct p as [p|p|]; try discriminate); injection H as <- <-; (split; [eexists; reflexivity|exact Hr0]).
  - destruct b0 as [|p|p]; try discriminate.
    repeat (destruct p as [p|p|]; try discriminate).
Qed.

Lemma sound_dec_unit : sound (fun v => v = VUnit) dec_unit.
Proof.
  intros [|b i] v r Hb H; cbn [dec_unit] in H; [discriminate|].
  destruct b as [|p|p]; try discriminate.
  repeat (destruct p as [p|p|]; try discriminate). injection H as <- <-. inversion Hb; subst. split; [reflexivity|assumption].
Qed.

Lemma sound_dec_bytes_raw : sound (fun _ => True) dec_bytes_raw.
Proof.
  unfold dec_bytes_raw. apply sound_peek. intros m. apply sound_if; intros H0.
  - eapply sound_bind; [apply sound_raw_u32|]. intros v Hv. apply sound_fail.
  - apply sound_if; intros H1; [|apply sound_fail].
    eapply sound_bind; [apply sound_raw_u32|]. intros n Hn.
    eapply sound_weaken; [|apply (sound_take n)]. intros a _. exact I.
Qed.

Lemma sound_dec_str_raw : sound (fun s => utf8_valid s = true) dec_str_raw.
Proof.
  unfold dec_str_raw. eapply sound_bind; [apply sound_raw_u32|]. intros n Hn.
  eapply sound_bind; [apply (sound_take n)|]. intros s Hs. cbv beta.
  apply sound_if; intros H; [apply sound_ret; exact H|apply sound_fail].
Qed.

Lemma sound_dec_bytes_cap : forall n, sound (fun b => blen b <= n) (dec_bytes_cap n).
Proof.
  intros n. unfold dec_bytes_cap. eapply sound_bind; [apply sound_dec_bytes_raw|]. intros b _. cbv beta.
  apply sound_if; intros H; [apply sound_fail|apply sound_ret; lia].
Qed.

(* ---------------------------------------------------------------- loops *)
Lemma sound_seq_loop : forall (P : val -> Prop) decf, sound P decf ->
  forall fuel n cap acc, Forall P acc -> blen acc <= Z.max 0 cap ->
  sound (fun l => Forall P l /\ blen l <= Z.max 0 cap) (seq_loop decf fuel n cap acc).
Proof.
  intros P decf D. induction fuel as [|k IH]; intros n cap acc Ha Hl i v r Hb H; cbn [seq_loop] in H.
  - destruct (n <=? 0); [|discriminate]. injection H as <- <-.
    repeat split; [apply Forall_rev; exact Ha|unfold blen in *; rewrite rev_length; exact Hl|exact Hb].
  - destruct (n <=? 0).
    + injection H as <- <-. repeat split; [apply Forall_rev; exact Ha|unfold blen in *; rewrite rev_length; exact Hl|exact Hb].
    + destruct (decf i) as [[v0 r0]| | |] eqn:E; cbn [bind] in H; try discriminate.
      destruct (D i v0 r0 Hb E) as [Pv Hr0].
      destruct (blen acc <? cap) eqn:Ec; [|discriminate].
      apply (IH (n - 1) cap (v0 :: acc) (Forall_cons _ Pv Ha) ltac:(rewrite blen_cons; lia) r0 v r Hr0 H).
Qed.

Lemma sound_fold_loop {St} : forall (P : val -> Prop) (I : St -> Prop) decf (step : St -> val -> St),
  sound P decf -> (forall a v, I a -> P v -> I (step a v)) ->
  forall fuel n acc, I acc -> sound I (fold_loop decf step fuel n acc).
Proof.
  intros P I decf step D S. induction fuel as [|k IH]; intros n acc Ha i v r Hb H; cbn [fold_loop] in H.
  - destruct (n <=? 0); [|discriminate]. injection H as <- <-. split; assumption.
  - destruct (n <=? 0); [injection H as <- <-; split; assumption|].
    destruct (decf i) as [[v0 r0]| | |] eqn:E; cbn [bind] in H; try discriminate.
    destruct (D i v0 r0 Hb E) as [Pv Hr0].
    apply (IH (n - 1) (step acc v0) (S acc v0 Ha Pv) r0 v r Hr0 H).
Qed.

(* ---------------------------------------------------------------- the skipper leaves bytes *)
Lemma take_bys : forall n i a r, take n i = Ok (a, r) -> bys i -> bys r.
Proof. intros n i a r H Hb. exact (proj2 (sound_take n i a r Hb H)). Qed.

Lemma ignore_head_bys : forall m bad i r, ignore_head m bad i = Ok r -> bys i -> bys r.
Proof.
  intros m bad i r H Hb. unfold ignore_head in H.
  destruct (expect_major m i) as [[a r0]| | |] eqn:E; cbn [bind] in H; try discriminate.
  pose proof (proj2 (sound_expect_major m i a r0 Hb E)) as Hr0.
  repeat match type of H with
         | (if ?c then _ else _) = _ => destruct c
         end; try discriminate; try (injection H as <-; exact Hr0);
    match type of H with
    | bind (take ?n ?x) _ = _ => destruct (take n x) as [[l r']| | |] eqn:T; cbn [bind] in H; try discriminate
    end; injection H as <-; exact (take_bys _ _ _ _ T Hr0).
Qed.

Lemma ignore_bytes_bys : forall m i r, ignore_bytes m i = Ok r -> bys i -> bys r.
Proof.
  intros m i r H Hb. unfold ignore_bytes in H.
  destruct (raw_u32 m i) as [[n r0]| | |] eqn:E; cbn [bind] in H; try discriminate.
  pose proof (proj2 (sound_raw_u32 m i n r0 Hb E)) as Hr0.
  destruct (take n r0) as [[l r']| | |] eqn:T; cbn [bind] in H; try discriminate.
  injection H as <-. exact (take_bys _ _ _ _ T Hr0).
Qed.

Lemma skip_bys : forall f,
  (forall i r, skip f i = Ok r -> bys i -> bys r) /\ (forall n i r, skip_n f n i = Ok r -> bys i -> bys r).
Proof.
  induction f as [|f [IHs IHn]]; split.
  - intros i r H. discriminate.
  - intros n i r H Hb. cbn [skip_n] in H. destruct (n <=? 0); [|discriminate]. injection H as <-. exact Hb.
  - intros i r H Hb. cbn [skip] in H. destruct i as [|b i]; [discriminate|].
    repeat match type of H with
           | (if ?c then _ else _) = _ => destruct c
           end; try discriminate.
    + exact (ignore_head_bys _ _ _ _ H Hb).
    + exact (ignore_bytes_bys _ _ _ H Hb).
    + destruct (raw_u32 4 (b :: i)) as [[n r0]| | |] eqn:E; cbn [bind] in H; try discriminate.
      exact (IHn _ _ _ H (proj2 (sound_raw_u32 4 _ _ _ Hb E))).
    + destruct (raw_u32 5 (b :: i)) as [[n r0]| | |] eqn:E; cbn [bind] in H; try discriminate.
      exact (IHn _ _ _ H (proj2 (sound_raw_u32 5 _ _ _ Hb E))).
    + destruct (ignore_head 6 BadU16 (b :: i)) as [r0| | |] eqn:E; cbn [bind] in H; try discriminate.
      exact (IHs _ _ H (ignore_head_bys _ _ _ _ E Hb)).
    + exact (ignore_head_bys _ _ _ _ H Hb).
  - intros n i r H Hb. cbn [skip_n] in H. destruct (n <=? 0); [injection H as <-; exact Hb|].
    destruct (skip f i) as [r0| | |] eqn:E; cbn [bind] in H; try discriminate.
    exact (IHn _ _ _ H (IHs _ _ E Hb)).
Qed.

Lemma skip_item_bys : forall i r, skip_item i = Ok r -> bys i -> bys r.
Proof. intros i r H Hb. exact (proj1 (skip_bys _) i r H Hb). Qed.

(* ---------------------------------------------------------------- record loops *)
Section RecordLoops.
  Variable M : field -> val -> Prop.
  Variable fs : list field.
  Definition J (acc : list (string * val)) : Prop :=
    forall l v, In (l, v) acc -> exists fd, In fd fs /\ f_label fd = l /\ M fd v.

  Lemma J_nil : J [].
  Proof. intros l v []. Qed.
  Lemma J_cons : forall fd v acc, In fd fs -> M fd v -> J acc -> J ((f_label fd, v) :: acc).
  Proof.
    intros fd v acc Hin Hm Ha l v0 [H|H]; [injection H as <- <-; exists fd; auto|apply Ha; exact H].
  Qed.

  Lemma sound_idx_loop : forall (decf : ty -> bytes -> res (val * bytes)),
    (forall fd, In fd fs -> sound (fun v => M fd (if f_opt fd then VSome v else v)) (decf (idx_member_ty fd))) ->
    forall fuel n acc, J acc -> sound J (idx_loop decf fs fuel n acc).
  Proof.
    intros decf D. induction fuel as [|k IH]; intros n acc Ha i v r Hb H; cbn [idx_loop] in H.
    - destruct (n <=? 0); [|discriminate]. injection H as <- <-. split; assumption.
    - destruct (n <=? 0); [injection H as <- <-; split; assumption|].
      destruct (raw_u64 0 i) as [[key r0]| | |] eqn:E; cbn [bind] in H; try discriminate.
      pose proof (proj2 (sound_raw_u64 0 i key r0 Hb E)) as Hr0.
      destruct (find_idx_field key fs) as [fd|] eqn:F; [|discriminate].
      destruct (rget (f_label fd) acc); [discriminate|].
      apply find_idx_field_in in F.
      change (if f_opt fd then inner_ty (f_ty fd) else f_ty fd) with (idx_member_ty fd) in H.
      destruct (decf (idx_member_ty fd) r0) as [[v0 r1]| | |] eqn:E1; cbn [bind] in H; try discriminate.
      destruct (D fd F r0 v0 r1 Hr0 E1) as [Hm Hr1].
      exact (IH (n - 1) _ (J_cons fd _ acc F Hm Ha) r1 v r Hr1 H).
  Qed.

  Lemma sound_txt_loop : forall (decf : ty -> bytes -> res (val * bytes)),
    (forall fd, In fd fs -> sound (M fd) (dec_with decf fd)) ->
    forall fuel n acc, J acc -> sound J (txt_loop decf fs fuel n acc).
  Proof.
    intros decf D. induction fuel as [|k IH]; intros n acc Ha i v r Hb H; cbn [txt_loop] in H.
    - destruct (n <=? 0); [|discriminate]. injection H as <- <-. split; assumption.
    - destruct (n <=? 0); [injection H as <- <-; split; assumption|].
      destruct i as [|b i]; [discriminate|]. cbn [peek_major bind] in H.
      match type of H with bind ?K _ = _ => destruct K as [[fo r0]| | |] eqn:EK end; cbn [bind] in H; try discriminate.
      assert (Hk : bys r0 /\ forall fd, fo = Some fd -> In fd fs).
      { destruct ((b / 32 =? 2) || (b / 32 =? 3)).
        - destruct (raw_u32 (b / 32) (b :: i)) as [[len r1]| | |] eqn:E1; cbn [bind] in EK; try discriminate.
          pose proof (proj2 (sound_raw_u32 _ _ _ _ Hb E1)) as Hr1.
          destruct (take len r1) as [[name r2]| | |] eqn:E2; cbn [bind] in EK; try discriminate.
          destruct (utf8_valid name); [|discriminate]. injection EK as <- <-.
          split; [exact (take_bys _ _ _ _ E2 Hr1)|]. intros fd F. apply find_txt_field_in in F. exact F.
        - destruct (b / 32 =? 0); [|discriminate].
          destruct (raw_u64 0 (b :: i)) as [[ix r1]| | |] eqn:E1; cbn [bind] in EK; try discriminate.
          injection EK as <- <-. split; [exact (proj2 (sound_raw_u64 _ _ _ _ Hb E1))|].
          intros fd F. destruct (ix <? blen fs); [|discriminate]. apply nth_error_In in F. exact F. }
      destruct Hk as [Hr0 Hfo].
      destruct fo as [fd|].
      + destruct (rget (f_label fd) acc); [discriminate|].
        destruct (dec_with decf fd r0) as [[v0 r1]| | |] eqn:E1; cbn [bind] in H; try discriminate.
        destruct (D fd (Hfo fd eq_refl) r0 v0 r1 Hr0 E1) as [Hm Hr1].
        exact (IH (n - 1) _ (J_cons fd _ acc (Hfo fd eq_refl) Hm Ha) r1 v r Hr1 H).
      + destruct (skip_item r0) as [r1| | |] eqn:E1; cbn [bind] in H; try discriminate.
        exact (IH (n - 1) acc Ha r1 v r (skip_item_bys _ _ E1 Hr0) H).
  Qed.
End RecordLoops.

Lemma finish_members_idx : forall (ok : field -> val -> bool) fs_all,
  NoDup (map f_label fs_all) -> (forall fd, ok fd VNone = true) ->
  forall fs acc rec_, (forall fd, In fd fs -> In fd fs_all) ->
  J (fun fd v => ok fd v = true) fs_all acc -> idx_finish fs acc = Ok rec_ -> members_within ok fs rec_ = true.
Proof.
  intros ok fs_all Hd Hnone. induction fs as [|fd fs IH]; intros acc rec_ Hsub HJ H; cbn [idx_finish] in H.
  - injection H as <-. reflexivity.
  - assert (Hsub' : forall x, In x fs -> In x fs_all) by (intros x Hx; apply Hsub; right; exact Hx).
    destruct (rget (f_label fd) acc) as [v|] eqn:Eg.
    + destruct (idx_finish fs acc) as [rest| | |] eqn:Ef; cbn [bind] in H; try discriminate. injection H as <-.
      cbn [members_within]. rewrite String.eqb_refl. rewrite (IH acc rest Hsub' HJ Ef).
      destruct (HJ _ _ (assoc_in _ _ _ Eg)) as [fd' [Hin' [El Hm]]].
      rewrite (label_unique fs_all fd' fd Hd Hin' (Hsub fd (or_introl eq_refl)) El) in Hm. rewrite Hm. reflexivity.
    + destruct (f_opt fd); [|discriminate].
      destruct (idx_finish fs acc) as [rest| | |] eqn:Ef; cbn [bind] in H; try discriminate. injection H as <-.
      cbn [members_within]. rewrite String.eqb_refl, Hnone, (IH acc rest Hsub' HJ Ef). reflexivity.
Qed.

Lemma finish_members_txt : forall (ok : field -> val -> bool) fs_all,
  NoDup (map f_label fs_all) -> (forall fd, ok fd VNone = true) ->
  forall fs acc rec_, (forall fd, In fd fs -> In fd fs_all) ->
  J (fun fd v => ok fd v = true) fs_all acc -> txt_finish fs acc = Ok rec_ -> members_within ok fs rec_ = true.
Proof.
  intros ok fs_all Hd Hnone. induction fs as [|fd fs IH]; intros acc rec_ Hsub HJ H; cbn [txt_finish] in H.
  - injection H as <-. reflexivity.
  - assert (Hsub' : forall x, In x fs -> In x fs_all) by (intros x Hx; apply Hsub; right; exact Hx).
    destruct (rget (f_label fd) acc) as [v|] eqn:Eg.
    + destruct (txt_finish fs acc) as [rest| | |] eqn:Ef; cbn [bind] in H; try discriminate. injection H as <-.
      cbn [members_within]. rewrite String.eqb_refl. rewrite (IH acc rest Hsub' HJ Ef).
      destruct (HJ _ _ (assoc_in _ _ _ Eg)) as [fd' [Hin' [El Hm]]].
      rewrite (label_unique fs_all fd' fd Hd Hin' (Hsub fd (or_introl eq_refl)) El) in Hm. rewrite Hm. reflexivity.
    + destruct (f_opt fd); [|discriminate].
      destruct (txt_finish fs acc) as [rest| | |] eqn:Ef; cbn [bind] in H; try discriminate. injection H as <-.
      cbn [members_within]. rewrite String.eqb_refl, Hnone, (IH acc rest Hsub' HJ Ef). reflexivity.
Qed.

Lemma member_none : forall wf ix fd, member_within wf ix fd VNone = true.
Proof. reflexivity. Qed.

Lemma lookup_tryfrom_in : forall s tf v, lookup_tryfrom s tf = Some v -> In v (map snd tf).
Proof.
  intros s tf. induction tf as [|[sp x] tf IH]; intros v H; [discriminate|]. cbn [lookup_tryfrom] in H.
  destruct (bytes_eqb s (bytes_of_string sp)); [injection H as <-; left; reflexivity|right; apply IH; exact H].
Qed.
Lemma variant_of_discr_in : forall z vs v, variant_of_discr z vs = Some v -> In v (map fst vs).
Proof.
  intros z vs. induction vs as [|[n d] vs IH]; intros v H; [discriminate|]. cbn [variant_of_discr] in H.
  destruct (d =? z); [injection H as <-; left; reflexivity|right; apply IH; exact H].
Qed.
Lemma in_smem : forall x l, In x l -> smem x l = true.
Proof. intros x l H. unfold smem. apply existsb_exists. exists x. split; [exact H|apply String.eqb_refl]. Qed.

(* ---------------------------------------------------------------- cosey *)
Lemma sound_cose_next_key : forall len, sound (fun _ => True) (cose_next_key len).
Proof.
  intros len. unfold cose_next_key. apply sound_if; intros H; [apply sound_ret; exact I|].
  eapply sound_bind; [apply sound_dec_i8|]. intros v _. destruct v; try apply sound_panic. apply sound_ret. exact I.
Qed.

Lemma sound_dec_repr_i8 : forall allowed, sound (fun _ => True) (dec_repr_i8 allowed).
Proof.
  intros allowed. unfold dec_repr_i8. eapply sound_bind; [apply sound_dec_i8|]. intros v _.
  destruct v; try apply sound_panic. apply sound_if; intros H; [apply sound_ret; exact I|apply sound_fail].
Qed.

Lemma sound_cose_step {A} (Px : A -> Prop) : forall cond (decv : bytes -> res (A * bytes)) k len,
  sound Px decv ->
  sound (fun t : option A * ckey * Z => forall x, fst (fst t) = Some x -> Px x) (cose_step cond decv k len).
Proof.
  intros cond decv k len D. unfold cose_step. destruct cond.
  - eapply sound_bind; [exact D|]. intros v Pv.
    eapply sound_bind; [apply sound_cose_next_key|]. intros [k' len'] _. apply sound_ret.
    intros x Hx. cbn in Hx. injection Hx as <-. exact Pv.
  - apply sound_ret. intros x Hx. discriminate.
Qed.

Lemma sound_dec_rawkey :
  sound (fun k => (forall x, rk_x k = Some x -> blen x <= 32) /\ (forall y, rk_y k = Some y -> blen y <= 32)) dec_rawkey.
Proof.
  intros i kk r Hb H. unfold dec_rawkey in H.
  destruct (raw_u32 5 i) as [[len r0]| | |] eqn:E0; cbn [bind] in H; try discriminate.
  pose proof (proj2 (sound_raw_u32 5 i len r0 Hb E0)) as B0.
  destruct (cose_next_key len r0) as [[[k0 len0] r1]| | |] eqn:E1; cbn [bind] in H; try discriminate.
  pose proof (proj2 (sound_cose_next_key len r0 _ r1 B0 E1)) as B1.
  change (if is_label k0 1 then _ else _) with (cose_step (is_label k0 1) (dec_repr_i8 [1; 2; 4]) k0 len0 r1) in H.
  destruct (cose_step (is_label k0 1) (dec_repr_i8 [1; 2; 4]) k0 len0 r1) as [[[[kty k1] len1] r2]| | |] eqn:S1; cbn [bind] in H; try discriminate.
  pose proof (proj2 (sound_cose_step _ _ _ _ _ (sound_dec_repr_i8 _) r1 _ r2 B1 S1)) as B2.
  change (if is_label k1 3 then _ else _) with (cose_step (is_label k1 3) (dec_repr_i8 [-7; -8; -9; -25]) k1 len1 r2) in H.
  destruct (cose_step (is_label k1 3) (dec_repr_i8 [-7; -8; -9; -25]) k1 len1 r2) as [[[[alg k2] len2] r3]| | |] eqn:S2; cbn [bind] in H; try discriminate.
  pose proof (proj2 (sound_cose_step _ _ _ _ _ (sound_dec_repr_i8 _) r2 _ r3 B2 S2)) as B3.
  change (if is_label k2 (-1) then _ else _) with (cose_step (is_label k2 (-1)) (dec_repr_i8 [0; 1; 4; 6]) k2 len2 r3) in H.
  destruct (cose_step (is_label k2 (-1)) (dec_repr_i8 [0; 1; 4; 6]) k2 len2 r3) as [[[[crv k3] len3] r4]| | |] eqn:S3; cbn [bind] in H; try discriminate.
  pose proof (proj2 (sound_cose_step _ _ _ _ _ (sound_dec_repr_i8 _) r3 _ r4 B3 S3)) as B4.
  change (if is_label k3 (-2) then _ else _) with (cose_step (is_label k3 (-2)) (dec_bytes_cap 32) k3 len3 r4) in H.
  destruct (cose_step (is_label k3 (-2)) (dec_bytes_cap 32) k3 len3 r4) as [[[[x k4] len4] r5]| | |] eqn:S4; cbn [bind] in H; try discriminate.
  destruct (sound_cose_step _ _ _ _ _ (sound_dec_bytes_cap 32) r4 _ r5 B4 S4) as [Px B5].
  change (if is_label k4 (-3) then _ else _) with (cose_step (is_label k4 (-3)) (dec_bytes_cap 32) k4 len4 r5) in H.
  destruct (cose_step (is_label k4 (-3)) (dec_bytes_cap 32) k4 len4 r5) as [[[[y k5] len5] r6]| | |] eqn:S5; cbn [bind] in H; try discriminate.
  destruct (sound_cose_step _ _ _ _ _ (sound_dec_bytes_cap 32) r5 _ r6 B5 S5) as [Py B6].
  cbn [fst] in Px, Py.
  destruct k5; try discriminate; injection H as <- <-; cbn [rk_x rk_y]; repeat split; assumption.
Qed.

Definition ecdh_within (v : val) : Prop :=
  exists x y, v = VRec [("x", VBytes x); ("y", VBytes y)] /\ blen x <= 32 /\ blen y <= 32.

Lemma sound_dec_cose_ecdh : sound ecdh_within dec_cose_ecdh.
Proof.
  unfold dec_cose_ecdh. eapply sound_bind; [apply sound_dec_rawkey|]. intros k [Hx Hy]. cbv beta.
  destruct (rk_kty k); [|apply sound_fail].
  repeat match goal with
         | |- sound _ (fun r => if ?c then _ else _) => apply sound_if; intros ?
         | |- sound _ (fun r => match ?o with Some _ => _ | None => _ end) => destruct o eqn:?
         | |- sound _ (fun _ => Err _) => apply sound_fail
         end.
  apply sound_ret. eexists; eexists. split; [reflexivity|]. split; [apply Hx|apply Hy]; reflexivity.
Qed.

(* ---------------------------------------------------------------- deserialize_with members *)
Lemma within_strref : forall e k v, within e k TStrRef v = true -> exists s, v = VStr s /\ utf8_valid s = true.
Proof.
  intros e k v H. destruct k as [|k]; [discriminate|]. cbn [within] in H.
  destruct v; try discriminate. eexists. split; [reflexivity|exact H].
Qed.

Lemma within_opt_strref : forall e k v, within e k (TOpt TStrRef) v = true ->
  v = VNone \/ exists s, v = VSome (VStr s) /\ utf8_valid s = true.
Proof.
  intros e k v H. destruct k as [|k]; [discriminate|]. cbn [within] in H.
  destruct v as [ | | | | | |w| | | | ]; try discriminate; [left; reflexivity|right].
  destruct (within_strref e k w H) as [s [-> Hs]]. exists s. split; [reflexivity|exact Hs].
Qed.

Lemma sound_dec_with : forall e k fs fd,
  txt_field_wf fs fd = true ->
  (forall t, sound (fun v => within e k t v = true) (dec e k t)) ->
  sound (fun v => member_within (within e k) false fd v = true) (dec_with (dec e k) fd).
Proof.
  intros e k fs fd Wf IH. unfold dec_with, member_within.
  unfold txt_field_wf in Wf. apply andb_prop in Wf. destruct Wf as [_ Wf].
  destruct (f_with fd) as [w|] eqn:Ew.
  - repeat (apply andb_prop in Wf; destruct Wf as [Wf ?]).
    destruct (f_ty fd) as [ | | | | | | | | | | | | | | | | | | |u| | | | ] eqn:Et; try discriminate.
    destruct u as [ | | | | | | | | | | | | | | | | |n| | | | | | ]; try discriminate.
    cbn [str_cap].
    destruct (String.eqb w "deserialize_from_str_and_truncate").
    + eapply sound_bind; [apply IH|]. intros v Hv. cbv beta in Hv.
      destruct (within_opt_strref e k v Hv) as [->|[s [-> Hs]]]; [apply sound_ret; reflexivity|].
      apply utf8_valid_iff in Hs.
      destruct (truncate_spec s Hs n ltac:(lia)) as [j [Ht [_ [_ [Hw [Hl _]]]]]].
      rewrite Ht. cbn [bind]. apply sound_ret. cbn [str_within]. apply utf8_valid_iff in Hw. rewrite Hw. cbn [andb]. lia.
    + destruct (String.eqb w "deserialize_from_str_and_skip_if_too_long"); [|apply sound_panic].
      eapply sound_bind; [apply IH|]. intros v Hv. cbv beta in Hv.
      destruct (within_strref e k v Hv) as [s [-> Hs]].
      apply sound_if; intros Hc; [apply sound_ret; cbn [str_within]; rewrite Hs; cbn [andb]; exact Hc|].
      unfold skip_long_panics. apply sound_ret. reflexivity.
  - eapply sound_weaken; [|apply IH]. intros v Hv. cbv beta in Hv. destruct v; try reflexivity; exact Hv.
Qed.

(* ---------------------------------------------------------------- the theorem *)
Theorem dec_within : forall e, env_rt e = true -> forall k t, sound (fun v => within e k t v = true) (dec e k t).
Proof.
  intros e He. induction k as [|k IH]; intros t; [intros i v r _ H; discriminate|].
  destruct t as [ | | | | | | | | | |n|n|n|n|n| | |n|u n|u|u|name|name|name];
    try (intros i v r _ H; discriminate H).
  - (* u8 *) cbn [dec]. eapply sound_bind; [apply sound_raw_u8|]. intros v Hv. cbv beta in Hv. apply sound_ret. cbn [within]. lia.
  - cbn [dec]. eapply sound_bind; [apply sound_raw_u16|]. intros v Hv. cbv beta in Hv. apply sound_ret. cbn [within]. lia.
  - cbn [dec]. eapply sound_bind; [apply sound_raw_u32|]. intros v Hv. cbv beta in Hv. apply sound_ret. cbn [within]. lia.
  - cbn [dec]. eapply sound_bind; [apply sound_raw_u64|]. intros v Hv. cbv beta in Hv. apply sound_ret. cbn [within]. lia.
  - cbn [dec]. eapply sound_bind; [apply sound_raw_u64|]. intros v Hv. cbv beta in Hv. apply sound_ret. cbn [within]. lia.
  - (* i8 *) cbn [dec]. eapply sound_weaken; [|apply sound_dec_i8]. intros v [z [-> Hz]]. cbn [within]. lia.
  - cbn [dec]. eapply sound_weaken; [|apply sound_dec_i32]. intros v [z [-> Hz]]. cbn [within]. lia.
  - cbn [dec]. eapply sound_weaken; [|apply sound_dec_bool]. intros v [b ->]. reflexivity.
  - cbn [dec]. eapply sound_weaken; [|apply sound_dec_unit]. intros v ->. reflexivity.
  - (* &Bytes *) cbn [dec]. eapply sound_bind; [apply sound_dec_bytes_raw|]. intros b _. apply sound_ret. reflexivity.
  - cbn [dec]. eapply sound_bind; [apply sound_dec_bytes_cap|]. intros b Hb. cbv beta in Hb. apply sound_ret. cbn [within]. lia.
  - cbn [dec]. eapply sound_bind; [apply sound_dec_bytes_raw|]. intros b _. cbv beta.
    apply sound_if; intros Hc; [apply sound_ret; cbn [within]; exact Hc|apply sound_fail].
  - (* &str *) cbn [dec]. eapply sound_bind; [apply sound_dec_str_raw|]. intros s Hs. apply sound_ret. exact Hs.
  - cbn [dec]. eapply sound_bind; [apply sound_dec_str_raw|]. intros s Hs. cbv beta in Hs |- *.
    apply sound_if; intros Hc; [apply sound_fail|apply sound_ret; cbn [within]; rewrite Hs; cbn [andb]; lia].
  - (* Vec *)
    cbn [dec]. eapply sound_bind; [apply sound_raw_u32|]. intros cnt _. cbv beta.
    intros r0 v r Hb H.
    destruct (seq_loop (dec e k u) (S (List.length r0)) cnt n [] r0) as [[l r1]| | |] eqn:E; cbn [bind] in H; try discriminate.
    injection H as <- <-.
    destruct (sound_seq_loop (fun x => within e k u x = true) (dec e k u) (IH u) _ cnt n [] (Forall_nil _)
                ltac:(change (blen (@nil val)) with 0; lia) r0 l r1 Hb E) as [[Hall Hlen] Hr1].
    split; [|exact Hr1]. cbn [within]. apply andb_true_intro. split; [lia|].
    apply forallb_forall. intros x Hx. rewrite Forall_forall in Hall. exact (Hall x Hx).
  - (* Option *)
    intros i v r Hb H. rewrite dec_opt_cases in H. destruct i as [|b i]; [discriminate|].
    destruct (b =? 246).
    + injection H as <- <-. inversion Hb; subst. split; [reflexivity|assumption].
    + destruct (dec e k u (b :: i)) as [[v0 r0]| | |] eqn:E; cbn [bind] in H; try discriminate.
      injection H as <- <-. destruct (IH u (b :: i) v0 r0 Hb E) as [Hv Hr]. split; [exact Hv|exact Hr].
  - (* named *)
    cbn [dec]. destruct (lookup e name) as [d|] eqn:L; [|apply sound_panic].
    pose proof (env_rt_lookup e name d He L) as D.
    destruct d as [ix sr de fs|sr de into tf|repr sr de vs|sr vs|kind sr de params|]; try apply sound_panic.
    + destruct ix.
      * cbn [decl_rt] in D. apply andb_prop in D. destruct D as [D _]. apply andb_prop in D. destruct D as [_ Dl].
        apply nodup_s_ok in Dl.
        eapply sound_bind; [apply sound_raw_u32|]. intros cnt _. cbv beta.
        intros r0 v r Hb H.
        destruct (idx_loop (dec e k) fs (S (List.length r0)) cnt [] r0) as [[acc r1]| | |] eqn:E; cbn [bind] in H; try discriminate.
        destruct (idx_finish fs acc) as [rec_| | |] eqn:Ef; cbn [bind] in H; try discriminate. injection H as <- <-.
        destruct (sound_idx_loop (fun fd x => member_within (within e k) true fd x = true) fs (dec e k)) with
          (fuel := S (List.length r0)) (n := cnt) (acc := @nil (string * val)) (i := r0) (v := acc) (r := r1) as [HJ Hr1];
          try assumption; [|apply J_nil|].
        { intros fd Hin. eapply sound_weaken; [|apply IH]. intros x Hx. cbv beta in Hx. unfold member_within, idx_member_ty in *.
          destruct (f_opt fd); [exact Hx|]. destruct x; try reflexivity; exact Hx. }
        split; [|exact Hr1]. cbn [within]. rewrite L.
        apply (finish_members_idx (member_within (within e k) true) fs Dl (member_none _ _) fs acc rec_ (fun _ h => h) HJ Ef).
      * cbn [decl_rt] in D. apply andb_prop in D. destruct D as [D _]. apply andb_prop in D. destruct D as [Dwf Dl].
        apply nodup_s_ok in Dl. rewrite forallb_forall in Dwf.
        eapply sound_bind; [apply sound_raw_u32|]. intros cnt _. cbv beta.
        intros r0 v r Hb H.
        destruct (txt_loop (dec e k) fs (S (List.length r0)) cnt [] r0) as [[acc r1]| | |] eqn:E; cbn [bind] in H; try discriminate.
        destruct (txt_finish fs acc) as [rec_| | |] eqn:Ef; cbn [bind] in H; try discriminate. injection H as <- <-.
        destruct (sound_txt_loop (fun fd x => member_within (within e k) false fd x = true) fs (dec e k)) with
          (fuel := S (List.length r0)) (n := cnt) (acc := @nil (string * val)) (i := r0) (v := acc) (r := r1) as [HJ Hr1];
          try assumption; [|apply J_nil|].
        { intros fd Hin. apply (sound_dec_with e k fs fd (Dwf fd Hin) IH). }
        split; [|exact Hr1]. cbn [within]. rewrite L.
        apply (finish_members_txt (member_within (within e k) false) fs Dl (member_none _ _) fs acc rec_ (fun _ h => h) HJ Ef).
    + (* string enum *)
      eapply sound_bind; [apply sound_dec_str_raw|]. intros s _. cbv beta.
      destruct (lookup_tryfrom s tf) as [vn|] eqn:Et; [|apply sound_fail].
      apply sound_ret. cbn [within]. rewrite L. apply in_smem. apply (lookup_tryfrom_in s tf vn Et).
    + (* numeric enum *)
      eapply sound_bind; [destruct (String.eqb repr "u8"); [apply sound_raw_u8|apply sound_panic]|]. intros z _. cbv beta.
      destruct (variant_of_discr z vs) as [vn|] eqn:Ev; [|apply sound_fail].
      apply sound_ret. cbn [within]. rewrite L. apply in_smem. apply (variant_of_discr_in z vs vn Ev).
    + (* custom *)
      destruct (String.eqb kind "webauthn::Icon") eqn:Ei.
      { eapply sound_bind; [apply sound_dec_str_raw|]. intros s _. apply sound_ret. cbn [within]. rewrite L, Ei. reflexivity. }
      destruct (String.eqb kind "webauthn::FilteredPublicKeyCredentialParameters") eqn:Ef.
      { eapply sound_bind; [apply sound_raw_u32|]. intros cnt _. cbv beta zeta.
        intros r0 v r Hb H.
        match type of H with bind (fold_loop ?dd ?st ?fu ?nn ?ac0 r0) _ = _ =>
          destruct (fold_loop dd st fu nn ac0 r0) as [[acc r1]| | |] eqn:E; cbn [bind] in H; try discriminate;
          destruct (sound_fold_loop (fun x => within e k (TNamed n_PKCP) x = true)
                      (fun a : list val => blen a <= Z.max 0 (hd 0 params) /\
                         forallb (fun kp => match kp with VRec [("alg", VZ zz)] => zmem zz (tl params) | _ => false end) a = true)
                      dd st (IH (TNamed n_PKCP))) with (fuel := fu) (n := nn) (acc := ac0) (i := r0) (v := acc) (r := r1) as [[Hlen Hall] Hr1];
            try assumption end.
        - intros a x [Hl Ha] _. unfold known_param.
          destruct x as [ | | | | | | | |xs| | ]; try (split; assumption).
          destruct (rget "alg" xs) as [[za| | | | | | | | | | ]|]; try (split; assumption).
          destruct (rget "key_type" xs) as [[ | |kt| | | | | | | | ]|]; try (split; assumption).
          destruct (negb (bytes_eqb kt (bytes_of_string "public-key"))); [split; assumption|].
          destruct (zmem za (tl params)) eqn:Ez; [|split; assumption].
          destruct (blen a <? hd 0 params) eqn:Ec; [|split; assumption].
          split; [rewrite blen_app; change (blen [VRec [("alg", VZ za)]]) with 1; lia|].
          rewrite forallb_app, Ha. cbn [forallb]. rewrite Ez. reflexivity.
        - split; [change (blen (@nil val)) with 0; lia|reflexivity].
        - injection H as <- <-. split; [|exact Hr1]. cbn [within]. rewrite L, Ei, Ef.
          apply andb_true_intro. split; [lia|exact Hall]. }
      destruct (String.eqb kind "ctap2::AttestationFormatsPreference") eqn:Ea.
      { eapply sound_bind; [apply sound_raw_u32|]. intros cnt _. cbv beta zeta.
        intros r0 v r Hb H.
        match type of H with bind (fold_loop ?dd ?st ?fu ?nn ?ac0 r0) _ = _ =>
          destruct (fold_loop dd st fu nn ac0 r0) as [[acc r1]| | |] eqn:E; cbn [bind] in H; try discriminate;
          destruct (sound_fold_loop (fun x => within e k TStrRef x = true)
                      (fun a : list val * bool => blen (fst a) <= 2 /\
                         forallb (fun x => match x with VEnum _ => true | _ => false end) (fst a) = true)
                      dd st (IH TStrRef)) with (fuel := fu) (n := nn) (acc := ac0) (i := r0) (v := acc) (r := r1) as [[Hlen Hall] Hr1];
            try assumption end.
        - intros a x [Hl Ha] _. destruct x; try (split; assumption).
          match goal with |- context [lookup_tryfrom ?s ?tf] => destruct (lookup_tryfrom s tf) end; cbn [fst snd]; [|split; assumption].
          destruct (blen (fst a) <? 2) eqn:Ec; [|split; assumption].
          split; [rewrite blen_app; change (blen [VEnum s]) with 1; lia|].
          rewrite forallb_app, Ha. reflexivity.
        - split; [cbn; lia|reflexivity].
        - injection H as <- <-. split; [|exact Hr1]. cbn [within]. rewrite L, Ei, Ef, Ea.
          apply andb_true_intro. split; [lia|exact Hall]. }
      destruct (String.eqb kind "ext::EcdhEsHkdf256PublicKey") eqn:Ee; [|apply sound_panic].
      eapply sound_weaken; [|apply sound_dec_cose_ecdh]. intros v [x [y [-> [Hx Hy]]]].
      cbn [within]. rewrite L, Ei, Ef, Ea, Ee. lia.
Qed.

Lemma decode_unfold : forall e t i, decode e t i = dec e type_fuel t i.
Proof. reflexivity. Qed.

Corollary decode_within : forall e t i v r, env_rt e = true -> bys i ->
  decode e t i = Ok (v, r) -> within e type_fuel t v = true.
Proof.
  intros e t i v r He Hb H. rewrite decode_unfold in H.
  destruct (dec_within e He type_fuel t i v r Hb H) as [W _]. exact W.
Qed.
