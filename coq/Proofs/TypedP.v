(* Lemmas about the typed decoder (Model/Typed.v). *)
From Ctap Require Import Base Schema Wire Utf8 Typed CborItem WireP SkipP.
From Coq Require Import Lia.
Local Open Scope Z_scope.

Lemma peek_major_put_head : forall maj v r, 0 <= maj < 8 -> 0 <= v ->
  peek_major (put_head maj v ++ r) = Ok maj.
Proof.
  intros maj v r Hm Hv. destruct (put_head_first maj v Hm Hv) as [b [rest [E Eb]]].
  rewrite E. cbn. rewrite Eb. reflexivity.
Qed.

(* One iteration of the text-keyed map loop on an UNKNOWN text key: the value (any well-formed item)
   is skipped, nothing is recorded, and decoding continues right behind it. *)
Lemma txt_loop_skip_unknown :
  forall decf fs k n acc name c rest,
    0 < n -> blen name < 4294967296 -> utf8_valid name = true ->
    find_txt_field name fs = None -> iwf c ->
    txt_loop decf fs (S k) n acc (ser_text name ++ ienc c ++ rest)
    = txt_loop decf fs k (n - 1) acc rest.
Proof.
  intros decf fs k n acc name c rest Hn Hlen Hutf Hfind Hwf.
  cbn [txt_loop]. destruct (n <=? 0) eqn:E; [apply Z.leb_le in E; lia|].
  unfold ser_text. rewrite <- app_assoc.
  rewrite peek_major_put_head by (try lia; apply blen_nonneg). cbn [bind].
  cbn [Z.eqb Pos.eqb orb].
  rewrite raw_u32_put_head by (pose proof (blen_nonneg name); lia). cbn [bind].
  rewrite take_app. cbn [bind]. rewrite Hutf, Hfind. cbn [bind].
  rewrite skip_item_enc by exact Hwf. cbn [bind]. reflexivity.
Qed.

(* ---- exact capacities of the leaf types: accepted up to the capacity and returned verbatim,
   rejected (never clamped or wrapped) beyond it *)
Lemma dec_bytes_raw_ser : forall b r, blen b < 4294967296 ->
  dec_bytes_raw (ser_bytes b ++ r) = Ok (b, r).
Proof.
  intros b r Hb. unfold dec_bytes_raw, ser_bytes. rewrite <- app_assoc.
  rewrite peek_major_put_head by (try lia; apply blen_nonneg). cbn [bind].
  cbn [Z.eqb Pos.eqb].
  rewrite raw_u32_put_head by (pose proof (blen_nonneg b); lia). cbn [bind].
  apply take_app.
Qed.

Lemma dec_bytes_cap_exact : forall e k n b r, blen b < 4294967296 ->
  dec e (S k) (TBytesCap n) (ser_bytes b ++ r) =
    if n <? blen b then Err SerdeDeCustom else Ok (VBytes b, r).
Proof.
  intros e k n b r Hb. cbn [dec]. unfold dec_bytes_cap. rewrite dec_bytes_raw_ser by exact Hb.
  cbn [bind]. destruct (n <? blen b); reflexivity.
Qed.

Lemma dec_bytesref_exact : forall e k b r, blen b < 4294967296 ->
  dec e (S k) TBytesRef (ser_bytes b ++ r) = Ok (VBytes b, r).
Proof. intros e k b r Hb. cbn [dec]. rewrite dec_bytes_raw_ser by exact Hb. reflexivity. Qed.

Lemma dec_bytearrref_exact : forall e k n b r, blen b < 4294967296 ->
  dec e (S k) (TByteArrRef n) (ser_bytes b ++ r) =
    if blen b =? n then Ok (VBytes b, r) else Err SerdeDeCustom.
Proof.
  intros e k n b r Hb. cbn [dec]. rewrite dec_bytes_raw_ser by exact Hb. cbn [bind]. reflexivity.
Qed.

Lemma dec_str_raw_ser : forall s r, blen s < 4294967296 ->
  dec_str_raw (ser_text s ++ r) = if utf8_valid s then Ok (s, r) else Err BadUtf8.
Proof.
  intros s r Hs. unfold dec_str_raw, ser_text. rewrite <- app_assoc.
  rewrite raw_u32_put_head by (pose proof (blen_nonneg s); lia). cbn [bind].
  rewrite take_app. cbn [bind]. reflexivity.
Qed.

Lemma dec_strcap_exact : forall e k n s r, blen s < 4294967296 -> utf8_valid s = true ->
  dec e (S k) (TStrCap n) (ser_text s ++ r) =
    if n <? blen s then Err SerdeDeCustom else Ok (VStr s, r).
Proof.
  intros e k n s r Hs Hu. cbn [dec]. rewrite dec_str_raw_ser by exact Hs. rewrite Hu. cbn [bind].
  destruct (n <? blen s); reflexivity.
Qed.

Lemma dec_strref_exact : forall e k s r, blen s < 4294967296 ->
  dec e (S k) TStrRef (ser_text s ++ r) = if utf8_valid s then Ok (VStr s, r) else Err BadUtf8.
Proof.
  intros e k s r Hs. cbn [dec]. rewrite dec_str_raw_ser by exact Hs.
  destruct (utf8_valid s); reflexivity.
Qed.

(* integers: in-range values come back as they are; the next larger one is rejected *)
Lemma dec_u8_exact : forall e k v r, 0 <= v < 18446744073709551616 ->
  dec e (S k) TU8 (put_head 0 v ++ r) = if v <=? 255 then Ok (VZ v, r) else Err BadU8.
Proof.
  intros e k v r Hv. cbn [dec].
  destruct (v <=? 255) eqn:E.
  - apply Z.leb_le in E. rewrite raw_u8_put_head by lia. reflexivity.
  - apply Z.leb_gt in E. unfold put_head.
    destruct (v <=? 23) eqn:E0; [apply Z.leb_le in E0; lia|].
    destruct (v <=? 255) eqn:E1; [apply Z.leb_le in E1; lia|].
    unfold raw_u8.
    destruct (v <=? 65535); [|destruct (v <=? 4294967295)];
      rewrite <- app_comm_cons; rewrite expect_major_head by lia; cbn [bind]; reflexivity.
Qed.

Lemma dec_u32_exact : forall e k v r, 0 <= v < 18446744073709551616 ->
  dec e (S k) TU32 (put_head 0 v ++ r) = if v <=? 4294967295 then Ok (VZ v, r) else Err BadU32.
Proof.
  intros e k v r Hv. cbn [dec].
  destruct (v <=? 4294967295) eqn:E.
  - apply Z.leb_le in E. rewrite raw_u32_put_head by lia. reflexivity.
  - apply Z.leb_gt in E. unfold put_head.
    destruct (v <=? 23) eqn:E0; [apply Z.leb_le in E0; lia|].
    destruct (v <=? 255) eqn:E1; [apply Z.leb_le in E1; lia|].
    destruct (v <=? 65535) eqn:E2; [apply Z.leb_le in E2; lia|].
    destruct (v <=? 4294967295) eqn:E3; [apply Z.leb_le in E3; lia|].
    unfold raw_u32. rewrite <- app_comm_cons. rewrite expect_major_head by lia. cbn [bind]. reflexivity.
Qed.

Lemma dec_u64_exact : forall e k v r, 0 <= v < 18446744073709551616 ->
  dec e (S k) TU64 (put_head 0 v ++ r) = Ok (VZ v, r) /\ dec e (S k) TUsize (put_head 0 v ++ r) = Ok (VZ v, r).
Proof. intros e k v r Hv. cbn [dec]. rewrite raw_u64_put_head by lia. split; reflexivity. Qed.

(* i32: both signs, full range, nothing clamped *)
Lemma dec_i32_exact : forall e k z r, -2147483648 <= z <= 2147483647 ->
  dec e (S k) TI32 (ser_int z ++ r) = Ok (VZ z, r).
Proof.
  intros e k z r Hz. cbn [dec]. unfold dec_i32, ser_int.
  destruct (0 <=? z) eqn:E.
  - apply Z.leb_le in E. rewrite peek_major_put_head by lia. cbn [bind]. cbn [Z.leb].
    rewrite raw_u32_put_head by lia. cbn [bind].
    destruct (z <=? 2147483647) eqn:E1; [|apply Z.leb_gt in E1; lia]. reflexivity.
  - apply Z.leb_gt in E. rewrite peek_major_put_head by lia. cbn [bind]. cbn [Z.leb].
    rewrite raw_u32_put_head by lia. cbn [bind].
    destruct (-1 - z <=? 2147483647) eqn:E1; [|apply Z.leb_gt in E1; lia].
    change (1 =? 0) with false. cbv iota. replace (-1 - (-1 - z)) with z by lia. reflexivity.
Qed.

Lemma dec_i32_out_of_range : forall e k z r, 2147483647 < z < 4294967296 ->
  dec e (S k) TI32 (ser_int z ++ r) = Err BadI32 /\
  dec e (S k) TI32 (ser_int (-1 - z) ++ r) = Err BadI32.
Proof.
  intros e k z r Hz. cbn [dec]. unfold dec_i32, ser_int. split.
  - destruct (0 <=? z) eqn:E; [|apply Z.leb_gt in E; lia].
    rewrite peek_major_put_head by lia. cbn [bind]. cbn [Z.leb].
    rewrite raw_u32_put_head by lia. cbn [bind].
    destruct (z <=? 2147483647) eqn:E1; [apply Z.leb_le in E1; lia|reflexivity].
  - destruct (0 <=? -1 - z) eqn:E; [apply Z.leb_le in E; lia|].
    replace (-1 - (-1 - z)) with z by lia.
    rewrite peek_major_put_head by lia. cbn [bind]. cbn [Z.leb].
    rewrite raw_u32_put_head by lia. cbn [bind].
    destruct (z <=? 2147483647) eqn:E1; [apply Z.leb_le in E1; lia|reflexivity].
Qed.
