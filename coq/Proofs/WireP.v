(* Wire-level lemmas: big-endian, head round trip, reader/skipper never run out of fuel or panic. *)
From Ctap Require Import Base Wire.
From Coq Require Import Lia.
Local Open Scope Z_scope.

Ltac Zify.zify_post_hook ::= Z.div_mod_to_equations.

Lemma blen_app {A} (a b : list A) : blen (a ++ b) = blen a + blen b.
Proof. unfold blen. rewrite app_length. lia. Qed.

Lemma blen_nonneg {A} (a : list A) : 0 <= blen a.
Proof. unfold blen. lia. Qed.

Lemma blen_cons {A} (x : A) (a : list A) : blen (x :: a) = 1 + blen a.
Proof. unfold blen. cbn [List.length]. lia. Qed.

(* ---- big endian *)
Lemma be_length : forall n v, List.length (be n v) = n.
Proof. induction n as [|n IH]; intros v; cbn [be]; [reflexivity|]. rewrite app_length, IH. cbn. lia. Qed.

Lemma of_be_app : forall a b, of_be (a ++ [b]) = of_be a * 256 + b.
Proof. intros a b. unfold of_be. rewrite fold_left_app. reflexivity. Qed.

Lemma of_be_be : forall n v, 0 <= v < 256 ^ Z.of_nat n -> of_be (be n v) = v.
Proof.
  induction n as [|n IH]; intros v Hv.
  - cbn in *. lia.
  - cbn [be]. rewrite of_be_app. rewrite IH.
    + lia.
    + rewrite Nat2Z.inj_succ, Z.pow_succ_r in Hv by lia. lia.
Qed.

(* ---- take *)
Lemma take_app : forall (a r : bytes), take (blen a) (a ++ r) = Ok (a, r).
Proof.
  intros a r. unfold take. rewrite blen_app.
  destruct (blen a + blen r <? blen a) eqn:E.
  - apply Z.ltb_lt in E. pose proof (blen_nonneg r). lia.
  - unfold blen. rewrite Nat2Z.id. rewrite firstn_app, Nat.sub_diag, firstn_all. cbn [firstn].
    rewrite app_nil_r. rewrite skipn_app, Nat.sub_diag, skipn_all. reflexivity.
Qed.

Lemma take_len : forall n i a r, take n i = Ok (a, r) -> (List.length r <= List.length i)%nat.
Proof.
  intros n i a r H. unfold take in H. destruct (blen i <? n); [discriminate|].
  injection H as <- <-. rewrite skipn_length. lia.
Qed.

Lemma take_total : forall n i, (exists a r, take n i = Ok (a, r)) \/ take n i = Err UnexpectedEnd.
Proof. intros n i. unfold take. destruct (blen i <? n); [right|left; eauto]. reflexivity. Qed.

(* ---- heads *)
Lemma head_div : forall maj k, 0 <= k < 32 -> (maj * 32 + k) / 32 = maj.
Proof. intros. lia. Qed.
Lemma head_mod : forall maj k, 0 <= k < 32 -> (maj * 32 + k) mod 32 = k.
Proof. intros. lia. Qed.

Lemma expect_major_head : forall maj k r, 0 <= k < 32 ->
  expect_major maj ((maj * 32 + k) :: r) = Ok (k, r).
Proof.
  intros maj k r Hk. unfold expect_major. rewrite head_div, head_mod by exact Hk.
  rewrite Z.eqb_refl. reflexivity.
Qed.

Lemma expect_major_len : forall maj i a r, expect_major maj i = Ok (a, r) -> List.length i = S (List.length r).
Proof.
  intros maj i a r H. destruct i as [|b i]; cbn in H; [discriminate|].
  destruct (b / 32 =? maj); [|discriminate]. injection H as <- <-. reflexivity.
Qed.

(* a result is "clean" when it is Ok or Err, never Panic or Fuel *)
Definition clean {A} (x : res A) : Prop := match x with Ok _ | Err _ => True | _ => False end.

Lemma expect_major_clean : forall maj i, clean (expect_major maj i).
Proof. intros maj [|b i]; cbn; [exact I|]. destruct (b / 32 =? maj); exact I. Qed.

Lemma take_clean : forall n i, clean (take n i).
Proof. intros n i. unfold take. destruct (blen i <? n); exact I. Qed.

(* the four fixed-width reads of the readers share this shape *)
Lemma take_then_clean : forall {A} n r (k : bytes * bytes -> res A),
  (forall p, clean (k p)) -> clean (bind (take n r) k).
Proof.
  intros A n r k Hk. unfold take. destruct (blen r <? n); cbn [bind]; [exact I|apply Hk].
Qed.

Lemma raw_u32_clean : forall maj i, clean (raw_u32 maj i).
Proof.
  intros maj i. unfold raw_u32. destruct (expect_major maj i) as [[a r]| | |] eqn:E; cbn [bind]; try exact I.
  - repeat (match goal with |- clean (if ?c then _ else _) => destruct c end; try exact I);
      apply take_then_clean; intros [l r']; cbv beta iota;
      match goal with |- clean (if ?c then _ else _) => destruct c end; exact I.
  - pose proof (expect_major_clean maj i) as C. rewrite E in C. destruct C.
  - pose proof (expect_major_clean maj i) as C. rewrite E in C. destruct C.
Qed.

Lemma raw_u32_len : forall maj i v r, raw_u32 maj i = Ok (v, r) -> (List.length r < List.length i)%nat.
Proof.
  intros maj i v r H. unfold raw_u32 in H.
  destruct (expect_major maj i) as [[a r0]| | |] eqn:E; cbn [bind] in H; try discriminate.
  apply expect_major_len in E.
  repeat match type of H with
         | (if ?c then _ else _) = _ => destruct c
         end; try discriminate;
    try (injection H as <- <-; lia);
    match type of H with
    | bind (take ?n ?x) _ = _ => destruct (take n x) as [[l r']| | |] eqn:T; cbn [bind] in H; try discriminate
    end;
    apply take_len in T;
    match type of H with (if ?c then _ else _) = _ => destruct c end; try discriminate;
    injection H as <- <-; lia.
Qed.

Lemma ignore_head_clean : forall maj bad i, clean (ignore_head maj bad i).
Proof.
  intros maj bad i. unfold ignore_head.
  destruct (expect_major maj i) as [[a r]| | |] eqn:E; cbn [bind]; try exact I.
  - repeat (match goal with |- clean (if ?c then _ else _) => destruct c end; try exact I);
      apply take_then_clean; intros [l r']; exact I.
  - pose proof (expect_major_clean maj i) as C. rewrite E in C. destruct C.
  - pose proof (expect_major_clean maj i) as C. rewrite E in C. destruct C.
Qed.

Lemma ignore_head_len : forall maj bad i r, ignore_head maj bad i = Ok r -> (List.length r < List.length i)%nat.
Proof.
  intros maj bad i r H. unfold ignore_head in H.
  destruct (expect_major maj i) as [[a r0]| | |] eqn:E; cbn [bind] in H; try discriminate.
  apply expect_major_len in E.
  repeat match type of H with
         | (if ?c then _ else _) = _ => destruct c
         end; try discriminate;
    try (injection H as <-; lia);
    match type of H with
    | bind (take ?n ?x) _ = _ => destruct (take n x) as [[l r']| | |] eqn:T; cbn [bind] in H; try discriminate
    end;
    apply take_len in T; injection H as <-; lia.
Qed.

Lemma ignore_bytes_clean : forall maj i, clean (ignore_bytes maj i).
Proof.
  intros maj i. unfold ignore_bytes. pose proof (raw_u32_clean maj i) as C.
  destruct (raw_u32 maj i) as [[n r]| | |]; cbn [bind]; try exact I; try destruct C.
  apply take_then_clean. intros [l r']. exact I.
Qed.

Lemma ignore_bytes_len : forall maj i r, ignore_bytes maj i = Ok r -> (List.length r < List.length i)%nat.
Proof.
  intros maj i r H. unfold ignore_bytes in H.
  destruct (raw_u32 maj i) as [[n r0]| | |] eqn:E; cbn [bind] in H; try discriminate.
  apply raw_u32_len in E.
  destruct (take n r0) as [[l r']| | |] eqn:T; cbn [bind] in H; try discriminate.
  apply take_len in T. injection H as <-. lia.
Qed.

(* ---- the skipper consumes at least one byte per item ... *)
Lemma skip_len : forall f,
  (forall i r, skip f i = Ok r -> (List.length r < List.length i)%nat) /\
  (forall n i r, skip_n f n i = Ok r -> (List.length r <= List.length i)%nat).
Proof.
  induction f as [|f [IHs IHn]]; split.
  - intros i r H. discriminate.
  - intros n i r H. cbn [skip_n] in H. destruct (n <=? 0); [|discriminate]. injection H as <-. lia.
  - intros i r H. cbn [skip] in H. destruct i as [|b i]; [discriminate|].
    repeat match type of H with
           | (if ?c then _ else _) = _ => destruct c
           end; try discriminate.
    + apply ignore_head_len in H. exact H.
    + apply ignore_bytes_len in H. exact H.
    + destruct (raw_u32 4 (b :: i)) as [[n r0]| | |] eqn:E; cbn [bind] in H; try discriminate.
      apply raw_u32_len in E. apply IHn in H. lia.
    + destruct (raw_u32 5 (b :: i)) as [[n r0]| | |] eqn:E; cbn [bind] in H; try discriminate.
      apply raw_u32_len in E. apply IHn in H. lia.
    + destruct (ignore_head 6 BadU16 (b :: i)) as [r0| | |] eqn:E; cbn [bind] in H; try discriminate.
      apply ignore_head_len in E. apply IHs in H. lia.
    + apply ignore_head_len in H. exact H.
  - intros n i r H. cbn [skip_n] in H. destruct (n <=? 0).
    + injection H as <-. lia.
    + destruct (skip f i) as [r0| | |] eqn:E; cbn [bind] in H; try discriminate.
      apply IHs in E. apply IHn in H. lia.
Qed.

(* ... so fuel 2 * length + 2 always suffices: the skipper terminates on EVERY input (recursion depth
   and loop iterations are bounded by the input length) and never reaches a Panic site *)
Lemma skip_clean : forall f,
  (forall i, (2 * List.length i + 2 <= f)%nat -> clean (skip f i)) /\
  (forall n i, (2 * List.length i + 3 <= f)%nat -> clean (skip_n f n i)).
Proof.
  induction f as [|f [IHs IHn]]; split.
  - intros i H. lia.
  - intros n i H. lia.
  - intros i H. cbn [skip]. destruct i as [|b i]; [exact I|].
    repeat match goal with
           | |- clean (if ?c then _ else _) => destruct c
           end; try exact I.
    + apply ignore_head_clean.
    + apply ignore_bytes_clean.
    + pose proof (raw_u32_clean 4 (b :: i)) as C.
      destruct (raw_u32 4 (b :: i)) as [[n r0]| | |] eqn:E; cbn [bind]; try exact I; try destruct C.
      apply raw_u32_len in E. apply IHn. cbn [List.length] in *. lia.
    + pose proof (raw_u32_clean 5 (b :: i)) as C.
      destruct (raw_u32 5 (b :: i)) as [[n r0]| | |] eqn:E; cbn [bind]; try exact I; try destruct C.
      apply raw_u32_len in E. apply IHn. cbn [List.length] in *. lia.
    + pose proof (ignore_head_clean 6 BadU16 (b :: i)) as C.
      destruct (ignore_head 6 BadU16 (b :: i)) as [r0| | |] eqn:E; cbn [bind]; try exact I; try destruct C.
      apply ignore_head_len in E. apply IHs. cbn [List.length] in *. lia.
    + apply ignore_head_clean.
  - intros n i H. cbn [skip_n]. destruct (n <=? 0); [exact I|].
    assert (Cs : clean (skip f i)) by (apply IHs; lia).
    destruct (skip f i) as [r0| | |] eqn:E; cbn [bind]; try exact I; try destruct Cs.
    apply (proj1 (skip_len f)) in E. apply IHn. lia.
Qed.

Theorem skip_item_total : forall i, clean (skip_item i).
Proof. intros i. unfold skip_item, skip_fuel. apply (proj1 (skip_clean _)). lia. Qed.

(* ---- head round trip: the reader accepts exactly what the writer emits *)
Lemma put_head_cases : forall maj v, 0 <= v < 2 ^ 64 ->
  put_head maj v =
    if v <=? 23 then [maj * 32 + v]
    else if v <=? 255 then [maj * 32 + 24; v]
    else if v <=? 65535 then (maj * 32 + 25) :: be 2 v
    else if v <=? 4294967295 then (maj * 32 + 26) :: be 4 v
    else (maj * 32 + 27) :: be 8 v.
Proof. reflexivity. Qed.

Lemma be1 : forall v, be 1 v = [v mod 256].
Proof. reflexivity. Qed.

Lemma take_be : forall n v r, take (Z.of_nat n) (be n v ++ r) = Ok (be n v, r).
Proof.
  intros n v r. pose proof (take_app (be n v) r) as H. unfold blen in H. rewrite be_length in H. exact H.
Qed.

Lemma raw_u32_put_head : forall maj v r, 0 <= v < 2 ^ 32 ->
  raw_u32 maj (put_head maj v ++ r) = Ok (v, r).
Proof.
  intros maj v r Hv. unfold put_head.
  destruct (v <=? 23) eqn:E0.
  { apply Z.leb_le in E0. cbn [app]. unfold raw_u32. rewrite expect_major_head by lia. cbn [bind].
    destruct (v <=? 23) eqn:E; [reflexivity|apply Z.leb_gt in E; lia]. }
  apply Z.leb_gt in E0.
  destruct (v <=? 255) eqn:E1.
  { apply Z.leb_le in E1. cbn [app]. unfold raw_u32. rewrite expect_major_head by lia. cbn [bind].
    cbn [Z.leb Z.eqb]. change (take 1 (v :: r)) with (take (blen [v]) ([v] ++ r)). rewrite take_app. cbn [bind].
    replace (of_be [v]) with v by (cbn; lia).
    destruct (v <=? 23) eqn:E; [apply Z.leb_le in E; lia|reflexivity]. }
  apply Z.leb_gt in E1.
  destruct (v <=? 65535) eqn:E2.
  { apply Z.leb_le in E2. rewrite <- app_comm_cons. unfold raw_u32. rewrite expect_major_head by lia. cbn [bind].
    cbn [Z.leb Z.eqb]. change 2 with (Z.of_nat 2). rewrite take_be. cbn [bind].
    rewrite of_be_be by (cbn; lia).
    destruct (v <=? 255) eqn:E; [apply Z.leb_le in E; lia|reflexivity]. }
  apply Z.leb_gt in E2.
  destruct (v <=? 4294967295) eqn:E3.
  { rewrite <- app_comm_cons. unfold raw_u32. rewrite expect_major_head by lia. cbn [bind].
    cbn [Z.leb Z.eqb]. change 4 with (Z.of_nat 4). rewrite take_be. cbn [bind].
    rewrite of_be_be by (cbn; lia).
    destruct (v <=? 65535) eqn:E; [apply Z.leb_le in E; lia|reflexivity]. }
  apply Z.leb_gt in E3. lia.
Qed.

Lemma raw_u64_put_head : forall maj v r, 0 <= v < 2 ^ 64 ->
  raw_u64 maj (put_head maj v ++ r) = Ok (v, r).
Proof.
  intros maj v r Hv. unfold put_head.
  destruct (v <=? 23) eqn:E0.
  { apply Z.leb_le in E0. cbn [app]. unfold raw_u64. rewrite expect_major_head by lia. cbn [bind].
    destruct (v <=? 23) eqn:E; [reflexivity|apply Z.leb_gt in E; lia]. }
  apply Z.leb_gt in E0.
  destruct (v <=? 255) eqn:E1.
  { apply Z.leb_le in E1. cbn [app]. unfold raw_u64. rewrite expect_major_head by lia. cbn [bind].
    cbn [Z.leb Z.eqb]. change (take 1 (v :: r)) with (take (blen [v]) ([v] ++ r)). rewrite take_app. cbn [bind].
    replace (of_be [v]) with v by (cbn; lia).
    destruct (v <=? 23) eqn:E; [apply Z.leb_le in E; lia|reflexivity]. }
  apply Z.leb_gt in E1.
  destruct (v <=? 65535) eqn:E2.
  { apply Z.leb_le in E2. rewrite <- app_comm_cons. unfold raw_u64. rewrite expect_major_head by lia. cbn [bind].
    cbn [Z.leb Z.eqb]. change 2 with (Z.of_nat 2). rewrite take_be. cbn [bind].
    rewrite of_be_be by (cbn; lia).
    destruct (v <=? 255) eqn:E; [apply Z.leb_le in E; lia|reflexivity]. }
  apply Z.leb_gt in E2.
  destruct (v <=? 4294967295) eqn:E3.
  { apply Z.leb_le in E3. rewrite <- app_comm_cons. unfold raw_u64. rewrite expect_major_head by lia. cbn [bind].
    cbn [Z.leb Z.eqb]. change 4 with (Z.of_nat 4). rewrite take_be. cbn [bind].
    rewrite of_be_be by (cbn; lia).
    destruct (v <=? 65535) eqn:E; [apply Z.leb_le in E; lia|reflexivity]. }
  apply Z.leb_gt in E3.
  rewrite <- app_comm_cons. unfold raw_u64. rewrite expect_major_head by lia. cbn [bind].
  cbn [Z.leb Z.eqb]. change 8 with (Z.of_nat 8). rewrite take_be. cbn [bind].
  rewrite of_be_be by (cbn; lia).
  destruct (v <=? 4294967295) eqn:E; [apply Z.leb_le in E; lia|reflexivity].
Qed.

Lemma raw_u8_put_head : forall maj v r, 0 <= v < 256 ->
  raw_u8 maj (put_head maj v ++ r) = Ok (v, r).
Proof.
  intros maj v r Hv. unfold put_head.
  destruct (v <=? 23) eqn:E0.
  { apply Z.leb_le in E0. cbn [app]. unfold raw_u8. rewrite expect_major_head by lia. cbn [bind].
    destruct (v <=? 23) eqn:E; [reflexivity|apply Z.leb_gt in E; lia]. }
  apply Z.leb_gt in E0.
  destruct (v <=? 255) eqn:E1; [|apply Z.leb_gt in E1; lia].
  cbn [app]. unfold raw_u8. rewrite expect_major_head by lia. cbn [bind].
  cbn [Z.leb Z.eqb]. change (take 1 (v :: r)) with (take (blen [v]) ([v] ++ r)). rewrite take_app. cbn [bind].
  replace (of_be [v]) with v by (cbn; lia).
  destruct (v <=? 23) eqn:E; [apply Z.leb_le in E; lia|reflexivity].
Qed.

Lemma put_head_nonempty : forall maj v, (1 <= List.length (put_head maj v))%nat.
Proof.
  intros maj v. unfold put_head.
  repeat match goal with |- context [if ?c then _ else _] => destruct c end; cbn [List.length]; lia.
Qed.
