(* The decoder reads left to right and its verdict depends only on the bytes it has read (C05):
   - a successful read stays the same read when more bytes follow (the extra bytes are left over);
   - a failure other than UnexpectedEnd stays the same failure when more bytes follow.
   Consequence (with totality and the round trip): EVERY proper prefix of the encoding of a well-typed
   value is rejected with UnexpectedEnd - truncation at any byte offset is InvalidCbor, never
   MissingParameter and never an accepted request. *)
From Ctap Require Import Base Schema Wire Utf8 Typed WellTyped Procs WireP Utf8P StrsP SerP TotalP RoundTripP.
From Coq Require Import Lia ZifyBool.
Local Open Scope string_scope.
Local Open Scope list_scope.
Local Open Scope Z_scope.

Definition ext_ok {A} (f : bytes -> res (A * bytes)) : Prop :=
  forall i v r x, f i = Ok (v, r) -> f (i ++ x) = Ok (v, r ++ x).
Definition ext_err {A} (f : bytes -> res (A * bytes)) : Prop :=
  forall i ce x, f i = Err ce -> ce <> UnexpectedEnd -> f (i ++ x) = Err ce.
Definition ext {A} (f : bytes -> res (A * bytes)) : Prop := ext_ok f /\ ext_err f.

(* ---------------------------------------------------------------- combinators *)
Lemma ext_bind {A B} (f : bytes -> res (A * bytes)) (g : A -> bytes -> res (B * bytes)) :
  ext f -> (forall a, ext (g a)) -> ext (fun i => '(a, r) <- f i ;; g a r).
Proof.
  intros [Fo Fe] G. split.
  - intros i v r x H. destruct (f i) as [[a r0]| | |] eqn:E; cbn [bind] in H; try discriminate.
    rewrite (Fo i a r0 x E). cbn [bind]. apply (proj1 (G a)). exact H.
  - intros i ce x H Hc. destruct (f i) as [[a r0]|c| |] eqn:E; cbn [bind] in H; try discriminate.
    + rewrite (Fo i a r0 x E). cbn [bind]. apply (proj2 (G a)); assumption.
    + injection H as ->. rewrite (Fe i ce x E Hc). reflexivity.
Qed.

Lemma ext_ret {A} (w : A) : ext (fun r => Ok (w, r)).
Proof. split; [intros i v r x H; injection H as <- <-; reflexivity|intros i ce x H; discriminate]. Qed.
Lemma ext_fail {A} (c : cerr) : ext (fun _ : bytes => @Err (A * bytes) c).
Proof. split; [intros i v r x H; discriminate|intros i ce x H _; exact H]. Qed.
Lemma ext_panic {A} (s : string) : ext (fun _ : bytes => @Panic (A * bytes) s).
Proof. split; intros; discriminate. Qed.
Lemma ext_if {A} (c : bool) (f g : bytes -> res (A * bytes)) :
  ext f -> ext g -> ext (fun i => if c then f i else g i).
Proof. intros F G. destruct c; assumption. Qed.

Lemma ext_res {A B} (x : res A) (k : A -> bytes -> res (B * bytes)) :
  (forall a, ext (k a)) -> ext (fun r => match x with Ok a => k a r | Err c => Err c | Panic s => Panic s | Fuel => Fuel end).
Proof.
  intros K. destruct x as [a|c|s|]; [apply K|apply ext_fail|apply ext_panic|].
  split; intros; discriminate.
Qed.

Lemma ext_take : forall n, ext (take n).
Proof.
  intros n. split.
  - intros i v r x H. unfold take in *. destruct (blen i <? n) eqn:E; [discriminate|].
    injection H as <- <-. rewrite blen_app. pose proof (blen_nonneg x).
    destruct (blen i + blen x <? n) eqn:E2; [lia|].
    destruct (Z_le_gt_dec n 0) as [Hn|Hn].
    + replace (Z.to_nat n) with O by lia. reflexivity.
    + unfold blen in E. rewrite firstn_app, skipn_app.
      replace (Z.to_nat n - List.length i)%nat with O by lia. cbn [firstn skipn]. rewrite app_nil_r. reflexivity.
  - intros i ce x H Hc. unfold take in H. destruct (blen i <? n); [|discriminate]. injection H as <-. contradiction.
Qed.

Lemma ext_expect_major : forall m, ext (expect_major m).
Proof.
  intros m. split.
  - intros [|b i] v r x H; cbn in *; [discriminate|]. destruct (b / 32 =? m); [|discriminate].
    injection H as <- <-. reflexivity.
  - intros [|b i] ce x H Hc; cbn in *; [injection H as <-; contradiction|].
    destruct (b / 32 =? m); [discriminate|exact H].
Qed.

Lemma ext_peek {A} (g : Z -> bytes -> res (A * bytes)) :
  (forall m, ext (g m)) -> ext (fun i => m <- peek_major i ;; g m i).
Proof.
  intros G. split.
  - intros [|b i] v r x H; cbn [peek_major bind app] in *; [discriminate|].
    apply (proj1 (G (b / 32)) (b :: i) v r x H).
  - intros [|b i] ce x H Hc; cbn [peek_major bind app] in *; [injection H as <-; contradiction|].
    apply (proj2 (G (b / 32)) (b :: i) ce x H Hc).
Qed.

Ltac ext_auto :=
  repeat first
    [ apply ext_ret | apply ext_fail | apply ext_panic | apply ext_take | apply ext_expect_major
    | apply ext_if
    | (apply ext_bind; [|intros ?])
    | match goal with |- ext (fun r => let (_, _) := ?p in _) => destruct p end
    | progress cbv zeta ].

(* ---------------------------------------------------------------- wire readers *)
Lemma ext_raw_u8 : forall m, ext (raw_u8 m).
Proof. intros m. unfold raw_u8. ext_auto. Qed.
Lemma ext_raw_u32 : forall m, ext (raw_u32 m).
Proof. intros m. unfold raw_u32. ext_auto. Qed.
Lemma ext_raw_u64 : forall m, ext (raw_u64 m).
Proof. intros m. unfold raw_u64. ext_auto. Qed.
Lemma ext_raw_u16 : forall m, ext (raw_u16 m).
Proof. intros m. unfold raw_u16. apply ext_bind; [apply ext_raw_u32|intros v]. ext_auto. Qed.

(* ---------------------------------------------------------------- scalar decoders *)
Lemma dec_bool_cons : forall b i, dec_bool (b :: i) =
  if b =? 244 then Ok (VBool false, i) else if b =? 245 then Ok (VBool true, i) else Err BadBool.
Proof.
  intros b i. unfold dec_bool, take.
  replace (blen (b :: i) <? 1) with false by (rewrite blen_cons; pose proof (blen_nonneg i); lia).
  change (Z.to_nat 1) with 1%nat. cbn [firstn skipn bind].
  destruct b as [|p|p]; try reflexivity.
  repeat (destruct p as [p|p|]; try reflexivity).
Qed.

Lemma ext_dec_bool : ext dec_bool.
Proof.
  split.
  - intros [|b i] v r x H; [discriminate|]. cbn [app]. rewrite dec_bool_cons in *.
    destruct (b =? 244); [injection H as <- <-; reflexivity|].
    destruct (b =? 245); [injection H as <- <-; reflexivity|discriminate].
  - intros [|b i] ce x H Hc; [cbn in H; injection H as <-; contradiction|]. cbn [app]. rewrite dec_bool_cons in *.
    destruct (b =? 244); [discriminate|]. destruct (b =? 245); [discriminate|exact H].
Qed.

Lemma ext_dec_unit : ext dec_unit.
Proof.
  split.
  - intros [|b i] v r x H; cbn [dec_unit] in *; [discriminate|].
    destruct b as [|p|p]; try discriminate.
    repeat (destruct p as [p|p|]; try discriminate). injection H as <- <-. reflexivity.
  - intros [|b i] ce x H Hc; cbn [dec_unit app] in *; [injection H as <-; contradiction|].
    destruct b as [|p|p]; try exact H.
    repeat (destruct p as [p|p|]; try exact H). discriminate.
Qed.

Lemma ext_dec_i8 : ext dec_i8.
Proof.
  unfold dec_i8. apply ext_peek. intros m. apply ext_if.
  - apply ext_bind; [apply ext_raw_u8|intros v]. ext_auto.
  - apply ext_if; [|apply ext_fail]. apply ext_bind; [apply ext_raw_u8|intros v]. ext_auto.
Qed.

Lemma ext_dec_i32 : ext dec_i32.
Proof.
  unfold dec_i32. apply ext_peek. intros m. apply ext_if; [|apply ext_fail].
  apply ext_bind; [apply ext_raw_u32|intros v]. ext_auto.
Qed.

Lemma ext_dec_bytes_raw : ext dec_bytes_raw.
Proof.
  unfold dec_bytes_raw. apply ext_peek. intros m. apply ext_if.
  - apply ext_bind; [apply ext_raw_u32|intros v]. apply ext_fail.
  - apply ext_if; [|apply ext_fail]. apply ext_bind; [apply ext_raw_u32|intros n]. apply ext_take.
Qed.

Lemma ext_dec_str_raw : ext dec_str_raw.
Proof.
  unfold dec_str_raw. apply ext_bind; [apply ext_raw_u32|intros n].
  apply ext_bind; [apply ext_take|intros s]. ext_auto.
Qed.

Lemma ext_dec_bytes_cap : forall n, ext (dec_bytes_cap n).
Proof. intros n. unfold dec_bytes_cap. apply ext_bind; [apply ext_dec_bytes_raw|intros b]. ext_auto. Qed.

(* ---------------------------------------------------------------- the skipper *)
Definition sext_ok (f : bytes -> res bytes) : Prop := forall i r x, f i = Ok r -> f (i ++ x) = Ok (r ++ x).
Definition sext_err (f : bytes -> res bytes) : Prop :=
  forall i ce x, f i = Err ce -> ce <> UnexpectedEnd -> f (i ++ x) = Err ce.

Definition lift (f : bytes -> res bytes) : bytes -> res (unit * bytes) := fun i => r <- f i ;; Ok (tt, r).

Lemma lift_ext : forall f, ext (lift f) -> sext_ok f /\ sext_err f.
Proof.
  intros f [Ho He]. unfold lift in *. split.
  - intros i r x H. specialize (Ho i tt r x). cbv beta in Ho. rewrite H in Ho. specialize (Ho eq_refl).
    destruct (f (i ++ x)); cbn [bind] in Ho; try discriminate. injection Ho as ->. reflexivity.
  - intros i ce x H Hc. specialize (He i ce x). cbv beta in He. rewrite H in He. specialize (He eq_refl Hc).
    destruct (f (i ++ x)); cbn [bind] in He; try discriminate. injection He as ->. reflexivity.
Qed.

Lemma ext_lift : forall f, sext_ok f -> sext_err f -> ext (lift f).
Proof.
  intros f Ho He. unfold lift. split.
  - intros i v r x H. destruct (f i) as [r0| | |] eqn:E; cbn [bind] in H; try discriminate.
    injection H as <- <-. rewrite (Ho i r0 x E). reflexivity.
  - intros i ce x H Hc. destruct (f i) as [r0|c| |] eqn:E; cbn [bind] in H; try discriminate.
    injection H as ->. rewrite (He i ce x E Hc). reflexivity.
Qed.

Lemma ext_ignore_head : forall m bad, ext (lift (ignore_head m bad)).
Proof.
  intros m bad. unfold lift, ignore_head.
  assert (E : forall i, (r <- ('(a, r) <- expect_major m i ;;
                              if a <=? 23 then Ok r
                              else if a =? 24 then '(_, r') <- take 1 r ;; Ok r'
                              else if a =? 25 then '(_, r') <- take 2 r ;; Ok r'
                              else if a =? 26 then '(_, r') <- take 4 r ;; Ok r'
                              else if a =? 27 then '(_, r') <- take 8 r ;; Ok r'
                              else Err bad) ;; Ok (tt, r))
                      = ('(a, r) <- expect_major m i ;;
                         if a <=? 23 then Ok (tt, r)
                         else if a =? 24 then '(_, r') <- take 1 r ;; Ok (tt, r')
                         else if a =? 25 then '(_, r') <- take 2 r ;; Ok (tt, r')
                         else if a =? 26 then '(_, r') <- take 4 r ;; Ok (tt, r')
                         else if a =? 27 then '(_, r') <- take 8 r ;; Ok (tt, r')
                         else Err bad)).
  { intros i. destruct (expect_major m i) as [[a r]| | |]; cbn [bind]; try reflexivity.
    repeat match goal with |- context [if ?c then _ else _] => destruct c end; try reflexivity;
      match goal with |- context [take ?n r] => destruct (take n r) as [[? ?]| | |]; reflexivity end. }
  assert (G : ext (fun i => '(a, r) <- expect_major m i ;;
                         if a <=? 23 then Ok (tt, r)
                         else if a =? 24 then '(_, r') <- take 1 r ;; Ok (tt, r')
                         else if a =? 25 then '(_, r') <- take 2 r ;; Ok (tt, r')
                         else if a =? 26 then '(_, r') <- take 4 r ;; Ok (tt, r')
                         else if a =? 27 then '(_, r') <- take 8 r ;; Ok (tt, r')
                         else Err bad)) by ext_auto.
  destruct G as [Go Ge]. split.
  - intros i v r x H. rewrite E in *. apply Go. exact H.
  - intros i ce x H Hc. rewrite E in *. apply Ge; assumption.
Qed.

Lemma ext_ignore_bytes : forall m, ext (lift (ignore_bytes m)).
Proof.
  intros m. unfold lift, ignore_bytes.
  assert (E : forall i, (r <- ('(n, r) <- raw_u32 m i ;; '(_, r') <- take n r ;; Ok r') ;; Ok (tt, r))
                      = ('(n, r) <- raw_u32 m i ;; '(_, r') <- take n r ;; Ok (tt, r'))).
  { intros i. destruct (raw_u32 m i) as [[n r]| | |]; cbn [bind]; try reflexivity.
    destruct (take n r) as [[? ?]| | |]; reflexivity. }
  assert (G : ext (fun i => '(n, r) <- raw_u32 m i ;; '(_, r') <- take n r ;; Ok (tt, r'))).
  { apply ext_bind; [apply ext_raw_u32|intros n]. ext_auto. }
  destruct G as [Go Ge]. split.
  - intros i v r x H. rewrite E in *. apply Go. exact H.
  - intros i ce x H Hc. rewrite E in *. apply Ge; assumption.
Qed.

Lemma skip_ext : forall f,
  (forall i r x f', skip f i = Ok r -> (f <= f')%nat -> skip f' (i ++ x) = Ok (r ++ x)) /\
  (forall n i r x f', skip_n f n i = Ok r -> (f <= f')%nat -> skip_n f' n (i ++ x) = Ok (r ++ x)) /\
  (forall i ce x f', skip f i = Err ce -> ce <> UnexpectedEnd -> (f <= f')%nat -> skip f' (i ++ x) = Err ce) /\
  (forall n i ce x f', skip_n f n i = Err ce -> ce <> UnexpectedEnd -> (f <= f')%nat -> skip_n f' n (i ++ x) = Err ce).
Proof.
  pose proof (fun m bad => lift_ext _ (ext_ignore_head m bad)) as IHd.
  pose proof (fun m => lift_ext _ (ext_ignore_bytes m)) as IBy.
  induction f as [|k [IHso [IHno [IHse IHne]]]].
  - repeat split.
    + intros i r x f' H. discriminate.
    + intros n i r x f' H _. cbn [skip_n] in H. destruct (n <=? 0) eqn:E; [|discriminate]. injection H as <-.
      destruct f'; cbn [skip_n]; rewrite E; reflexivity.
    + intros i ce x f' H. discriminate.
    + intros n i ce x f' H. cbn [skip_n] in H. destruct (n <=? 0); discriminate.
  - repeat split.
    + intros i r x f' H Hf. destruct f' as [|k']; [lia|]. assert (Hk : (k <= k')%nat) by lia.
      destruct i as [|b i]; [discriminate|]. cbn [skip app] in *.
      destruct (b / 32 <=? 1); [apply (proj1 (IHd _ _) (b :: i) r x H)|].
      destruct (b / 32 <=? 3); [apply (proj1 (IBy _) (b :: i) r x H)|].
      destruct (b / 32 =? 4).
      { destruct (raw_u32 4 (b :: i)) as [[n r0]| | |] eqn:E; cbn [bind] in H; try discriminate.
        change (b :: i ++ x) with ((b :: i) ++ x). rewrite (proj1 (ext_raw_u32 4) _ _ _ x E). cbn [bind].
        apply (IHno n r0 r x k' H Hk). }
      destruct (b / 32 =? 5).
      { destruct (raw_u32 5 (b :: i)) as [[n r0]| | |] eqn:E; cbn [bind] in H; try discriminate.
        change (b :: i ++ x) with ((b :: i) ++ x). rewrite (proj1 (ext_raw_u32 5) _ _ _ x E). cbn [bind].
        apply (IHno (n * 2) r0 r x k' H Hk). }
      destruct (b / 32 =? 6).
      { destruct (ignore_head 6 BadU16 (b :: i)) as [r0| | |] eqn:E; cbn [bind] in H; try discriminate.
        change (b :: i ++ x) with ((b :: i) ++ x). rewrite (proj1 (IHd _ _) _ _ x E). cbn [bind].
        apply (IHso r0 r x k' H Hk). }
      destruct (b / 32 =? 7); [apply (proj1 (IHd _ _) (b :: i) r x H)|discriminate].
    + intros n i r x f' H Hf. destruct f' as [|k']; [lia|]. assert (Hk : (k <= k')%nat) by lia.
      cbn [skip_n] in *. destruct (n <=? 0); [injection H as <-; reflexivity|].
      destruct (skip k i) as [r0| | |] eqn:E; cbn [bind] in H; try discriminate.
      rewrite (IHso i r0 x k' E Hk). cbn [bind]. apply (IHno (n - 1) r0 r x k' H Hk).
    + intros i ce x f' H Hc Hf. destruct f' as [|k']; [lia|]. assert (Hk : (k <= k')%nat) by lia.
      destruct i as [|b i]; [cbn in H; injection H as <-; contradiction|]. cbn [skip app] in *.
      destruct (b / 32 <=? 1); [apply (proj2 (IHd _ _) (b :: i) ce x H Hc)|].
      destruct (b / 32 <=? 3); [apply (proj2 (IBy _) (b :: i) ce x H Hc)|].
      destruct (b / 32 =? 4).
      { change (b :: i ++ x) with ((b :: i) ++ x).
        destruct (raw_u32 4 (b :: i)) as [[n r0]|c| |] eqn:E; cbn [bind] in H; try discriminate.
        - rewrite (proj1 (ext_raw_u32 4) _ _ _ x E). cbn [bind]. apply (IHne n r0 ce x k' H Hc Hk).
        - injection H as ->. rewrite (proj2 (ext_raw_u32 4) _ _ x E Hc). reflexivity. }
      destruct (b / 32 =? 5).
      { change (b :: i ++ x) with ((b :: i) ++ x).
        destruct (raw_u32 5 (b :: i)) as [[n r0]|c| |] eqn:E; cbn [bind] in H; try discriminate.
        - rewrite (proj1 (ext_raw_u32 5) _ _ _ x E). cbn [bind]. apply (IHne (n * 2) r0 ce x k' H Hc Hk).
        - injection H as ->. rewrite (proj2 (ext_raw_u32 5) _ _ x E Hc). reflexivity. }
      destruct (b / 32 =? 6).
      { change (b :: i ++ x) with ((b :: i) ++ x).
        destruct (ignore_head 6 BadU16 (b :: i)) as [r0|c| |] eqn:E; cbn [bind] in H; try discriminate.
        - rewrite (proj1 (IHd _ _) _ _ x E). cbn [bind]. apply (IHse r0 ce x k' H Hc Hk).
        - injection H as ->. rewrite (proj2 (IHd _ _) _ _ x E Hc). reflexivity. }
      destruct (b / 32 =? 7); [apply (proj2 (IHd _ _) (b :: i) ce x H Hc)|exact H].
    + intros n i ce x f' H Hc Hf. destruct f' as [|k']; [lia|]. assert (Hk : (k <= k')%nat) by lia.
      cbn [skip_n] in *. destruct (n <=? 0); [discriminate|].
      destruct (skip k i) as [r0|c| |] eqn:E; cbn [bind] in H; try discriminate.
      * rewrite (IHso i r0 x k' E Hk). cbn [bind]. apply (IHne (n - 1) r0 ce x k' H Hc Hk).
      * injection H as ->. rewrite (IHse i ce x k' E Hc Hk). reflexivity.
Qed.

Lemma ext_skip_item : ext (lift skip_item).
Proof.
  apply ext_lift.
  - intros i r x H. unfold skip_item in *.
    apply (proj1 (skip_ext (skip_fuel i)) i r x (skip_fuel (i ++ x)) H).
    unfold skip_fuel. rewrite app_length. lia.
  - intros i ce x H Hc. unfold skip_item in *.
    apply (proj1 (proj2 (proj2 (skip_ext (skip_fuel i)))) i ce x (skip_fuel (i ++ x)) H Hc).
    unfold skip_fuel. rewrite app_length. lia.
Qed.

(* ---------------------------------------------------------------- element loops *)
Definition fext {A} (F : nat -> bytes -> res (A * bytes)) : Prop :=
  (forall fuel i v r x fuel', F fuel i = Ok (v, r) -> (fuel <= fuel')%nat -> F fuel' (i ++ x) = Ok (v, r ++ x)) /\
  (forall fuel i ce x fuel', F fuel i = Err ce -> ce <> UnexpectedEnd -> (fuel <= fuel')%nat -> F fuel' (i ++ x) = Err ce).

Lemma fext_ext {A} (F : nat -> bytes -> res (A * bytes)) : fext F -> ext (fun r => F (S (List.length r)) r).
Proof.
  intros [Fo Fe]. split.
  - intros i v r x H. apply (Fo _ i v r x _ H). rewrite app_length. lia.
  - intros i ce x H Hc. apply (Fe _ i ce x _ H Hc). rewrite app_length. lia.
Qed.

Lemma seq_loop_fext : forall decf, ext decf -> forall n cap acc, fext (fun fuel => seq_loop decf fuel n cap acc).
Proof.
  intros decf [Do De]. 
  assert (G : forall fuel n cap acc,
    (forall i v r x fuel', seq_loop decf fuel n cap acc i = Ok (v, r) -> (fuel <= fuel')%nat ->
                           seq_loop decf fuel' n cap acc (i ++ x) = Ok (v, r ++ x)) /\
    (forall i ce x fuel', seq_loop decf fuel n cap acc i = Err ce -> ce <> UnexpectedEnd -> (fuel <= fuel')%nat ->
                          seq_loop decf fuel' n cap acc (i ++ x) = Err ce)).
  { induction fuel as [|k IH]; intros n cap acc; split.
    - intros i v r x fuel' H _. cbn [seq_loop] in H. destruct (n <=? 0) eqn:E; [|discriminate].
      injection H as <- <-. destruct fuel'; cbn [seq_loop]; rewrite E; reflexivity.
    - intros i ce x fuel' H. cbn [seq_loop] in H. destruct (n <=? 0); discriminate.
    - intros i v r x fuel' H Hf. destruct fuel' as [|k']; [lia|]. cbn [seq_loop] in *.
      destruct (n <=? 0); [injection H as <- <-; reflexivity|].
      destruct (decf i) as [[v0 r0]| | |] eqn:E; cbn [bind] in H; try discriminate.
      rewrite (Do i v0 r0 x E). cbn [bind]. destruct (blen acc <? cap); [|discriminate].
      apply (proj1 (IH (n - 1) cap (v0 :: acc)) r0 v r x k' H). lia.
    - intros i ce x fuel' H Hc Hf. destruct fuel' as [|k']; [lia|]. cbn [seq_loop] in *.
      destruct (n <=? 0); [discriminate|].
      destruct (decf i) as [[v0 r0]|c| |] eqn:E; cbn [bind] in H; try discriminate.
      + rewrite (Do i v0 r0 x E). cbn [bind]. destruct (blen acc <? cap); [|exact H].
        apply (proj2 (IH (n - 1) cap (v0 :: acc)) r0 ce x k' H Hc). lia.
      + injection H as ->. rewrite (De i ce x E Hc). reflexivity. }
  intros n cap acc. split.
  - intros fuel i v r x fuel'. apply (proj1 (G fuel n cap acc)).
  - intros fuel i ce x fuel'. apply (proj2 (G fuel n cap acc)).
Qed.

Lemma fold_loop_fext {St} : forall decf (step : St -> val -> St), ext decf ->
  forall n acc, fext (fun fuel => fold_loop decf step fuel n acc).
Proof.
  intros decf step [Do De].
  assert (G : forall fuel n acc,
    (forall i v r x fuel', fold_loop decf step fuel n acc i = Ok (v, r) -> (fuel <= fuel')%nat ->
                           fold_loop decf step fuel' n acc (i ++ x) = Ok (v, r ++ x)) /\
    (forall i ce x fuel', fold_loop decf step fuel n acc i = Err ce -> ce <> UnexpectedEnd -> (fuel <= fuel')%nat ->
                          fold_loop decf step fuel' n acc (i ++ x) = Err ce)).
  { induction fuel as [|k IH]; intros n acc; split.
    - intros i v r x fuel' H _. cbn [fold_loop] in H. destruct (n <=? 0) eqn:E; [|discriminate].
      injection H as <- <-. destruct fuel'; cbn [fold_loop]; rewrite E; reflexivity.
    - intros i ce x fuel' H. cbn [fold_loop] in H. destruct (n <=? 0); discriminate.
    - intros i v r x fuel' H Hf. destruct fuel' as [|k']; [lia|]. cbn [fold_loop] in *.
      destruct (n <=? 0); [injection H as <- <-; reflexivity|].
      destruct (decf i) as [[v0 r0]| | |] eqn:E; cbn [bind] in H; try discriminate.
      rewrite (Do i v0 r0 x E). cbn [bind].
      apply (proj1 (IH (n - 1) (step acc v0)) r0 v r x k' H). lia.
    - intros i ce x fuel' H Hc Hf. destruct fuel' as [|k']; [lia|]. cbn [fold_loop] in *.
      destruct (n <=? 0); [discriminate|].
      destruct (decf i) as [[v0 r0]|c| |] eqn:E; cbn [bind] in H; try discriminate.
      + rewrite (Do i v0 r0 x E). cbn [bind].
        apply (proj2 (IH (n - 1) (step acc v0)) r0 ce x k' H Hc). lia.
      + injection H as ->. rewrite (De i ce x E Hc). reflexivity. }
  intros n acc. split.
  - intros fuel i v r x fuel'. apply (proj1 (G fuel n acc)).
  - intros fuel i ce x fuel'. apply (proj2 (G fuel n acc)).
Qed.

Lemma idx_loop_fext : forall (decf : ty -> bytes -> res (val * bytes)) fs, (forall t, ext (decf t)) ->
  forall n acc, fext (fun fuel => idx_loop decf fs fuel n acc).
Proof.
  intros decf fs D.
  assert (G : forall fuel n acc,
    (forall i v r x fuel', idx_loop decf fs fuel n acc i = Ok (v, r) -> (fuel <= fuel')%nat ->
                           idx_loop decf fs fuel' n acc (i ++ x) = Ok (v, r ++ x)) /\
    (forall i ce x fuel', idx_loop decf fs fuel n acc i = Err ce -> ce <> UnexpectedEnd -> (fuel <= fuel')%nat ->
                          idx_loop decf fs fuel' n acc (i ++ x) = Err ce)).
  { induction fuel as [|k IH]; intros n acc; split.
    - intros i v r x fuel' H _. cbn [idx_loop] in H. destruct (n <=? 0) eqn:E; [|discriminate].
      injection H as <- <-. destruct fuel'; cbn [idx_loop]; rewrite E; reflexivity.
    - intros i ce x fuel' H. cbn [idx_loop] in H. destruct (n <=? 0); discriminate.
    - intros i v r x fuel' H Hf. destruct fuel' as [|k']; [lia|]. cbn [idx_loop] in *.
      destruct (n <=? 0); [injection H as <- <-; reflexivity|].
      destruct (raw_u64 0 i) as [[key r0]| | |] eqn:E; cbn [bind] in H; try discriminate.
      rewrite (proj1 (ext_raw_u64 0) i key r0 x E). cbn [bind].
      destruct (find_idx_field key fs) as [fd|]; [|discriminate].
      destruct (rget (f_label fd) acc); [discriminate|].
      set (t := if f_opt fd then inner_ty (f_ty fd) else f_ty fd) in *.
      destruct (decf t r0) as [[v0 r1]| | |] eqn:E1; cbn [bind] in H; try discriminate.
      rewrite (proj1 (D t) r0 v0 r1 x E1). cbn [bind].
      apply (proj1 (IH (n - 1) _) r1 v r x k' H). lia.
    - intros i ce x fuel' H Hc Hf. destruct fuel' as [|k']; [lia|]. cbn [idx_loop] in *.
      destruct (n <=? 0); [discriminate|].
      destruct (raw_u64 0 i) as [[key r0]|c| |] eqn:E; cbn [bind] in H; try discriminate.
      + rewrite (proj1 (ext_raw_u64 0) i key r0 x E). cbn [bind].
        destruct (find_idx_field key fs) as [fd|]; [|exact H].
        destruct (rget (f_label fd) acc); [exact H|].
        set (t := if f_opt fd then inner_ty (f_ty fd) else f_ty fd) in *.
        destruct (decf t r0) as [[v0 r1]|c| |] eqn:E1; cbn [bind] in H; try discriminate.
        * rewrite (proj1 (D t) r0 v0 r1 x E1). cbn [bind].
          apply (proj2 (IH (n - 1) _) r1 ce x k' H Hc). lia.
        * injection H as ->. rewrite (proj2 (D t) r0 ce x E1 Hc). reflexivity.
      + injection H as ->. rewrite (proj2 (ext_raw_u64 0) i ce x E Hc). reflexivity. }
  intros n acc. split.
  - intros fuel i v r x fuel'. apply (proj1 (G fuel n acc)).
  - intros fuel i ce x fuel'. apply (proj2 (G fuel n acc)).
Qed.

Ltac ext_auto2 :=
  repeat first
    [ apply ext_ret | apply ext_fail | apply ext_panic | apply ext_take | apply ext_expect_major
    | apply ext_raw_u8 | apply ext_raw_u16 | apply ext_raw_u32 | apply ext_raw_u64
    | apply ext_dec_i8 | apply ext_dec_i32 | apply ext_dec_bool | apply ext_dec_unit
    | apply ext_dec_bytes_raw | apply ext_dec_str_raw | apply ext_dec_bytes_cap
    | apply ext_if
    | (apply ext_bind; [|intros ?])
    | match goal with |- ext (fun r => let (_, _) := ?p in _) => destruct p end
    | progress cbv zeta ].

Definition txt_key (fs : list field) (m : Z) (i : bytes) : res (option field * bytes) :=
  if (m =? 2) || (m =? 3) then
    '(len, r) <- raw_u32 m i ;;
    '(name, r') <- take len r ;;
    if utf8_valid name then Ok (find_txt_field name fs, r') else Err BadUtf8
  else if m =? 0 then
    '(ix, r) <- raw_u64 0 i ;;
    Ok (if ix <? blen fs then nth_error fs (Z.to_nat ix) else None, r)
  else Err BadMajor.

Lemma ext_txt_key : forall fs m, ext (txt_key fs m).
Proof. intros fs m. unfold txt_key. ext_auto2. Qed.

Lemma ext_dec_with : forall (decf : ty -> bytes -> res (val * bytes)) fd, (forall t, ext (decf t)) -> ext (dec_with decf fd).
Proof.
  intros decf fd D. unfold dec_with. destruct (f_with fd) as [w|]; [|apply D].
  destruct (String.eqb w "deserialize_from_str_and_truncate").
  - apply ext_bind; [apply D|intros v].
    destruct v as [ | | | | | |sv| | | | ]; try apply ext_ret.
    destruct sv as [ | |s| | | | | | | | ]; try apply ext_ret.
    destruct (truncate (str_cap (f_ty fd)) s) as [t|c|p|]; cbn [bind];
      [apply ext_ret|apply ext_fail|apply ext_panic|split; intros; discriminate].
  - destruct (String.eqb w "deserialize_from_str_and_skip_if_too_long"); [|apply ext_panic].
    apply ext_bind; [apply D|intros v].
    destruct v; try apply ext_panic. ext_auto2.
Qed.

Lemma txt_loop_fext : forall (decf : ty -> bytes -> res (val * bytes)) fs, (forall t, ext (decf t)) ->
  forall n acc, fext (fun fuel => txt_loop decf fs fuel n acc).
Proof.
  intros decf fs D.
  pose proof (lift_ext _ ext_skip_item) as [Sko Ske].
  assert (G : forall fuel n acc,
    (forall i v r x fuel', txt_loop decf fs fuel n acc i = Ok (v, r) -> (fuel <= fuel')%nat ->
                           txt_loop decf fs fuel' n acc (i ++ x) = Ok (v, r ++ x)) /\
    (forall i ce x fuel', txt_loop decf fs fuel n acc i = Err ce -> ce <> UnexpectedEnd -> (fuel <= fuel')%nat ->
                          txt_loop decf fs fuel' n acc (i ++ x) = Err ce)).
  { induction fuel as [|k IH]; intros n acc; split.
    - intros i v r x fuel' H _. cbn [txt_loop] in H. destruct (n <=? 0) eqn:E; [|discriminate].
      injection H as <- <-. destruct fuel'; cbn [txt_loop]; rewrite E; reflexivity.
    - intros i ce x fuel' H. cbn [txt_loop] in H. destruct (n <=? 0); discriminate.
    - intros i v r x fuel' H Hf. destruct fuel' as [|k']; [lia|]. cbn [txt_loop] in *.
      destruct (n <=? 0); [injection H as <- <-; reflexivity|].
      destruct i as [|b i]; [discriminate|]. cbn [peek_major bind app] in *.
      fold (txt_key fs (b / 32) (b :: i)) in H. fold (txt_key fs (b / 32) (b :: i ++ x)).
      destruct (txt_key fs (b / 32) (b :: i)) as [[fo r0]| | |] eqn:E; cbn [bind] in H; try discriminate.
      change (b :: i ++ x) with ((b :: i) ++ x). rewrite (proj1 (ext_txt_key fs (b / 32)) _ _ _ x E). cbn [bind].
      destruct fo as [fd|].
      + destruct (rget (f_label fd) acc); [discriminate|].
        destruct (dec_with decf fd r0) as [[v0 r1]| | |] eqn:E1; cbn [bind] in H; try discriminate.
        rewrite (proj1 (ext_dec_with decf fd D) r0 v0 r1 x E1). cbn [bind].
        apply (proj1 (IH (n - 1) _) r1 v r x k' H). lia.
      + destruct (skip_item r0) as [r1| | |] eqn:E1; cbn [bind] in H; try discriminate.
        rewrite (Sko r0 r1 x E1). cbn [bind].
        apply (proj1 (IH (n - 1) _) r1 v r x k' H). lia.
    - intros i ce x fuel' H Hc Hf. destruct fuel' as [|k']; [lia|]. cbn [txt_loop] in *.
      destruct (n <=? 0); [discriminate|].
      destruct i as [|b i]; [cbn in H; injection H as <-; contradiction|]. cbn [peek_major bind app] in *.
      fold (txt_key fs (b / 32) (b :: i)) in H. fold (txt_key fs (b / 32) (b :: i ++ x)).
      change (b :: i ++ x) with ((b :: i) ++ x).
      destruct (txt_key fs (b / 32) (b :: i)) as [[fo r0]|c| |] eqn:E; cbn [bind] in H; try discriminate.
      + rewrite (proj1 (ext_txt_key fs (b / 32)) _ _ _ x E). cbn [bind].
        destruct fo as [fd|].
        * destruct (rget (f_label fd) acc); [exact H|].
          destruct (dec_with decf fd r0) as [[v0 r1]|c| |] eqn:E1; cbn [bind] in H; try discriminate.
          { rewrite (proj1 (ext_dec_with decf fd D) r0 v0 r1 x E1). cbn [bind].
            apply (proj2 (IH (n - 1) _) r1 ce x k' H Hc). lia. }
          { injection H as ->. rewrite (proj2 (ext_dec_with decf fd D) r0 ce x E1 Hc). reflexivity. }
        * destruct (skip_item r0) as [r1|c| |] eqn:E1; cbn [bind] in H; try discriminate.
          { rewrite (Sko r0 r1 x E1). cbn [bind]. apply (proj2 (IH (n - 1) _) r1 ce x k' H Hc). lia. }
          { injection H as ->. rewrite (Ske r0 ce x E1 Hc). reflexivity. }
      + injection H as ->. rewrite (proj2 (ext_txt_key fs (b / 32)) _ _ x E Hc). reflexivity. }
  intros n acc. split.
  - intros fuel i v r x fuel'. apply (proj1 (G fuel n acc)).
  - intros fuel i ce x fuel'. apply (proj2 (G fuel n acc)).
Qed.

(* ---------------------------------------------------------------- cosey *)
Lemma ext_cose_next_key : forall len, ext (cose_next_key len).
Proof.
  intros len. unfold cose_next_key. apply ext_if; [apply ext_ret|].
  apply ext_bind; [apply ext_dec_i8|intros v]. destruct v; try apply ext_panic. apply ext_ret.
Qed.

Lemma ext_dec_repr_i8 : forall allowed, ext (dec_repr_i8 allowed).
Proof.
  intros allowed. unfold dec_repr_i8. apply ext_bind; [apply ext_dec_i8|intros v].
  destruct v; try apply ext_panic. ext_auto2.
Qed.

Ltac ext_auto3 :=
  repeat first
    [ apply ext_ret | apply ext_fail | apply ext_panic | apply ext_take
    | apply ext_raw_u32 | apply ext_dec_bytes_cap | apply ext_cose_next_key | apply ext_dec_repr_i8
    | apply ext_if
    | (apply ext_bind; [|intros ?])
    | match goal with |- ext (fun r => let (_, _) := ?p in _) => destruct p end
    | match goal with |- ext (fun r => match ?k with CK_Label _ => _ | _ => _ end) => destruct k end
    | progress cbv zeta ].

Lemma ext_dec_rawkey : ext dec_rawkey.
Proof. unfold dec_rawkey. ext_auto3. Qed.

Lemma ext_dec_cose_ecdh : ext dec_cose_ecdh.
Proof.
  unfold dec_cose_ecdh. apply ext_bind; [apply ext_dec_rawkey|intros k].
  destruct (rk_kty k); [|apply ext_fail].
  repeat match goal with
         | |- ext (fun r => if ?c then _ else _) => apply ext_if
         | |- ext (fun r => match ?o with Some _ => _ | None => _ end) => destruct o
         | |- _ => first [apply ext_ret | apply ext_fail]
         end.
Qed.

(* ---------------------------------------------------------------- the typed decoder *)
Lemma ext_eta {A} (f : bytes -> res (A * bytes)) : ext (fun i => f i) -> ext f.
Proof. intros H. exact H. Qed.

Theorem dec_ext : forall e k t, ext (dec e k t).
Proof.
  intros e. induction k as [|k IH]; intros t.
  - split; intros; discriminate.
  - apply ext_eta.
    destruct t as [ | | | | | | | | | |n|n|n|n|n| | |n|u n|u|u|name|name|name];
      try (cbn [dec]; ext_auto2; fail); try (cbn [dec]; apply ext_panic).
    + (* Vec *)
      cbn [dec]. apply ext_bind; [apply ext_raw_u32|intros cnt].
      apply (ext_bind (fun r => seq_loop (dec e k u) (S (List.length r)) cnt n [] r)); [|intros l; apply ext_ret].
      apply (fext_ext (fun fuel => seq_loop (dec e k u) fuel cnt n [])). apply seq_loop_fext. apply IH.
    + (* Option *)
      split.
      * intros [|b i] v r x H; [discriminate|].
        cbn [app]. rewrite dec_opt_cases in *. destruct (b =? 246); [injection H as <- <-; reflexivity|].
        destruct (dec e k u (b :: i)) as [[v0 r0]| | |] eqn:E; cbn [bind] in H; try discriminate.
        change (b :: i ++ x) with ((b :: i) ++ x). rewrite (proj1 (IH u) _ _ _ x E). cbn [bind].
        injection H as <- <-. reflexivity.
      * intros [|b i] ce x H Hc; [injection H as <-; contradiction|].
        cbn [app]. rewrite dec_opt_cases in *. destruct (b =? 246); [discriminate|].
        change (b :: i ++ x) with ((b :: i) ++ x).
        destruct (dec e k u (b :: i)) as [[v0 r0]|c| |] eqn:E; cbn [bind] in H; try discriminate.
        injection H as ->. rewrite (proj2 (IH u) _ _ x E Hc). reflexivity.
    + (* named *)
      cbn [dec]. destruct (lookup e name) as [d|]; [|apply ext_panic].
      destruct d as [ix sr de fs|sr de into tf|repr sr de vs|sr vs|kind sr de params|]; try apply ext_panic.
      * destruct ix.
        { apply ext_bind; [apply ext_raw_u32|intros cnt].
          apply (ext_bind (fun r => idx_loop (dec e k) fs (S (List.length r)) cnt [] r)).
          - apply (fext_ext (fun fuel => idx_loop (dec e k) fs fuel cnt [])). apply idx_loop_fext. apply IH.
          - intros acc. destruct (idx_finish fs acc); cbn [bind]; [apply ext_ret|apply ext_fail|apply ext_panic|split; intros; discriminate]. }
        { apply ext_bind; [apply ext_raw_u32|intros cnt].
          apply (ext_bind (fun r => txt_loop (dec e k) fs (S (List.length r)) cnt [] r)).
          - apply (fext_ext (fun fuel => txt_loop (dec e k) fs fuel cnt [])). apply txt_loop_fext. apply IH.
          - intros acc. destruct (txt_finish fs acc); cbn [bind]; [apply ext_ret|apply ext_fail|apply ext_panic|split; intros; discriminate]. }
      * apply ext_bind; [apply ext_dec_str_raw|intros s]. destruct (lookup_tryfrom s tf); [apply ext_ret|apply ext_fail].
      * apply ext_bind.
        { destruct (String.eqb repr "u8"); [apply ext_raw_u8|apply ext_panic]. }
        intros z. destruct (variant_of_discr z vs); [apply ext_ret|apply ext_fail].
      * destruct (String.eqb kind "webauthn::Icon").
        { apply ext_bind; [apply ext_dec_str_raw|intros s]. apply ext_ret. }
        destruct (String.eqb kind "webauthn::FilteredPublicKeyCredentialParameters").
        { apply ext_bind; [apply ext_raw_u32|intros cnt]. cbv zeta.
          match goal with |- ext (fun r => bind (fold_loop ?d ?st _ _ ?a r) _) =>
            apply (ext_bind (fun r => fold_loop d st (S (List.length r)) cnt a r)); [|intros acc; apply ext_ret];
            apply (fext_ext (fun fuel => fold_loop d st fuel cnt a)); apply fold_loop_fext; apply IH end. }
        destruct (String.eqb kind "ctap2::AttestationFormatsPreference").
        { apply ext_bind; [apply ext_raw_u32|intros cnt]. cbv zeta.
          match goal with |- ext (fun r => bind (fold_loop ?d ?st _ _ ?a r) _) =>
            apply (ext_bind (fun r => fold_loop d st (S (List.length r)) cnt a r)); [|intros acc; apply ext_ret];
            apply (fext_ext (fun fuel => fold_loop d st fuel cnt a)); apply fold_loop_fext; apply IH end. }
        destruct (String.eqb kind "ext::EcdhEsHkdf256PublicKey"); [apply ext_dec_cose_ecdh|apply ext_panic].
Qed.

(* ---------------------------------------------------------------- read-outs *)
Corollary dec_reads_only_its_value : forall e k t i v r x,
  dec e k t i = Ok (v, r) -> dec e k t (i ++ x) = Ok (v, r ++ x).
Proof. intros e k t i v r x H. apply (proj1 (dec_ext e k t) i v r x H). Qed.

Corollary dec_failure_is_final : forall e k t i ce x,
  dec e k t i = Err ce -> ce <> UnexpectedEnd -> dec e k t (i ++ x) = Err ce.
Proof. intros e k t i ce x H Hc. apply (proj2 (dec_ext e k t) i ce x H Hc). Qed.

(* every proper prefix of the encoding of a well-typed value is rejected with UnexpectedEnd *)
Theorem truncation_rejected : forall e k t v b p x,
  env_rt e = true -> decodable e k t = true -> wt e k t v = true -> ser e k t v = Some b ->
  b = p ++ x -> x <> [] -> dec e k t p = Err UnexpectedEnd.
Proof.
  intros e k t v b p x He Hd W H Hb Hx.
  pose proof (ser_dec_roundtrip e He k t v b W H k [] (le_n k)) as R. rewrite app_nil_r in R.
  pose proof (dec_total e k t Hd p) as T.
  destruct (dec e k t p) as [[v' r']|ce| |] eqn:E; cbn in T; try contradiction.
  - exfalso. pose proof (dec_reads_only_its_value e k t p v' r' x E) as X.
    rewrite <- Hb in X. rewrite R in X. injection X as _ X.
    destruct r'; destruct x; try discriminate. apply Hx. reflexivity.
  - destruct ce; try reflexivity; exfalso;
      match goal with E : dec e k t p = Err ?c |- _ =>
        pose proof (dec_failure_is_final e k t p c x E ltac:(discriminate)) as X end;
      rewrite <- Hb in X; rewrite R in X; discriminate.
Qed.
