(* Lemmas for C11 (command-byte table).  All byte-indexed facts are exhaustive over 0..255. *)
From Ctap Require Import Base Schema Procs Inst ProcTables Finite.
From Coq Require Import Lia.
Local Open Scope string_scope.
Local Open Scope Z_scope.

(* ---- the specification's reading, as functions of the byte *)
Definition spec_op (b : Z) : option opv :=
  match zassoc b spec_commands with
  | Some n => Some (OpNamed n)
  | None => if (spec_vendor_first <=? b) && (b <=? spec_vendor_last) then Some (OpVendor b) else None
  end.

Definition spec_payload_ty (variant : string) : ty :=
  if String.eqb variant "MakeCredential" then TNamed "ctap2::make_credential::Request"
  else if String.eqb variant "GetAssertion" then TNamed "ctap2::get_assertion::Request"
  else if String.eqb variant "ClientPin" then TNamed "ctap2::client_pin::Request"
  else if String.eqb variant "CredentialManagement" then TNamed "ctap2::credential_management::Request"
  else TNamed "ctap2::large_blobs::Request".

Definition spec_route (b : Z) : route :=
  match spec_op b with
  | None => RtInvalid
  | Some (OpVendor c) => RtVendor c
  | Some (OpNamed n) =>
      match spec_op_kind n with
      | OkDecode v => RtDecode v (spec_payload_ty v)
      | OkUnit v => RtUnit v
      | OkVendor => RtInvalid
      | OkReject => RtInvalid
      end
  end.

(* ---- the model's tables do what the specification says, for every byte *)
Lemma op_of_u8_spec : forall b, 0 <= b < 256 -> op_of_u8 spec_tables b = spec_op b.
Proof.
  intros b Hb.
  apply (opt_eqb_eq opv_eqb opv_eqb_eq).
  revert b Hb. apply forall_bytes. vm_compute. reflexivity.
Qed.

Lemma route_of_spec : forall b, 0 <= b < 256 -> route_of spec_tables b = spec_route b.
Proof.
  intros b Hb. apply route_eqb_eq.
  revert b Hb. apply forall_bytes. vm_compute. reflexivity.
Qed.

Lemma vendor_of_u8_spec : forall b, 0 <= b < 256 ->
  vendor_of_u8 spec_tables b = if (64 <=? b) && (b <=? 127) then Some b else None.
Proof.
  intros b Hb. apply (opt_eqb_eq Z.eqb (fun x y H => proj1 (Z.eqb_eq x y) H)).
  revert b Hb. apply forall_bytes. vm_compute. reflexivity.
Qed.

Lemma op_roundtrip : forall b o, 0 <= b < 256 ->
  op_of_u8 spec_tables b = Some o -> u8_of_op spec_tables o = Some b.
Proof.
  intros b o Hb H.
  assert (G : (match op_of_u8 spec_tables b with
               | Some o' => opt_eqb Z.eqb (u8_of_op spec_tables o') (Some b)
               | None => true end) = true).
  { clear H. revert b Hb. apply forall_bytes. vm_compute. reflexivity. }
  rewrite H in G.
  apply (opt_eqb_eq Z.eqb (fun x y E => proj1 (Z.eqb_eq x y) E)) in G. exact G.
Qed.

Lemma op_injective : forall b1 b2 o, 0 <= b1 < 256 -> 0 <= b2 < 256 ->
  op_of_u8 spec_tables b1 = Some o -> op_of_u8 spec_tables b2 = Some o -> b1 = b2.
Proof.
  intros b1 b2 o H1 H2 E1 E2.
  apply op_roundtrip in E1; [|exact H1]. apply op_roundtrip in E2; [|exact H2].
  rewrite E1 in E2. injection E2; auto.
Qed.

(* every operation value the table can produce, and only those, convert to a byte; distinct
   operations never share a byte *)
Definition all_ops : list opv :=
  map (fun p => OpNamed (snd p)) spec_commands ++ map OpVendor (zrange 66 128).

Lemma all_ops_complete : forall b o, 0 <= b < 256 -> op_of_u8 spec_tables b = Some o -> In o all_ops.
Proof.
  intros b o Hb H.
  assert (G : (match op_of_u8 spec_tables b with
               | Some o' => existsb (opv_eqb o') all_ops
               | None => true end) = true).
  { clear H. revert b Hb. apply forall_bytes. vm_compute. reflexivity. }
  rewrite H in G. apply existsb_exists in G. destruct G as [x [Hin Heq]].
  apply opv_eqb_eq in Heq. subst. exact Hin.
Qed.

Lemma op_back : forall o, In o all_ops ->
  exists b, 0 <= b < 256 /\ u8_of_op spec_tables o = Some b /\ op_of_u8 spec_tables b = Some o.
Proof.
  intros o Hin.
  assert (G : forallb (fun o => match u8_of_op spec_tables o with
                                | Some b => (0 <=? b) && (b <? 256) && opt_eqb opv_eqb (op_of_u8 spec_tables b) (Some o)
                                | None => false end) all_ops = true) by (vm_compute; reflexivity).
  rewrite forallb_forall in G. specialize (G o Hin).
  destruct (u8_of_op spec_tables o) as [b|]; [|discriminate].
  exists b. apply andb_true_iff in G. destruct G as [G1 G2]. apply andb_true_iff in G1. destruct G1 as [G0 G1].
  apply (opt_eqb_eq opv_eqb opv_eqb_eq) in G2.
  repeat split; auto; lia.
Qed.

Lemma into_injective : forall o1 o2 b, In o1 all_ops -> In o2 all_ops ->
  u8_of_op spec_tables o1 = Some b -> u8_of_op spec_tables o2 = Some b -> o1 = o2.
Proof.
  intros o1 o2 b H1 H2 E1 E2.
  destruct (op_back o1 H1) as [b1 [_ [F1 G1]]]. destruct (op_back o2 H2) as [b2 [_ [F2 G2]]].
  rewrite E1 in F1. rewrite E2 in F2. injection F1 as <-. injection F2 as <-.
  rewrite G1 in G2. injection G2; auto.
Qed.

(* ---- the regenerated tables behave like the specification's, for every byte / operation *)
Definition op_tables_equiv (G : tables) : bool :=
  forallb (fun b => opt_eqb opv_eqb (op_of_u8 G b) (op_of_u8 spec_tables b)
                    && opt_eqb Z.eqb (vendor_of_u8 G b) (vendor_of_u8 spec_tables b)
                    && route_eqb (route_of G b) (route_of spec_tables b)) bytes256
  && forallb (fun o => opt_eqb Z.eqb (u8_of_op G o) (u8_of_op spec_tables o)) all_ops
  && Z.eqb (status_invalid_command G) (status_invalid_command spec_tables)
  && Z.eqb (status_of_cerr G UnexpectedEnd) (status_of_cerr spec_tables UnexpectedEnd).


Lemma op_tables_equiv_route (G : tables) : op_tables_equiv G = true ->
  forall b, 0 <= b < 256 -> route_of G b = route_of spec_tables b.
Proof.
  unfold op_tables_equiv. intros H b Hb.
  apply andb_true_iff in H; destruct H as [H _].
  apply andb_true_iff in H; destruct H as [H _].
  apply andb_true_iff in H; destruct H as [H _].
  pose proof (forall_bytes _ H b Hb) as Gb. cbv beta in Gb.
  apply andb_true_iff in Gb; destruct Gb as [_ Gb].
  apply route_eqb_eq in Gb. exact Gb.
Qed.

