(* The codec looks at an environment only through the declarations reachable from the type it decodes or
   encodes.  If two environments agree on a set of names that is closed under "refers to", then dec and ser
   of any type over those names are THE SAME FUNCTION in both - for every input.  Instantiated with the
   request / response closures this turns the kernel-checked equality "regenerated declarations =
   specification tables" into: the model at the regenerated declarations IS the model at the specification
   tables (the one the differential run executes), on every input. *)
From Ctap Require Import Base Schema Wire Utf8 Typed Procs Inst WireP Finite MonoP.
From Coq Require Import Lia.
Local Open Scope string_scope.
Local Open Scope list_scope.
Local Open Scope Z_scope.

(* ---------------------------------------------------------------- soundness of field / decl equality *)
Lemma field_eqb_eq : forall a b, field_eqb a b = true -> a = b.
Proof.
  intros [l1 k1 a1 t1 o1 sn1 ss1 d1 w1] [l2 k2 a2 t2 o2 sn2 ss2 d2 w2] H. unfold field_eqb in H. cbn in H.
  repeat match goal with
         | H : (_ && _)%bool = true |- _ => apply andb_prop in H; destruct H
         end.
  repeat match goal with
         | H : String.eqb _ _ = true |- _ => apply string_eqb_eq in H
         | H : key_eqb _ _ = true |- _ => apply key_eqb_eq in H
         | H : list_eqb String.eqb _ _ = true |- _ => apply (list_eqb_eq _ string_eqb_eq) in H
         | H : ty_eqb _ _ = true |- _ => apply ty_eqb_eq in H
         | H : Bool.eqb _ _ = true |- _ => apply bool_eqb_eq in H
         end.
  subst. f_equal. destruct w1, w2; cbn in *; try discriminate; try reflexivity.
  f_equal. apply string_eqb_eq. assumption.
Qed.

Lemma decl_eqb_eq : forall a b, decl_eqb a b = true -> a = b.
Proof.
  intros a b H. pose proof (decl_eqb_nonstruct a b H) as N. destruct a; try exact N.
  destruct b; cbn [decl_eqb] in H; try discriminate.
  repeat match goal with
         | H : (_ && _)%bool = true |- _ => apply andb_prop in H; destruct H
         end.
  repeat match goal with
         | H : Bool.eqb _ _ = true |- _ => apply bool_eqb_eq in H
         | H : list_eqb field_eqb _ _ = true |- _ => apply (list_eqb_eq _ field_eqb_eq) in H
         end.
  subst. reflexivity.
Qed.

(* ---------------------------------------------------------------- closed sets of names, agreement *)
Definition names_in (names : list string) (l : list string) : bool := forallb (fun n => smem n names) l.

Definition closed (names : list string) (e : env) : bool :=
  forallb (fun n => match lookup e n with Some d => names_in names (decl_refs d) | None => true end) names.

Definition agree (names : list string) (e e' : env) : bool :=
  forallb (fun n => match lookup e n, lookup e' n with
                    | Some a, Some b => decl_eqb a b
                    | None, None => true
                    | _, _ => false end) names.

Lemma smem_true_in : forall x l, smem x l = true -> In x l.
Proof.
  intros x l H. unfold smem in H. apply existsb_exists in H. destruct H as [y [Hy E]].
  apply String.eqb_eq in E. subst. exact Hy.
Qed.
Lemma in_smem_true : forall x l, In x l -> smem x l = true.
Proof. intros x l H. unfold smem. apply existsb_exists. exists x. split; [exact H|apply String.eqb_refl]. Qed.

Lemma agree_lookup : forall names e e' n, agree names e e' = true -> smem n names = true -> lookup e n = lookup e' n.
Proof.
  intros names e e' n A Hn. unfold agree in A. rewrite forallb_forall in A.
  specialize (A n (smem_true_in _ _ Hn)).
  destruct (lookup e n) as [a|], (lookup e' n) as [b|]; try discriminate; [|reflexivity].
  f_equal. apply decl_eqb_eq. exact A.
Qed.

Lemma closed_refs : forall names e n d, closed names e = true -> smem n names = true -> lookup e n = Some d ->
  names_in names (decl_refs d) = true.
Proof.
  intros names e n d C Hn L. unfold closed in C. rewrite forallb_forall in C.
  specialize (C n (smem_true_in _ _ Hn)). rewrite L in C. exact C.
Qed.

(* ---------------------------------------------------------------- loops are extensional in the element decoder *)
Lemma seq_loop_ext : forall (f g : bytes -> res (val * bytes)), (forall i, f i = g i) ->
  forall fuel n cap acc i, seq_loop f fuel n cap acc i = seq_loop g fuel n cap acc i.
Proof.
  intros f g E. induction fuel as [|k IH]; intros n cap acc i; cbn [seq_loop]; [reflexivity|].
  destruct (n <=? 0); [reflexivity|]. rewrite E. destruct (g i) as [[v r]| | |]; cbn [bind]; try reflexivity.
  destruct (blen acc <? cap); [apply IH|reflexivity].
Qed.

Lemma fold_loop_ext {St} : forall (f g : bytes -> res (val * bytes)) (step : St -> val -> St), (forall i, f i = g i) ->
  forall fuel n acc i, fold_loop f step fuel n acc i = fold_loop g step fuel n acc i.
Proof.
  intros f g step E. induction fuel as [|k IH]; intros n acc i; cbn [fold_loop]; [reflexivity|].
  destruct (n <=? 0); [reflexivity|]. rewrite E. destruct (g i) as [[v r]| | |]; cbn [bind]; try reflexivity. apply IH.
Qed.

Lemma find_idx_field_in' : forall k fs fd, find_idx_field k fs = Some fd -> In fd fs.
Proof.
  intros k fs. induction fs as [|x fs IH]; intros fd H; [discriminate|]. cbn [find_idx_field] in H.
  destruct (f_key x) as [z|s].
  - destruct (z =? k); [injection H as <-; left; reflexivity|right; apply IH; exact H].
  - right. apply IH. exact H.
Qed.

Lemma idx_loop_ext : forall (f g : ty -> bytes -> res (val * bytes)) fs,
  (forall fd, In fd fs -> forall i, f (if f_opt fd then inner_ty (f_ty fd) else f_ty fd) i
                                  = g (if f_opt fd then inner_ty (f_ty fd) else f_ty fd) i) ->
  forall fuel n acc i, idx_loop f fs fuel n acc i = idx_loop g fs fuel n acc i.
Proof.
  intros f g fs E. induction fuel as [|k IH]; intros n acc i; cbn [idx_loop]; [reflexivity|].
  destruct (n <=? 0); [reflexivity|]. destruct (raw_u64 0 i) as [[key r]| | |]; cbn [bind]; try reflexivity.
  destruct (find_idx_field key fs) as [fd|] eqn:F; [|reflexivity].
  destruct (rget (f_label fd) acc); [reflexivity|].
  rewrite (E fd (find_idx_field_in' _ _ _ F)).
  destruct (g _ r) as [[v r']| | |]; cbn [bind]; try reflexivity. apply IH.
Qed.

Lemma find_txt_field_in' : forall name fs fd, find_txt_field name fs = Some fd -> In fd fs.
Proof.
  intros name fs. induction fs as [|x fs IH]; intros fd H; [discriminate|]. cbn [find_txt_field] in H.
  destruct (field_names_match name x); [injection H as <-; left; reflexivity|right; apply IH; exact H].
Qed.

Lemma dec_with_ext : forall (f g : ty -> bytes -> res (val * bytes)) fd,
  (forall i, f (f_ty fd) i = g (f_ty fd) i) -> (forall i, f (TOpt TStrRef) i = g (TOpt TStrRef) i) ->
  (forall i, f TStrRef i = g TStrRef i) ->
  forall i, dec_with f fd i = dec_with g fd i.
Proof.
  intros f g fd E1 E2 E3 i. unfold dec_with. destruct (f_with fd) as [w|]; [|apply E1].
  destruct (String.eqb w "deserialize_from_str_and_truncate"); [rewrite E2; reflexivity|].
  destruct (String.eqb w "deserialize_from_str_and_skip_if_too_long"); [rewrite E3; reflexivity|reflexivity].
Qed.

Lemma txt_loop_ext : forall (f g : ty -> bytes -> res (val * bytes)) fs,
  (forall fd, In fd fs -> forall i, f (f_ty fd) i = g (f_ty fd) i) ->
  (forall i, f (TOpt TStrRef) i = g (TOpt TStrRef) i) -> (forall i, f TStrRef i = g TStrRef i) ->
  forall fuel n acc i, txt_loop f fs fuel n acc i = txt_loop g fs fuel n acc i.
Proof.
  intros f g fs E E2 E3. induction fuel as [|k IH]; intros n acc i; cbn [txt_loop]; [reflexivity|].
  destruct (n <=? 0); [reflexivity|]. destruct (peek_major i) as [m| | |]; cbn [bind]; try reflexivity.
  match goal with |- bind ?K _ = bind ?K _ => destruct K as [[fo r]| | |] eqn:EK end; cbn [bind]; try reflexivity.
  destruct fo as [fd|].
  - destruct (rget (f_label fd) acc); [reflexivity|].
    assert (Hin : In fd fs).
    { destruct ((m =? 2) || (m =? 3)).
      - destruct (raw_u32 m i) as [[len r0]| | |]; cbn [bind] in EK; try discriminate.
        destruct (take len r0) as [[name r1]| | |]; cbn [bind] in EK; try discriminate.
        destruct (utf8_valid name); [|discriminate]. injection EK as E1 _. apply find_txt_field_in' in E1. exact E1.
      - destruct (m =? 0); [|discriminate].
        destruct (raw_u64 0 i) as [[ix r0]| | |]; cbn [bind] in EK; try discriminate.
        injection EK as E1 _. destruct (ix <? blen fs); [|discriminate]. apply nth_error_In in E1. exact E1. }
    rewrite (dec_with_ext f g fd (E fd Hin) E2 E3).
    destruct (dec_with g fd r) as [[v r']| | |]; cbn [bind]; try reflexivity. apply IH.
  - destruct (skip_item r); cbn [bind]; try reflexivity. apply IH.
Qed.

(* ---------------------------------------------------------------- the decoder *)
Lemma ty_names_inner : forall t, ty_names (inner_ty t) = ty_names t.
Proof. intros t. destruct t; reflexivity. Qed.

Lemma names_in_flat : forall names (fs : list field) fd,
  names_in names (flat_map (fun x => ty_names (f_ty x)) fs) = true -> In fd fs ->
  names_in names (ty_names (f_ty fd)) = true.
Proof.
  intros names fs fd H Hin. unfold names_in in *. rewrite forallb_forall in *.
  intros n Hn. apply H. apply in_flat_map. exists fd. split; assumption.
Qed.

Theorem dec_agree : forall names e e', closed names e = true -> agree names e e' = true ->
  forall k t i, names_in names (ty_names t) = true -> dec e k t i = dec e' k t i.
Proof.
  intros names e e' C A. induction k as [|k IH]; intros t i Hn; [reflexivity|].
  destruct t as [ | | | | | | | | | |n|n|n|n|n| | |n|u n|u|u|name|name|name]; try reflexivity.
  - (* Vec *)
    cbn [dec]. destruct (raw_u32 4 i) as [[cnt r]| | |]; cbn [bind]; try reflexivity.
    rewrite (seq_loop_ext (dec e k u) (dec e' k u)); [reflexivity|]. intros j. apply IH. exact Hn.
  - (* Option *)
    cbn [dec]. destruct i as [|b i]; [reflexivity|]. rewrite (IH u (b :: i) Hn). reflexivity.
  - (* named *)
    cbn [ty_names names_in forallb] in Hn. apply andb_prop in Hn. destruct Hn as [Hn _].
    cbn [dec]. rewrite <- (agree_lookup names e e' name A Hn).
    destruct (lookup e name) as [d|] eqn:L; [|reflexivity].
    pose proof (closed_refs names e name d C Hn L) as R.
    destruct d as [ix sr de fs|sr de into tf|repr sr de vs|sr vs|kind sr de params|]; try reflexivity.
    + cbn [decl_refs] in R. destruct ix.
      * destruct (raw_u32 5 i) as [[cnt r]| | |]; cbn [bind]; try reflexivity.
        rewrite (idx_loop_ext (dec e k) (dec e' k) fs); [reflexivity|].
        intros fd Hin j. apply IH. destruct (f_opt fd); [rewrite ty_names_inner|]; apply (names_in_flat names fs fd R Hin).
      * destruct (raw_u32 5 i) as [[cnt r]| | |]; cbn [bind]; try reflexivity.
        rewrite (txt_loop_ext (dec e k) (dec e' k) fs); [reflexivity| | |].
        { intros fd Hin j. apply IH. apply (names_in_flat names fs fd R Hin). }
        { intros j. apply IH. reflexivity. }
        { intros j. apply IH. reflexivity. }
    + cbn [decl_refs] in R.
      destruct (String.eqb kind "webauthn::Icon"); [reflexivity|].
      destruct (String.eqb kind "webauthn::FilteredPublicKeyCredentialParameters") eqn:Ef.
      { destruct (raw_u32 4 i) as [[cnt r]| | |]; cbn [bind]; try reflexivity.
        rewrite (fold_loop_ext (dec e k (TNamed n_PKCP)) (dec e' k (TNamed n_PKCP))); [reflexivity|].
        intros j. apply IH. exact R. }
      destruct (String.eqb kind "ctap2::AttestationFormatsPreference") eqn:Ea; [|reflexivity].
      destruct (raw_u32 4 i) as [[cnt r]| | |]; cbn [bind]; try reflexivity.
      cbn [names_in forallb] in R. apply andb_prop in R. destruct R as [R _].
      rewrite <- (agree_lookup names e e' n_ASF A R).
      rewrite (fold_loop_ext (dec e k TStrRef) (dec e' k TStrRef)); [reflexivity|].
      intros j. apply IH. reflexivity.
Qed.

(* ---------------------------------------------------------------- the encoder *)
Theorem ser_agree : forall names e e', closed names e = true -> agree names e e' = true ->
  forall k t v, names_in names (ty_names t) = true -> ser e k t v = ser e' k t v.
Proof.
  intros names e e' C A. induction k as [|k IH]; intros t v Hn; [reflexivity|].
  destruct t as [ | | | | | | | | | |n|n|n|n|n| | |n|u n|u|u|name|name|name]; try reflexivity.
  - (* Vec *)
    cbn [ser]. destruct v; try reflexivity.
    rewrite (map_ext (ser e k u) (ser e' k u)); [reflexivity|]. intros x. apply IH. exact Hn.
  - (* Option *)
    cbn [ser]. destruct v; try reflexivity. apply IH. exact Hn.
  - (* named *)
    cbn [ty_names names_in forallb] in Hn. apply andb_prop in Hn. destruct Hn as [Hn _].
    cbn [ser]. rewrite <- (agree_lookup names e e' name A Hn).
    destruct (lookup e name) as [d|] eqn:L; [|reflexivity].
    pose proof (closed_refs names e name d C Hn L) as R.
    destruct d as [ix sr de fs|sr de into tf|repr sr de vs|sr vs|kind sr de params|]; try reflexivity.
    + cbn [decl_refs] in R. destruct v; try reflexivity.
      rewrite (map_ext_in _ (fun fd => match rget (f_label fd) fs0 with
                                       | None => if f_skip_none fd || f_skip_ser fd then Some [] else None
                                       | Some fv => if emitted fd fv
                                                    then match ser e' k (f_ty fd) fv with
                                                         | Some b => Some (ser_key (f_key fd) ++ b)
                                                         | None => None end
                                                    else Some [] end) fs); [reflexivity|].
      intros fd Hin. destruct (rget (f_label fd) fs0) as [fv|]; [|reflexivity].
      destruct (emitted fd fv); [|reflexivity].
      rewrite (IH (f_ty fd) fv (names_in_flat names fs fd R Hin)). reflexivity.
    + cbn [decl_refs] in R. destruct v; try reflexivity.
      destruct (assoc variant vs) as [u|] eqn:Ea; [|reflexivity].
      apply IH. unfold names_in in *. rewrite forallb_forall in *. intros n0 Hn0. apply R.
      apply in_flat_map. exists (variant, u). split; [|exact Hn0].
      clear -Ea. induction vs as [|[a b] vs IHv]; [discriminate|]. cbn [assoc] in Ea.
      destruct (String.eqb variant a) eqn:E; [apply String.eqb_eq in E; subst; injection Ea as ->; left; reflexivity|right; apply IHv; exact Ea].
    + cbn [decl_refs] in R.
      destruct (String.eqb kind "webauthn::FilteredPublicKeyCredentialParameters") eqn:Ef; [|reflexivity].
      destruct v; try reflexivity.
      rewrite (map_ext _ (fun kp => match kp with
                                    | VRec fs0 => match rget "alg" fs0 with
                                                  | Some a => ser e' k (TNamed n_PKCP) (VRec [("alg", a); ("key_type", VStr (bytes_of_string "public-key"))])
                                                  | None => None end
                                    | _ => None end)); [reflexivity|].
      intros kp. destruct kp; try reflexivity. destruct (rget "alg" fs); [|reflexivity].
      apply IH. exact R.
Qed.

(* at the model's fuel *)
Corollary decode_agree : forall names e e' t i, closed names e = true -> agree names e e' = true ->
  names_in names (ty_names t) = true -> decode e t i = decode e' t i.
Proof. intros names e e' t i C A Hn. unfold decode. apply (dec_agree names e e' C A). exact Hn. Qed.

Corollary encode_agree : forall names e e' t v, closed names e = true -> agree names e e' = true ->
  names_in names (ty_names t) = true -> encode e t v = encode e' t v.
Proof. intros names e e' t v C A Hn. unfold encode. apply (ser_agree names e e' C A). exact Hn. Qed.

(* ---------------------------------------------------------------- whole requests *)
Definition all_cerr : list cerr :=
  [WontImplement; NotYetImplemented; SerializeBufferFull; UnexpectedEnd; BadBool; BadUtf8; BadEnum;
   BadMajor; BadI8; BadI16; BadI32; BadI64; BadU8; BadU16; BadU32; BadU64; ExpectedNull;
   InexistentSliceToArrayError; NonMinimal; SerdeSerCustom; SerdeDeCustom; SerdeMissingField].
Lemma all_cerr_complete : forall c, In c all_cerr.
Proof. intros c. destruct c; cbn; tauto. Qed.

Definition err_status_equal (T T' : tables) : bool :=
  forallb (fun c => Z.eqb (status_of_cerr T c) (status_of_cerr T' c)) all_cerr
  && Z.eqb (status_invalid_command T) (status_invalid_command T').

Theorem request_deserialize_agree : forall (T T' : tables) (e e' : env) names,
  (forall b, 0 <= b < 256 -> route_of T b = route_of T' b) ->
  err_status_equal T T' = true ->
  closed names e = true -> agree names e e' = true ->
  (forall b v t, 0 <= b < 256 -> route_of T b = RtDecode v t -> names_in names (ty_names t) = true) ->
  forall d, (match d with b :: _ => 0 <= b < 256 | [] => True end) ->
  request_deserialize T e d = request_deserialize T' e' d.
Proof.
  intros T T' e e' names Hr Hs C A Hn d Hd.
  unfold err_status_equal in Hs. apply andb_prop in Hs. destruct Hs as [Hs Hi].
  rewrite forallb_forall in Hs.
  assert (Hst : forall c, status_of_cerr T c = status_of_cerr T' c).
  { intros c. apply Z.eqb_eq. apply Hs. apply all_cerr_complete. }
  apply Z.eqb_eq in Hi.
  destruct d as [|b d]; cbn [request_deserialize]; [rewrite Hst; reflexivity|].
  rewrite <- (Hr b Hd). destruct (route_of T b) as [v t|v|c| |w] eqn:R; cbn [run_route]; try reflexivity.
  - rewrite (decode_agree names e e' t d C A (Hn b v t Hd R)).
    destruct (decode e' t d) as [[x r]|ce| |]; try reflexivity. rewrite Hst. reflexivity.
  - rewrite Hi. reflexivity.
Qed.

(* the same, packaged over abstract tables / environments / routing function (so that instances never make the
   kernel unfold concrete tables) *)
Definition route_names_ok_gen (sr : Z -> route) (names : list string) (b : Z) : bool :=
  match sr b with RtDecode _ t => names_in names (ty_names t) | _ => true end.

Definition agreement_bundle (T T' : tables) (e e' : env) (names : list string) (sr : Z -> route) : bool :=
  closed names e && agree names e e' && err_status_equal T T' && forallb (route_names_ok_gen sr names) bytes256.

Theorem request_models_agree : forall (T T' : tables) (e e' : env) names (sr : Z -> route),
  (forall b, 0 <= b < 256 -> route_of T b = sr b) -> (forall b, 0 <= b < 256 -> route_of T' b = sr b) ->
  agreement_bundle T T' e e' names sr = true ->
  forall d, (match d with b :: _ => 0 <= b < 256 | [] => True end) ->
  request_deserialize T e d = request_deserialize T' e' d.
Proof.
  intros T T' e e' names sr H1 H2 Ha d Hd. unfold agreement_bundle in Ha.
  apply andb_prop in Ha. destruct Ha as [Ha Hty]. apply andb_prop in Ha. destruct Ha as [Ha Hs].
  apply andb_prop in Ha. destruct Ha as [Hc Hag].
  apply (request_deserialize_agree T T' e e' names); try assumption.
  - intros b Hb. rewrite (H1 b Hb), (H2 b Hb). reflexivity.
  - intros b v t Hb R. rewrite (H1 b Hb) in R.
    pose proof (forall_bytes (route_names_ok_gen sr names) Hty b Hb) as Hn. unfold route_names_ok_gen in Hn.
    rewrite R in Hn. exact Hn.
Qed.

(* ---------------------------------------------------------------- whole responses *)
Definition arm_sim (a b : option mbody) : bool :=
  match a, b with
  | Some MB_Ser, Some MB_Ser => true
  | Some (MB_Other _), Some (MB_Other _) => true
  | _, _ => false
  end.

Lemma arm_sim_cases : forall a b, arm_sim a b = true ->
  (a = Some MB_Ser /\ b = Some MB_Ser) \/ (exists s s', a = Some (MB_Other s) /\ b = Some (MB_Other s')).
Proof.
  intros [[]|] b H; cbn [arm_sim] in H; try discriminate; destruct b as [[]|]; try discriminate.
  - left. split; reflexivity.
  - right. eexists; eexists; split; reflexivity.
Qed.

Definition tys_eqb (a b : list ty) : bool := list_eqb ty_eqb a b.

Definition response_bundle (T T' : tables) (e e' : env) (names : list string) : bool :=
  closed names e && agree names e e'
  && forallb (fun p => arm_sim (match_var (t_resp_arms T) (fst p)) (match_var (t_resp_arms T') (fst p))
                       && match assoc (fst p) (t_resp_variants T') with Some tys => tys_eqb (snd p) tys | None => false end
                       && names_in names (flat_map ty_names (snd p)))
             (t_resp_variants T)
  && Z.eqb (err_code T "Other") (err_code T' "Other").

Lemma assoc_in_list {A} : forall k (l : list (string * A)) v, assoc k l = Some v -> In (k, v) l.
Proof.
  intros k l. induction l as [|[k' v'] l IH]; intros v H; [discriminate|]. cbn [assoc] in H.
  destruct (String.eqb k k') eqn:E.
  - apply String.eqb_eq in E. subst. injection H as <-. left. reflexivity.
  - right. apply IH. exact H.
Qed.

Theorem response_models_agree : forall (T T' : tables) (e e' : env) names,
  response_bundle T T' e e' names = true ->
  forall variant tys, assoc variant (t_resp_variants T) = Some tys ->
  forall payload n prior,
    response_serialize T e variant payload n prior = response_serialize T' e' variant payload n prior.
Proof.
  intros T T' e e' names B variant tys Hv payload n prior. unfold response_bundle in B.
  apply andb_prop in B. destruct B as [B Herr]. apply andb_prop in B. destruct B as [B Hall].
  apply andb_prop in B. destruct B as [C A]. apply Z.eqb_eq in Herr.
  rewrite forallb_forall in Hall. specialize (Hall (variant, tys) (assoc_in_list _ _ _ Hv)). cbn [fst snd] in Hall.
  apply andb_prop in Hall. destruct Hall as [Hall Hn]. apply andb_prop in Hall. destruct Hall as [Hsim Hty].
  unfold response_serialize. destruct (n <=? 0); [reflexivity|]. rewrite Hv.
  destruct (assoc variant (t_resp_variants T')) as [tys'|]; [|discriminate].
  apply (list_eqb_eq _ ty_eqb_eq) in Hty. subst tys'. rewrite <- Herr.
  destruct (arm_sim_cases _ _ Hsim) as [[-> ->]|[s1 [s2 [-> ->]]]]; [|reflexivity].
  destruct tys as [|t [|t2 tys]]; [reflexivity| |reflexivity].
  cbn [flat_map] in Hn. rewrite app_nil_r in Hn.
  rewrite (encode_agree names e e' t payload C A Hn). reflexivity.
Qed.
