(* Lemmas about the framing functions of ctap2.rs: Response::serialize (C02, C17). *)
From Ctap Require Import Base Schema Wire Typed Procs Inst Tables ProcTables Finite.
From Coq Require Import Lia.
Local Open Scope string_scope.
Local Open Scope Z_scope.

Lemma bytes_eqb_eq : forall a b, bytes_eqb a b = true <-> a = b.
Proof.
  induction a as [|x a IH]; destruct b as [|y b]; cbn [bytes_eqb]; split; intros H;
    try discriminate; try reflexivity.
  - apply andb_true_iff in H. destruct H as [H1 H2]. apply Z.eqb_eq in H1. apply IH in H2. subst. reflexivity.
  - injection H as -> ->. rewrite Z.eqb_refl. cbn. apply IH. reflexivity.
Qed.

(* the message the property talks about: status 0x00 plus the CBOR body, the empty map collapsed *)
Definition msg (b : bytes) : bytes := if bytes_eqb b [160] then [0] else 0 :: b.

Definition serialising (T : tables) (variant : string) (t : ty) : Prop :=
  match_var (t_resp_arms T) variant = Some MB_Ser /\ assoc variant (t_resp_variants T) = Some [t].

Lemma response_serialize_ser : forall T e variant payload n prior t b,
  1 <= n -> serialising T variant t -> encode e t payload = Some b ->
  response_serialize T e variant payload n prior =
    Ok (if blen b <=? n - 1 then msg b else [err_code T "Other"]).
Proof.
  intros T e variant payload n prior t b Hn [Ha Hv] He.
  unfold response_serialize.
  destruct (n <=? 0) eqn:E; [apply Z.leb_le in E; lia|].
  rewrite Ha, Hv, He. cbn [bind]. unfold ser_into, msg.
  destruct (blen b <=? n - 1); [destruct (bytes_eqb b [160])|]; reflexivity.
Qed.

Lemma response_serialize_prior : forall T e variant payload n p p',
  response_serialize T e variant payload n p = response_serialize T e variant payload n p'.
Proof. reflexivity. Qed.

Lemma response_serialize_empty_arm : forall T e variant payload n prior s,
  1 <= n -> match_var (t_resp_arms T) variant = Some (MB_Other s) ->
  response_serialize T e variant payload n prior = Ok [0].
Proof.
  intros T e variant payload n prior s Hn Ha. unfold response_serialize.
  destruct (n <=? 0) eqn:E; [apply Z.leb_le in E; lia|].
  rewrite Ha. reflexivity.
Qed.

(* the property reads "fits" as: the complete message is at most N bytes.  The encoder needs the
   body to fit the N-1 bytes after the status byte BEFORE the empty map is collapsed.  The two
   readings differ in exactly one class. *)
Lemma fits_readings : forall b n, 1 <= n ->
  blen (msg b) <= n -> ~ (blen b <= n - 1) -> b = [160] /\ n = 1.
Proof.
  intros b n Hn Hm Hb. unfold msg in Hm.
  destruct (bytes_eqb b [160]) eqn:E.
  - apply bytes_eqb_eq in E. subst b. unfold blen in *. cbn in *. split; [reflexivity|lia].
  - exfalso. apply Hb. unfold blen in *. cbn [List.length] in Hm. lia.
Qed.

Lemma fits_readings_conv : forall b n, 1 <= n -> blen b <= n - 1 -> blen (msg b) <= n.
Proof.
  intros b n Hn Hb. unfold msg. destruct (bytes_eqb b [160]); unfold blen in *; cbn [List.length]; lia.
Qed.

(* ---- tie: the regenerated Response::serialize arm table and variant list *)
Definition mbody_sim (a b : option mbody) : bool :=
  match a, b with
  | Some MB_Ser, Some MB_Ser => true
  | Some (MB_Other _), Some (MB_Other _) => true
  | _, _ => false
  end.

Definition resp_tables_equiv (G : tables) : bool :=
  forallb (fun p => mbody_sim (match_var (t_resp_arms G) (fst p)) (match_var (t_resp_arms spec_tables) (fst p))
                    && opt_eqb (list_eqb ty_eqb) (assoc (fst p) (t_resp_variants G)) (Some (snd p)))
          (t_resp_variants spec_tables)
  && Z.eqb (blen (t_resp_variants G)) (blen (t_resp_variants spec_tables))
  && Z.eqb (err_code G "Other") (err_code spec_tables "Other").






(* ---- Request::deserialize, generically in the tables (keeps the kernel away from unfolding the
   concrete tables under binders) *)
Lemma request_status_range (T : tables) (e : env) (data : bytes) (s a b c : Z) :
  (forall ce, status_of_cerr T ce = b \/ status_of_cerr T ce = c) ->
  status_invalid_command T = a ->
  request_deserialize T e data = RErr s -> s = a \/ s = b \/ s = c.
Proof.
  intros Hce Hic H. destruct data as [|op body]; cbn [request_deserialize] in H.
  - injection H as <-. destruct (Hce UnexpectedEnd) as [->| ->]; auto.
  - unfold run_route in H. destruct (route_of T op); try discriminate.
    + destruct (decode e t body) as [[x r]|ce| |]; try discriminate.
      injection H as <-. destruct (Hce ce) as [->| ->]; auto.
    + injection H as <-. auto.
Qed.

Lemma request_decode_step (T : tables) (e : env) (op : Z) (d : bytes) (v : string) (t : ty) :
  route_of T op = RtDecode v t ->
  request_deserialize T e (op :: d) =
    match decode e t d with
    | Ok (x, _) => ROk (ReqBody v x)
    | Err ce => RErr (status_of_cerr T ce)
    | Panic s => RPanic s
    | Fuel => RFuel
    end.
Proof. intros H. cbn [request_deserialize]. rewrite H. reflexivity. Qed.

Lemma request_invalid_step (T : tables) (e : env) (op : Z) (d : bytes) :
  route_of T op = RtInvalid -> request_deserialize T e (op :: d) = RErr (status_invalid_command T).
Proof. intros H. cbn [request_deserialize]. rewrite H. reflexivity. Qed.

Lemma request_unit_step (T : tables) (e : env) (op : Z) (d : bytes) (v : string) :
  route_of T op = RtUnit v -> request_deserialize T e (op :: d) = ROk (ReqUnit v).
Proof. intros H. cbn [request_deserialize]. rewrite H. reflexivity. Qed.

Lemma request_vendor_step (T : tables) (e : env) (op : Z) (d : bytes) (c : Z) :
  route_of T op = RtVendor c -> request_deserialize T e (op :: d) = ROk (ReqVendor c).
Proof. intros H. cbn [request_deserialize]. rewrite H. reflexivity. Qed.

Lemma spec_status_of_cerr : forall e : cerr,
  status_of_cerr spec_tables e = match e with SerdeMissingField => 0x14 | _ => 0x12 end.
Proof. destruct e; vm_compute; reflexivity. Qed.

(* growing the buffer never loses a response: a message delivered at capacity n is delivered, unchanged, at every larger capacity;
   and whatever is delivered at any two capacities is the same message (the capacity decides only WHETHER, never WHAT) *)
Lemma response_serialize_monotone : forall T e variant payload n n' p p' t b,
  1 <= n -> n <= n' -> serialising T variant t -> encode e t payload = Some b ->
  blen b <= n - 1 ->
  response_serialize T e variant payload n p = Ok (msg b) /\
  response_serialize T e variant payload n' p' = Ok (msg b).
Proof.
  intros T e variant payload n n' p p' t b Hn Hnn Hs He Hfit.
  rewrite (response_serialize_ser T e variant payload n p t b Hn Hs He).
  rewrite (response_serialize_ser T e variant payload n' p' t b ltac:(lia) Hs He).
  destruct (blen b <=? n - 1) eqn:E1; [|apply Z.leb_gt in E1; lia].
  destruct (blen b <=? n' - 1) eqn:E2; [|apply Z.leb_gt in E2; lia].
  split; reflexivity.
Qed.

Lemma response_serialize_threshold : forall T e variant payload t b,
  serialising T variant t -> encode e t payload = Some b ->
  forall n p, 1 <= n ->
    (n < blen b + 1 -> response_serialize T e variant payload n p = Ok [err_code T "Other"]) /\
    (blen b + 1 <= n -> response_serialize T e variant payload n p = Ok (msg b)).
Proof.
  intros T e variant payload t b Hs He n p Hn.
  rewrite (response_serialize_ser T e variant payload n p t b Hn Hs He).
  destruct (blen b <=? n - 1) eqn:E1.
  - apply Z.leb_le in E1. split; intros H; [lia|reflexivity].
  - apply Z.leb_gt in E1. split; intros H; [reflexivity|lia].
Qed.
