(* Lemmas for C18 (identifier tables). *)
From Ctap Require Import Base Schema Typed Procs Inst Tables ProcTables Finite FramingP.
From Coq Require Import Lia.
Local Open Scope string_scope.
Local Open Scope Z_scope.

(* first-match semantics of a string match table: a string is accepted only if it is (byte for byte)
   one of the listed spellings - for EVERY string, no enumeration of strings needed *)
Lemma lookup_tryfrom_sound : forall s arms v,
  lookup_tryfrom s arms = Some v -> exists sp, In (sp, v) arms /\ s = bytes_of_string sp.
Proof.
  intros s arms v. induction arms as [|[sp w] r IH]; cbn [lookup_tryfrom]; intros H; [discriminate|].
  destruct (bytes_eqb s (bytes_of_string sp)) eqn:E.
  - injection H as ->. apply bytes_eqb_eq in E. exists sp. split; [left; reflexivity|exact E].
  - destruct (IH H) as [sp' [Hin Hs]]. exists sp'. split; [right; exact Hin|exact Hs].
Qed.

Lemma lookup_tryfrom_none : forall s arms,
  lookup_tryfrom s arms = None -> forall sp v, In (sp, v) arms -> s <> bytes_of_string sp.
Proof.
  intros s arms. induction arms as [|[sp w] r IH]; cbn [lookup_tryfrom]; intros H sp' v Hin; [destruct Hin|].
  destruct (bytes_eqb s (bytes_of_string sp)) eqn:E; [discriminate|].
  destruct Hin as [Heq|Hin].
  - injection Heq as <- <-. intros Hs. subst s.
    assert (bytes_eqb (bytes_of_string sp) (bytes_of_string sp) = true) by (apply bytes_eqb_eq; reflexivity).
    congruence.
  - eapply IH; eassumption.
Qed.

(* numeric enumerations through the decoder: accepted iff listed *)
Lemma variant_of_discr_sound : forall z vs v, variant_of_discr z vs = Some v -> In (v, z) vs.
Proof.
  intros z vs v. induction vs as [|[n d] r IH]; cbn [variant_of_discr]; intros H; [discriminate|].
  destruct (d =? z) eqn:E.
  - injection H as ->. apply Z.eqb_eq in E. subst. left. reflexivity.
  - right. apply IH. exact H.
Qed.
Lemma variant_of_discr_none : forall z vs, variant_of_discr z vs = None -> forall v, ~ In (v, z) vs.
Proof.
  intros z vs. induction vs as [|[n d] r IH]; cbn [variant_of_discr]; intros H v Hin; [destruct Hin|].
  destruct (d =? z) eqn:E; [discriminate|].
  destruct Hin as [Heq|Hin].
  - injection Heq as -> ->. rewrite Z.eqb_refl in E. discriminate.
  - eapply IH; eassumption.
Qed.

(* ---- the specification's identifier tables, as data *)
Definition spec_string_enums : list (string * list (string * string)) := [
  ("ctap2::get_info::Version", [("Fido2_0", "FIDO_2_0"); ("Fido2_1", "FIDO_2_1"); ("Fido2_1Pre", "FIDO_2_1_PRE"); ("U2fV2", "U2F_V2")]);
  ("ctap2::get_info::Extension", [("CredProtect", "credProtect"); ("HmacSecret", "hmac-secret"); ("LargeBlobKey", "largeBlobKey"); ("ThirdPartyPayment", "thirdPartyPayment")]);
  ("ctap2::get_info::Transport", [("Nfc", "nfc"); ("Usb", "usb")]);
  ("ctap2::AttestationStatementFormat", [("None", "none"); ("Packed", "packed")]) ].

Definition spec_number_enums : list (string * list (string * Z)) := [
  ("ctap2::client_pin::PinV1Subcommand",
   [("GetRetries", 1); ("GetKeyAgreement", 2); ("SetPin", 3); ("ChangePin", 4); ("GetPinToken", 5);
    ("GetPinUvAuthTokenUsingUvWithPermissions", 6); ("GetUVRetries", 7); ("GetPinUvAuthTokenUsingPinWithPermissions", 9)]);
  ("ctap2::credential_management::Subcommand",
   [("GetCredsMetadata", 1); ("EnumerateRpsBegin", 2); ("EnumerateRpsGetNextRp", 3); ("EnumerateCredentialsBegin", 4);
    ("EnumerateCredentialsGetNextCredential", 5); ("DeleteCredential", 6); ("UpdateUserInformation", 7)]);
  ("ctap2::credential_management::CredentialProtectionPolicy",
   [("Optional", 1); ("OptionalWithCredentialIdList", 2); ("Required", 3)]) ].

Definition swap {A B} (p : A * B) : B * A := (snd p, fst p).

(* every listed enumeration of an environment is exactly the specification's: same variants, same
   spellings / numbers, the decode table is the inverse list *)
Definition enums_exact (e : env) : bool :=
  forallb (fun p => match lookup e (fst p) with
                    | Some (DStrEnum true true into tf) =>
                        list_eqb (pair_eqb String.eqb String.eqb) into (snd p)
                        && list_eqb (pair_eqb String.eqb String.eqb) tf (map swap (snd p))
                    | _ => false end) spec_string_enums
  && forallb (fun p => match lookup e (fst p) with
                       | Some (DRepr "u8" true true vs) => list_eqb (pair_eqb String.eqb Z.eqb) vs (snd p)
                       | _ => false end) spec_number_enums.

Fixpoint nodup_b (l : list bytes) : bool :=
  match l with [] => true | x :: r => negb (existsb (bytes_eqb x) r) && nodup_b r end.
Fixpoint nodup_zs (l : list Z) : bool :=
  match l with [] => true | x :: r => negb (zmem x r) && nodup_zs r end.
Fixpoint nodup_s (l : list string) : bool :=
  match l with [] => true | x :: r => negb (smem x r) && nodup_s r end.

Definition spellings_distinct : bool :=
  forallb (fun p => nodup_b (map (fun q => bytes_of_string (snd q)) (snd p)) && nodup_s (map fst (snd p))) spec_string_enums
  && forallb (fun p => nodup_zs (map snd (snd p)) && nodup_s (map fst (snd p))) spec_number_enums.

(* byte-valued tables: ControlByte, CredentialProtectionPolicy, status codes, permission and flag bits *)
Definition byte_tables_equiv (G : tables) : bool :=
  forallb (fun b => opt_eqb (fun x y => match x, y with
                                        | MB_Var a, MB_Var c => String.eqb a c
                                        | MB_Err a, MB_Err c => String.eqb a c
                                        | _, _ => false end)
                            (match_u8 (t_control_try G) b) (match_u8 (t_control_try spec_tables) b)
                    && opt_eqb (fun x y => match x, y with
                                           | MB_Var a, MB_Var c => String.eqb a c
                                           | MB_Err a, MB_Err c => String.eqb a c
                                           | _, _ => false end)
                               (match_u8 (t_credprotect_try G) b) (match_u8 (t_credprotect_try spec_tables) b)) bytes256
  && list_eqb (pair_eqb String.eqb Z.eqb) (t_control_codes G) (t_control_codes spec_tables)
  && list_eqb (pair_eqb String.eqb Z.eqb) (t_err_codes G) (t_err_codes spec_tables)
  && list_eqb (pair_eqb String.eqb Z.eqb) (t_permissions G) (t_permissions spec_tables)
  && list_eqb (pair_eqb String.eqb Z.eqb) (t_flags G) (t_flags spec_tables).

Lemma spec_enums_exact : forallb (fun f => enums_exact (spec_env f)) all_feats = true.
Proof. vm_compute. reflexivity. Qed.
Lemma spec_spellings_distinct : spellings_distinct = true.
Proof. vm_compute. reflexivity. Qed.

Lemma control_byte_table : forall b, 0 <= b < 256 ->
  match_u8 (t_control_try spec_tables) b =
    Some (if b =? 3 then MB_Var "EnforceUserPresenceAndSign"
          else if b =? 7 then MB_Var "CheckOnly"
          else if b =? 8 then MB_Var "DontEnforceUserPresenceAndSign"
          else MB_Err "IncorrectDataParameter").
Proof.
  intros b Hb.
  assert (G : forall b, 0 <= b < 256 ->
    (match match_u8 (t_control_try spec_tables) b with
     | Some (MB_Var v) => String.eqb v (if b =? 3 then "EnforceUserPresenceAndSign" else if b =? 7 then "CheckOnly" else "DontEnforceUserPresenceAndSign")
                          && ((b =? 3) || (b =? 7) || (b =? 8))
     | Some (MB_Err v) => String.eqb v "IncorrectDataParameter" && negb ((b =? 3) || (b =? 7) || (b =? 8))
     | _ => false end) = true) by (apply forall_bytes; vm_compute; reflexivity).
  specialize (G b Hb).
  destruct (match_u8 (t_control_try spec_tables) b) as [[ | v | | v | | | | | | | ]|]; try discriminate;
    apply andb_true_iff in G; destruct G as [G1 G2]; apply String.eqb_eq in G1; subst v.
  - destruct (b =? 3); [reflexivity|]. destruct (b =? 7); [reflexivity|]. destruct (b =? 8); [reflexivity|discriminate].
  - destruct (b =? 3); [discriminate|]. destruct (b =? 7); [discriminate|]. destruct (b =? 8); [discriminate|reflexivity].
Qed.

Lemma status_codes_distinct : nodup_zs (map snd spec_status_codes) = true /\ nodup_s (map fst spec_status_codes) = true.
Proof. vm_compute. split; reflexivity. Qed.

Lemma permission_bits_distinct_powers :
  forallb (fun p => existsb (Z.eqb (snd p)) [1; 2; 4; 8; 16; 32; 64; 128]) (t_permissions spec_tables) = true
  /\ nodup_zs (map snd (t_permissions spec_tables)) = true.
Proof. vm_compute. split; reflexivity. Qed.
