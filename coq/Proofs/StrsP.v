(* webauthn.rs floor_char_boundary / truncate on well-formed UTF-8 (C13, C04). *)
From Ctap Require Import Base Utf8 WireP Utf8P.
From Coq Require Import Lia ZifyBool.
Local Open Scope Z_scope.

(* character boundaries of a byte string: 0 and every end of a well-formed character *)
Inductive boundary : bytes -> nat -> Prop :=
| bd_zero : forall l, boundary l 0
| bd_step : forall l n k, utf8_first l = n -> (0 < n)%nat -> boundary (skipn n l) k -> boundary l (n + k).

Lemma boundary_le : forall l k, boundary l k -> (k <= List.length l)%nat.
Proof.
  intros l k H. induction H as [l|l n k E Hn Hb IH]; [lia|].
  pose proof (utf8_first_bound l) as [_ B]. rewrite E in B. rewrite skipn_length in IH. lia.
Qed.

Lemma boundary_zero_or_far : forall l k, boundary l k -> k = O \/ (utf8_first l <= k)%nat.
Proof. intros l k H. destruct H as [l|l n k E Hn Hb]; [left; reflexivity|right; lia]. Qed.

Lemma nth_skipn {A} : forall n (l : list A) j d, nth j (skipn n l) d = nth (n + j) l d.
Proof.
  induction n as [|n IH]; intros l j d; [reflexivity|].
  destruct l as [|x l]; [destruct j; reflexivity|]. cbn [skipn Nat.add nth]. apply IH.
Qed.

(* F1: inside a well-formed string, position p is a boundary iff the byte there is not a continuation byte *)
Lemma boundary_iff_byte : forall l, wf_utf8 l -> forall p, (p < List.length l)%nat ->
  (boundary l p <-> is_boundary_byte (nth p l 0) = true).
Proof.
  intros l H. induction H as [|l n E Hn Hw IH]; intros p Hp; [cbn in Hp; lia|].
  pose proof (utf8_first_bound l) as [_ B]. rewrite E in B.
  destruct (utf8_first_bytes l n E Hn) as [Hlead Hcont].
  destruct (Nat.lt_ge_cases p n) as [Hlt|Hge].
  - destruct p as [|p].
    + split; [intros _; exact Hlead|intros _; constructor].
    + split.
      * intros Hb. apply boundary_zero_or_far in Hb. rewrite E in Hb. destruct Hb; lia.
      * intros Hb. rewrite Hcont in Hb by lia. discriminate.
  - replace p with (n + (p - n))%nat by lia.
    rewrite <- nth_skipn.
    rewrite <- IH by (rewrite skipn_length; lia).
    split.
    + intros Hb. inversion Hb as [l0 Hl Hz|l0 n0 k0 E0 Hn0 Hb0 Hl Hk].
      * lia.
      * assert (n0 = n) by congruence. subst n0.
        assert (k0 = (p - n)%nat) by lia. subst k0. rewrite E in Hb0. exact Hb0.
    + intros Hb. apply bd_step; assumption.
Qed.

Lemma boundary_end : forall l, wf_utf8 l -> boundary l (List.length l).
Proof.
  intros l H. induction H as [|l n E Hn Hw IH]; [constructor|].
  pose proof (utf8_first_bound l) as [_ B]. rewrite E in B.
  replace (List.length l) with (n + List.length (skipn n l))%nat by (rewrite skipn_length; lia).
  apply bd_step; assumption.
Qed.

(* F2: characters are at most 4 bytes long, so every position has a boundary at most 3 bytes before it *)
Lemma boundary_within_3 : forall l, wf_utf8 l -> forall p, (p < List.length l)%nat ->
  exists q, boundary l q /\ (q <= p)%nat /\ (p < q + 4)%nat.
Proof.
  intros l H. induction H as [|l n E Hn Hw IH]; intros p Hp; [cbn in Hp; lia|].
  pose proof (utf8_first_bound l) as [B4 B]. rewrite E in B4, B.
  destruct (Nat.lt_ge_cases p n) as [Hlt|Hge].
  - exists O. repeat split; [constructor|lia|lia].
  - destruct (IH (p - n)%nat) as [q [Hq [Hq1 Hq2]]]; [rewrite skipn_length; lia|].
    exists (n + q)%nat. repeat split; [apply bd_step; assumption|lia|lia].
Qed.

(* a prefix cut at a boundary is well-formed *)
Lemma prefix_at_boundary_wf : forall l k, boundary l k -> wf_utf8 (firstn k l).
Proof.
  intros l k H. induction H as [l|l n k E Hn Hb IH]; [constructor|].
  rewrite firstn_plus. apply wf_utf8_app_char; assumption.
Qed.

(* rposition finds the LAST position satisfying the predicate *)
Lemma rposition_spec : forall p w,
  match rposition p w with
  | Some j => 0 <= j < blen w /\ p (nth (Z.to_nat j) w 0) = true /\
              (forall i, (Z.to_nat j < i < List.length w)%nat -> p (nth i w 0) = false)
  | None => forall i, (i < List.length w)%nat -> p (nth i w 0) = false
  end.
Proof.
  intros p w. induction w as [|x w IH]; cbn [rposition].
  - intros i Hi. cbn in Hi. lia.
  - destruct (rposition p w) as [k|].
    + destruct IH as [[Hk0 Hk1] [Hp Hlast]]. rewrite blen_cons.
      repeat split; try lia.
      * replace (Z.to_nat (k + 1)) with (S (Z.to_nat k)) by lia. exact Hp.
      * intros i Hi. destruct i as [|i]; [lia|]. cbn [nth]. apply Hlast. cbn [List.length] in Hi. lia.
    + destruct (p x) eqn:Ex.
      * rewrite blen_cons. pose proof (blen_nonneg w). repeat split; try lia.
        { exact Ex. }
        { intros i Hi. destruct i as [|i]; [cbn in Hi; lia|]. cbn [nth]. apply IH. cbn [List.length] in Hi. lia. }
      * intros i Hi. destruct i as [|i]; [exact Ex|]. cbn [nth]. apply IH. cbn [List.length] in Hi. lia.
Qed.

Lemma nth_firstn_lt {A} : forall n (l : list A) j d, (j < n)%nat -> nth j (firstn n l) d = nth j l d.
Proof.
  induction n as [|n IH]; intros l j d H; [lia|].
  destruct l as [|x l]; [destruct j; reflexivity|]. destruct j as [|j]; [reflexivity|].
  cbn [firstn nth]. apply IH. lia.
Qed.

(* the heart of C13 / C04: on well-formed UTF-8 the look-back window always contains a boundary (so the
   unwrap_unchecked precondition holds), and the result is the greatest character boundary <= index *)
Theorem floor_char_boundary_spec : forall l, wf_utf8 l -> forall L, 0 <= L ->
  exists k, floor_char_boundary l L = Ok (Z.of_nat k) /\ boundary l k /\ Z.of_nat k <= L /\
            (forall k', boundary l k' -> Z.of_nat k' <= L -> (k' <= k)%nat).
Proof.
  intros l Hw L HL. unfold floor_char_boundary.
  destruct (blen l <=? L) eqn:E.
  - apply Z.leb_le in E. exists (List.length l). unfold blen in *.
    repeat split; [apply boundary_end; exact Hw|lia|].
    intros k' Hk' _. apply boundary_le in Hk'. exact Hk'.
  - apply Z.leb_gt in E. unfold blen in E.
    set (lower := Z.max 0 (L - 3)).
    set (w := firstn (Z.to_nat (L - lower + 1)) (skipn (Z.to_nat lower) l)).
    assert (Hwl : List.length w = Z.to_nat (L - lower + 1)).
    { unfold w. rewrite firstn_length, skipn_length. lia. }
    assert (Hnth : forall j, (j < List.length w)%nat -> nth j w 0 = nth (Z.to_nat lower + j) l 0).
    { intros j Hj. unfold w. rewrite nth_firstn_lt by lia. apply nth_skipn. }
    destruct (boundary_within_3 l Hw (Z.to_nat L)) as [q [Hq [Hq1 Hq2]]]; [lia|].
    pose proof (rposition_spec is_boundary_byte w) as R.
    destruct (rposition is_boundary_byte w) as [j|].
    + destruct R as [[Hj0 Hj1] [Hpj Hlast]]. unfold blen in Hj1.
      exists (Z.to_nat (lower + j)).
      assert (Hpos : (Z.to_nat (lower + j) < List.length l)%nat) by lia.
      repeat split.
      * f_equal. lia.
      * apply (boundary_iff_byte l Hw _ Hpos).
        rewrite Hnth in Hpj by lia. replace (Z.to_nat (lower + j)) with (Z.to_nat lower + Z.to_nat j)%nat by lia. exact Hpj.
      * lia.
      * intros k' Hk' Hk'L.
        destruct (Nat.le_gt_cases k' (Z.to_nat (lower + j))) as [Hle|Hgt]; [exact Hle|exfalso].
        assert (Hk'len : (k' < List.length l)%nat) by lia.
        apply (boundary_iff_byte l Hw _ Hk'len) in Hk'.
        specialize (Hlast (k' - Z.to_nat lower)%nat).
        rewrite Hnth in Hlast by lia.
        replace (Z.to_nat lower + (k' - Z.to_nat lower))%nat with k' in Hlast by lia.
        rewrite Hlast in Hk' by lia. discriminate.
    + exfalso.
      assert (Hqlen : (q < List.length l)%nat) by lia.
      apply (boundary_iff_byte l Hw _ Hqlen) in Hq.
      specialize (R (q - Z.to_nat lower)%nat).
      rewrite Hnth in R by lia.
      replace (Z.to_nat lower + (q - Z.to_nat lower))%nat with q in R by lia.
      rewrite R in Hq by lia. discriminate.
Qed.

(* truncate: never panics on well-formed UTF-8; the result is the longest prefix of at most L bytes that
   ends on a character boundary; it is well-formed; it is the text itself when the text fits *)
Theorem truncate_spec : forall l, wf_utf8 l -> forall L, 0 <= L ->
  exists k, truncate L l = Ok (firstn k l) /\ boundary l k /\ Z.of_nat k <= L /\
            wf_utf8 (firstn k l) /\ blen (firstn k l) <= L /\
            (forall k', boundary l k' -> Z.of_nat k' <= L -> (k' <= k)%nat).
Proof.
  intros l Hw L HL. destruct (floor_char_boundary_spec l Hw L HL) as [k [Hf [Hb [HkL Hmax]]]].
  exists k. unfold truncate. rewrite Hf. cbn [bind].
  pose proof (boundary_le l k Hb) as Hkl.
  assert (Hcb : is_char_boundary l (Z.of_nat k) = true).
  { unfold is_char_boundary.
    destruct (Z.of_nat k =? 0) eqn:E0; [reflexivity|].
    destruct (Z.of_nat k =? blen l) eqn:E1; [reflexivity|].
    unfold blen in *. destruct (Z.of_nat (List.length l) <? Z.of_nat k) eqn:E2; [lia|].
    rewrite Nat2Z.id. apply (boundary_iff_byte l Hw); [lia|exact Hb]. }
  rewrite Hcb. cbn [negb]. rewrite Nat2Z.id.
  assert (Hlen : blen (firstn k l) = Z.of_nat k) by (unfold blen; rewrite firstn_length; lia).
  rewrite Hlen. destruct (L <? Z.of_nat k) eqn:E; [lia|].
  repeat split; try assumption; try lia.
  apply prefix_at_boundary_wf. exact Hb.
Qed.
