(* C16, decode half.  When e' extends e, the encoding b of a value v that is well-typed in e decodes in
   e' to [lift e' v]: the same value with every member that exists only in e' reported absent (VNone).
   Proof: lift v is well-typed in e', has the same encoding there (MonoP.ser_mono + ser_lift), and the
   round trip in e' returns it. *)
From Ctap Require Import Base Schema Wire Utf8 Typed WellTyped Extends CborItem WireP SkipP TypedP EntriesP SerP Finite RoundTripP MonoP.
From Coq Require Import Lia ZifyBool.
Local Open Scope string_scope.
Local Open Scope list_scope.
Local Open Scope Z_scope.

Fixpoint lift (e' : env) (fuel : nat) (t' : ty) (v : val) {struct fuel} : val :=
  match fuel with
  | O => v
  | S k =>
      match t', v with
      | TVec u _, VList l => VList (map (lift e' k u) l)
      | TOpt u, VSome w => VSome (lift e' k u w)
      | TNamed name, VRec vs =>
          match lookup e' name with
          | Some (DStruct _ _ _ fs') =>
              VRec (map (fun fd => (f_label fd, match rget (f_label fd) vs with
                                                | Some fv => lift e' k (f_ty fd) fv
                                                | None => VNone end)) fs')
          | _ => v
          end
      | _, _ => v
      end
  end.

Lemma is_none_lift : forall e' k t v, is_none (lift e' k t v) = is_none v.
Proof.
  intros e' k t v. destruct k as [|k]; [reflexivity|]. cbn [lift].
  destruct t; destruct v; try reflexivity.
  destruct (lookup e' s) as [d|]; [|reflexivity]. destruct d; reflexivity.
Qed.

Lemma emitted_lift : forall e' k t fd v, emitted fd (lift e' k t v) = emitted fd v.
Proof.
  intros e' k t fd v. unfold emitted.
  replace (match lift e' k t v with VNone => true | _ => false end) with (is_none (lift e' k t v)) by reflexivity.
  rewrite is_none_lift. reflexivity.
Qed.

Lemma rget_map_labels : forall (fs : list field) (g : field -> val) fd,
  NoDup (map f_label fs) -> In fd fs ->
  rget (f_label fd) (map (fun x => (f_label x, g x)) fs) = Some (g fd).
Proof.
  induction fs as [|x fs IH]; intros g fd Hd Hin; [destruct Hin|].
  cbn [map] in *. inversion Hd as [|? ? Hn Hd']; subst. destruct Hin as [->|Hin].
  - apply rget_cons_same.
  - rewrite rget_cons_other; [apply IH; assumption|].
    intros E. apply Hn. rewrite <- E. apply in_map. exact Hin.
Qed.

(* ---------------------------------------------------------------- lift does not change the encoding *)
Lemma emit_list_lift : forall (serf : ty -> val -> option bytes) (lf : ty -> val -> val) vs (fs_all fs : list field) l,
  NoDup (map f_label fs_all) -> (forall fd, In fd fs -> In fd fs_all) ->
  (forall t v, is_none (lf t v) = is_none v) ->
  (forall fd fv b, In fd fs -> rget (f_label fd) vs = Some fv -> serf (f_ty fd) fv = Some b ->
                   serf (f_ty fd) (lf (f_ty fd) fv) = Some b) ->
  emit_list serf vs fs = Some l ->
  emit_list serf (map (fun fd => (f_label fd, match rget (f_label fd) vs with
                                              | Some fv => lf (f_ty fd) fv | None => VNone end)) fs_all) fs = Some l.
Proof.
  intros serf lf vs fs_all fs. induction fs as [|fd fs IH]; intros l Hd Hsub Hn Hs El; [exact El|].
  cbn [emit_list] in *.
  rewrite (rget_map_labels fs_all _ fd Hd (Hsub fd (or_introl eq_refl))).
  assert (Hem : forall fv, emitted fd (lf (f_ty fd) fv) = emitted fd fv).
  { intros fv. unfold emitted.
    replace (match lf (f_ty fd) fv with VNone => true | _ => false end) with (is_none (lf (f_ty fd) fv)) by reflexivity.
    rewrite Hn. reflexivity. }
  destruct (rget (f_label fd) vs) as [fv|] eqn:Eg.
  - rewrite Hem. destruct (emitted fd fv) eqn:Ee.
    + destruct (serf (f_ty fd) fv) as [b|] eqn:Es; [|discriminate].
      destruct (emit_list serf vs fs) as [l0|] eqn:El0; [|discriminate]. injection El as <-.
      rewrite (Hs fd fv b (or_introl eq_refl) Eg Es).
      erewrite IH; [reflexivity|exact Hd|intros x Hx; apply Hsub; right; exact Hx|exact Hn| |reflexivity].
      intros x fv0 b0 Hx. apply Hs. right. exact Hx.
    + apply IH; try assumption; [intros x Hx; apply Hsub; right; exact Hx|].
      intros x fv0 b0 Hx. apply Hs. right. exact Hx.
  - destruct (f_skip_none fd || f_skip_ser fd) eqn:Esk; [|discriminate].
    unfold emitted. cbn. apply orb_prop in Esk.
    replace (negb (f_skip_ser fd) && negb (f_skip_none fd && true)) with false
      by (destruct Esk as [-> | ->]; [rewrite andb_false_r|]; reflexivity).
    apply IH; try assumption; [intros x Hx; apply Hsub; right; exact Hx|].
    intros x fv0 b0 Hx. apply Hs. right. exact Hx.
Qed.

Lemma struct_labels_nodup : forall e name ix s d fs, env_rt e = true -> lookup e name = Some (DStruct ix s d fs) ->
  NoDup (map f_label fs).
Proof.
  intros e name ix s d fs He L. pose proof (env_rt_lookup e name _ He L) as D. cbn [decl_rt] in D. destruct ix.
  - apply andb_prop in D. destruct D as [D _]. apply andb_prop in D. destruct D as [_ D]. apply nodup_s_ok. exact D.
  - apply andb_prop in D. destruct D as [D _]. apply andb_prop in D. destruct D as [_ D]. apply nodup_s_ok. exact D.
Qed.

Theorem ser_lift : forall e', env_rt e' = true -> forall k t v b,
  ser e' k t v = Some b -> ser e' k t (lift e' k t v) = Some b.
Proof.
  intros e' He'. induction k as [|k IH]; intros t v b H; [discriminate|].
  destruct t as [ | | | | | | | | | |n|n|n|n|n| | |n|u n|u|u|name|name|name];
    destruct v as [z|bb|ss|bo| | |w|l|fs|vn|vn w]; try exact H.
  - (* Vec *)
    cbn [lift]. cbn [ser] in *.
    destruct (concat_opt (map (ser e' k u) l)) as [body|] eqn:Ec; [|discriminate].
    rewrite map_map.
    rewrite (concat_opt_map_mono (ser e' k u) (fun x => ser e' k u (lift e' k u x)) l body); [|intros v0 b0 _ Hs; apply IH; exact Hs|exact Ec].
    unfold blen in *. rewrite map_length. exact H.
  - (* Some *)
    cbn [lift]. cbn [ser] in *. apply IH. exact H.
  - (* record *)
    cbn [lift]. destruct (lookup e' name) as [d|] eqn:L; [|exact H].
    destruct d as [ix sr de fds| | | | |]; try exact H.
    rewrite (ser_struct_shape e' k name ix sr de fds _ L).
    rewrite (ser_struct_shape e' k name ix sr de fds fs L) in H.
    destruct (emit_list (ser e' k) fs fds) as [l|] eqn:El; [|discriminate].
    rewrite (emit_list_lift (ser e' k) (lift e' k) fs fds fds l); [exact H| | | | |exact El].
    + apply (struct_labels_nodup e' name ix sr de fds He' L).
    + intros fd Hin. exact Hin.
    + intros t0 v0. apply is_none_lift.
    + intros fd fv b0 _ _ Hs. apply IH. exact Hs.
Qed.

(* ---------------------------------------------------------------- lift is well-typed in the larger configuration *)
Lemma Forall2_in_r {A B} (R : A -> B -> Prop) : forall l1 l2, Forall2 R l1 l2 -> forall b, In b l2 -> exists a, In a l1 /\ R a b.
Proof.
  intros l1 l2 H. induction H as [|a b l1 l2 Hab H IH]; intros b0 Hin; [destruct Hin|].
  destruct Hin as [<-|Hin]; [exists a; split; [left; reflexivity|exact Hab]|].
  destruct (IH b0 Hin) as [a0 [Ha Hr]]. exists a0. split; [right; exact Ha|exact Hr].
Qed.

Lemma wt_fields_map : forall ok (fs : list field) (g : field -> val),
  (forall fd, In fd fs -> ok fd (g fd) = true) -> wt_fields ok fs (map (fun fd => (f_label fd, g fd)) fs) = true.
Proof.
  intros ok. induction fs as [|fd fs IH]; intros g H; [reflexivity|].
  cbn [map wt_fields]. rewrite String.eqb_refl. rewrite (H fd (or_introl eq_refl)). cbn [andb].
  apply IH. intros x Hx. apply H. right. exact Hx.
Qed.

Lemma wt_fields_rget_some : forall ok fs vs a,
  wt_fields ok fs vs = true -> NoDup (map f_label fs) -> In a fs ->
  exists fv, rget (f_label a) vs = Some fv /\ ok a fv = true.
Proof.
  intros ok. induction fs as [|fd fs IH]; intros vs a W Hd Hin; [destruct Hin|].
  destruct vs as [|[l v] vs]; [discriminate|].
  destruct (wt_fields_cons _ _ _ _ _ _ W) as [-> [Hok W']].
  cbn [map] in Hd. inversion Hd as [|? ? Hn Hd']; subst.
  destruct Hin as [->|Hin].
  - exists v. split; [apply rget_cons_same|exact Hok].
  - destruct (IH vs a W' Hd' Hin) as [fv [Hr Ho]]. exists fv. split; [|exact Ho].
    rewrite rget_cons_other; [exact Hr|]. intros E. apply Hn. rewrite <- E. apply in_map. exact Hin.
Qed.

Lemma ty_le_not_null : forall t t', ty_le t t' = true -> ty_not_null t = true -> ty_not_null t' = true.
Proof. intros t t' H N. destruct t; destruct t'; cbn in *; try discriminate; reflexivity. Qed.

Lemma ty_le_opt : forall t t', ty_le t t' = true -> is_opt_ty t = true -> exists u u', t = TOpt u /\ t' = TOpt u' /\ ty_le u u' = true.
Proof.
  intros t t' H N. destruct t; try discriminate. destruct t'; try discriminate.
  eexists; eexists; repeat split; exact H.
Qed.

Lemma ty_le_prim_lift : forall e' k t' v,
  match t' with TVec _ _ | TOpt _ | TNamed _ => False | _ => True end -> lift e' k t' v = v.
Proof. intros e' k t' v H. destruct k; [reflexivity|]. destruct t'; try contradiction; destruct v; reflexivity. Qed.

(* the parameter entry type is a plain two-member struct in the larger configuration as well *)
Definition pkcp_plain (e' : env) : bool :=
  match lookup e' n_PKCP with
  | Some (DStruct false _ _ [f1; f2]) =>
      String.eqb (f_label f1) "alg" && String.eqb (f_label f2) "key_type"
      && match f_ty f1, f_ty f2 with TI32, TStrCap _ => true | _, _ => false end
  | _ => false
  end.

Lemma lift_full_param : forall e' k a, pkcp_plain e' = true -> lift e' k (TNamed n_PKCP) (full_param a) = full_param a.
Proof.
  intros e' k a H. destruct k as [|k]; [reflexivity|]. unfold pkcp_plain in H. cbn [lift full_param].
  destruct (lookup e' n_PKCP) as [d|]; [|discriminate].
  destruct d as [ix sr de fs| | | | |]; try discriminate. destruct ix; [discriminate|].
  destruct fs as [|f1 [|f2 [|f3 fs]]]; try discriminate.
  apply andb_prop in H. destruct H as [H Ht]. apply andb_prop in H. destruct H as [H1 H2].
  apply String.eqb_eq in H1. apply String.eqb_eq in H2.
  cbn [map]. rewrite H1, H2. cbn [rget assoc String.eqb Ascii.eqb Bool.eqb].
  destruct (f_ty f1); try discriminate. destruct (f_ty f2); try discriminate.
  destruct k; reflexivity.
Qed.

Lemma ty_le_cap_bytes : forall n m, ty_le (TBytesCap n) (TBytesCap m) = true -> n <= m.
Proof. intros n m H. cbn in H. lia. Qed.

Theorem wt_lift : forall e e', env_extends e e' = true -> env_rt e = true -> env_rt e' = true -> pkcp_plain e' = true ->
  forall k t t' v, ty_le t t' = true -> wt e k t v = true -> wt e' k t' (lift e' k t' v) = true.
Proof.
  intros e e' Hx He He' Hp. induction k as [|k IH]; intros t t' v Hle W; [discriminate|].
  cbn [wt] in W.
  destruct t as [ | | | | | | | | | |n|n|n|n|n| | |n|u n|u|u|name|name|name];
    destruct t' as [ | | | | | | | | | |n'|n'|n'|n'|n'| | |n'|u' n'|u'|u'|name'|name'|name']; try discriminate Hle;
    destruct v as [z|bb|ss|bo| | |w|l|fs|vn|vn w]; try discriminate W;
    try (rewrite ty_le_prim_lift by exact I; cbn [wt]; cbn [ty_le ty_eqb] in Hle; try exact W; lia).
  all: try (cbn [ty_le ty_eqb] in Hle; apply String.eqb_eq in Hle; subst name';
            destruct (lookup e name) as [d|] eqn:L; [|discriminate W];
            destruct (env_extends_lookup e e' name _ Hx L) as [d' [L' Hd]];
            destruct d as [ix sr de fds|sr de into tf|repr sr de vs|sr vs|kind sr de params|]; try discriminate W;
            try (destruct ix; discriminate W)).
  - (* Vec *)
    cbn [ty_le] in Hle. apply andb_prop in Hle. destruct Hle as [Hle Hcap].
    apply andb_prop in W. destruct W as [W Hall]. apply andb_prop in W. destruct W as [Hc Hl].
    cbn [lift wt]. unfold blen in *. rewrite map_length.
    rewrite forallb_forall in Hall.
    replace (forallb (wt e' k u') (map (lift e' k u') l)) with true.
    + lia.
    + symmetry. apply forallb_forall. intros x Hxx. apply in_map_iff in Hxx. destruct Hxx as [y [<- Hy]].
      apply (IH u u' y Hle (Hall y Hy)).
  - (* None *) destruct k; reflexivity.
  - (* Some *)
    cbn [ty_le] in Hle. apply andb_prop in W. destruct W as [Hn Hw].
    cbn [lift wt]. rewrite (ty_le_not_null u u' Hle Hn). apply (IH u u' w Hle Hw).
  - (* filtered parameter list: the value is unchanged *)
    pose proof (decl_eqb_nonstruct _ _ Hd) as E. cbv beta iota in E. subst d'.
    cbn [lift wt]. rewrite L'.
    apply andb_prop in W. destruct W as [W Hall]. rewrite W. cbn [andb].
    rewrite forallb_forall in Hall. apply forallb_forall. intros kp Hin. specialize (Hall kp Hin).
    destruct kp as [ | | | | | | | |fs0| | ]; try discriminate.
    destruct fs0 as [|[l1 v1] fs0]; try discriminate.
    repeat match type of Hall with
           | match ?x with _ => _ end = true => destruct x; try discriminate
           end.
    apply andb_prop in Hall. destruct Hall as [Ha Hw]. rewrite Ha. cbn [andb].
    rewrite <- (lift_full_param e' k _ Hp). apply (IH (TNamed n_PKCP) (TNamed n_PKCP) _ (String.eqb_refl _) Hw).
  - (* struct *)
    destruct d' as [ix' s' dd' fs'| | | | |]; cbn [decl_extends decl_eqb] in Hd; try discriminate.
    apply andb_prop in Hd. destruct Hd as [Hd Hfe]. apply andb_prop in Hd. destruct Hd as [Hd _].
    apply andb_prop in Hd. destruct Hd as [Hix _]. apply bool_eqb_eq in Hix. subst ix'.
    pose proof (struct_labels_nodup e name ix sr de fds He L) as Dl.
    pose proof (struct_labels_nodup e' name ix s' dd' fs' He' L') as Dl'.
    destruct (fields_extend_spec fs' fds Hfe Dl') as [F2 Hadd].
    cbn [lift wt]. rewrite L'.
    assert (Hfield : forall (ok : (ty -> val -> bool) -> field -> val -> bool),
      (forall a a' fv, In a fds -> field_rel a a' -> ok (wt e k) a fv = true ->
                       ok (wt e' k) a' (lift e' k (f_ty a') fv) = true) ->
      (forall b, added_ok b = true -> ok (wt e' k) b VNone = true) ->
      wt_fields (ok (wt e k)) fds fs = true ->
      wt_fields (ok (wt e' k)) fs'
        (map (fun fd => (f_label fd, match rget (f_label fd) fs with Some fv => lift e' k (f_ty fd) fv | None => VNone end)) fs') = true).
    { intros ok Hcommon Hadded Wf. apply wt_fields_map. intros b Hb.
      destruct (smem (f_label b) (map f_label fds)) eqn:Es.
      - assert (Hbf : In b (filter (fun b0 => smem (f_label b0) (map f_label fds)) fs')) by (apply filter_In; split; assumption).
        destruct (Forall2_in_r _ _ _ F2 b Hbf) as [a [Ha R]].
        destruct (wt_fields_rget_some _ fds fs a Wf Dl Ha) as [fv [Hr Hok]].
        rewrite <- (fr_label _ _ R). rewrite Hr. apply (Hcommon a b fv Ha R Hok).
      - replace (rget (f_label b) fs) with (@None val).
        + apply Hadded. apply (Hadd b Hb Es).
        + symmetry. apply rget_none_notin. rewrite (wt_fields_labels _ fds fs Wf).
          intros Hin. apply smem_in in Hin. rewrite Hin in Es. discriminate. }
    destruct ix.
    + apply (Hfield field_ok_idx); [| |exact W].
      * intros a a' fv Ha R Hok. unfold field_ok_idx in *.
        rewrite emitted_lift. rewrite <- (emitted_rel a a' fv R). rewrite <- (fr_opt _ _ R).
        destruct (emitted a fv).
        { destruct (f_opt a).
          - destruct fv as [ | | | | | |w0| | | | ]; try discriminate.
            apply andb_prop in Hok. destruct Hok as [Ho Hw].
            destruct (ty_le_opt _ _ (fr_ty _ _ R) Ho) as [ua [ub [Ea [Eb Hu]]]].
            rewrite Eb. pose proof (IH (f_ty a) (f_ty a') (VSome w0) (fr_ty _ _ R) Hw) as G.
            rewrite Eb in G. destruct k as [|k0]; [rewrite Ea in Hw; discriminate|].
            cbn [lift] in *. cbn [is_opt_ty andb]. exact G.
          - apply (IH (f_ty a) (f_ty a') fv (fr_ty _ _ R) Hok). }
        { rewrite is_none_lift. exact Hok. }
      * intros b Hb. unfold field_ok_idx, added_ok, emitted in *. apply andb_prop in Hb. destruct Hb as [Ho Hs].
        apply orb_prop in Hs.
        replace (negb (f_skip_ser b) && negb (f_skip_none b && true)) with false
          by (destruct Hs as [-> | ->]; [rewrite andb_false_r|]; reflexivity).
        cbn [is_none andb]. exact Ho.
    + apply (Hfield field_ok_txt); [| |exact W].
      * intros a a' fv Ha R Hok. unfold field_ok_txt in *.
        rewrite emitted_lift. rewrite <- (emitted_rel a a' fv R). rewrite <- (fr_opt _ _ R). rewrite <- (fr_with _ _ R).
        destruct (emitted a fv); [|rewrite is_none_lift; exact Hok].
        destruct (f_with a) as [wf|] eqn:Ew; [|apply (IH (f_ty a) (f_ty a') fv (fr_ty _ _ R) Hok)].
        pose proof (env_rt_lookup e name _ He L) as D. cbn [decl_rt] in D.
        apply andb_prop in D. destruct D as [D _]. apply andb_prop in D. destruct D as [D _].
        rewrite forallb_forall in D. specialize (D a Ha). unfold txt_field_wf in D. rewrite Ew in D.
        apply andb_prop in D. destruct D as [_ D]. apply andb_prop in D. destruct D as [_ D].
        pose proof (fr_ty _ _ R) as Hty.
        destruct (f_ty a) as [ | | | | | | | | | | | | | | | | | | |ua| | | | ]; try discriminate.
        destruct ua as [ | | | | | | | | | | | | | | | | |na| | | | | | ]; try discriminate.
        destruct (f_ty a') as [ | | | | | | | | | | | | | | | | | | |ub| | | | ]; try discriminate.
        destruct ub as [ | | | | | | | | | | | | | | | | |nb| | | | | | ]; try discriminate.
        cbn [ty_le] in Hty. cbn [str_cap] in *.
        destruct fv as [ | | | | | |sv| | | | ]; try discriminate.
        { destruct k; exact Hok. }
        { destruct sv as [ | |s0| | | | | | | | ]; try discriminate.
          assert (El : lift e' k (TOpt (TStrCap nb)) (VSome (VStr s0)) = VSome (VStr s0)) by (destruct k as [|[|k1]]; reflexivity).
          rewrite El. unfold str_ok in *. lia. }
      * intros b Hb. unfold field_ok_txt, added_ok, emitted in *. apply andb_prop in Hb. destruct Hb as [Ho Hs].
        apply orb_prop in Hs.
        replace (negb (f_skip_ser b) && negb (f_skip_none b && true)) with false
          by (destruct Hs as [-> | ->]; [rewrite andb_false_r|]; reflexivity).
        cbn [is_none andb]. exact Ho.
  - (* ECDH key: unchanged *)
    pose proof (decl_eqb_nonstruct _ _ Hd) as E. cbv beta iota in E. subst d'.
    cbn [lift wt]. rewrite L'. exact W.
  - (* string enum *)
    pose proof (decl_eqb_nonstruct _ _ Hd) as E. cbv beta iota in E. subst d'.
    cbn [lift wt]. rewrite L'. reflexivity.
  - (* numeric enum *)
    pose proof (decl_eqb_nonstruct _ _ Hd) as E. cbv beta iota in E. subst d'.
    cbn [lift wt]. rewrite L'. reflexivity.
Qed.

(* ---------------------------------------------------------------- the theorem *)
Lemma ty_le_refl : forall t, ty_le t t = true.
Proof.
  induction t; cbn [ty_le ty_eqb]; try reflexivity; try apply Z.leb_refl; try apply Z.eqb_refl;
    try apply String.eqb_refl; try assumption.
  rewrite IHt. apply Z.leb_refl.
Qed.

Theorem decode_in_extension : forall e e' t v b rest,
  env_extends e e' = true -> env_rt e = true -> env_rt e' = true -> pkcp_plain e' = true ->
  wt e type_fuel t v = true -> encode e t v = Some b ->
  decode e t (b ++ rest) = Ok (v, rest) /\
  decode e' t (b ++ rest) = Ok (lift e' type_fuel t v, rest).
Proof.
  intros e e' t v b rest Hx He He' Hp W H. split; [apply decode_encode; assumption|].
  rewrite encode_unfold in H. unfold decode.
  pose proof (ser_mono e e' Hx He He' type_fuel t t v b (ty_le_refl t) W H) as H'.
  pose proof (ser_lift e' He' type_fuel t v b H') as H''.
  pose proof (wt_lift e e' Hx He He' Hp type_fuel t t v (ty_le_refl t) W) as W'.
  apply (ser_dec_roundtrip e' He' type_fuel t _ b W' H''). lia.
Qed.

(* what lift is: members of the larger configuration that the value carries keep (the lift of) their value,
   all others are reported absent; scalars, strings and enumerations are untouched *)
Lemma lift_record : forall e' k name ix s d fs' vs, lookup e' name = Some (DStruct ix s d fs') ->
  lift e' (S k) (TNamed name) (VRec vs) =
  VRec (map (fun fd => (f_label fd, match rget (f_label fd) vs with
                                    | Some fv => lift e' k (f_ty fd) fv | None => VNone end)) fs').
Proof. intros e' k name ix s d fs' vs L. cbn [lift]. rewrite L. reflexivity. Qed.

Lemma lift_same_env : forall e, env_rt e = true -> forall k t v, wt e k t v = true -> lift e k t v = v.
Proof.
  intros e He. induction k as [|k IH]; intros t v W; [reflexivity|].
  cbn [wt] in W.
  destruct t as [ | | | | | | | | | |n|n|n|n|n| | |n|u n|u|u|name|name|name];
    destruct v as [z|bb|ss|bo| | |w|l|fs|vn|vn w]; try discriminate W; try reflexivity.
  - (* Vec *)
    apply andb_prop in W. destruct W as [_ Hall]. rewrite forallb_forall in Hall.
    cbn [lift]. f_equal. rewrite <- (map_id l) at 2. apply map_ext_in. intros x Hx. apply IH. apply Hall. exact Hx.
  - (* Some *)
    apply andb_prop in W. destruct W as [_ Hw]. cbn [lift]. f_equal. apply IH. exact Hw.
  - (* record *)
    cbn [lift]. destruct (lookup e name) as [d|] eqn:L; [|discriminate W].
    destruct d as [ix sr de fds| | | | |]; try reflexivity.
    pose proof (struct_labels_nodup e name ix sr de fds He L) as Dl.
    f_equal.
    assert (G : forall ok, (forall a fv, ok a fv = true -> emitted a fv = true -> wt e k (f_ty a) fv = true \/ lift e k (f_ty a) fv = fv) ->
                (forall a fv, ok a fv = true -> emitted a fv = false -> fv = VNone) ->
                wt_fields ok fds fs = true ->
                map (fun fd => (f_label fd, match rget (f_label fd) fs with Some fv => lift e k (f_ty fd) fv | None => VNone end)) fds = fs).
    { intros ok Hem Hne. clear W L. revert fs Dl. induction fds as [|fd fds IHf]; intros fs Dl Wf.
      - destruct fs; [reflexivity|discriminate].
      - destruct fs as [|[l0 v0] fs]; [discriminate|].
        destruct (wt_fields_cons _ _ _ _ _ _ Wf) as [-> [Hok Wf']].
        cbn [map] in Dl. inversion Dl as [|? ? Hn Dl']; subst.
        cbn [map]. rewrite rget_cons_same. f_equal.
        + f_equal. destruct (emitted fd v0) eqn:Ee.
          * destruct (Hem fd v0 Hok Ee) as [Hw|Hl]; [apply IH; exact Hw|exact Hl].
          * rewrite (Hne fd v0 Hok Ee). destruct k; [reflexivity|]. destruct (f_ty fd); reflexivity.
        + transitivity (map (fun fd0 => (f_label fd0, match rget (f_label fd0) fs with Some fv => lift e k (f_ty fd0) fv | None => VNone end)) fds).
          * apply map_ext_in. intros x Hx.
            rewrite rget_cons_other; [reflexivity|]. intros E. apply Hn. rewrite <- E. apply in_map. exact Hx.
          * apply (IHf fs Dl' Wf'). }
    destruct ix.
    + apply (G (field_ok_idx (wt e k))); [| |exact W].
      * intros a fv Hok Hem. left. unfold field_ok_idx in Hok. rewrite Hem in Hok.
        destruct (f_opt a); [|exact Hok]. destruct fv; try discriminate.
        apply andb_prop in Hok. destruct Hok as [_ Hok]. exact Hok.
      * apply idx_ok_absent.
    + apply (G (field_ok_txt (wt e k))); [| |exact W].
      * intros a fv Hok Hem. unfold field_ok_txt in Hok. rewrite Hem in Hok.
        destruct (f_with a) as [wf|]; [|left; exact Hok]. right.
        destruct fv as [ | | | | | |sv| | | | ]; try discriminate.
        { destruct k; [reflexivity|]. destruct (f_ty a); reflexivity. }
        { unfold str_ok in Hok. destruct sv as [ | |s0| | | | | | | | ]; try discriminate.
          destruct k as [|k1]; [reflexivity|]. destruct (f_ty a) as [ | | | | | | | | | | | | | | | | | | |ua| | | | ]; try reflexivity.
          cbn [lift]. f_equal. destruct k1; [reflexivity|]. destruct ua; reflexivity. }
      * apply txt_ok_absent.
Qed.
