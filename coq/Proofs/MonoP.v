(* "Features only add members" (C16), semantically: when the declarations of a larger configuration
   extend those of a smaller one (Spec/Extends.v: env_extends, a boolean over the declarations), every
   value that is well-typed in the smaller configuration has the SAME encoding in the larger one. *)
From Ctap Require Import Base Schema Wire Utf8 Typed WellTyped Extends CborItem WireP SkipP TypedP EntriesP SerP Finite RoundTripP.
From Coq Require Import Lia ZifyBool.
Local Open Scope string_scope.
Local Open Scope list_scope.
Local Open Scope Z_scope.

(* ---------------------------------------------------------------- soundness of the boolean equalities *)
Lemma list_eqb_eq {A} (eq : A -> A -> bool) : (forall a b, eq a b = true -> a = b) ->
  forall l l', list_eqb eq l l' = true -> l = l'.
Proof.
  intros Heq. induction l as [|x l IH]; destruct l' as [|y l']; cbn [list_eqb]; intros H; try discriminate; [reflexivity|].
  apply andb_prop in H. destruct H as [H1 H2]. f_equal; [apply Heq; exact H1|apply IH; exact H2].
Qed.

Lemma pair_eqb_eq {A B} (ea : A -> A -> bool) (eb : B -> B -> bool) :
  (forall a b, ea a b = true -> a = b) -> (forall a b, eb a b = true -> a = b) ->
  forall p q, pair_eqb ea eb p q = true -> p = q.
Proof.
  intros Ha Hb [a1 b1] [a2 b2] H. unfold pair_eqb in H. cbn [fst snd] in H.
  apply andb_prop in H. destruct H as [H1 H2]. f_equal; [apply Ha; exact H1|apply Hb; exact H2].
Qed.

Lemma string_eqb_eq : forall a b, String.eqb a b = true -> a = b.
Proof. intros a b H. apply String.eqb_eq. exact H. Qed.
Lemma z_eqb_eq : forall a b, Z.eqb a b = true -> a = b.
Proof. intros a b H. apply Z.eqb_eq. exact H. Qed.
Lemma bool_eqb_eq : forall a b, Bool.eqb a b = true -> a = b.
Proof. intros a b H. apply Bool.eqb_prop. exact H. Qed.

Lemma decl_eqb_nonstruct : forall a b, decl_eqb a b = true ->
  match a with DStruct _ _ _ _ => True | _ => a = b end.
Proof.
  intros a b H. destruct a; [exact I| | | | |]; destruct b; cbn [decl_eqb] in H; try discriminate; try reflexivity;
    repeat match goal with
           | H : (_ && _)%bool = true |- _ => apply andb_prop in H; destruct H
           end;
    repeat match goal with
           | H : Bool.eqb _ _ = true |- _ => apply bool_eqb_eq in H
           | H : String.eqb _ _ = true |- _ => apply string_eqb_eq in H
           | H : list_eqb (pair_eqb String.eqb String.eqb) _ _ = true |- _ =>
               apply (list_eqb_eq _ (pair_eqb_eq _ _ string_eqb_eq string_eqb_eq)) in H
           | H : list_eqb (pair_eqb String.eqb Z.eqb) _ _ = true |- _ =>
               apply (list_eqb_eq _ (pair_eqb_eq _ _ string_eqb_eq z_eqb_eq)) in H
           | H : list_eqb (pair_eqb String.eqb ty_eqb) _ _ = true |- _ =>
               apply (list_eqb_eq _ (pair_eqb_eq _ _ string_eqb_eq ty_eqb_eq)) in H
           | H : list_eqb Z.eqb _ _ = true |- _ => apply (list_eqb_eq _ z_eqb_eq) in H
           end; subst; reflexivity.
Qed.

Lemma key_eqb_eq : forall a b, key_eqb a b = true -> a = b.
Proof.
  intros [x|x] [y|y] H; cbn in H; try discriminate; f_equal; [apply Z.eqb_eq|apply String.eqb_eq]; exact H.
Qed.

(* ---------------------------------------------------------------- what env_extends gives *)
Lemma env_extends_lookup : forall e e' name d, env_extends e e' = true -> lookup e name = Some d ->
  exists d', lookup e' name = Some d' /\ decl_extends d d' = true.
Proof.
  intros e e' name d H L. unfold env_extends in H. rewrite forallb_forall in H.
  apply assoc_in in L. specialize (H _ L). cbn [fst snd] in H.
  destruct (lookup e' name) as [d'|]; [|discriminate]. exists d'. split; [reflexivity|exact H].
Qed.

Record field_rel (a b : field) : Prop := {
  fr_label : f_label a = f_label b; fr_key : f_key a = f_key b; fr_ty : ty_le (f_ty a) (f_ty b) = true;
  fr_opt : f_opt a = f_opt b; fr_sn : f_skip_none a = f_skip_none b; fr_ss : f_skip_ser a = f_skip_ser b;
  fr_with : f_with a = f_with b }.

Lemma field_le_rel : forall a b, field_le a b = true -> field_rel a b.
Proof.
  intros a b H. unfold field_le in H.
  repeat match goal with
         | H : (_ && _)%bool = true |- _ => apply andb_prop in H; destruct H
         end.
  constructor; try (apply bool_eqb_eq; assumption); try (apply string_eqb_eq; assumption);
    try (apply key_eqb_eq; assumption); try assumption.
  destruct (f_with a), (f_with b); cbn in *; try discriminate; try reflexivity.
  f_equal. apply string_eqb_eq. assumption.
Qed.

Lemma fields_extend_labels : forall fs' fs, fields_extend fs fs' = true ->
  forall a, In a fs -> In (f_label a) (map f_label fs').
Proof.
  induction fs' as [|b r' IH]; intros fs H a Ha.
  - destruct fs; [destruct Ha|discriminate].
  - cbn [fields_extend] in H. destruct fs as [|a0 r]; [destruct Ha|].
    destruct (String.eqb (f_label a0) (f_label b)) eqn:E.
    + apply andb_prop in H. destruct H as [H1 H2]. destruct Ha as [->|Ha].
      * left. symmetry. apply String.eqb_eq. exact E.
      * right. apply (IH r H2 a Ha).
    + apply andb_prop in H. destruct H as [_ H2]. right. apply (IH (a0 :: r) H2 a Ha).
Qed.

(* common members (by label) are related one to one, in order; the others are optional and never emitted when unset *)
Lemma smem_cons : forall x y l, smem x (y :: l) = String.eqb x y || smem x l.
Proof. reflexivity. Qed.

Lemma fields_extend_spec : forall fs' fs,
  fields_extend fs fs' = true -> NoDup (map f_label fs') ->
  Forall2 field_rel fs (filter (fun b => smem (f_label b) (map f_label fs)) fs') /\
  (forall b, In b fs' -> smem (f_label b) (map f_label fs) = false -> added_ok b = true).
Proof.
  induction fs' as [|b r' IH]; intros fs H Hd.
  - destruct fs; [split; [constructor|intros b []]|discriminate].
  - cbn [fields_extend] in H. cbn [map] in Hd. inversion Hd as [|? ? Hn Hd']; subst.
    destruct fs as [|a r].
    + apply andb_prop in H. destruct H as [Hb H2]. destruct (IH [] H2 Hd') as [_ I2].
      split.
      * replace (filter _ (b :: r')) with (@nil field); [constructor|].
        generalize (b :: r'). intros l0. induction l0 as [|x l IHl]; [reflexivity|exact IHl].
      * intros b0 [<-|Hin] _; [exact Hb|apply I2; [exact Hin|reflexivity]].
    + destruct (String.eqb (f_label a) (f_label b)) eqn:E.
      * apply andb_prop in H. destruct H as [H1 H2]. apply String.eqb_eq in E.
        destruct (IH r H2 Hd') as [I1 I2].
        assert (Hsame : forall x, In x r' ->
                  smem (f_label x) (map f_label (a :: r)) = smem (f_label x) (map f_label r)).
        { intros x Hx. cbn [map]. rewrite smem_cons.
          destruct (String.eqb (f_label x) (f_label a)) eqn:Ex; [|reflexivity].
          apply String.eqb_eq in Ex. exfalso. apply Hn. rewrite <- E, <- Ex. apply in_map. exact Hx. }
        split.
        { cbn [filter]. cbn [map]. rewrite smem_cons. rewrite <- E. rewrite String.eqb_refl. cbn [orb].
          constructor; [apply field_le_rel; exact H1|].
          rewrite (filter_ext_in _ (fun b0 => smem (f_label b0) (map f_label r))); [exact I1|].
          intros x Hx. rewrite <- (Hsame x Hx). cbn [map]. rewrite E. reflexivity. }
        { intros b0 [<-|Hin] Hf.
          - cbn [map] in Hf. rewrite smem_cons in Hf. rewrite <- E in Hf. rewrite String.eqb_refl in Hf. discriminate.
          - apply I2; [exact Hin|]. rewrite <- (Hsame b0 Hin). exact Hf. }
      * apply andb_prop in H. destruct H as [Hb H2].
        destruct (IH (a :: r) H2 Hd') as [I1 I2].
        assert (Pb : smem (f_label b) (map f_label (a :: r)) = false).
        { destruct (smem (f_label b) (map f_label (a :: r))) eqn:Es; [|reflexivity].
          exfalso. apply smem_in in Es. apply in_map_iff in Es. destruct Es as [a0 [El Hin]].
          apply Hn. rewrite <- El. apply (fields_extend_labels r' (a :: r) H2 a0 Hin). }
        split.
        { cbn [filter]. rewrite Pb. exact I1. }
        { intros b0 [<-|Hin] Hf; [exact Hb|apply I2; assumption]. }
Qed.

(* ---------------------------------------------------------------- emitted members *)
Lemma emitted_rel : forall a b fv, field_rel a b -> emitted a fv = emitted b fv.
Proof. intros a b fv R. unfold emitted. rewrite (fr_ss _ _ R), (fr_sn _ _ R). reflexivity. Qed.

Lemma emit_list_extend : forall (serf serf' : ty -> val -> option bytes) vs (L : list string) fs' fs,
  Forall2 field_rel fs (filter (fun b => smem (f_label b) L) fs') ->
  (forall b, In b fs' -> smem (f_label b) L = false -> added_ok b = true /\ rget (f_label b) vs = None) ->
  (forall a b fv x, In a fs -> field_rel a b -> rget (f_label a) vs = Some fv -> emitted a fv = true ->
                    serf (f_ty a) fv = Some x -> serf' (f_ty b) fv = Some x) ->
  forall l, emit_list serf vs fs = Some l -> emit_list serf' vs fs' = Some l.
Proof.
  intros serf serf' vs L. induction fs' as [|b r' IH]; intros fs F2 Hadd Hser l El.
  - cbn [filter] in F2. inversion F2; subst. cbn in El. exact El.
  - cbn [filter] in F2. destruct (smem (f_label b) L) eqn:Eb.
    + inversion F2 as [|a b0 r fl Rab F2']; subst.
      cbn [emit_list] in El |- *. rewrite <- (fr_label _ _ Rab).
      destruct (rget (f_label a) vs) as [fv|] eqn:Eg.
      * rewrite <- (emitted_rel a b fv Rab). destruct (emitted a fv) eqn:Ee.
        { destruct (serf (f_ty a) fv) as [x|] eqn:Es; [|discriminate].
          destruct (emit_list serf vs r) as [l0|] eqn:El0; [|discriminate]. injection El as <-.
          rewrite (Hser a b fv x (or_introl eq_refl) Rab Eg Ee Es).
          rewrite (IH r F2' (fun b1 Hin => Hadd b1 (or_intror Hin))
                     (fun a1 b1 fv1 x1 Hin => Hser a1 b1 fv1 x1 (or_intror Hin)) l0 El0).
          rewrite (fr_key _ _ Rab). reflexivity. }
        { apply (IH r F2' (fun b1 Hin => Hadd b1 (or_intror Hin))
                    (fun a1 b1 fv1 x1 Hin => Hser a1 b1 fv1 x1 (or_intror Hin)) l El). }
      * rewrite <- (fr_sn _ _ Rab), <- (fr_ss _ _ Rab).
        destruct (f_skip_none a || f_skip_ser a); [|discriminate].
        apply (IH r F2' (fun b1 Hin => Hadd b1 (or_intror Hin))
                  (fun a1 b1 fv1 x1 Hin => Hser a1 b1 fv1 x1 (or_intror Hin)) l El).
    + destruct (Hadd b (or_introl eq_refl) Eb) as [Hok Hn].
      cbn [emit_list]. rewrite Hn. unfold added_ok in Hok. apply andb_prop in Hok. destruct Hok as [_ Hok].
      rewrite Hok. apply (IH fs F2 (fun b1 Hin => Hadd b1 (or_intror Hin)) Hser l El).
Qed.

Lemma wt_fields_labels : forall ok fs vs, wt_fields ok fs vs = true -> map fst vs = map f_label fs.
Proof.
  intros ok. induction fs as [|fd fs IH]; intros vs W; [destruct vs; [reflexivity|discriminate]|].
  destruct vs as [|[l v] vs]; [discriminate|].
  destruct (wt_fields_cons _ _ _ _ _ _ W) as [-> [_ W']]. cbn [map fst]. f_equal. apply IH. exact W'.
Qed.

Lemma wt_fields_ok_rget : forall ok fs vs a fv,
  wt_fields ok fs vs = true -> NoDup (map f_label fs) -> In a fs -> rget (f_label a) vs = Some fv -> ok a fv = true.
Proof.
  intros ok. induction fs as [|fd fs IH]; intros vs a fv W Hd Hin Hr; [destruct Hin|].
  destruct vs as [|[l v] vs]; [discriminate|].
  destruct (wt_fields_cons _ _ _ _ _ _ W) as [-> [Hok W']].
  cbn [map] in Hd. inversion Hd as [|? ? Hn Hd']; subst.
  destruct Hin as [->|Hin].
  - rewrite rget_cons_same in Hr. injection Hr as <-. exact Hok.
  - rewrite rget_cons_other in Hr.
    + apply (IH vs a fv W' Hd' Hin Hr).
    + intros E. apply Hn. rewrite <- E. apply in_map. exact Hin.
Qed.

Lemma concat_opt_map_mono {A} : forall (f g : A -> option bytes) l body,
  (forall v b, In v l -> f v = Some b -> g v = Some b) ->
  concat_opt (map f l) = Some body -> concat_opt (map g l) = Some body.
Proof.
  intros f g. induction l as [|v l IH]; intros body H Hc; [exact Hc|].
  cbn [map concat_opt] in *. destruct (f v) as [b|] eqn:Ef; [|discriminate].
  rewrite (H v b (or_introl eq_refl) Ef).
  destruct (concat_opt (map f l)) as [t|] eqn:Ec; [|discriminate].
  rewrite (IH t (fun v0 b0 Hin => H v0 b0 (or_intror Hin)) eq_refl). exact Hc.
Qed.

(* member types that carry a deserialize_with function: encoding does not look at the environment *)
Lemma ser_opt_str_env : forall e e' k n m v b,
  ser e k (TOpt (TStrCap n)) v = Some b -> ser e' k (TOpt (TStrCap m)) v = Some b.
Proof.
  intros e e' k n m v b H. destruct k as [|[|k]]; [discriminate| |].
  - cbn [ser] in *. destruct v; try discriminate; exact H.
  - cbn [ser] in *. destruct v as [ | | | | | |w| | | | ]; try discriminate; [exact H|].
    destruct w; try discriminate; exact H.
Qed.

(* ---------------------------------------------------------------- the theorem *)
Definition mono_at (e e' : env) (k : nat) : Prop :=
  forall t t' v b, ty_le t t' = true -> wt e k t v = true -> ser e k t v = Some b -> ser e' k t' v = Some b.

Lemma struct_mono : forall e e' k name ix s d fs vs b ok,
  env_extends e e' = true -> env_rt e = true -> env_rt e' = true ->
  lookup e name = Some (DStruct ix s d fs) ->
  wt_fields ok fs vs = true ->
  (forall a a' fv x, In a fs -> field_rel a a' -> ok a fv = true -> emitted a fv = true ->
                     ser e k (f_ty a) fv = Some x -> ser e' k (f_ty a') fv = Some x) ->
  ser e (S k) (TNamed name) (VRec vs) = Some b ->
  ser e' (S k) (TNamed name) (VRec vs) = Some b.
Proof.
  intros e e' k name ix s d fs vs b ok Hx He He' L W Hf H.
  destruct (env_extends_lookup e e' name _ Hx L) as [d' [L' Hd]].
  destruct d' as [ix' s' dd' fs'| | | | |]; cbn [decl_extends decl_eqb] in Hd; try discriminate.
  apply andb_prop in Hd. destruct Hd as [Hd Hfe].
  rewrite (ser_struct_shape e k name ix s d fs vs L) in H.
  rewrite (ser_struct_shape e' k name ix' s' dd' fs' vs L').
  destruct (emit_list (ser e k) vs fs) as [l|] eqn:El; [|discriminate].
  assert (Dl : NoDup (map f_label fs)).
  { pose proof (env_rt_lookup e name _ He L) as D. cbn [decl_rt] in D. destruct ix.
    - apply andb_prop in D. destruct D as [D _]. apply andb_prop in D. destruct D as [_ D]. apply nodup_s_ok. exact D.
    - apply andb_prop in D. destruct D as [D _]. apply andb_prop in D. destruct D as [_ D]. apply nodup_s_ok. exact D. }
  assert (Dl' : NoDup (map f_label fs')).
  { pose proof (env_rt_lookup e' name _ He' L') as D. cbn [decl_rt] in D. destruct ix'.
    - apply andb_prop in D. destruct D as [D _]. apply andb_prop in D. destruct D as [_ D]. apply nodup_s_ok. exact D.
    - apply andb_prop in D. destruct D as [D _]. apply andb_prop in D. destruct D as [_ D]. apply nodup_s_ok. exact D. }
  destruct (fields_extend_spec fs' fs Hfe Dl') as [F2 Hadd].
  rewrite (emit_list_extend (ser e k) (ser e' k) vs (map f_label fs) fs' fs F2) with (l := l).
  - exact H.
  - intros b0 Hin Hs. split; [apply Hadd; assumption|].
    apply rget_none_notin. rewrite (wt_fields_labels ok fs vs W).
    intros Hin'. apply smem_in in Hin'. rewrite Hin' in Hs. discriminate.
  - intros a a' fv x Hin R Hr Hem Hs.
    apply (Hf a a' fv x Hin R (wt_fields_ok_rget ok fs vs a fv W Dl Hin Hr) Hem Hs).
  - exact El.
Qed.

Theorem ser_mono : forall e e', env_extends e e' = true -> env_rt e = true -> env_rt e' = true ->
  forall k, mono_at e e' k.
Proof.
  intros e e' Hx He He'. induction k as [|k IH]; intros t t' v b Hle W H; [discriminate|].
  cbn [wt] in W.
  destruct t as [ | | | | | | | | | |n|n|n|n|n| | |n|u n|u|u|name|name|name];
    destruct t' as [ | | | | | | | | | |n'|n'|n'|n'|n'| | |n'|u' n'|u'|u'|name'|name'|name']; try discriminate Hle;
    destruct v as [z|bb|ss|bo| | |w|l|fs|vn|vn w]; try discriminate W; try exact H.
  all: try (cbn [ty_le ty_eqb] in Hle; apply String.eqb_eq in Hle; subst name';
            destruct (lookup e name) as [d|] eqn:L; [|discriminate W];
            destruct d as [ix sr de fds|sr de into tf|repr sr de vs|sr vs|kind sr de params|]; try discriminate W;
            try (destruct ix; discriminate W)).
  - (* Vec *)
    cbn [ty_le] in Hle. apply andb_prop in Hle. destruct Hle as [Hle _].
    apply andb_prop in W. destruct W as [_ Hall]. rewrite forallb_forall in Hall.
    cbn [ser] in *. destruct (concat_opt (map (ser e k u) l)) as [body|] eqn:Ec; [|discriminate].
    rewrite (concat_opt_map_mono (ser e k u) (ser e' k u') l body); [exact H| |exact Ec].
    intros v0 b0 Hin Hs. apply (IH u u' v0 b0 Hle (Hall v0 Hin) Hs).
  - (* Some *)
    cbn [ty_le] in Hle. apply andb_prop in W. destruct W as [_ Hw]. cbn [ser] in *.
    apply (IH u u' w b Hle Hw H).
  - (* filtered parameter list *)
    destruct (env_extends_lookup e e' name _ Hx L) as [d' [L' Hd]].
    pose proof (decl_eqb_nonstruct _ _ Hd) as E. cbv beta iota in E. subst d'.
    apply andb_prop in W. destruct W as [W Hall]. apply andb_prop in W. destruct W as [W _].
    apply andb_prop in W. destruct W as [W _]. apply String.eqb_eq in W. subst kind.
    cbn [ser] in *. rewrite L in H. rewrite L'. cbn [String.eqb Ascii.eqb Bool.eqb] in *.
    change (map _ l) with (map (filt_ser (ser e k (TNamed n_PKCP))) l) in H.
    change (map _ l) with (map (filt_ser (ser e' k (TNamed n_PKCP))) l).
    destruct (concat_opt (map (filt_ser (ser e k (TNamed n_PKCP))) l)) as [body|] eqn:Ec; [|discriminate].
    rewrite (concat_opt_map_mono (filt_ser (ser e k (TNamed n_PKCP))) (filt_ser (ser e' k (TNamed n_PKCP))) l body);
      [exact H| |exact Ec].
    intros kp b0 Hin Hs. rewrite forallb_forall in Hall. specialize (Hall kp Hin).
    destruct kp as [ | | | | | | | |fs0| | ]; try discriminate.
    destruct fs0 as [|[l1 v1] fs0]; try discriminate.
    repeat match type of Hall with
           | match ?x with _ => _ end = true => destruct x; try discriminate
           end.
    apply andb_prop in Hall. destruct Hall as [_ Hw].
    cbn in Hs |- *. apply (IH (TNamed n_PKCP) (TNamed n_PKCP) _ b0 (String.eqb_refl _) Hw Hs).
  - (* struct *)
    destruct ix.
    + apply (struct_mono e e' k name true sr de fds fs b (field_ok_idx (wt e k)) Hx He He' L W); [|exact H].
      intros a a' fv x Hin R Hok Hem Hs. unfold field_ok_idx in Hok. rewrite Hem in Hok.
      apply (IH (f_ty a) (f_ty a') fv x (fr_ty _ _ R)); [|exact Hs].
      destruct (f_opt a); [|exact Hok].
      destruct fv; try discriminate. apply andb_prop in Hok. destruct Hok as [_ Hok]. exact Hok.
    + apply (struct_mono e e' k name false sr de fds fs b (field_ok_txt (wt e k)) Hx He He' L W); [|exact H].
      intros a a' fv x Hin R Hok Hem Hs. unfold field_ok_txt in Hok. rewrite Hem in Hok.
      destruct (f_with a) as [wf|] eqn:Ew.
      * (* deserialize_with member: Option<String<N>> *)
        pose proof (env_rt_lookup e name _ He L) as D. cbn [decl_rt] in D.
        apply andb_prop in D. destruct D as [D _]. apply andb_prop in D. destruct D as [D _].
        rewrite forallb_forall in D. specialize (D a Hin). unfold txt_field_wf in D. rewrite Ew in D.
        apply andb_prop in D. destruct D as [_ D]. apply andb_prop in D. destruct D as [_ D].
        pose proof (fr_ty _ _ R) as Hty.
        destruct (f_ty a) as [ | | | | | | | | | | | | | | | | | | |ua| | | | ]; try discriminate.
        destruct ua as [ | | | | | | | | | | | | | | | | |na| | | | | | ]; try discriminate.
        destruct (f_ty a') as [ | | | | | | | | | | | | | | | | | | |ub| | | | ]; try discriminate.
        destruct ub as [ | | | | | | | | | | | | | | | | |nb| | | | | | ]; try discriminate.
        apply (ser_opt_str_env e e' k na nb fv x Hs).
      * apply (IH (f_ty a) (f_ty a') fv x (fr_ty _ _ R) Hok Hs).
  - (* ECDH key *)
    destruct (env_extends_lookup e e' name _ Hx L) as [d' [L' Hd]].
    pose proof (decl_eqb_nonstruct _ _ Hd) as E. cbv beta iota in E. subst d'.
    cbn [ser] in *. rewrite L in H. rewrite L'. exact H.
  - (* string enum *)
    destruct (env_extends_lookup e e' name _ Hx L) as [d' [L' Hd]].
    pose proof (decl_eqb_nonstruct _ _ Hd) as E. cbv beta iota in E. subst d'.
    cbn [ser] in *. rewrite L in H. rewrite L'. exact H.
  - (* numeric enum *)
    destruct (env_extends_lookup e e' name _ Hx L) as [d' [L' Hd]].
    pose proof (decl_eqb_nonstruct _ _ Hd) as E. cbv beta iota in E. subst d'.
    cbn [ser] in *. rewrite L in H. rewrite L'. exact H.
Qed.

Corollary encode_mono : forall e e' t v b, env_extends e e' = true -> env_rt e = true -> env_rt e' = true ->
  wt e type_fuel t v = true -> encode e t v = Some b -> encode e' t v = Some b.
Proof.
  intros e e' t v b Hx He He' W H. rewrite encode_unfold in *.
  apply (ser_mono e e' Hx He He' type_fuel t t v b); try assumption.
  clear. induction t; cbn [ty_le ty_eqb]; try reflexivity; try apply Z.leb_refl; try apply Z.eqb_refl;
    try apply String.eqb_refl; try assumption.
  rewrite IHt. apply Z.leb_refl.
Qed.

Lemma all_pairs_extend_at : forall (envf : feats -> env) f f',
  all_pairs_extend envf = true -> In f all_feats -> In f' all_feats -> subset_feats f f' = true ->
  env_extends (envf f) (envf f') = true.
Proof.
  intros envf f f' X Hf Hf' Hs. unfold all_pairs_extend in X.
  pose proof (forallb_In _ _ f X Hf) as X1. cbv beta in X1.
  pose proof (forallb_In _ _ f' X1 Hf') as X2. cbv beta in X2. rewrite Hs in X2. exact X2.
Qed.

Lemma encode_mono_family : forall (envf : feats -> env) f f' t v b,
  all_pairs_extend envf = true -> forallb (fun f => env_rt (envf f)) all_feats = true ->
  In f all_feats -> In f' all_feats -> subset_feats f f' = true ->
  wt (envf f) type_fuel t v = true -> encode (envf f) t v = Some b -> encode (envf f') t v = Some b.
Proof.
  intros envf f f' t v b X R Hf Hf' Hs W H.
  apply (encode_mono (envf f) (envf f') t v b (all_pairs_extend_at envf f f' X Hf Hf' Hs)); try assumption.
  - exact (forallb_In (fun f => env_rt (envf f)) all_feats f R Hf).
  - exact (forallb_In (fun f => env_rt (envf f)) all_feats f' R Hf').
Qed.
