(* Reader-level fault classes (C05): a head that is wider than the value needs is NonMinimal, an
   indefinite-length head is a range error, a wrong major type is BadMajor - for every value and every
   continuation of the input.  All are "every other cbor error" of the status mapping (InvalidCbor). *)
From Ctap Require Import Base Schema Wire Utf8 Typed CborItem WireP SkipP.
Local Open Scope string_scope.
From Coq Require Import Lia ZifyBool.
Local Open Scope list_scope.
Local Open Scope Z_scope.

(* w is wider than the shortest head for v *)
Definition wider_than_needed (w : nat) (v : Z) : Prop :=
  match w with
  | 1%nat => 0 <= v <= 23
  | 2%nat => 0 <= v <= 255
  | 3%nat => 0 <= v <= 65535
  | 4%nat => 0 <= v <= 4294967295
  | _ => False
  end.

Lemma expect_major_head_w : forall maj w v r, 0 <= maj < 8 -> (1 <= w <= 4)%nat ->
  exists t, head_w maj w v ++ r = (maj * 32 + (23 + Z.of_nat w)) :: t /\
            expect_major maj (head_w maj w v ++ r) = Ok (23 + Z.of_nat w, t).
Proof.
  intros maj w v r Hm Hw. destruct w as [|[|[|[|[|w]]]]]; try lia; cbn [head_w app]; eexists; (split; [reflexivity|]);
    unfold expect_major; rewrite head_div, head_mod by lia; rewrite Z.eqb_refl; reflexivity.
Qed.

Theorem nonminimal_u64 : forall maj w v r, 0 <= maj < 8 -> wider_than_needed w v ->
  raw_u64 maj (head_w maj w v ++ r) = Err NonMinimal.
Proof.
  intros maj w v r Hm Hw. destruct w as [|[|[|[|[|w]]]]]; cbn [wider_than_needed] in Hw; try contradiction;
    unfold raw_u64; cbn [head_w app]; unfold expect_major; rewrite head_div, head_mod by lia; rewrite Z.eqb_refl; cbn [bind].
  - cbn [Z.leb Z.eqb Z.compare Pos.compare Pos.compare_cont Pos.eqb].
    change (take 1 (v :: r)) with (take (blen [v]) ([v] ++ r)). rewrite take_app. cbn [bind].
    replace (of_be [v]) with v by (cbn; lia). destruct (v <=? 23) eqn:E; [reflexivity|lia].
  - cbn [Z.leb Z.eqb Z.compare Pos.compare Pos.compare_cont Pos.eqb].
    change (take 2 (be 2 v ++ r)) with (take (blen (be 2 v)) (be 2 v ++ r)). rewrite take_app.
    cbn [bind]. rewrite (of_be_be 2 v) by (cbn; lia). destruct (v <=? 255) eqn:E; [reflexivity|lia].
  - cbn [Z.leb Z.eqb Z.compare Pos.compare Pos.compare_cont Pos.eqb].
    change (take 4 (be 4 v ++ r)) with (take (blen (be 4 v)) (be 4 v ++ r)). rewrite take_app.
    cbn [bind]. rewrite (of_be_be 4 v) by (cbn; lia). destruct (v <=? 65535) eqn:E; [reflexivity|lia].
  - cbn [Z.leb Z.eqb Z.compare Pos.compare Pos.compare_cont Pos.eqb].
    change (take 8 (be 8 v ++ r)) with (take (blen (be 8 v)) (be 8 v ++ r)). rewrite take_app.
    cbn [bind]. rewrite (of_be_be 8 v) by (cbn; lia). destruct (v <=? 4294967295) eqn:E; [reflexivity|lia].
Qed.

(* lengths and 32-bit members go through raw_u32: the three wider-than-needed widths it knows are NonMinimal,
   the 8-byte width is a range error *)
Theorem nonminimal_u32 : forall maj w v r, 0 <= maj < 8 -> (w <= 3)%nat -> wider_than_needed w v ->
  raw_u32 maj (head_w maj w v ++ r) = Err NonMinimal.
Proof.
  intros maj w v r Hm Hw3 Hw. destruct w as [|[|[|[|w]]]]; cbn [wider_than_needed] in Hw; try contradiction; try lia;
    unfold raw_u32; cbn [head_w app]; unfold expect_major; rewrite head_div, head_mod by lia; rewrite Z.eqb_refl; cbn [bind].
  - cbn [Z.leb Z.eqb Z.compare Pos.compare Pos.compare_cont Pos.eqb].
    change (take 1 (v :: r)) with (take (blen [v]) ([v] ++ r)). rewrite take_app. cbn [bind].
    replace (of_be [v]) with v by (cbn; lia). destruct (v <=? 23) eqn:E; [reflexivity|lia].
  - cbn [Z.leb Z.eqb Z.compare Pos.compare Pos.compare_cont Pos.eqb].
    change (take 2 (be 2 v ++ r)) with (take (blen (be 2 v)) (be 2 v ++ r)). rewrite take_app.
    cbn [bind]. rewrite (of_be_be 2 v) by (cbn; lia). destruct (v <=? 255) eqn:E; [reflexivity|lia].
  - cbn [Z.leb Z.eqb Z.compare Pos.compare Pos.compare_cont Pos.eqb].
    change (take 4 (be 4 v ++ r)) with (take (blen (be 4 v)) (be 4 v ++ r)). rewrite take_app.
    cbn [bind]. rewrite (of_be_be 4 v) by (cbn; lia). destruct (v <=? 65535) eqn:E; [reflexivity|lia].
Qed.

Theorem eight_byte_length_rejected : forall maj v r, 0 <= maj < 8 ->
  raw_u32 maj (head_w maj 4 v ++ r) = Err BadU32.
Proof.
  intros maj v r Hm. unfold raw_u32. cbn [head_w app]. unfold expect_major.
  rewrite head_div, head_mod by lia. rewrite Z.eqb_refl. reflexivity.
Qed.

(* indefinite lengths (additional information 31) and the reserved values 28..30 *)
Theorem indefinite_rejected : forall maj a r, 0 <= maj < 8 -> 28 <= a <= 31 ->
  raw_u32 maj ((maj * 32 + a) :: r) = Err BadU32 /\ raw_u64 maj ((maj * 32 + a) :: r) = Err BadU64 /\
  raw_u8 maj ((maj * 32 + a) :: r) = Err BadU8.
Proof.
  intros maj a r Hm Ha. unfold raw_u32, raw_u64, raw_u8, expect_major.
  rewrite head_div, head_mod by lia. rewrite Z.eqb_refl. cbn [bind].
  destruct (a <=? 23) eqn:E0; [lia|]. destruct (a =? 24) eqn:E1; [lia|]. destruct (a =? 25) eqn:E2; [lia|].
  destruct (a =? 26) eqn:E3; [lia|]. destruct (a =? 27) eqn:E4; [lia|]. repeat split.
Qed.

(* a value of another major type where an integer / length of major [maj] is read *)
Theorem wrong_major_rejected : forall maj b r, b / 32 <> maj ->
  raw_u8 maj (b :: r) = Err BadMajor /\ raw_u32 maj (b :: r) = Err BadMajor /\ raw_u64 maj (b :: r) = Err BadMajor.
Proof.
  intros maj b r H. unfold raw_u8, raw_u32, raw_u64, expect_major.
  destruct (b / 32 =? maj) eqn:E; [lia|]. repeat split.
Qed.

(* ---------------------------------------------------------------- a value of another data type (C05) *)
(* the major types on which the decoder of a type can succeed *)
Fixpoint first_majors (e : env) (fuel : nat) (t : ty) : list Z :=
  match fuel with
  | O => []
  | S k =>
      match t with
      | TU8 | TU16 | TU32 | TU64 | TUsize => [0]
      | TI8 | TI32 => [0; 1]
      | TBool | TUnit => [7]
      | TBytesRef | TBytesCap _ | TByteArrRef _ => [2]
      | TStrRef | TStrCap _ => [3]
      | TVec _ _ => [4]
      | TOpt u => 7 :: first_majors e k u
      | TNamed name =>
          match lookup e name with
          | Some (DStruct _ _ _ _) => [5]
          | Some (DStrEnum _ _ _ _) => [3]
          | Some (DRepr _ _ _ _) => [0]
          | Some (DCustom kind _ _ _) =>
              if String.eqb kind "webauthn::Icon" then [3]
              else if String.eqb kind "webauthn::FilteredPublicKeyCredentialParameters" then [4]
              else if String.eqb kind "ctap2::AttestationFormatsPreference" then [4]
              else if String.eqb kind "ext::EcdhEsHkdf256PublicKey" then [5]
              else []
          | _ => []
          end
      | _ => []
      end
  end.

Definition rejected_not_missing {A} (x : res A) : Prop :=
  match x with Err ce => ce <> SerdeMissingField | Ok _ => False | _ => True end.

Lemma raw_wrong_major : forall maj b r, b / 32 <> maj ->
  raw_u8 maj (b :: r) = Err BadMajor /\ raw_u32 maj (b :: r) = Err BadMajor /\ raw_u64 maj (b :: r) = Err BadMajor.
Proof. exact wrong_major_rejected. Qed.

Lemma raw_u32_never_missing : forall maj i, match raw_u32 maj i with Err ce => ce <> SerdeMissingField | _ => True end.
Proof.
  intros maj i. unfold raw_u32, expect_major. destruct i as [|b i]; cbn [bind]; [discriminate|].
  destruct (b / 32 =? maj); cbn [bind]; [|discriminate].
  repeat match goal with |- context [if ?c then _ else _] => destruct c end; try exact I; try discriminate;
    unfold take; match goal with |- context [blen ?l <? ?n] => destruct (blen l <? n) end; cbn [bind]; try discriminate;
    match goal with |- context [if ?c then _ else _] => destruct c end; try exact I; discriminate.
Qed.

(* a member whose value starts with a major type the member's type cannot start with is rejected, and
   never as a missing parameter: the status is InvalidCbor.  (246 = null is the one simple value an optional
   member accepts; the property excludes it.) *)
Theorem wrong_type_rejected : forall e k t b r,
  ~ In (b / 32) (first_majors e k t) -> 0 <= b < 256 ->
  rejected_not_missing (dec e k t (b :: r)).
Proof.
  intros e. induction k as [|k IH]; intros t b r Hn Hb; [exact I|].
  cbn [first_majors] in Hn.
  destruct t as [ | | | | | | | | | |n|n|n|n|n| | |n|u n|u|u|name|name|name]; try exact I.
  - (* u8 *) cbn [dec]. rewrite (proj1 (raw_wrong_major 0 b r ltac:(intros E; apply Hn; left; symmetry; exact E))). cbn. discriminate.
  - cbn [dec]. unfold raw_u16. rewrite (proj1 (proj2 (raw_wrong_major 0 b r ltac:(intros E; apply Hn; left; symmetry; exact E)))). cbn. discriminate.
  - cbn [dec]. rewrite (proj1 (proj2 (raw_wrong_major 0 b r ltac:(intros E; apply Hn; left; symmetry; exact E)))). cbn. discriminate.
  - cbn [dec]. rewrite (proj2 (proj2 (raw_wrong_major 0 b r ltac:(intros E; apply Hn; left; symmetry; exact E)))). cbn. discriminate.
  - cbn [dec]. rewrite (proj2 (proj2 (raw_wrong_major 0 b r ltac:(intros E; apply Hn; left; symmetry; exact E)))). cbn. discriminate.
  - (* i8 *) cbn [dec]. unfold dec_i8. cbn [peek_major bind].
    destruct (b / 32 =? 0) eqn:E0; [exfalso; apply Hn; left; lia|].
    destruct (b / 32 =? 1) eqn:E1; [exfalso; apply Hn; right; left; lia|]. cbn. discriminate.
  - (* i32 *) cbn [dec]. unfold dec_i32. cbn [peek_major bind].
    destruct (b / 32 <=? 1) eqn:E0; [|cbn; discriminate].
    exfalso. apply Hn. assert (0 <= b / 32) by (Z.div_mod_to_equations; lia).
    destruct (Z.eq_dec (b / 32) 0) as [->|]; [left; reflexivity|right; left; lia].
  - (* bool *) cbn [dec]. unfold dec_bool, take.
    replace (blen (b :: r) <? 1) with false by (rewrite blen_cons; pose proof (blen_nonneg r); lia).
    change (Z.to_nat 1) with 1%nat. cbn [firstn skipn bind].
    destruct b as [|p|p]; try (cbn; discriminate).
    repeat (destruct p as [p|p|]; try (cbn; discriminate)); exfalso; apply Hn; left; reflexivity.
  - (* unit *) cbn [dec dec_unit].
    destruct b as [|p|p]; try (cbn; discriminate).
    repeat (destruct p as [p|p|]; try (cbn; discriminate)); exfalso; apply Hn; left; reflexivity.
  - (* &Bytes *) cbn [dec]. unfold dec_bytes_raw. cbn [peek_major bind].
    destruct (b / 32 =? 4) eqn:E4.
    + pose proof (raw_u32_never_missing 4 (b :: r)) as N. destruct (raw_u32 4 (b :: r)) as [[x y]| | |]; cbn; try exact I; try exact N. discriminate.
    + destruct (b / 32 =? 2) eqn:E2; [exfalso; apply Hn; left; lia|cbn; discriminate].
  - cbn [dec]. unfold dec_bytes_cap, dec_bytes_raw. cbn [peek_major bind].
    destruct (b / 32 =? 4) eqn:E4.
    + pose proof (raw_u32_never_missing 4 (b :: r)) as N. destruct (raw_u32 4 (b :: r)) as [[x y]| | |]; cbn; try exact I; try exact N. discriminate.
    + destruct (b / 32 =? 2) eqn:E2; [exfalso; apply Hn; left; lia|cbn; discriminate].
  - cbn [dec]. unfold dec_bytes_raw. cbn [peek_major bind].
    destruct (b / 32 =? 4) eqn:E4.
    + pose proof (raw_u32_never_missing 4 (b :: r)) as N. destruct (raw_u32 4 (b :: r)) as [[x y]| | |]; cbn; try exact I; try exact N. discriminate.
    + destruct (b / 32 =? 2) eqn:E2; [exfalso; apply Hn; left; lia|cbn; discriminate].
  - (* &str *) cbn [dec]. unfold dec_str_raw. rewrite (proj1 (proj2 (raw_wrong_major 3 b r ltac:(intros E; apply Hn; left; symmetry; exact E)))). cbn. discriminate.
  - cbn [dec]. unfold dec_str_raw. rewrite (proj1 (proj2 (raw_wrong_major 3 b r ltac:(intros E; apply Hn; left; symmetry; exact E)))). cbn. discriminate.
  - (* Vec *) cbn [dec]. rewrite (proj1 (proj2 (raw_wrong_major 4 b r ltac:(intros E; apply Hn; left; symmetry; exact E)))). cbn. discriminate.
  - (* Option *)
    assert (Hb' : b <> 246).
    { intros ->. apply Hn. left. reflexivity. }
    assert (Hu : rejected_not_missing (dec e k u (b :: r))).
    { apply IH; [|exact Hb]. intros Hin. apply Hn. right. exact Hin. }
    cbn [dec].
    assert (G : rejected_not_missing ('(v, r0) <- dec e k u (b :: r) ;; Ok (VSome v, r0))).
    { destruct (dec e k u (b :: r)) as [[v r0]| | |]; cbn in *; auto. }
    destruct b as [|p|p]; try exact G.
    repeat (destruct p as [p|p|]; try exact G). congruence.
  - (* named *)
    cbn [dec]. destruct (lookup e name) as [d|]; [|exact I].
    destruct d as [ix sr de fs|sr de into tf|repr sr de vs|sr vs|kind sr de params|]; try exact I.
    + destruct ix; rewrite (proj1 (proj2 (raw_wrong_major 5 b r ltac:(intros E; apply Hn; left; symmetry; exact E)))); cbn; discriminate.
    + unfold dec_str_raw. rewrite (proj1 (proj2 (raw_wrong_major 3 b r ltac:(intros E; apply Hn; left; symmetry; exact E)))). cbn. discriminate.
    + destruct (String.eqb repr "u8"); [|exact I].
      rewrite (proj1 (raw_wrong_major 0 b r ltac:(intros E; apply Hn; left; symmetry; exact E))). cbn. discriminate.
    + destruct (String.eqb kind "webauthn::Icon").
      { unfold dec_str_raw. rewrite (proj1 (proj2 (raw_wrong_major 3 b r ltac:(intros E; apply Hn; left; symmetry; exact E)))). cbn. discriminate. }
      destruct (String.eqb kind "webauthn::FilteredPublicKeyCredentialParameters").
      { rewrite (proj1 (proj2 (raw_wrong_major 4 b r ltac:(intros E; apply Hn; left; symmetry; exact E)))). cbn. discriminate. }
      destruct (String.eqb kind "ctap2::AttestationFormatsPreference").
      { rewrite (proj1 (proj2 (raw_wrong_major 4 b r ltac:(intros E; apply Hn; left; symmetry; exact E)))). cbn. discriminate. }
      destruct (String.eqb kind "ext::EcdhEsHkdf256PublicKey"); [|exact I].
      unfold dec_cose_ecdh, dec_rawkey.
      rewrite (proj1 (proj2 (raw_wrong_major 5 b r ltac:(intros E; apply Hn; left; symmetry; exact E)))). cbn. discriminate.
Qed.
