(* Reader-level fault classes (C05): a head that is wider than the value needs is NonMinimal, an
   indefinite-length head is a range error, a wrong major type is BadMajor - for every value and every
   continuation of the input.  All are "every other cbor error" of the status mapping (InvalidCbor). *)
From Ctap Require Import Base Schema Wire Typed CborItem WireP SkipP.
From Coq Require Import Lia ZifyBool.
Local Open Scope list_scope.
Local Open Scope Z_scope.

(* w is wider than the shortest head for v *)
Definition wider_than_needed (w : nat) (v : Z) : Prop :=
  match w with
  | 1%nat => 0 <= v <= 23
  | 2%nat => 0 <= v <= 255
  | 3%nat => 0 <= v <= 65535
  | 4%nat => 0 <= v <= 4294967295
  | _ => False
  end.

Lemma expect_major_head_w : forall maj w v r, 0 <= maj < 8 -> (1 <= w <= 4)%nat ->
  exists t, head_w maj w v ++ r = (maj * 32 + (23 + Z.of_nat w)) :: t /\
            expect_major maj (head_w maj w v ++ r) = Ok (23 + Z.of_nat w, t).
Proof.
  intros maj w v r Hm Hw. destruct w as [|[|[|[|[|w]]]]]; try lia; cbn [head_w app]; eexists; (split; [reflexivity|]);
    unfold expect_major; rewrite head_div, head_mod by lia; rewrite Z.eqb_refl; reflexivity.
Qed.

Theorem nonminimal_u64 : forall maj w v r, 0 <= maj < 8 -> wider_than_needed w v ->
  raw_u64 maj (head_w maj w v ++ r) = Err NonMinimal.
Proof.
  intros maj w v r Hm Hw. destruct w as [|[|[|[|[|w]]]]]; cbn [wider_than_needed] in Hw; try contradiction;
    unfold raw_u64; cbn [head_w app]; unfold expect_major; rewrite head_div, head_mod by lia; rewrite Z.eqb_refl; cbn [bind].
  - cbn [Z.leb Z.eqb Z.compare Pos.compare Pos.compare_cont Pos.eqb].
    change (take 1 (v :: r)) with (take (blen [v]) ([v] ++ r)). rewrite take_app. cbn [bind].
    replace (of_be [v]) with v by (cbn; lia). destruct (v <=? 23) eqn:E; [reflexivity|lia].
  - cbn [Z.leb Z.eqb Z.compare Pos.compare Pos.compare_cont Pos.eqb].
    change (take 2 (be 2 v ++ r)) with (take (blen (be 2 v)) (be 2 v ++ r)). rewrite take_app.
    cbn [bind]. rewrite (of_be_be 2 v) by (cbn; lia). destruct (v <=? 255) eqn:E; [reflexivity|lia].
  - cbn [Z.leb Z.eqb Z.compare Pos.compare Pos.compare_cont Pos.eqb].
    change (take 4 (be 4 v ++ r)) with (take (blen (be 4 v)) (be 4 v ++ r)). rewrite take_app.
    cbn [bind]. rewrite (of_be_be 4 v) by (cbn; lia). destruct (v <=? 65535) eqn:E; [reflexivity|lia].
  - cbn [Z.leb Z.eqb Z.compare Pos.compare Pos.compare_cont Pos.eqb].
    change (take 8 (be 8 v ++ r)) with (take (blen (be 8 v)) (be 8 v ++ r)). rewrite take_app.
    cbn [bind]. rewrite (of_be_be 8 v) by (cbn; lia). destruct (v <=? 4294967295) eqn:E; [reflexivity|lia].
Qed.

(* lengths and 32-bit members go through raw_u32: the three wider-than-needed widths it knows are NonMinimal,
   the 8-byte width is a range error *)
Theorem nonminimal_u32 : forall maj w v r, 0 <= maj < 8 -> (w <= 3)%nat -> wider_than_needed w v ->
  raw_u32 maj (head_w maj w v ++ r) = Err NonMinimal.
Proof.
  intros maj w v r Hm Hw3 Hw. destruct w as [|[|[|[|w]]]]; cbn [wider_than_needed] in Hw; try contradiction; try lia;
    unfold raw_u32; cbn [head_w app]; unfold expect_major; rewrite head_div, head_mod by lia; rewrite Z.eqb_refl; cbn [bind].
  - cbn [Z.leb Z.eqb Z.compare Pos.compare Pos.compare_cont Pos.eqb].
    change (take 1 (v :: r)) with (take (blen [v]) ([v] ++ r)). rewrite take_app. cbn [bind].
    replace (of_be [v]) with v by (cbn; lia). destruct (v <=? 23) eqn:E; [reflexivity|lia].
  - cbn [Z.leb Z.eqb Z.compare Pos.compare Pos.compare_cont Pos.eqb].
    change (take 2 (be 2 v ++ r)) with (take (blen (be 2 v)) (be 2 v ++ r)). rewrite take_app.
    cbn [bind]. rewrite (of_be_be 2 v) by (cbn; lia). destruct (v <=? 255) eqn:E; [reflexivity|lia].
  - cbn [Z.leb Z.eqb Z.compare Pos.compare Pos.compare_cont Pos.eqb].
    change (take 4 (be 4 v ++ r)) with (take (blen (be 4 v)) (be 4 v ++ r)). rewrite take_app.
    cbn [bind]. rewrite (of_be_be 4 v) by (cbn; lia). destruct (v <=? 65535) eqn:E; [reflexivity|lia].
Qed.

Theorem eight_byte_length_rejected : forall maj v r, 0 <= maj < 8 ->
  raw_u32 maj (head_w maj 4 v ++ r) = Err BadU32.
Proof.
  intros maj v r Hm. unfold raw_u32. cbn [head_w app]. unfold expect_major.
  rewrite head_div, head_mod by lia. rewrite Z.eqb_refl. reflexivity.
Qed.

(* indefinite lengths (additional information 31) and the reserved values 28..30 *)
Theorem indefinite_rejected : forall maj a r, 0 <= maj < 8 -> 28 <= a <= 31 ->
  raw_u32 maj ((maj * 32 + a) :: r) = Err BadU32 /\ raw_u64 maj ((maj * 32 + a) :: r) = Err BadU64 /\
  raw_u8 maj ((maj * 32 + a) :: r) = Err BadU8.
Proof.
  intros maj a r Hm Ha. unfold raw_u32, raw_u64, raw_u8, expect_major.
  rewrite head_div, head_mod by lia. rewrite Z.eqb_refl. cbn [bind].
  destruct (a <=? 23) eqn:E0; [lia|]. destruct (a =? 24) eqn:E1; [lia|]. destruct (a =? 25) eqn:E2; [lia|].
  destruct (a =? 26) eqn:E3; [lia|]. destruct (a =? 27) eqn:E4; [lia|]. repeat split.
Qed.

(* a value of another major type where an integer / length of major [maj] is read *)
Theorem wrong_major_rejected : forall maj b r, b / 32 <> maj ->
  raw_u8 maj (b :: r) = Err BadMajor /\ raw_u32 maj (b :: r) = Err BadMajor /\ raw_u64 maj (b :: r) = Err BadMajor.
Proof.
  intros maj b r H. unfold raw_u8, raw_u32, raw_u64, expect_major.
  destruct (b / 32 =? maj) eqn:E; [lia|]. repeat split.
Qed.
