(* Lemmas for C03 (canonical CBOR), reflexive part: key order of every serialisable declaration. *)
From Ctap Require Import Base Schema Typed Inst Tables Canonical.
Local Open Scope Z_scope.

Lemma spec_decl_order : forallb (fun f => decl_order_canonical (spec_env f)) all_feats = true.
Proof. vm_compute. reflexivity. Qed.

Lemma cose_order : all_pairs key_lt cose_emit_order = true.
Proof. vm_compute. reflexivity. Qed.

(* tie: every serialisable declaration regenerated from /repo is the specification's, member for
   member and in the same (canonical) order, in every feature configuration *)

