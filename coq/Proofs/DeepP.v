(* Faults at ANY depth (C05).  The typed decoder has no error recovery: whatever a nested decoder call
   reports - an error, a panic site, exhausted fuel - is what the enclosing call reports, through options,
   lists, indexed and text-keyed maps, the two filtering lists, after any run of well-formed siblings before
   it.  [step] is the "calls" relation between decoder states, one constructor per call site of Typed.dec;
   [outcome_propagates] lifts it to its reflexive-transitive closure, i.e. to every nesting depth. *)
From Ctap Require Import Base Schema Wire Utf8 Typed WireP.

Lemma decode_dec : forall e t i, decode e t i = dec e type_fuel t i.
Proof. reflexivity. Qed.

From Coq Require Import Relations.
Local Open Scope string_scope.
Local Open Scope Z_scope.

Inductive failure := FErr (ce : cerr) | FPanic (site : string) | FFuel.

Definition fail_of {A} (x : res A) : option failure :=
  match x with Ok _ => None | Err ce => Some (FErr ce) | Panic s => Some (FPanic s) | Fuel => Some FFuel end.

Lemma fail_bind : forall {A B} (x : res A) (g : A -> res B) f,
  fail_of x = Some f -> fail_of (bind x g) = Some f.
Proof. intros A B [a|ce|s|] g f H; cbn in *; try discriminate; exact H. Qed.

Lemma fail_bind_ok : forall {A B} (x : res A) (g : A -> res B) a,
  x = Ok a -> bind x g = g a.
Proof. intros A B x g a ->. reflexivity. Qed.

(* decoder states: a call of the typed decoder, or one of its loops in mid-flight *)
Inductive state :=
| SDec (k : nat) (t : ty) (i : bytes)
| SSeq (k fuel : nat) (u : ty) (n cap : Z) (acc : list val) (i : bytes)
| SIdx (k fuel : nat) (fs : list field) (n : Z) (acc : list (string * val)) (i : bytes)
| STxt (k fuel : nat) (fs : list field) (n : Z) (acc : list (string * val)) (i : bytes)
| SFoldP (k fuel : nat) (cap : Z) (algs : list Z) (n : Z) (acc : list val) (i : bytes)
| SFoldF (k fuel : nat) (tf : list (string * string)) (n : Z) (acc : list val * bool) (i : bytes).

Definition pkcp_step (cap : Z) (algs : list Z) (acc : list val) (v : val) : list val :=
  match known_param algs v with
  | Some kp => if blen acc <? cap then (acc ++ [kp])%list else acc
  | None => acc end.

Definition fmt_step (tf : list (string * string)) (acc : list val * bool) (v : val) : list val * bool :=
  match v with
  | VStr s => match lookup_tryfrom s tf with
              | Some fmt => (if blen (fst acc) <? 2 then (fst acc ++ [VEnum fmt])%list else fst acc, snd acc)
              | None => (fst acc, true)
              end
  | _ => acc
  end.

Section Deep.
  Variable e : env.

  Definition failure_of (s : state) : option failure :=
    match s with
    | SDec k t i => fail_of (dec e k t i)
    | SSeq k fuel u n cap acc i => fail_of (seq_loop (dec e k u) fuel n cap acc i)
    | SIdx k fuel fs n acc i => fail_of (idx_loop (dec e k) fs fuel n acc i)
    | STxt k fuel fs n acc i => fail_of (txt_loop (dec e k) fs fuel n acc i)
    | SFoldP k fuel cap algs n acc i => fail_of (fold_loop (dec e k (TNamed n_PKCP)) (pkcp_step cap algs) fuel n acc i)
    | SFoldF k fuel tf n acc i => fail_of (fold_loop (dec e k TStrRef) (fmt_step tf) fuel n acc i)
    end.

  (* the key of a text-keyed map entry, as txt_loop reads it *)
  Definition txt_key (fs : list field) (i : bytes) : res (option field * bytes) :=
    m <- peek_major i ;;
    (if (m =? 2) || (m =? 3) then
       '(len, r) <- raw_u32 m i ;;
       '(name, r') <- take len r ;;
       if utf8_valid name then Ok (find_txt_field name fs, r') else Err BadUtf8
     else if m =? 0 then
       '(ix, r) <- raw_u64 0 i ;;
       Ok (if ix <? blen fs then nth_error fs (Z.to_nat ix) else None, r)
     else Err BadMajor).

  Inductive step : state -> state -> Prop :=
  (* Option<T>: anything but null is handed to the inner decoder *)
  | St_opt : forall k u b r, b <> 246 -> step (SDec (S k) (TOpt u) (b :: r)) (SDec k u (b :: r))
  (* Vec<T, N> *)
  | St_vec : forall k u cap i n r, raw_u32 4 i = Ok (n, r) ->
      step (SDec (S k) (TVec u cap) i) (SSeq k (S (List.length r)) u n cap [] r)
  | St_seq_elem : forall k fuel u n cap acc i, 0 < n ->
      step (SSeq k (S fuel) u n cap acc i) (SDec k u i)
  | St_seq_next : forall k fuel u n cap acc i v r, 0 < n -> dec e k u i = Ok (v, r) -> blen acc < cap ->
      step (SSeq k (S fuel) u n cap acc i) (SSeq k fuel u (n - 1) cap (v :: acc) r)
  (* indexed map (serde-indexed) *)
  | St_idx : forall k name s d fs i n r, lookup e name = Some (DStruct true s d fs) -> raw_u32 5 i = Ok (n, r) ->
      step (SDec (S k) (TNamed name) i) (SIdx k (S (List.length r)) fs n [] r)
  | St_idx_member : forall k fuel fs n acc i key r fd, 0 < n -> raw_u64 0 i = Ok (key, r) ->
      find_idx_field key fs = Some fd -> rget (f_label fd) acc = None ->
      step (SIdx k (S fuel) fs n acc i) (SDec k (if f_opt fd then inner_ty (f_ty fd) else f_ty fd) r)
  | St_idx_next : forall k fuel fs n acc i key r fd v r', 0 < n -> raw_u64 0 i = Ok (key, r) ->
      find_idx_field key fs = Some fd -> rget (f_label fd) acc = None ->
      dec e k (if f_opt fd then inner_ty (f_ty fd) else f_ty fd) r = Ok (v, r') ->
      step (SIdx k (S fuel) fs n acc i)
           (SIdx k fuel fs (n - 1) ((f_label fd, if f_opt fd then VSome v else v) :: acc) r')
  (* text-keyed map (serde derive) *)
  | St_txt : forall k name s d fs i n r, lookup e name = Some (DStruct false s d fs) -> raw_u32 5 i = Ok (n, r) ->
      step (SDec (S k) (TNamed name) i) (STxt k (S (List.length r)) fs n [] r)
  | St_txt_member : forall k fuel fs n acc i r fd, 0 < n -> txt_key fs i = Ok (Some fd, r) ->
      rget (f_label fd) acc = None -> f_with fd = None ->
      step (STxt k (S fuel) fs n acc i) (SDec k (f_ty fd) r)
  | St_txt_next : forall k fuel fs n acc i r fd v r', 0 < n -> txt_key fs i = Ok (Some fd, r) ->
      rget (f_label fd) acc = None -> dec_with (dec e k) fd r = Ok (v, r') ->
      step (STxt k (S fuel) fs n acc i) (STxt k fuel fs (n - 1) ((f_label fd, v) :: acc) r')
  | St_txt_skip : forall k fuel fs n acc i r r', 0 < n -> txt_key fs i = Ok (None, r) -> skip_item r = Ok r' ->
      step (STxt k (S fuel) fs n acc i) (STxt k fuel fs (n - 1) acc r')
  (* the filtered algorithm list and the attestation-format preference *)
  | St_pkcp : forall k name s d params i n r,
      lookup e name = Some (DCustom "webauthn::FilteredPublicKeyCredentialParameters" s d params) ->
      raw_u32 4 i = Ok (n, r) ->
      step (SDec (S k) (TNamed name) i) (SFoldP k (S (List.length r)) (hd 0 params) (tl params) n [] r)
  | St_pkcp_elem : forall k fuel cap algs n acc i, 0 < n ->
      step (SFoldP k (S fuel) cap algs n acc i) (SDec k (TNamed n_PKCP) i)
  | St_pkcp_next : forall k fuel cap algs n acc i v r, 0 < n -> dec e k (TNamed n_PKCP) i = Ok (v, r) ->
      step (SFoldP k (S fuel) cap algs n acc i) (SFoldP k fuel cap algs (n - 1) (pkcp_step cap algs acc v) r)
  | St_fmt : forall k name s d params i n r,
      lookup e name = Some (DCustom "ctap2::AttestationFormatsPreference" s d params) ->
      raw_u32 4 i = Ok (n, r) ->
      step (SDec (S k) (TNamed name) i)
           (SFoldF k (S (List.length r))
              (match lookup e n_ASF with Some (DStrEnum _ _ _ tf) => tf | _ => [] end) n ([], false) r)
  | St_fmt_elem : forall k fuel tf n acc i, 0 < n ->
      step (SFoldF k (S fuel) tf n acc i) (SDec k TStrRef i)
  | St_fmt_next : forall k fuel tf n acc i v r, 0 < n -> dec e k TStrRef i = Ok (v, r) ->
      step (SFoldF k (S fuel) tf n acc i) (SFoldF k fuel tf (n - 1) (fmt_step tf acc v) r).

  Lemma pos_leb : forall n, 0 < n -> (n <=? 0) = false.
  Proof. intros n H. apply Z.leb_gt. exact H. Qed.

  Theorem step_propagates : forall s s' f, step s s' -> failure_of s' = Some f -> failure_of s = Some f.
  Proof.
    intros s s' f St. destruct St; cbn [failure_of]; intros Hf.
    - (* opt *) cbn [dec].
      assert (G : forall (X Y : res (val * bytes)), match b with 246 => Y | _ => X end = X).
      { intros X Y. destruct b as [|p|p]; try reflexivity.
        do 8 (destruct p as [p|p|]; try reflexivity). exfalso. apply H. reflexivity. }
      rewrite G. apply fail_bind. exact Hf.
    - (* vec *) cbn [dec]. rewrite H. cbn [bind]. apply fail_bind. exact Hf.
    - (* seq elem *) cbn [seq_loop]. rewrite (pos_leb n H). apply fail_bind. exact Hf.
    - (* seq next *) cbn [seq_loop]. rewrite (pos_leb n H). rewrite H0. cbn [bind].
      replace (blen acc <? cap) with true by (symmetry; apply Z.ltb_lt; exact H1). exact Hf.
    - (* idx *) cbn [dec]. rewrite H, H0. cbn [bind]. apply fail_bind. exact Hf.
    - (* idx member *) cbn [idx_loop]. rewrite (pos_leb n H). rewrite H0. cbn [bind]. rewrite H1, H2.
      apply fail_bind. exact Hf.
    - (* idx next *) cbn [idx_loop]. rewrite (pos_leb n H). rewrite H0. cbn [bind]. rewrite H1, H2, H3. cbn [bind]. exact Hf.
    - (* txt *) cbn [dec]. rewrite H, H0. cbn [bind]. apply fail_bind. exact Hf.
    - (* txt member *) cbn [txt_loop]. rewrite (pos_leb n H).
      unfold txt_key in H0.
      destruct (peek_major i) as [m| | |]; cbn [bind] in *; try discriminate.
      rewrite H0. cbn [bind]. rewrite H1. unfold dec_with. rewrite H2. apply fail_bind. exact Hf.
    - (* txt next *) cbn [txt_loop]. rewrite (pos_leb n H).
      unfold txt_key in H0.
      destruct (peek_major i) as [m| | |]; cbn [bind] in *; try discriminate.
      rewrite H0. cbn [bind]. rewrite H1, H2. cbn [bind]. exact Hf.
    - (* txt skip *) cbn [txt_loop]. rewrite (pos_leb n H).
      unfold txt_key in H0.
      destruct (peek_major i) as [m| | |]; cbn [bind] in *; try discriminate.
      rewrite H0. cbn [bind]. rewrite H1. cbn [bind]. exact Hf.
    - (* pkcp *) cbn [dec]. rewrite H. cbn [String.eqb Ascii.eqb Bool.eqb].
      rewrite H0. cbn [bind]. apply fail_bind. exact Hf.
    - cbn [fold_loop]. rewrite (pos_leb n H). apply fail_bind. exact Hf.
    - cbn [fold_loop]. rewrite (pos_leb n H). rewrite H0. cbn [bind]. exact Hf.
    - (* fmt *) cbn [dec]. rewrite H. cbn [String.eqb Ascii.eqb Bool.eqb].
      rewrite H0. cbn [bind]. apply fail_bind. exact Hf.
    - cbn [fold_loop]. rewrite (pos_leb n H). apply fail_bind. exact Hf.
    - cbn [fold_loop]. rewrite (pos_leb n H). rewrite H0. cbn [bind]. exact Hf.
  Qed.

  Definition steps : state -> state -> Prop := clos_refl_trans_1n state step.

  Theorem outcome_propagates : forall s s' f, steps s s' -> failure_of s' = Some f -> failure_of s = Some f.
  Proof.
    intros s s' f H. induction H as [s|s m s' St _ IH]; intros Hf; [exact Hf|].
    eapply step_propagates; [exact St|]. apply IH. exact Hf.
  Qed.

  (* the special case the property talks about: an error raised at any depth is the error of the request decoder *)
  Corollary error_at_depth : forall k t i k' t' i' ce,
    steps (SDec k t i) (SDec k' t' i') -> dec e k' t' i' = Err ce -> dec e k t i = Err ce.
  Proof.
    intros k t i k' t' i' ce H He.
    pose proof (outcome_propagates _ _ (FErr ce) H) as P. cbn [failure_of] in P.
    rewrite He in P. specialize (P eq_refl).
    destruct (dec e k t i) as [a|c|s|]; cbn in P; try discriminate. injection P as ->. reflexivity.
  Qed.
  (* wrong data type at depth, for any fuel: if the outer call is known not to panic or run out of fuel, it is an error
     other than "missing member" *)
  Definition not_missing {A} (x : res A) : Prop :=
    match x with Err ce => ce <> SerdeMissingField | Ok _ => False | _ => True end.

  Corollary wrong_type_at_depth : forall k t i k' t' x r,
    steps (SDec k t i) (SDec k' t' (x :: r)) ->
    not_missing (dec e k' t' (x :: r)) -> clean (dec e k t i) ->
    exists ce, dec e k t i = Err ce /\ ce <> SerdeMissingField.
  Proof.
    intros k t i k' t' x r St W C.
    destruct (dec e k' t' (x :: r)) as [a|ce|site|] eqn:E; try contradiction.
    - exists ce. split; [|exact W]. exact (error_at_depth _ _ _ _ _ _ ce St E).
    - pose proof (outcome_propagates _ _ (FPanic site) St) as P. cbn [failure_of] in P. rewrite E in P. specialize (P eq_refl).
      destruct (dec e k t i); cbn in P; try discriminate; contradiction.
    - pose proof (outcome_propagates _ _ FFuel St) as P. cbn [failure_of] in P. rewrite E in P. specialize (P eq_refl).
      destruct (dec e k t i); cbn in P; try discriminate; contradiction.
  Qed.

  Corollary wrong_type_at_depth_decode : forall t i k' t' x r,
    steps (SDec type_fuel t i) (SDec k' t' (x :: r)) ->
    not_missing (dec e k' t' (x :: r)) -> clean (decode e t i) ->
    exists ce, decode e t i = Err ce /\ ce <> SerdeMissingField.
  Proof.
    intros t i k' t' x r St W C. rewrite decode_dec in C. rewrite decode_dec.
    exact (wrong_type_at_depth _ _ _ _ _ _ _ St W C).
  Qed.
End Deep.
