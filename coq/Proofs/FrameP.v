(* ISO 7816-4 command APDU framing (iso7816 0.1.4 parse_lengths as modelled in Procs.v): for every header,
   every data field and every expected-length field, in each of the seven encodings (case 1, 2S, 3S, 4S,
   2E, 3E, 4E), parsing the frame gives back exactly the header, the data and Le (C08). *)
From Ctap Require Import Base Schema Wire Typed Procs WireP.
From Coq Require Import Lia ZifyBool.
Local Open Scope list_scope.
Local Open Scope Z_scope.

(* Le field: None = absent; Some n = expected length n, 1 <= n <= 256 (short) or 65536 (extended);
   the maximum is encoded as 0 *)
Definition le_short (le : Z) : bytes := [le mod 256].
Definition le_ext (le : Z) : bytes := be 2 (le mod 65536).

Definition apdu_build (cla ins p1 p2 : Z) (data : bytes) (le : option Z) (ext : bool) : bytes :=
  let hdr := [cla; ins; p1; p2] in
  match ext, data, le with
  | false, [], None => hdr
  | false, [], Some n => hdr ++ le_short n
  | false, _, None => hdr ++ [blen data] ++ data
  | false, _, Some n => hdr ++ [blen data] ++ data ++ le_short n
  | true, [], None => hdr
  | true, [], Some n => hdr ++ [0] ++ le_ext n
  | true, _, None => hdr ++ [0] ++ be 2 (blen data) ++ data
  | true, _, Some n => hdr ++ [0] ++ be 2 (blen data) ++ data ++ le_ext n
  end.

Definition le_val (le : option Z) : Z := match le with None => 0 | Some n => n end.

Lemma nth_app_r : forall (a b : bytes) n, nth (List.length a + n) (a ++ b) 0 = nth n b 0.
Proof. intros a b n. rewrite app_nth2 by lia. f_equal. lia. Qed.

Lemma firstn_exact : forall (a b : bytes), firstn (List.length a) (a ++ b) = a.
Proof. intros a b. rewrite firstn_app, Nat.sub_diag, firstn_all. cbn. apply app_nil_r. Qed.

Lemma be2_bytes : forall v, 0 <= v < 65536 -> be 2 v = [v / 256; v mod 256].
Proof.
  intros v Hv. cbn [be app]. f_equal.
  assert (v / 256 / 256 = 0) by (apply Z.div_small; Z.div_mod_to_equations; lia).
  rewrite Z.mod_small by (Z.div_mod_to_equations; lia). reflexivity.
Qed.

Lemma of_be2 : forall a b, of_be [a; b] = a * 256 + b.
Proof. intros a b. reflexivity. Qed.

Lemma of_be_be2 : forall v, 0 <= v < 65536 -> of_be (be 2 v) = v.
Proof. intros v Hv. apply (of_be_be 2 v). cbn. lia. Qed.

Lemma rz_mod : forall n m, 0 < m -> 1 <= n <= m -> rz (n mod m) m = n.
Proof.
  intros n m Hm Hn. unfold rz. destruct (n mod m =? 0) eqn:E.
  - apply Z.eqb_eq in E. destruct (Z.eq_dec n m) as [->|Hne]; [reflexivity|].
    rewrite Z.mod_small in E by lia. lia.
  - apply Z.eqb_neq in E. destruct (Z.eq_dec n m) as [->|Hne]; [rewrite Z.mod_same in E by lia; lia|].
    apply Z.mod_small. lia.
Qed.

Lemma blen_ge4 : forall a b c d (l : bytes), (blen (a :: b :: c :: d :: l) <? 4) = false.
Proof. intros a b c d l. rewrite !blen_cons. pose proof (blen_nonneg l). lia. Qed.

(* short encodings: data of 1..255 bytes, Le 1..256 *)
Theorem apdu_roundtrip_short : forall cla ins p1 p2 data le,
  0 <= cla < 255 ->
  blen data <= 255 -> (match le with Some n => 1 <= n <= 256 | None => True end) ->
  apdu_parse (apdu_build cla ins p1 p2 data le false)
  = inr {| a_cla := cla; a_ins := ins; a_p1 := p1; a_p2 := p2; a_data := data; a_le := le_val le; a_ext := false |}.
Proof.
  intros cla ins p1 p2 data le Hc Hd Hl. unfold apdu_parse, apdu_build.
  assert (Hcla : (cla =? 255) = false) by (apply Z.eqb_neq; lia).
  destruct data as [|d0 data]; destruct le as [n|].
  - (* case 2S *)
    cbn [app blen List.length nth skipn]. rewrite Hcla. unfold le_short, parse_lengths.
    cbn [blen List.length nth le_val]. change (Z.of_nat 1 =? 0) with false. change (Z.of_nat 1 =? 1) with true.
    cbv iota. rewrite rz_mod by lia. reflexivity.
  - (* case 1 *)
    cbn. rewrite Hcla. reflexivity.
  - (* case 4S *)
    pose proof (blen_nonneg data).
    assert (Hdd : 1 <= blen (d0 :: data) <= 255) by (rewrite blen_cons in *; lia).
    set (dd := d0 :: data) in *.
    change ([cla; ins; p1; p2] ++ [blen dd] ++ dd ++ le_short n) with (cla :: ins :: p1 :: p2 :: blen dd :: dd ++ le_short n).
    rewrite blen_ge4.
    cbn [nth skipn]. rewrite Hcla. unfold parse_lengths.
    set (body := blen dd :: dd ++ le_short n).
    assert (Hbl : blen body = 2 + blen dd) by (unfold body, le_short; rewrite blen_cons, blen_app; change (blen [n mod 256]) with 1; lia).
    rewrite Hbl. change (nth 0 body 0) with (blen dd).
    destruct (2 + blen dd =? 0) eqn:E0; [lia|]. destruct (2 + blen dd =? 1) eqn:E1; [lia|].
    destruct ((2 + blen dd =? 1 + blen dd) && negb (blen dd =? 0)) eqn:E2; [lia|].
    destruct ((2 + blen dd =? 2 + blen dd) && negb (blen dd =? 0)) eqn:E3; [|lia].
    f_equal. f_equal.
    + replace (Z.to_nat 1) with 1%nat by reflexivity. unfold body. cbn [skipn].
      unfold blen. rewrite Nat2Z.id. apply firstn_exact.
    + unfold body. replace (Z.to_nat (2 + blen dd - 1)) with (List.length (blen dd :: dd) + 0)%nat
        by (cbn [List.length]; unfold blen; lia).
      change (blen dd :: dd ++ le_short n) with ((blen dd :: dd) ++ le_short n). rewrite nth_app_r.
      unfold le_short. cbn [nth le_val]. apply rz_mod; lia.
  - (* case 3S *)
    pose proof (blen_nonneg data).
    assert (Hdd : 1 <= blen (d0 :: data) <= 255) by (rewrite blen_cons in *; lia).
    set (dd := d0 :: data) in *.
    change ([cla; ins; p1; p2] ++ [blen dd] ++ dd) with (cla :: ins :: p1 :: p2 :: blen dd :: dd).
    rewrite blen_ge4.
    cbn [nth skipn]. rewrite Hcla. unfold parse_lengths.
    set (body := blen dd :: dd).
    assert (Hbl : blen body = 1 + blen dd) by (unfold body; rewrite blen_cons; lia).
    rewrite Hbl. change (nth 0 body 0) with (blen dd).
    destruct (1 + blen dd =? 0) eqn:E0; [lia|]. destruct (1 + blen dd =? 1) eqn:E1; [lia|].
    destruct ((1 + blen dd =? 1 + blen dd) && negb (blen dd =? 0)) eqn:E2; [|lia].
    f_equal. f_equal.
    replace (Z.to_nat 1) with 1%nat by reflexivity. unfold body. cbn [skipn].
    unfold blen. rewrite Nat2Z.id. apply firstn_all.
Qed.

(* extended encodings: data of 1..65535 bytes, Le 1..65536 *)
Theorem apdu_roundtrip_extended : forall cla ins p1 p2 data le,
  0 <= cla < 255 ->
  blen data <= 65535 -> (match le with Some n => 1 <= n <= 65536 | None => True end) ->
  (data <> [] \/ le <> None) ->
  apdu_parse (apdu_build cla ins p1 p2 data le true)
  = inr {| a_cla := cla; a_ins := ins; a_p1 := p1; a_p2 := p2; a_data := data; a_le := le_val le; a_ext := true |}.
Proof.
  intros cla ins p1 p2 data le Hc Hd Hl Hne. unfold apdu_parse, apdu_build.
  assert (Hcla : (cla =? 255) = false) by (apply Z.eqb_neq; lia).
  destruct data as [|d0 data]; destruct le as [n|].
  - (* case 2E *)
    unfold le_ext. rewrite be2_bytes by (Z.div_mod_to_equations; lia).
    cbn [app]. rewrite blen_ge4. cbn [nth skipn]. rewrite Hcla. unfold parse_lengths.
    cbn [blen List.length nth]. change (Z.of_nat 3 =? 0) with false. change (Z.of_nat 3 =? 1) with false.
    change (Z.of_nat 3 =? 1 + 0) with false. change (Z.of_nat 3 =? 2 + 0) with false. cbn [andb negb].
    change (0 =? 0) with true. cbn [negb]. change (Z.of_nat 3 <? 3) with false. change (Z.of_nat 3 =? 3) with true.
    cbv iota. rewrite of_be2. replace (n mod 65536 / 256 * 256 + n mod 65536 mod 256) with (n mod 65536)
      by (Z.div_mod_to_equations; lia).
    rewrite rz_mod by lia. reflexivity.
  - destruct Hne as [Hne|Hne]; contradiction.
  - (* case 4E *)
    pose proof (blen_nonneg data).
    assert (Hdd : 1 <= blen (d0 :: data) <= 65535) by (rewrite blen_cons in *; lia).
    set (dd := d0 :: data) in *.
    unfold le_ext. rewrite (be2_bytes (blen dd)) by lia. rewrite (be2_bytes (n mod 65536)) by (Z.div_mod_to_equations; lia).
    set (lh := blen dd / 256). set (ll := blen dd mod 256). set (eh := n mod 65536 / 256). set (el := n mod 65536 mod 256).
    change ([cla; ins; p1; p2] ++ [0] ++ [lh; ll] ++ dd ++ [eh; el]) with (cla :: ins :: p1 :: p2 :: 0 :: lh :: ll :: dd ++ [eh; el]).
    rewrite blen_ge4. cbn [nth skipn]. rewrite Hcla. unfold parse_lengths.
    set (body := 0 :: lh :: ll :: dd ++ [eh; el]).
    assert (Hbl : blen body = 5 + blen dd) by (unfold body; rewrite !blen_cons, blen_app; change (blen [eh; el]) with 2; lia).
    rewrite Hbl. change (nth 0 body 0) with 0. change (nth 1 body 0) with lh. change (nth 2 body 0) with ll.
    assert (Hw : of_be [lh; ll] = blen dd) by (rewrite of_be2; unfold lh, ll; Z.div_mod_to_equations; lia).
    rewrite Hw.
    destruct (5 + blen dd =? 0) eqn:E0; [lia|]. destruct (5 + blen dd =? 1) eqn:E1; [lia|].
    destruct ((5 + blen dd =? 1 + 0) && negb (0 =? 0)) eqn:E2; [lia|].
    destruct ((5 + blen dd =? 2 + 0) && negb (0 =? 0)) eqn:E3; [lia|].
    change (negb (0 =? 0)) with false. cbv iota.
    destruct (5 + blen dd <? 3) eqn:E4; [lia|]. destruct (5 + blen dd =? 3) eqn:E5; [lia|].
    destruct (5 + blen dd =? 3 + blen dd) eqn:E6; [lia|]. destruct (5 + blen dd =? 5 + blen dd) eqn:E7; [|lia].
    f_equal. f_equal.
    + replace (Z.to_nat 3) with 3%nat by reflexivity. unfold body. cbn [skipn].
      unfold blen. rewrite Nat2Z.id. apply firstn_exact.
    + cbn [le_val].
      assert (N1 : nth (Z.to_nat (5 + blen dd - 2)) body 0 = eh).
      { unfold body. replace (Z.to_nat (5 + blen dd - 2)) with (List.length (0%Z :: lh :: ll :: dd) + 0)%nat
          by (cbn [List.length]; unfold blen; lia).
        change (0 :: lh :: ll :: dd ++ [eh; el]) with ((0 :: lh :: ll :: dd) ++ [eh; el]). rewrite nth_app_r. reflexivity. }
      assert (N2 : nth (Z.to_nat (5 + blen dd - 1)) body 0 = el).
      { unfold body. replace (Z.to_nat (5 + blen dd - 1)) with (List.length (0%Z :: lh :: ll :: dd) + 1)%nat
          by (cbn [List.length]; unfold blen; lia).
        change (0 :: lh :: ll :: dd ++ [eh; el]) with ((0 :: lh :: ll :: dd) ++ [eh; el]). rewrite nth_app_r. reflexivity. }
      rewrite N1, N2. rewrite of_be2. unfold eh, el.
      replace (n mod 65536 / 256 * 256 + n mod 65536 mod 256) with (n mod 65536) by (Z.div_mod_to_equations; lia).
      apply rz_mod; lia.
  - (* case 3E *)
    pose proof (blen_nonneg data).
    assert (Hdd : 1 <= blen (d0 :: data) <= 65535) by (rewrite blen_cons in *; lia).
    set (dd := d0 :: data) in *.
    rewrite (be2_bytes (blen dd)) by lia.
    set (lh := blen dd / 256). set (ll := blen dd mod 256).
    change ([cla; ins; p1; p2] ++ [0] ++ [lh; ll] ++ dd) with (cla :: ins :: p1 :: p2 :: 0 :: lh :: ll :: dd).
    rewrite blen_ge4. cbn [nth skipn]. rewrite Hcla. unfold parse_lengths.
    set (body := 0 :: lh :: ll :: dd).
    assert (Hbl : blen body = 3 + blen dd) by (unfold body; rewrite !blen_cons; lia).
    rewrite Hbl. change (nth 0 body 0) with 0. change (nth 1 body 0) with lh. change (nth 2 body 0) with ll.
    assert (Hw : of_be [lh; ll] = blen dd) by (rewrite of_be2; unfold lh, ll; Z.div_mod_to_equations; lia).
    rewrite Hw.
    destruct (3 + blen dd =? 0) eqn:E0; [lia|]. destruct (3 + blen dd =? 1) eqn:E1; [lia|].
    destruct ((3 + blen dd =? 1 + 0) && negb (0 =? 0)) eqn:E2; [lia|].
    destruct ((3 + blen dd =? 2 + 0) && negb (0 =? 0)) eqn:E3; [lia|].
    change (negb (0 =? 0)) with false. cbv iota.
    destruct (3 + blen dd <? 3) eqn:E4; [lia|]. destruct (3 + blen dd =? 3) eqn:E5; [lia|].
    destruct (3 + blen dd =? 3 + blen dd) eqn:E6; [|lia].
    f_equal. f_equal.
    replace (Z.to_nat 3) with 3%nat by reflexivity. unfold body. cbn [skipn].
    unfold blen. rewrite Nat2Z.id. apply firstn_all.
Qed.
