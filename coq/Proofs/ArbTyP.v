(* C19 for EVERY generated type: whatever the type-directed generator (Model/ArbTy.v: the model of all hand-written and
   derived Arbitrary impls) produces from ANY input byte string is a valid value of its type - within every declared
   capacity, exact length, integer range and element count, text valid UTF-8, enumerations a declared variant ([within],
   the predicate C12 proves of everything the decoder accepts) - and no unwrap / slice / index panic site is reachable. *)
From Ctap Require Import Base Schema Wire Utf8 Typed Within Arb ArbTy ArbP.
From Coq Require Import Lia ZifyBool.
Local Open Scope string_scope.
Local Open Scope list_scope.
Local Open Scope Z_scope.

(* ---------------------------------------------------------------- the rest of the input is made of input bytes *)
Definition sub (a b : bytes) : Prop := forall x, In x a -> In x b.
Lemma sub_refl : forall a, sub a a. Proof. intros a x H; exact H. Qed.
Lemma sub_trans : forall a b c, sub a b -> sub b c -> sub a c. Proof. intros a b c H1 H2 x H; auto. Qed.
Lemma sub_skipn : forall n (l : bytes), sub (skipn n l) l. Proof. intros n l x H. eapply in_skipn'; exact H. Qed.
Lemma sub_firstn : forall n (l : bytes), sub (firstn n l) l. Proof. intros n l x H. eapply in_firstn'; exact H. Qed.
Lemma sub_nil : forall l, sub [] l. Proof. intros l x []. Qed.
Lemma sub_tl : forall b (r : bytes), sub r (b :: r). Proof. intros b r x H; right; exact H. Qed.

Lemma bytes_ok_sub : forall a b, sub a b -> bytes_ok b = true -> bytes_ok a = true.
Proof.
  intros a b S H. unfold bytes_ok in *. apply forallb_forall. intros x Hx.
  rewrite forallb_forall in H. apply H. apply S. exact Hx.
Qed.

Lemma of_le_bound : forall l, bytes_ok l = true -> 0 <= of_le l < 256 ^ Z.of_nat (List.length l).
Proof.
  induction l as [|b l IH]; intros H; [cbn; lia|].
  unfold bytes_ok in H. cbn [forallb] in H. apply andb_prop in H. destruct H as [Hb Hl].
  specialize (IH Hl). unfold byte_ok in Hb. cbn [of_le fold_right List.length].
  change (fold_right (fun b acc => b + 256 * acc) 0 l) with (of_le l).
  rewrite Nat2Z.inj_succ, Z.pow_succ_r by lia. lia.
Qed.

Lemma fill_bound : forall n u v u', bytes_ok u = true -> fill n u = (v, u') ->
  0 <= v < 256 ^ Z.of_nat n /\ sub u' u.
Proof.
  intros n u v u' H E. unfold fill in E. injection E as <- <-. split; [|apply sub_skipn].
  pose proof (of_le_bound (firstn n u) (bytes_ok_sub _ _ (sub_firstn n u) H)) as B.
  assert (L : (List.length (firstn n u) <= n)%nat) by apply firstn_le_length.
  assert (256 ^ Z.of_nat (List.length (firstn n u)) <= 256 ^ Z.of_nat n) by (apply Z.pow_le_mono_r; lia).
  lia.
Qed.

(* ---------------------------------------------------------------- outcomes *)
Definition fine {A} (P : A -> Prop) (u : U) (r : ares A) : Prop :=
  match r with AOk a u' => P a /\ sub u' u | ANotEnough => True | APanic _ => False end.

Lemma fine_bind {A B} (P : A -> Prop) (Q : B -> Prop) u (r : ares A) (k : A -> U -> ares B) :
  fine P u r -> (forall a u', P a -> sub u' u -> fine Q u' (k a u')) -> fine Q u (abind r k).
Proof.
  destruct r as [a u'| |s]; cbn [fine abind]; intros H K; [|exact I|destruct H].
  destruct H as [Pa S]. specialize (K a u' Pa S).
  destruct (k a u') as [b u''| |s]; cbn [fine] in *; try exact K. destruct K as [Qb S']. split; [exact Qb|eapply sub_trans; eassumption].
Qed.

Lemma fine_weaken {A} (P Q : A -> Prop) u (r : ares A) : (forall a, P a -> Q a) -> fine P u r -> fine Q u r.
Proof. intros W. destruct r as [a u'| |s]; cbn [fine]; intros H; try exact H. destruct H; split; auto. Qed.

Lemma fine_of_good {A} (P : A -> Prop) u (r : ares A) :
  good P r -> (forall a u', r = AOk a u' -> sub u' u) -> fine P u r.
Proof. destruct r as [a u'| |s]; cbn [good fine]; intros G S; try exact G. split; [exact G|apply (S a u' eq_refl)]. Qed.

Lemma amap_fine {A B} (f : A -> B) (P : A -> Prop) (Q : B -> Prop) u (r : ares A) :
  (forall a, P a -> Q (f a)) -> fine P u r -> fine Q u (amap f r).
Proof.
  intros W H. unfold amap. eapply fine_bind; [exact H|]. intros a u' Pa S. cbn [fine]. split; [apply W; exact Pa|apply sub_refl].
Qed.

(* ---------------------------------------------------------------- where the helpers leave the input *)
Lemma u_bytes_sub : forall n u b u', u_bytes n u = AOk b u' -> sub u' u /\ sub b u.
Proof.
  intros n u b u' H. unfold u_bytes in H. destruct (blen u <? n); [discriminate|]. injection H as <- <-.
  split; [apply sub_skipn|apply sub_firstn].
Qed.

Lemma fill_sub : forall n u v u', fill n u = (v, u') -> sub u' u.
Proof. intros n u v u' H. unfold fill in H. inversion H. apply sub_skipn. Qed.

Lemma arb_usize_sub : forall u v u', arb_usize u = (v, u') -> sub u' u.
Proof. intros u v u' H. exact (fill_sub 8 u v u' H). Qed.

Lemma arb_bool_sub : forall u b u', arb_bool u = (b, u') -> sub u' u.
Proof.
  intros u b u' H. unfold arb_bool in H. destruct (arb_u8 u) as [x u1] eqn:E. injection H as _ <-.
  exact (fill_sub 1 u x u1 E).
Qed.

Lemma arbitrary_bytes_sub : forall N u b u', arbitrary_bytes N u = AOk b u' -> sub u' u.
Proof.
  intros N u b u' H. unfold arbitrary_bytes in H. destruct (arb_usize u) as [n0 u1] eqn:E.
  destruct (u_bytes (Z.min n0 N) u1) as [x u2| |] eqn:E2; cbn [abind] in H; try discriminate.
  destruct (blen x <=? N); [|discriminate]. injection H as _ <-.
  eapply sub_trans; [apply (u_bytes_sub _ _ _ _ E2)|apply (arb_usize_sub _ _ _ E)].
Qed.

Lemma arbitrary_byte_array_sub : forall N u b u', arbitrary_byte_array N u = AOk b u' -> sub u' u.
Proof.
  intros N u b u' H. unfold arbitrary_byte_array in H.
  destruct (u_bytes N u) as [x u2| |] eqn:E2; cbn [abind] in H; try discriminate.
  destruct (blen x =? N); [|discriminate]. injection H as _ <-. apply (u_bytes_sub _ _ _ _ E2).
Qed.

Lemma arbitrary_str_sub : forall N u s u', arbitrary_str N u = AOk s u' -> sub u' u.
Proof.
  intros N u s u' H. unfold arbitrary_str in H. destruct (arb_usize u) as [n0 u1] eqn:E.
  pose proof (arb_usize_sub _ _ _ E) as S1.
  destruct (u_peek (Z.min n0 N) u1) as [p|]; [|discriminate].
  destruct (utf8_valid p).
  - destruct (u_bytes (Z.min n0 N) u1) as [x u2| |] eqn:E2; cbn [abind] in H; try discriminate.
    destruct (blen x <=? N); [|discriminate]. injection H as _ <-.
    eapply sub_trans; [apply (u_bytes_sub _ _ _ _ E2)|exact S1].
  - destruct (u_bytes (Z.of_nat (valid_prefix_len p)) u1) as [x u2| |] eqn:E2; cbn [abind] in H; try discriminate.
    destruct (negb (utf8_valid x)); [discriminate|]. destruct (blen x <=? N); [|discriminate]. injection H as _ <-.
    eapply sub_trans; [apply (u_bytes_sub _ _ _ _ E2)|exact S1].
Qed.

Lemma arbitrary_key_sub : forall u k u', arbitrary_key u = AOk k u' -> sub u' u.
Proof.
  intros u k u' H. unfold arbitrary_key in H.
  destruct (arbitrary_bytes 32 u) as [x u1| |] eqn:E1; cbn [abind] in H; try discriminate.
  destruct (arbitrary_bytes 32 u1) as [y u2| |] eqn:E2; cbn [abind] in H; try discriminate.
  injection H as _ <-. eapply sub_trans; [apply (arbitrary_bytes_sub _ _ _ _ E2)|apply (arbitrary_bytes_sub _ _ _ _ E1)].
Qed.

Lemma arb_byte_size_sub : forall u len u1, arb_byte_size u = (len, u1) -> sub u1 u.
Proof.
  intros u len u1 H. unfold arb_byte_size in H.
  destruct (blen u =? 0); [injection H as _ <-; apply sub_refl|].
  destruct (blen u =? 1); [injection H as _ <-; apply sub_nil|].
  destruct (blen u <=? 256); injection H as _ <-; apply sub_firstn.
Qed.

Lemma arb_slice_sub : forall u b u', arb_slice u = AOk b u' -> sub u' u.
Proof.
  intros u b u' H. unfold arb_slice in H. destruct (arb_byte_size u) as [len u1] eqn:E.
  eapply sub_trans; [apply (u_bytes_sub _ _ _ _ H)|apply (arb_byte_size_sub _ _ _ E)].
Qed.

Lemma arb_strref_sub : forall u s u', arb_strref u = AOk s u' -> sub u' u.
Proof.
  intros u s u' H. unfold arb_strref in H. destruct (arb_byte_size u) as [size u1] eqn:E.
  pose proof (arb_byte_size_sub _ _ _ E) as S1.
  destruct (u_peek size u1) as [p|]; [|discriminate].
  destruct (utf8_valid p).
  - eapply sub_trans; [apply (u_bytes_sub _ _ _ _ H)|exact S1].
  - destruct (u_bytes (Z.of_nat (valid_prefix_len p)) u1) as [x u2| |] eqn:E2; cbn [abind] in H; try discriminate.
    destruct (negb (utf8_valid x)); [discriminate|]. injection H as _ <-.
    eapply sub_trans; [apply (u_bytes_sub _ _ _ _ E2)|exact S1].
Qed.

Lemma int_small_bound : forall N u c u1, 0 <= N -> bytes_ok u = true -> int_small N u = (c, u1) -> 0 <= c <= N /\ sub u1 u.
Proof.
  intros N u c u1 HN Hb H. unfold int_small in H. destruct u as [|b r].
  - injection H as <- <-. split; [lia|apply sub_refl].
  - injection H as <- <-. split; [|apply sub_tl].
    pose proof (Z.mod_pos_bound b (N + 1) ltac:(lia)). lia.
Qed.

Lemma arb_variant_bound : forall count u ix u1, 0 < count -> bytes_ok u = true -> arb_variant count u = (ix, u1) ->
  0 <= ix < count /\ sub u1 u.
Proof.
  intros count u ix u1 Hc Hb H. unfold arb_variant in H. destruct (arb_u32 u) as [x u'] eqn:E.
  injection H as <- <-. unfold arb_u32 in E. destruct (fill_bound 4 u x u' Hb E) as [Bx S].
  split; [|exact S]. change (256 ^ Z.of_nat 4) with 4294967296 in Bx.
  split; [apply Z.div_pos; nia|]. apply Z.div_lt_upper_bound; nia.
Qed.

(* ---------------------------------------------------------------- the validity predicate does not depend on spare fuel *)
Lemma member_within_mono : forall (wf wf' : ty -> val -> bool) ix fd v,
  (forall t w, wf t w = true -> wf' t w = true) ->
  member_within wf ix fd v = true -> member_within wf' ix fd v = true.
Proof.
  intros wf wf' ix fd v W H. unfold member_within in *.
  destruct v; try exact H;
    (destruct ix; [destruct (f_opt fd); try discriminate; try (apply W; exact H)
                  |destruct (f_with fd); try exact H; try (apply W; exact H)]).
Qed.

Lemma members_within_mono : forall (ok ok' : field -> val -> bool) fs vs,
  (forall fd v, ok fd v = true -> ok' fd v = true) ->
  members_within ok fs vs = true -> members_within ok' fs vs = true.
Proof.
  intros ok ok' fs. induction fs as [|fd fs IH]; intros [|[l v] vs] W H; cbn [members_within] in *; try discriminate; try reflexivity.
  apply andb_prop in H. destruct H as [H1 H3]. apply andb_prop in H1. destruct H1 as [H1 H2].
  rewrite H1, (W _ _ H2), (IH vs W H3). reflexivity.
Qed.

Lemma forallb_mono {A} (p q : A -> bool) l : (forall x, p x = true -> q x = true) -> forallb p l = true -> forallb q l = true.
Proof. intros W H. apply forallb_forall. intros x Hx. apply W. rewrite forallb_forall in H. apply H. exact Hx. Qed.

Lemma within_S : forall e k t v, within e k t v = true -> within e (S k) t v = true.
Proof.
  intros e. induction k as [|k IH]; intros t v H; [discriminate|].
  destruct t; cbn [within] in H |- *; try exact H.
  - (* Vec *) destruct v; try discriminate. apply andb_prop in H. destruct H as [H1 H2].
    rewrite H1. cbn [andb]. eapply forallb_mono; [|exact H2]. intros x Hx. apply IH. exact Hx.
  - (* Opt *) destruct v; try exact H. apply IH. exact H.
  - (* Named *)
    destruct (lookup e s) as [[ix sr de fs|sr de into tf|repr sr de vs|sr vs|kind sr de params| ]|]; try exact H.
    destruct v; try discriminate.
    eapply members_within_mono; [|exact H]. intros fd w. apply member_within_mono. exact IH.
Qed.

(* ---------------------------------------------------------------- the types the generators cover *)
Definition field_genable (gen : ty -> bool) (ix : bool) (fd : field) : bool :=
  gen (f_ty fd)
  && (negb (ix && f_opt fd) || is_opt_ty (f_ty fd))
  && match f_with fd with
     | None => true
     | Some _ => negb ix && match f_ty fd with TOpt (TStrCap _) => true | _ => false end
     end.

Fixpoint genable (e : env) (fuel : nat) (t : ty) : bool :=
  match fuel with
  | O => false
  | S k =>
      match t with
      | TU8 | TU16 | TU32 | TU64 | TUsize | TI32 | TBool | TUnit | TBytesRef | TStrRef => true
      | TBytesCap n | TStrCap n | TByteArrRef n => 0 <=? n
      | TOpt t' => genable e k t'
      | TVec t' n => (0 <? n) && (n <? 256) && genable e k t'
      | TNamed name =>
          match lookup e name with
          | Some (DStruct ix _ _ fs) => forallb (field_genable (genable e k) ix) fs
          | Some (DStrEnum _ _ into tf) =>
              negb (match into with [] => true | _ => false end) && forallb (fun p => smem (fst p) (map snd tf)) into
          | Some (DRepr _ _ _ vs) => negb (match vs with [] => true | _ => false end)
          | Some (DCustom kind _ _ params) =>
              if String.eqb kind "webauthn::Icon" then true
              else if String.eqb kind "webauthn::FilteredPublicKeyCredentialParameters" then
                (0 <? hd 0 params) && (hd 0 params <? 256) && (0 <? blen (tl params)) && (blen (tl params) <=? 256)
              else if String.eqb kind "ctap2::AttestationFormatsPreference" then
                (0 <? hd 0 params) && (hd 0 params <=? 2) && genable e k (TNamed n_ASF)
                && match lookup e n_ASF with Some (DStrEnum _ _ _ _) => true | _ => false end
              else if String.eqb kind "ext::EcdhEsHkdf256PublicKey" then true
              else false
          | _ => false
          end
      | _ => false
      end
  end.

(* ---------------------------------------------------------------- loops *)
Lemma rep_loop_fine {A} (P : A -> Prop) (f : U -> ares A) u0 :
  (forall u', sub u' u0 -> fine P u' (f u')) ->
  forall count acc u, sub u u0 -> Forall P acc ->
  fine (fun l => Forall P l /\ List.length l = (List.length acc + count)%nat) u (rep_loop f count acc u).
Proof.
  intros F. induction count as [|c IH]; intros acc u S HA; cbn [rep_loop].
  - cbn [fine]. split; [|apply sub_refl]. split; [apply Forall_rev; exact HA|rewrite rev_length; lia].
  - eapply fine_bind; [apply F; exact S|]. intros a u' Pa S'.
    eapply fine_weaken; [|apply IH; [eapply sub_trans; eassumption|constructor; assumption]].
    intros l [H1 H2]. split; [exact H1|]. cbn [List.length] in H2. lia.
Qed.

Lemma arbitrary_vec_fine {A} (P : A -> Prop) (f : U -> ares A) N u :
  0 < N < 256 -> bytes_ok u = true ->
  (forall u', sub u' u -> fine P u' (f u')) ->
  fine (fun l => Forall P l /\ blen l <= N) u (arbitrary_vec N f u).
Proof.
  intros HN Hb F. unfold arbitrary_vec. destruct (int_small N u) as [c u1] eqn:E.
  destruct (int_small_bound N u c u1 ltac:(lia) Hb E) as [Hc S1].
  pose proof (rep_loop_fine P f u F (Z.to_nat c) [] u1 S1 (Forall_nil _)) as R.
  destruct (rep_loop f (Z.to_nat c) [] u1) as [l u2| |s]; cbn [abind fine] in *; try exact R.
  destruct R as [[HP HL] S2]. cbn [List.length] in HL.
  assert (blen l <= N) by (unfold blen; lia).
  replace (blen l <=? N) with true by (symmetry; apply Z.leb_le; assumption).
  cbn [fine]. split; [split; assumption|eapply sub_trans; eassumption].
Qed.

Lemma arbitrary_option_fine {A} (P : A -> Prop) (f : U -> ares A) u :
  (forall u', sub u' u -> fine P u' (f u')) ->
  fine (fun o => match o with Some a => P a | None => True end) u (arbitrary_option f u).
Proof.
  intros F. unfold arbitrary_option. destruct (arb_bool u) as [b u1] eqn:E. pose proof (arb_bool_sub _ _ _ E) as S1.
  destruct b.
  - specialize (F u1 S1). destruct (f u1) as [a u2| |s]; cbn [abind fine] in *; try exact F.
    destruct F as [Pa S2]. split; [exact Pa|eapply sub_trans; eassumption].
  - cbn [fine]. split; [exact I|exact S1].
Qed.

Lemma arb_fields_fine (gen : ty -> U -> ares val) (ok : field -> val -> bool) u0 :
  forall fs, (forall fd, In fd fs -> forall u', sub u' u0 -> fine (fun v => ok fd v = true) u' (gen (f_ty fd) u')) ->
  forall u, sub u u0 -> fine (fun vs => members_within ok fs vs = true) u (arb_fields gen fs u).
Proof.
  induction fs as [|fd fs IH]; intros F u S; cbn [arb_fields].
  - cbn [fine members_within]. split; [reflexivity|apply sub_refl].
  - eapply fine_bind; [apply (F fd (or_introl eq_refl) u S)|]. intros v u1 Hv S1.
    eapply fine_bind; [apply IH; [intros fd' Hin; apply F; right; exact Hin|eapply sub_trans; eassumption]|].
    intros l u2 Hl S2. cbn [fine members_within]. split; [|apply sub_refl].
    rewrite String.eqb_refl, Hv, Hl. reflexivity.
Qed.

(* ---------------------------------------------------------------- members and enumerations *)
Lemma within_opt_some : forall e k t' w, within e k (TOpt t') (VSome w) = true -> within e k t' w = true.
Proof.
  intros e k t' w W. destruct k as [|k']; [discriminate|]. cbn [within] in W. apply within_S. exact W.
Qed.

Lemma within_opt_shape : forall e k t' v, within e k (TOpt t') v = true -> v = VNone \/ exists w, v = VSome w.
Proof.
  intros e k t' v W. destruct k as [|k']; [discriminate|]. cbn [within] in W.
  destruct v; try discriminate; [left; reflexivity|right; eexists; reflexivity].
Qed.

Lemma within_strcap : forall e k n w, within e k (TStrCap n) w = true -> str_within n w = true.
Proof.
  intros e k n w W. destruct k as [|k']; [discriminate|]. cbn [within] in W. unfold str_within.
  destruct w; try discriminate. exact W.
Qed.

Lemma member_ok : forall e k ix fd v,
  field_genable (genable e k) ix fd = true -> within e k (f_ty fd) v = true ->
  member_within (within e k) ix fd v = true.
Proof.
  intros e k ix fd v G W. unfold field_genable in G.
  apply andb_prop in G. destruct G as [G G3]. apply andb_prop in G. destruct G as [_ G2].
  destruct ix; cbn [andb negb orb] in G2, G3.
  - (* indexed *)
    destruct (f_opt fd) eqn:O; cbn [negb orb] in G2.
    + destruct (f_ty fd) as [ | | | | | | | | | |n|n|n|n|n| | |n|u n|u|u|name|name|name] eqn:T; try discriminate.
      destruct (within_opt_shape _ _ _ _ W) as [->|[w ->]]; unfold member_within; [reflexivity|].
      rewrite O, T. cbn [inner_ty]. apply within_opt_some. exact W.
    + unfold member_within. rewrite O. destruct v; try reflexivity; exact W.
  - (* text-keyed *)
    destruct (f_with fd) as [wname|] eqn:Wf.
    + destruct (f_ty fd) as [ | | | | | | | | | |n|n|n|n|n| | |n|u n|u|u|name|name|name] eqn:T; try discriminate.
      destruct u as [ | | | | | | | | | |n|n|n|n|n| | |n|u' n|u'|u'|name|name|name]; try discriminate.
      destruct (within_opt_shape _ _ _ _ W) as [->|[w ->]]; unfold member_within; [reflexivity|].
      rewrite Wf, T. cbn [str_cap]. apply (within_strcap e k). apply within_opt_some. exact W.
    + unfold member_within. rewrite Wf. destruct v; try reflexivity; exact W.
Qed.

Lemma nth_error_in_fst {A B} : forall (l : list (A * B)) n a b, nth_error l n = Some (a, b) -> In a (map fst l).
Proof. intros l n a b H. apply nth_error_In in H. apply (in_map fst) in H. exact H. Qed.

Lemma smem_in : forall s l, In s l -> smem s l = true.
Proof.
  intros s l H. unfold smem. apply existsb_exists. exists s. split; [exact H|apply String.eqb_refl].
Qed.

Lemma zmem_in : forall z l, In z l -> zmem z l = true.
Proof. intros z l H. unfold zmem. apply existsb_exists. exists z. split; [exact H|apply Z.eqb_refl]. Qed.

Lemma nth_error_some_lt {A} : forall (l : list A) ix, 0 <= ix < blen l -> exists a, nth_error l (Z.to_nat ix) = Some a.
Proof.
  intros l ix H. destruct (nth_error l (Z.to_nat ix)) eqn:E; [eexists; reflexivity|].
  apply nth_error_None in E. unfold blen in H. lia.
Qed.

Lemma arb_known_param_fine : forall algs u, 0 < blen algs <= 256 -> bytes_ok u = true ->
  fine (fun kp => exists a, kp = VRec [("alg", VZ a)] /\ zmem a algs = true) u (arb_known_param algs u).
Proof.
  intros algs u HA Hb. unfold arb_known_param. destruct (int_small (blen algs - 1) u) as [ix u1] eqn:E.
  destruct (int_small_bound (blen algs - 1) u ix u1 ltac:(lia) Hb E) as [Hix S]. cbn [fine]. split; [|exact S].
  eexists. split; [reflexivity|]. apply zmem_in. apply nth_In. unfold blen in *. lia.
Qed.

Lemma within_enum_shape : forall e k n x sr de into tf, lookup e n = Some (DStrEnum sr de into tf) ->
  within e k (TNamed n) x = true -> exists vn, x = VEnum vn.
Proof.
  intros e k n x sr de into tf L W. destruct k as [|k]; [discriminate|]. cbn [within] in W. rewrite L in W.
  destruct x; try discriminate. eexists; reflexivity.
Qed.

(* ---------------------------------------------------------------- THE THEOREM *)
Theorem arb_ty_valid : forall e k t u, bytes_ok u = true -> genable e k t = true ->
  fine (fun v => within e k t v = true) u (arb_ty e k t u).
Proof.
  intros e. induction k as [|k IH]; intros t u Hb G; [discriminate|].
  assert (IH' : forall t' u', sub u' u -> genable e k t' = true -> fine (fun v => within e k t' v = true) u' (arb_ty e k t' u')).
  { intros t' u' S G'. apply IH; [eapply bytes_ok_sub; eassumption|exact G']. }
  destruct t as [ | | | | | | | | | |n|n|n|n|n| | |n|t' n|t'|t'|name|name|name]; cbn [genable] in G; try discriminate; cbn [arb_ty].
  - (* u8 *) destruct (arb_u8 u) as [v u1] eqn:E. destruct (fill_bound 1 u v u1 Hb E) as [B S].
    change (256 ^ Z.of_nat 1) with 256 in B. cbn [fine within]. split; [lia|exact S].
  - (* u16 *) destruct (fill 2 u) as [v u1] eqn:E. destruct (fill_bound 2 u v u1 Hb E) as [B S].
    change (256 ^ Z.of_nat 2) with 65536 in B. cbn [fine within]. split; [lia|exact S].
  - (* u32 *) destruct (arb_u32 u) as [v u1] eqn:E. destruct (fill_bound 4 u v u1 Hb E) as [B S].
    change (256 ^ Z.of_nat 4) with 4294967296 in B. cbn [fine within]. split; [lia|exact S].
  - (* u64 *) destruct (arb_usize u) as [v u1] eqn:E. destruct (fill_bound 8 u v u1 Hb E) as [B S].
    change (256 ^ Z.of_nat 8) with 18446744073709551616 in B. cbn [fine within]. split; [lia|exact S].
  - (* usize *) destruct (arb_usize u) as [v u1] eqn:E. destruct (fill_bound 8 u v u1 Hb E) as [B S].
    change (256 ^ Z.of_nat 8) with 18446744073709551616 in B. cbn [fine within]. split; [lia|exact S].
  - (* i32 *) unfold arb_i32. destruct (arb_u32 u) as [x u1] eqn:E. destruct (fill_bound 4 u x u1 Hb E) as [B S].
    change (256 ^ Z.of_nat 4) with 4294967296 in B. cbn [fine within]. split; [|exact S].
    destruct (x <? 2147483648) eqn:C; lia.
  - (* bool *) destruct (arb_bool u) as [b u1] eqn:E. cbn [fine within]. split; [reflexivity|exact (arb_bool_sub _ _ _ E)].
  - (* unit *) cbn [fine within]. split; [reflexivity|apply sub_refl].
  - (* &[u8] *) eapply amap_fine; [|apply (fine_of_good (fun _ => True)); [apply arb_slice_ok; exact Hb|intros a u' H; exact (arb_slice_sub _ _ _ H)]].
    intros a _. reflexivity.
  - (* Bytes<N> *) eapply amap_fine; [|apply (fine_of_good (fun b => blen b <= n)); [apply arbitrary_bytes_ok; lia|intros a u' H; exact (arbitrary_bytes_sub _ _ _ _ H)]].
    intros a Ha. cbv beta in Ha. cbn [within]. lia.
  - (* &ByteArray<N> *) eapply amap_fine; [|apply (fine_of_good (fun b => blen b = n)); [apply arbitrary_byte_array_ok; lia|intros a u' H; exact (arbitrary_byte_array_sub _ _ _ _ H)]].
    intros a Ha. cbv beta in Ha. cbn [within]. lia.
  - (* &str *) eapply amap_fine; [|apply (fine_of_good (fun s => utf8_valid s = true)); [apply arb_strref_ok; exact Hb|intros a u' H; exact (arb_strref_sub _ _ _ H)]].
    intros a Ha. cbv beta in Ha. cbn [within]. exact Ha.
  - (* String<N> *) eapply amap_fine; [|apply (fine_of_good (fun s => blen s <= n /\ utf8_valid s = true)); [apply arbitrary_str_ok; lia|intros a u' H; exact (arbitrary_str_sub _ _ _ _ H)]].
    intros a [Ha1 Ha2]. cbn [within]. rewrite Ha2. cbn [andb]. lia.
  - (* Vec<T, N> *)
    apply andb_prop in G. destruct G as [G G3]. apply andb_prop in G. destruct G as [G1 G2].
    eapply amap_fine; [|apply (arbitrary_vec_fine (fun v => within e k t' v = true)); [lia|exact Hb|intros u' S; apply IH'; assumption]].
    intros l [HF HL]. cbn [within]. apply andb_true_intro. split; [lia|].
    apply forallb_forall. intros x Hx. rewrite Forall_forall in HF. apply HF. exact Hx.
  - (* Option<T> *)
    eapply amap_fine; [|apply (arbitrary_option_fine (fun v => within e k t' v = true)); intros u' S; apply IH'; assumption].
    intros [a|] Ha; cbn [vopt within]; [exact Ha|reflexivity].
  - (* named *)
    destruct (lookup e name) as [[ix sr de fs|sr de into tf|repr sr de vs|sr vs|kind sr de params| ]|] eqn:L; try discriminate.
    + (* struct *)
      eapply amap_fine; [|apply (arb_fields_fine (arb_ty e k) (member_within (within e k) ix) u fs); [|apply sub_refl]].
      * intros vs Hvs. cbn [within]. rewrite L. exact Hvs.
      * intros fd Hin u' S. rewrite forallb_forall in G. specialize (G fd Hin).
        assert (Gf : genable e k (f_ty fd) = true).
        { unfold field_genable in G. apply andb_prop in G. destruct G as [G _]. apply andb_prop in G. destruct G as [G _]. exact G. }
        eapply fine_weaken; [|apply IH'; [exact S|exact Gf]].
        intros v Hv. apply member_ok; assumption.
    + (* string enumeration *)
      apply andb_prop in G. destruct G as [Gn Gs].
      assert (Hlen : 0 < blen into) by (destruct into; [discriminate|unfold blen; cbn [List.length]; lia]).
      destruct (arb_variant (blen into) u) as [ix u1] eqn:E.
      destruct (arb_variant_bound _ u ix u1 Hlen Hb E) as [Hix S].
      destruct (nth_error_some_lt into ix Hix) as [[vn sp] Hn]. rewrite Hn. cbn [fine within]. rewrite L.
      split; [|exact S]. rewrite forallb_forall in Gs. apply (Gs (vn, sp)). eapply nth_error_In; exact Hn.
    + (* repr enumeration *)
      assert (Hlen : 0 < blen vs) by (destruct vs; [discriminate|unfold blen; cbn [List.length]; lia]).
      destruct (arb_variant (blen vs) u) as [ix u1] eqn:E.
      destruct (arb_variant_bound _ u ix u1 Hlen Hb E) as [Hix S].
      destruct (nth_error_some_lt vs ix Hix) as [[vn z] Hn]. rewrite Hn. cbn [fine within]. rewrite L.
      split; [|exact S]. apply smem_in. eapply nth_error_in_fst; exact Hn.
    + (* hand-written *)
      cbn [within]. 
      destruct (String.eqb kind "webauthn::Icon") eqn:K1.
      { cbn [fine]. rewrite L, K1. split; [reflexivity|apply sub_refl]. }
      destruct (String.eqb kind "webauthn::FilteredPublicKeyCredentialParameters") eqn:K2.
      { apply andb_prop in G. destruct G as [G G4]. apply andb_prop in G. destruct G as [G G3]. apply andb_prop in G. destruct G as [G1 G2].
        eapply amap_fine; [|apply (arbitrary_vec_fine (fun kp => exists a, kp = VRec [("alg", VZ a)] /\ zmem a (tl params) = true));
                            [lia|exact Hb|intros u' S; apply arb_known_param_fine; [lia|eapply bytes_ok_sub; eassumption]]].
        intros l [HF HL]. rewrite L, K1, K2. apply andb_true_intro. split; [lia|].
        apply forallb_forall. intros x Hx. rewrite Forall_forall in HF. destruct (HF x Hx) as [a [-> Ha]]. exact Ha. }
      destruct (String.eqb kind "ctap2::AttestationFormatsPreference") eqn:K3.
      { apply andb_prop in G. destruct G as [G G4]. apply andb_prop in G. destruct G as [G G3]. apply andb_prop in G. destruct G as [G1 G2].
        destruct (lookup e n_ASF) as [[ | sr' de' into' tf' | | | | ]|] eqn:LA; try discriminate.
        eapply fine_bind; [apply (arbitrary_vec_fine (fun v => within e k (TNamed n_ASF) v = true)); [lia|exact Hb|intros u' S; apply IH'; assumption]|].
        intros l u1 [HF HL] S1. destruct (arb_bool u1) as [b u2] eqn:E. cbn [fine]. rewrite L, K1, K2, K3.
        split; [|exact (arb_bool_sub _ _ _ E)]. apply andb_true_intro. split; [lia|].
        apply forallb_forall. intros x Hx. rewrite Forall_forall in HF.
        destruct (within_enum_shape e k n_ASF x sr' de' into' tf' LA (HF x Hx)) as [vn ->]. reflexivity. }
      destruct (String.eqb kind "ext::EcdhEsHkdf256PublicKey") eqn:K4; [|discriminate].
      eapply amap_fine; [|apply (fine_of_good (fun xy => blen (fst xy) <= 32 /\ blen (snd xy) <= 32)); [apply arbitrary_key_ok|intros a u' H; exact (arbitrary_key_sub _ _ _ H)]].
      intros [x y] [Hx Hy]. cbn [fst snd] in *. rewrite L, K1, K2, K3, K4. apply andb_true_intro. split; lia.
Qed.

(* every generator-covered named type, as a statement about a whole declaration environment *)
Definition arb_types : list string :=
  ["ctap2::make_credential::Request"; "ctap2::get_assertion::Request"; "ctap2::client_pin::Request";
   "ctap2::credential_management::Request"; "ctap2::large_blobs::Request";
   "ctap2::make_credential::Extensions"; "ctap2::get_assertion::ExtensionsInput"; "ctap2::get_assertion::HmacSecretInput";
   "ctap2::AuthenticatorOptions"; "ctap2::AttestationFormatsPreference"; "ctap2::AttestationStatementFormat";
   "ctap2::client_pin::PinV1Subcommand"; "ctap2::credential_management::Subcommand";
   "ctap2::credential_management::SubcommandParameters"; "webauthn::PublicKeyCredentialRpEntity";
   "webauthn::PublicKeyCredentialUserEntity"; "webauthn::PublicKeyCredentialDescriptorRef";
   "webauthn::FilteredPublicKeyCredentialParameters"].

Definition all_genable_k (e : env) (k : nat) : bool := forallb (fun n => genable e k (TNamed n)) arb_types.

Lemma all_genable_k_in : forall e k name, all_genable_k e k = true -> In name arb_types -> genable e k (TNamed name) = true.
Proof. intros e k name H Hin. unfold all_genable_k in H. exact (proj1 (forallb_forall _ _) H name Hin). Qed.

(* stated for any fuel first: nothing here may unfold [type_fuel] *)
Lemma arb_valid_k : forall e k t u, genable e k t = true -> bytes_ok u = true ->
  match arb_ty e k t u with
  | AOk v u' => within e k t v = true /\ bytes_ok u' = true
  | ANotEnough => True
  | APanic _ => False
  end.
Proof.
  intros e k t u HG Hb. pose proof (arb_ty_valid e k t u Hb HG) as F.
  destruct (arb_ty e k t u) as [v u'| |s]; cbn [fine] in F; try exact F.
  destruct F as [W S]. split; [exact W|eapply bytes_ok_sub; eassumption].
Qed.

(* [arb_named e name u] (Model/ArbTy.v, what the driver runs) is by definition [arb_ty e type_fuel (TNamed name) u] *)
Corollary arb_named_valid : forall e name u, all_genable_k e type_fuel = true -> In name arb_types -> bytes_ok u = true ->
  match arb_ty e type_fuel (TNamed name) u with
  | AOk v u' => within e type_fuel (TNamed name) v = true /\ bytes_ok u' = true
  | ANotEnough => True
  | APanic _ => False
  end.
Proof.
  intros e name u HG Hin Hb.
  exact (arb_valid_k e type_fuel (TNamed name) u (all_genable_k_in e type_fuel name HG Hin) Hb).
Qed.

(* the two CTAP1 requests: 32-byte challenge and application id, a declared control byte, any key handle *)
Theorem arb_ctap1_register_valid : forall u,
  match arb_ctap1_register u with
  | AOk v _ => exists c a, v = VRec [("challenge", VBytes c); ("app_id", VBytes a)] /\ blen c = 32 /\ blen a = 32
  | ANotEnough => True
  | APanic _ => False
  end.
Proof.
  intros u. unfold arb_ctap1_register.
  pose proof (arbitrary_byte_array_ok 32 u ltac:(lia)) as H1.
  destruct (arbitrary_byte_array 32 u) as [c u1| |s]; cbn [abind good] in *; try exact H1.
  pose proof (arbitrary_byte_array_ok 32 u1 ltac:(lia)) as H2.
  destruct (arbitrary_byte_array 32 u1) as [a u2| |s]; cbn [abind good] in *; try exact H2.
  exists c, a. repeat split; assumption.
Qed.

Theorem arb_ctap1_authenticate_valid : forall cbs u, cbs <> [] -> bytes_ok u = true ->
  match arb_ctap1_authenticate cbs u with
  | AOk v _ => exists cb c a kh, v = VRec [("control_byte", VEnum cb); ("challenge", VBytes c); ("app_id", VBytes a); ("key_handle", VBytes kh)]
                                 /\ In cb cbs /\ blen c = 32 /\ blen a = 32
  | ANotEnough => True
  | APanic _ => False
  end.
Proof.
  intros cbs u Hne Hb. unfold arb_ctap1_authenticate.
  assert (Hlen : 0 < blen cbs) by (destruct cbs; [contradiction|unfold blen; cbn [List.length]; lia]).
  destruct (arb_variant (blen cbs) u) as [ix u0] eqn:E.
  destruct (arb_variant_bound _ u ix u0 Hlen Hb E) as [Hix S0].
  pose proof (arbitrary_byte_array_ok 32 u0 ltac:(lia)) as H1.
  destruct (arbitrary_byte_array 32 u0) as [c u1| |s] eqn:E1; cbn [abind good] in *; try exact H1.
  pose proof (arbitrary_byte_array_ok 32 u1 ltac:(lia)) as H2.
  destruct (arbitrary_byte_array 32 u1) as [a u2| |s] eqn:E2; cbn [abind good] in *; try exact H2.
  assert (Hb2 : bytes_ok u2 = true).
  { eapply bytes_ok_sub; [|exact Hb]. eapply sub_trans; [apply (arbitrary_byte_array_sub _ _ _ _ E2)|].
    eapply sub_trans; [apply (arbitrary_byte_array_sub _ _ _ _ E1)|exact S0]. }
  pose proof (arb_slice_ok u2 Hb2) as H3.
  destruct (arb_slice u2) as [kh u3| |s]; cbn [abind good] in *; try exact H3.
  exists (nth (Z.to_nat ix) cbs ""), c, a, kh. repeat split; try assumption.
  apply nth_In. unfold blen in Hix. lia.
Qed.

(* for a family of environments indexed by feature sets (the specification's, the regenerated ones) *)
Lemma arb_family_valid : forall (envs : feats -> env) (fsets : list feats),
  forallb (fun f => all_genable_k (envs f) type_fuel) fsets = true ->
  forall f name u, In f fsets -> In name arb_types -> bytes_ok u = true ->
  match arb_ty (envs f) type_fuel (TNamed name) u with
  | AOk v u' => within (envs f) type_fuel (TNamed name) v = true /\ bytes_ok u' = true
  | ANotEnough => True
  | APanic _ => False
  end.
Proof.
  intros envs fsets H f name u Hf. apply arb_named_valid.
  exact (proj1 (forallb_forall _ _) H f Hf).
Qed.

(* ---------------------------------------------------------------- the request enumerations *)
Definition variant_ok (v : string * list ty) : bool :=
  match snd v with
  | [] => true
  | [TNamed n] => String.eqb n "operation::VendorOperation" || smem n arb_types
  | _ => false
  end.

Lemma pick_variant_fine {A} : forall (variants : list (string * A)) u, variants <> [] -> bytes_ok u = true ->
  fine (fun va => In va variants) u (pick_variant variants u).
Proof.
  intros variants u Hne Hb. unfold pick_variant.
  assert (Hlen : 0 < blen variants) by (destruct variants; [contradiction|unfold blen; cbn [List.length]; lia]).
  destruct (arb_variant (blen variants) u) as [ix u1] eqn:E.
  destruct (arb_variant_bound _ u ix u1 Hlen Hb E) as [Hix S].
  destruct (nth_error_some_lt variants ix Hix) as [va Hn]. rewrite Hn. cbn [fine]. split; [|exact S].
  eapply nth_error_In; exact Hn.
Qed.

Lemma smem_true_in : forall s l, smem s l = true -> In s l.
Proof.
  intros s l H. unfold smem in H. apply existsb_exists in H. destruct H as [x [Hx E]]. apply String.eqb_eq in E. subst. exact Hx.
Qed.

(* CTAP2: a declared variant; its payload is absent, a byte (vendor code), or a valid value of the variant's request type *)
Theorem arb_ctap2_request_valid : forall e variants u, all_genable_k e type_fuel = true ->
  variants <> [] -> forallb variant_ok variants = true -> bytes_ok u = true ->
  match arb_ctap2_request e variants u with
  | AOk (name, v) u' =>
      (exists ts, In (name, ts) variants /\
        (ts = [] /\ v = VUnit \/
         (exists c, v = VZ c /\ 0 <= c < 256) \/
         (exists n, ts = [TNamed n] /\ within e type_fuel (TNamed n) v = true))) /\ bytes_ok u' = true
  | ANotEnough => True
  | APanic _ => False
  end.
Proof.
  intros e variants u HG Hne Hok Hb. unfold arb_ctap2_request.
  pose proof (pick_variant_fine variants u Hne Hb) as P.
  destruct (pick_variant variants u) as [[name ts] u1| |s]; cbn [abind fine] in *; try exact P.
  destruct P as [Hin S1]. assert (Hb1 : bytes_ok u1 = true) by (eapply bytes_ok_sub; eassumption).
  pose proof (proj1 (forallb_forall _ _) Hok _ Hin) as V. unfold variant_ok in V. cbn [fst snd] in *.
  destruct ts as [|t [|t2 ts]]; [|destruct t; try discriminate|destruct t; discriminate].
  - split; [exists []; split; [exact Hin|left; split; reflexivity]|exact Hb1].
  - match goal with |- context [String.eqb ?nm "operation::VendorOperation"] => rename nm into n end.
    destruct (String.eqb n "operation::VendorOperation") eqn:EV.
    + destruct (arb_u8 u1) as [c u2] eqn:E8. destruct (fill_bound 1 u1 c u2 Hb1 E8) as [B S2].
      change (256 ^ Z.of_nat 1) with 256 in B.
      split; [exists [TNamed n]; split; [exact Hin|right; left; exists c; split; [reflexivity|lia]]|eapply bytes_ok_sub; eassumption].
    + cbn [orb] in V. apply smem_true_in in V.
      pose proof (arb_named_valid e n u1 HG V Hb1) as W.
      destruct (arb_ty e type_fuel (TNamed n) u1) as [v u2| |s]; cbn [abind] in *; try exact W.
      destruct W as [Wv Wb]. split; [exists [TNamed n]; split; [exact Hin|right; right; exists n; split; [reflexivity|exact Wv]]|exact Wb].
Qed.

Lemma arb_ctap2_family_valid : forall (envs : feats -> env) (fsets : list feats) variants,
  forallb (fun f => all_genable_k (envs f) type_fuel) fsets = true ->
  variants <> [] -> forallb variant_ok variants = true ->
  forall f u, In f fsets -> bytes_ok u = true ->
  match arb_ctap2_request (envs f) variants u with
  | AOk (name, v) u' =>
      (exists ts, In (name, ts) variants /\
        (ts = [] /\ v = VUnit \/
         (exists c, v = VZ c /\ 0 <= c < 256) \/
         (exists n, ts = [TNamed n] /\ within (envs f) type_fuel (TNamed n) v = true))) /\ bytes_ok u' = true
  | ANotEnough => True
  | APanic _ => False
  end.
Proof.
  intros envs fsets variants H Hne Hok f u Hf Hb.
  apply arb_ctap2_request_valid; try assumption. exact (proj1 (forallb_forall _ _) H f Hf).
Qed.

(* CTAP1: Register / Authenticate with 32-byte challenge and application id and a declared control byte, or Version *)
Definition ctap1_payload_ok (name : string) (v : val) : Prop :=
  v = VUnit \/
  (exists c a, v = VRec [("challenge", VBytes c); ("app_id", VBytes a)] /\ blen c = 32 /\ blen a = 32) \/
  (exists cb c a kh, v = VRec [("control_byte", VEnum cb); ("challenge", VBytes c); ("app_id", VBytes a); ("key_handle", VBytes kh)]
                     /\ In cb control_bytes /\ blen c = 32 /\ blen a = 32).

Lemma arb_ctap1_register_sub : forall u v u', arb_ctap1_register u = AOk v u' -> sub u' u.
Proof.
  intros u v u' H. unfold arb_ctap1_register in H.
  destruct (arbitrary_byte_array 32 u) as [c u1| |s] eqn:E1; cbn [abind] in H; try discriminate.
  destruct (arbitrary_byte_array 32 u1) as [a u2| |s] eqn:E2; cbn [abind] in H; try discriminate.
  injection H as _ <-. eapply sub_trans; [apply (arbitrary_byte_array_sub _ _ _ _ E2)|apply (arbitrary_byte_array_sub _ _ _ _ E1)].
Qed.

Lemma arb_ctap1_authenticate_sub : forall cbs u v u', arb_ctap1_authenticate cbs u = AOk v u' -> sub u' u.
Proof.
  intros cbs u v u' H. unfold arb_ctap1_authenticate in H.
  destruct (arb_variant (blen cbs) u) as [ix u0] eqn:E0.
  assert (S0 : sub u0 u).
  { unfold arb_variant in E0. destruct (arb_u32 u) as [x ux] eqn:Ex. injection E0 as _ <-. exact (fill_sub 4 u x ux Ex). }
  destruct (arbitrary_byte_array 32 u0) as [c u1| |s] eqn:E1; cbn [abind] in H; try discriminate.
  destruct (arbitrary_byte_array 32 u1) as [a u2| |s] eqn:E2; cbn [abind] in H; try discriminate.
  destruct (arb_slice u2) as [kh u3| |s] eqn:E3; cbn [abind] in H; try discriminate.
  injection H as _ <-.
  eapply sub_trans; [apply (arb_slice_sub _ _ _ E3)|].
  eapply sub_trans; [apply (arbitrary_byte_array_sub _ _ _ _ E2)|].
  eapply sub_trans; [apply (arbitrary_byte_array_sub _ _ _ _ E1)|exact S0].
Qed.

Definition ctap1_variant_ok (v : string * list ty) : bool :=
  match snd v with
  | [] => true
  | [TNamed n] => String.eqb n "ctap1::register::Request" || String.eqb n "ctap1::authenticate::Request"
  | _ => false
  end.

Theorem arb_ctap1_request_valid : forall variants u, variants <> [] -> forallb ctap1_variant_ok variants = true -> bytes_ok u = true ->
  match arb_ctap1_request variants u with
  | AOk (name, v) u' => (exists ts, In (name, ts) variants) /\ ctap1_payload_ok name v /\ bytes_ok u' = true
  | ANotEnough => True
  | APanic _ => False
  end.
Proof.
  intros variants u Hne Hok Hb. unfold arb_ctap1_request.
  pose proof (pick_variant_fine variants u Hne Hb) as P.
  destruct (pick_variant variants u) as [[name ts] u1| |s]; cbn [abind fine] in *; try exact P.
  destruct P as [Hin S1]. assert (Hb1 : bytes_ok u1 = true) by (eapply bytes_ok_sub; eassumption). cbn [fst snd].
  pose proof (proj1 (forallb_forall _ _) Hok _ Hin) as V. unfold ctap1_variant_ok in V. cbn [snd] in V.
  destruct ts as [|t [|t2 ts]]; [|destruct t; try discriminate|destruct t; discriminate].
  - split; [exists []; exact Hin|]. split; [left; reflexivity|exact Hb1].
  - match goal with |- context [String.eqb ?nm "ctap1::register::Request"] => rename nm into n end.
    destruct (String.eqb n "ctap1::register::Request").
    + pose proof (arb_ctap1_register_valid u1) as R.
      destruct (arb_ctap1_register u1) as [v u2| |s] eqn:E; cbn [abind] in *; try exact R.
      split; [exists [TNamed n]; exact Hin|]. split; [right; left; exact R|].
      eapply bytes_ok_sub; [apply (arb_ctap1_register_sub _ _ _ E)|exact Hb1].
    + cbn [orb] in V. rewrite V.
      pose proof (arb_ctap1_authenticate_valid control_bytes u1 ltac:(discriminate) Hb1) as R.
      destruct (arb_ctap1_authenticate control_bytes u1) as [v u2| |s] eqn:E; cbn [abind] in *; try exact R.
      split; [exists [TNamed n]; exact Hin|]. split; [right; right; exact R|].
      eapply bytes_ok_sub; [apply (arb_ctap1_authenticate_sub _ _ _ _ E)|exact Hb1].
Qed.
