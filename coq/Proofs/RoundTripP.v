(* Round trip of the typed codec (C15): for every well-formed declaration environment, every type and
   every well-typed value, decoding the encoding of the value - followed by ANY further bytes - returns
   exactly that value and exactly those further bytes.  No bound on sizes, nesting or member subsets. *)
From Ctap Require Import Base Schema Wire Utf8 Typed WellTyped CborItem WireP SkipP TypedP EntriesP SerP Utf8P StrsP.
From Coq Require Import Lia ZifyBool.
Local Open Scope string_scope.
Local Open Scope list_scope.
Local Open Scope Z_scope.

Lemma smem_in : forall x l, smem x l = true <-> In x l.
Proof.
  intros x l. unfold smem. rewrite existsb_exists. split.
  - intros [y [H1 H2]]. apply String.eqb_eq in H2. subst. exact H1.
  - intros H. exists x. split; [exact H|apply String.eqb_refl].
Qed.
Lemma zmem_in : forall x l, zmem x l = true <-> In x l.
Proof.
  intros x l. unfold zmem. rewrite existsb_exists. split.
  - intros [y [H1 H2]]. apply Z.eqb_eq in H2. subst. exact H1.
  - intros H. exists x. split; [exact H|apply Z.eqb_refl].
Qed.
Lemma nodup_s_ok : forall l, nodup_s l = true -> NoDup l.
Proof.
  induction l as [|x l IH]; intros H; [constructor|]. cbn [nodup_s] in H.
  apply andb_prop in H. destruct H as [H1 H2]. constructor; [|apply IH; exact H2].
  intros Hin. apply smem_in in Hin. rewrite Hin in H1. discriminate.
Qed.
Lemma nodup_z_ok : forall l, nodup_z l = true -> NoDup l.
Proof.
  induction l as [|x l IH]; intros H; [constructor|]. cbn [nodup_z] in H.
  apply andb_prop in H. destruct H as [H1 H2]. constructor; [|apply IH; exact H2].
  intros Hin. apply zmem_in in Hin. rewrite Hin in H1. discriminate.
Qed.

Lemma assoc_in {A} : forall k (l : list (string * A)) v, assoc k l = Some v -> In (k, v) l.
Proof.
  intros k l. induction l as [|[k' v'] l IH]; intros v H; [discriminate|]. cbn [assoc] in H.
  destruct (String.eqb k k') eqn:E.
  - apply String.eqb_eq in E. subst. injection H as <-. left. reflexivity.
  - right. apply IH. exact H.
Qed.

Lemma env_rt_lookup : forall e name d, env_rt e = true -> lookup e name = Some d -> decl_rt d = true.
Proof.
  intros e name d H L. unfold env_rt in H. rewrite forallb_forall in H.
  apply assoc_in in L. exact (H _ L).
Qed.

(* ---------------------------------------------------------------- scalars *)
Lemma dec_u16_exact : forall e k v r, 0 <= v < 65536 -> dec e (S k) TU16 (put_head 0 v ++ r) = Ok (VZ v, r).
Proof.
  intros e k v r Hv. cbn [dec]. unfold raw_u16. rewrite raw_u32_put_head by lia. cbn [bind].
  destruct (v <=? 65535) eqn:E; [reflexivity|lia].
Qed.

Lemma dec_i8_exact : forall e k z r, -128 <= z <= 127 -> dec e (S k) TI8 (ser_int z ++ r) = Ok (VZ z, r).
Proof.
  intros e k z r Hz. cbn [dec]. unfold dec_i8, ser_int.
  destruct (0 <=? z) eqn:E.
  - rewrite peek_major_put_head by lia. cbn [bind]. cbn [Z.eqb].
    rewrite raw_u8_put_head by lia. cbn [bind]. destruct (z <=? 127) eqn:E1; [reflexivity|lia].
  - rewrite peek_major_put_head by lia. cbn [bind]. cbn [Z.eqb Pos.eqb].
    rewrite raw_u8_put_head by lia. cbn [bind]. destruct (-1 - z <=? 128) eqn:E1; [|lia].
    destruct (-1 - z =? 128) eqn:E2; [lia|]. do 2 f_equal. f_equal. lia.
Qed.

Lemma put_head_len1 : forall maj v, (1 <= List.length (put_head maj v))%nat.
Proof. exact put_head_nonempty. Qed.

(* ---------------------------------------------------------------- sequences *)
Lemma seq_loop_roundtrip : forall (decf : bytes -> res (val * bytes)) (serf : val -> option bytes) cap l fuel acc body rest,
  (forall v b, In v l -> serf v = Some b -> forall r, decf (b ++ r) = Ok (v, r)) ->
  concat_opt (map serf l) = Some body ->
  blen acc + blen l <= cap ->
  (List.length l <= fuel)%nat ->
  seq_loop decf fuel (blen l) cap acc (body ++ rest) = Ok (rev acc ++ l, rest).
Proof.
  intros decf serf cap l. induction l as [|v l IH]; intros fuel acc body rest Hrt Hc Hcap Hf.
  - cbn in Hc. injection Hc as <-. destruct fuel; cbn; rewrite app_nil_r; reflexivity.
  - cbn [map concat_opt] in Hc. destruct (serf v) as [b|] eqn:Es; [|discriminate].
    destruct (concat_opt (map serf l)) as [body'|] eqn:Ec; [|discriminate]. injection Hc as <-.
    cbn [List.length] in Hf. destruct fuel as [|fuel]; [lia|].
    cbn [seq_loop]. rewrite blen_cons in *. pose proof (blen_nonneg l). pose proof (blen_nonneg acc).
    destruct (1 + blen l <=? 0) eqn:E; [lia|].
    rewrite <- app_assoc. rewrite (Hrt v b (or_introl eq_refl) Es). cbn [bind].
    destruct (blen acc <? cap) eqn:E2; [|lia].
    replace (1 + blen l - 1) with (blen l) by lia.
    rewrite (IH fuel (v :: acc) body' rest); try lia.
    + cbn [rev]. rewrite <- app_assoc. reflexivity.
    + intros v' b' Hin. apply Hrt. right. exact Hin.
    + reflexivity.
    + rewrite blen_cons. lia.
Qed.

Lemma concat_opt_length : forall (l : list (option bytes)) body,
  concat_opt l = Some body -> (forall o, In o l -> forall b, o = Some b -> (1 <= List.length b)%nat) ->
  (List.length l <= List.length body)%nat.
Proof.
  induction l as [|o l IH]; intros body H Hne.
  - cbn in H. injection H as <-. cbn. lia.
  - cbn [concat_opt] in H. destruct o as [b|]; [|discriminate].
    destruct (concat_opt l) as [t|] eqn:E; [|discriminate]. injection H as <-.
    rewrite app_length. cbn [List.length].
    pose proof (Hne (Some b) (or_introl eq_refl) b eq_refl).
    specialize (IH t eq_refl (fun o Ho => Hne o (or_intror Ho))). lia.
Qed.

Lemma app_len_ge : forall (a b : bytes), (1 <= List.length a)%nat -> (1 <= List.length (a ++ b))%nat.
Proof. intros a b H. rewrite app_length. lia. Qed.

(* every encoding is at least one byte long *)
Lemma ser_cose_nonempty : forall kind v b, ser_cose kind v = Some b -> (1 <= List.length b)%nat.
Proof.
  intros kind v b H. unfold ser_cose in H. cbv zeta in H. destruct v; try discriminate.
  repeat match type of H with
         | (if ?c then _ else _) = _ => destruct c
         | match ?o with Some _ => _ | None => _ end = _ => destruct o
         | match ?o with VBytes _ => _ | _ => _ end = _ => destruct o
         end; try discriminate; injection H as H; subst b;
    first [apply app_len_ge; apply put_head_nonempty | cbn [List.length]; lia].
Qed.

Lemma ser_nonempty : forall e k t v b, ser e k t v = Some b -> (1 <= List.length b)%nat.
Proof.
  intros e. induction k as [|k IH]; intros t v b H; [discriminate|].
  cbn [ser] in H.
  assert (Hint : forall z, (1 <= List.length (ser_int z))%nat).
  { intros z. unfold ser_int. destruct (0 <=? z); apply put_head_nonempty. }
  assert (Hph : forall m z (x : bytes), (1 <= List.length (put_head m z ++ x))%nat).
  { intros m z x. rewrite app_length. pose proof (put_head_nonempty m z). lia. }
  repeat match type of H with
         | match ?x with _ => _ end = Some _ => destruct x eqn:?; try discriminate
         | (if ?c then _ else _) = Some _ => destruct c eqn:?; try discriminate
         end;
    try (injection H as <-);
    first [ apply put_head_nonempty | apply Hint | apply Hph | (cbn [List.length]; lia)
          | exact (IH _ _ _ H) | exact (ser_cose_nonempty _ _ _ H)
          | (unfold ser_bytes, ser_text; apply Hph) ].
Qed.

(* ---------------------------------------------------------------- records: lockstep views *)
Section Records.
  Variable serf : ty -> val -> option bytes.
  Variable ok : field -> val -> bool.

  (* the (label, value) pairs a record value puts on the wire, in declaration order *)
  Fixpoint items_of (fs : list field) (vs : list (string * val)) : list (string * val) :=
    match fs, vs with
    | fd :: fs', (_, v) :: vs' =>
        (if emitted fd v then match serf (f_ty fd) v with Some _ => [(f_label fd, v)] | None => [] end else [])
        ++ items_of fs' vs'
    | _, _ => []
    end.

  Fixpoint entries_of (valf : field -> val -> val) (fs : list field) (vs : list (string * val)) : list entry :=
    match fs, vs with
    | fd :: fs', (_, v) :: vs' =>
        (if emitted fd v then match serf (f_ty fd) v with
                              | Some b => [{| en_fd := fd; en_enc := b; en_val := valf fd v |}]
                              | None => [] end else [])
        ++ entries_of valf fs' vs'
    | _, _ => []
    end.

  (* member lookup in lockstep *)
  Fixpoint look (fs : list field) (vs : list (string * val)) (lbl : string) : option val :=
    match fs, vs with
    | fd :: fs', (_, v) :: vs' =>
        if String.eqb lbl (f_label fd)
        then (if emitted fd v then match serf (f_ty fd) v with Some _ => Some v | None => None end else None)
        else look fs' vs' lbl
    | _, _ => None
    end.

  Lemma wt_fields_cons : forall fd fs l v vs,
    wt_fields ok (fd :: fs) ((l, v) :: vs) = true -> l = f_label fd /\ ok fd v = true /\ wt_fields ok fs vs = true.
  Proof.
    intros fd fs l v vs H. cbn [wt_fields] in H.
    apply andb_prop in H. destruct H as [H H3]. apply andb_prop in H. destruct H as [H1 H2].
    apply String.eqb_eq in H1. auto.
  Qed.

  Lemma items_labels_in : forall fs vs k, In k (map fst (items_of fs vs)) -> In k (map f_label fs).
  Proof.
    induction fs as [|fd fs IH]; intros vs k H; [destruct vs; destruct H|].
    destruct vs as [|[l v] vs]; [destruct H|]. cbn [items_of] in H. rewrite map_app in H.
    apply in_app_or in H. destruct H as [H|H].
    - left. destruct (emitted fd v); [|destruct H]. destruct (serf (f_ty fd) v); [|destruct H].
      destruct H as [H|[]]. exact H.
    - right. apply (IH vs). exact H.
  Qed.

  Lemma items_nodup : forall fs vs, NoDup (map f_label fs) -> NoDup (map fst (items_of fs vs)).
  Proof.
    induction fs as [|fd fs IH]; intros vs H; [destruct vs; constructor|].
    destruct vs as [|[l v] vs]; [constructor|]. cbn [items_of]. rewrite map_app.
    inversion H as [|? ? Hn Hd]; subst.
    destruct (emitted fd v); [|apply IH; exact Hd].
    destruct (serf (f_ty fd) v); [|apply IH; exact Hd].
    cbn [map app fst]. constructor; [|apply IH; exact Hd].
    intros Hin. apply Hn. apply (items_labels_in fs vs). exact Hin.
  Qed.

  Lemma rget_items : forall fs vs lbl, NoDup (map f_label fs) -> rget lbl (items_of fs vs) = look fs vs lbl.
  Proof.
    induction fs as [|fd fs IH]; intros vs lbl H; [destruct vs; reflexivity|].
    destruct vs as [|[l v] vs]; [reflexivity|]. cbn [items_of look].
    inversion H as [|? ? Hn Hd]; subst.
    destruct (String.eqb lbl (f_label fd)) eqn:E.
    - apply String.eqb_eq in E. subst lbl.
      destruct (emitted fd v).
      + destruct (serf (f_ty fd) v).
        * cbn [app]. apply rget_cons_same.
        * cbn [app]. apply rget_none_notin. intros Hin. apply Hn. apply (items_labels_in fs vs). exact Hin.
      + cbn [app]. apply rget_none_notin. intros Hin. apply Hn. apply (items_labels_in fs vs). exact Hin.
    - apply String.eqb_neq in E.
      destruct (emitted fd v); [destruct (serf (f_ty fd) v)|]; cbn [app];
        try rewrite rget_cons_other by exact E; apply IH; exact Hd.
  Qed.

  Lemma look_other : forall fs vs lbl, ~ In lbl (map f_label fs) -> look fs vs lbl = None.
  Proof.
    induction fs as [|fd fs IH]; intros vs lbl H; [destruct vs; reflexivity|].
    destruct vs as [|[l v] vs]; [reflexivity|]. cbn [look].
    destruct (String.eqb lbl (f_label fd)) eqn:E.
    - apply String.eqb_eq in E. exfalso. apply H. left. symmetry. exact E.
    - apply IH. intros Hin. apply H. right. exact Hin.
  Qed.

  (* the decoded record is the value: every member is either on the wire with its value, or absent and VNone *)
  Hypothesis ok_absent : forall fd v, ok fd v = true -> emitted fd v = false -> v = VNone.

  Lemma record_rebuilt : forall fs vs,
    wt_fields ok fs vs = true -> NoDup (map f_label fs) ->
    (forall fd v, In (fd, v) (combine fs (map snd vs)) -> emitted fd v = true -> serf (f_ty fd) v <> None) ->
    map (fun fd => (f_label fd, match look fs vs (f_label fd) with Some v => v | None => VNone end)) fs = vs.
  Proof.
    induction fs as [|fd fs IH]; intros vs W Hd Hs.
    - destruct vs; [reflexivity|discriminate].
    - destruct vs as [|[l v] vs]; [discriminate|].
      destruct (wt_fields_cons _ _ _ _ _ W) as [-> [Hok W']].
      inversion Hd as [|? ? Hn Hd']; subst.
      cbn [map]. f_equal.
      + cbn [look]. rewrite String.eqb_refl.
        destruct (emitted fd v) eqn:Ee.
        * destruct (serf (f_ty fd) v) eqn:Es; [reflexivity|].
          exfalso. apply (Hs fd v (or_introl eq_refl) Ee Es).
        * rewrite (ok_absent fd v Hok Ee). reflexivity.
      + transitivity (map (fun fd0 => (f_label fd0, match look fs vs (f_label fd0) with Some v0 => v0 | None => VNone end)) fs).
        * apply map_ext_in. intros fd' Hin. cbn [look].
          destruct (String.eqb (f_label fd') (f_label fd)) eqn:E; [|reflexivity].
          apply String.eqb_eq in E. exfalso. apply Hn. rewrite <- E. apply in_map. exact Hin.
        * apply (IH vs W' Hd'). intros fd' v' Hin. apply Hs. right. exact Hin.
  Qed.

  Hypothesis ok_required : forall fd v, ok fd v = true -> emitted fd v = false -> f_opt fd = true.

  Lemma look_required : forall fs vs,
    wt_fields ok fs vs = true -> NoDup (map f_label fs) ->
    (forall fd v, In (fd, v) (combine fs (map snd vs)) -> emitted fd v = true -> serf (f_ty fd) v <> None) ->
    forall fd, In fd fs -> f_opt fd = false -> look fs vs (f_label fd) <> None.
  Proof.
    induction fs as [|fd0 fs IH]; intros vs W Hd Hs fd Hin Ho; [destruct Hin|].
    destruct vs as [|[l v] vs]; [discriminate|].
    destruct (wt_fields_cons _ _ _ _ _ W) as [-> [Hok W']].
    inversion Hd as [|? ? Hn Hd']; subst.
    cbn [look]. destruct Hin as [->|Hin].
    - rewrite String.eqb_refl. destruct (emitted fd v) eqn:Ee.
      + destruct (serf (f_ty fd) v) eqn:Es; [discriminate|].
        exfalso. apply (Hs fd v (or_introl eq_refl) Ee Es).
      + rewrite (ok_required fd v Hok Ee) in Ho. discriminate.
    - destruct (String.eqb (f_label fd) (f_label fd0)) eqn:E.
      + apply String.eqb_eq in E. exfalso. apply Hn. rewrite <- E. apply in_map. exact Hin.
      + apply (IH vs W' Hd'); [|exact Hin|exact Ho]. intros fd' v' Hin'. apply Hs. right. exact Hin'.
  Qed.

  (* what emit_list produces, in terms of the lockstep entries *)
  Lemma rget_app_notin : forall k (pre x : list (string * val)),
    ~ In k (map fst pre) -> rget k (pre ++ x) = rget k x.
  Proof.
    intros k pre x. induction pre as [|[k' v'] pre IH]; intros H; [reflexivity|].
    cbn [app]. rewrite rget_cons_other; [apply IH; intros Hin; apply H; right; exact Hin|].
    intros ->. apply H. left. reflexivity.
  Qed.

  Lemma rget_lockstep : forall fs vs pre,
    wt_fields ok fs vs = true -> NoDup (map f_label fs) ->
    (forall fd, In fd fs -> ~ In (f_label fd) (map fst pre)) ->
    Forall2 (fun fd p => rget (f_label fd) (pre ++ vs) = Some (snd p)) fs vs.
  Proof.
    induction fs as [|fd fs IH]; intros vs pre W Hd Hp.
    - destruct vs; [constructor|discriminate].
    - destruct vs as [|[l v] vs]; [discriminate|].
      destruct (wt_fields_cons _ _ _ _ _ W) as [-> [Hok W']].
      inversion Hd as [|? ? Hn Hd']; subst.
      constructor.
      + cbn [snd]. rewrite rget_app_notin by (apply Hp; left; reflexivity). apply rget_cons_same.
      + replace (pre ++ (f_label fd, v) :: vs) with ((pre ++ [(f_label fd, v)]) ++ vs)
          by (rewrite <- app_assoc; reflexivity).
        apply IH; [exact W'|exact Hd'|].
        intros fd' Hin. rewrite map_app. intros Hin'. apply in_app_or in Hin'. destruct Hin' as [Hin'|Hin'].
        * apply (Hp fd'); [right; exact Hin|exact Hin'].
        * cbn in Hin'. destruct Hin' as [Hin'|[]]. apply Hn. rewrite Hin'. apply in_map. exact Hin.
  Qed.

  Lemma emit_entries : forall valf vs_all fs vs l,
    Forall2 (fun fd p => rget (f_label fd) vs_all = Some (snd p)) fs vs ->
    emit_list serf vs_all fs = Some l ->
    l = map (fun en => (f_key (en_fd en), en_enc en)) (entries_of valf fs vs)
    /\ (forall fd v, In (fd, v) (combine fs (map snd vs)) -> emitted fd v = true -> serf (f_ty fd) v <> None).
  Proof.
    intros valf vs_all fs vs l H. revert l. induction H as [|fd [lb v] fs vs Hr H2 IH]; intros l E.
    - cbn in E. injection E as <-. split; [reflexivity|intros fd v []].
    - cbn [emit_list] in E. cbn [snd] in Hr. rewrite Hr in E. cbn [entries_of].
      destruct (emitted fd v) eqn:Ee.
      + destruct (serf (f_ty fd) v) as [b|] eqn:Es; [|discriminate].
        destruct (emit_list serf vs_all fs) as [l0|]; [|discriminate]. injection E as <-.
        destruct (IH l0 eq_refl) as [-> IH2]. split; [reflexivity|].
        intros fd' v' Hin He. cbn [map combine snd] in Hin. destruct Hin as [Hin|Hin].
        * injection Hin as <- <-. rewrite Es. discriminate.
        * apply IH2; assumption.
      + destruct (IH l E) as [-> IH2]. split; [reflexivity|].
        intros fd' v' Hin He. cbn [map combine snd] in Hin. destruct Hin as [Hin|Hin].
        * injection Hin as <- <-. rewrite Ee in He. discriminate.
        * apply IH2; assumption.
  Qed.

  Lemma entries_facts : forall valf fs vs,
    wt_fields ok fs vs = true ->
    Forall (fun en => In (en_fd en) fs /\
                      exists v, ok (en_fd en) v = true /\ emitted (en_fd en) v = true /\
                                serf (f_ty (en_fd en)) v = Some (en_enc en) /\ en_val en = valf (en_fd en) v)
           (entries_of valf fs vs).
  Proof.
    intros valf. induction fs as [|fd fs IH]; intros vs W; [destruct vs; constructor|].
    destruct vs as [|[l v] vs]; [constructor|].
    destruct (wt_fields_cons _ _ _ _ _ W) as [-> [Hok W']].
    cbn [entries_of]. apply Forall_app. split.
    - destruct (emitted fd v) eqn:Ee; [|constructor].
      destruct (serf (f_ty fd) v) as [b|] eqn:Es; [|constructor].
      constructor; [|constructor]. cbn [en_fd en_enc en_val]. split; [left; reflexivity|].
      exists v. auto.
    - eapply Forall_impl; [|apply IH; exact W'].
      intros en [Hin Hex]. split; [right; exact Hin|exact Hex].
  Qed.

  Lemma combine_in_fields : forall (fs : list field) (vs : list (string * val)) fd v,
    In (fd, v) (combine fs (map snd vs)) -> In fd fs.
  Proof. intros fs vs fd v H. apply in_combine_l in H. exact H. Qed.

  Lemma wt_fields_ok_in : forall fs vs fd v, wt_fields ok fs vs = true ->
    In (fd, v) (combine fs (map snd vs)) -> ok fd v = true.
  Proof.
    induction fs as [|fd0 fs IH]; intros vs fd v W H; [destruct H|].
    destruct vs as [|[l v0] vs]; [destruct H|].
    destruct (wt_fields_cons _ _ _ _ _ W) as [-> [Hok W']].
    cbn [map combine snd] in H. destruct H as [H|H]; [injection H as <- <-; exact Hok|].
    apply (IH vs); assumption.
  Qed.
End Records.

(* ---------------------------------------------------------------- cosey: the ECDH key *)
Lemma dec_bytes_cap_ser : forall n b r, blen b <= n -> blen b < 4294967296 ->
  dec_bytes_cap n (ser_bytes b ++ r) = Ok (b, r).
Proof.
  intros n b r H1 H2. unfold dec_bytes_cap. rewrite dec_bytes_raw_ser by exact H2. cbn [bind].
  destruct (n <? blen b) eqn:E; [lia|reflexivity].
Qed.

Lemma dec_i8_ser : forall z r, -128 <= z <= 127 -> dec_i8 (ser_int z ++ r) = Ok (VZ z, r).
Proof. intros z r H. exact (dec_i8_exact [] O z r H). Qed.

Lemma cose_next_key_ser : forall len z r, 0 < len -> -128 <= z <= 127 ->
  cose_next_key len (ser_int z ++ r) = Ok (if zmem z cose_labels then CK_Label z else CK_Unknown, len - 1, r).
Proof.
  intros len z r Hl Hz. unfold cose_next_key. destruct (len <=? 0) eqn:E; [lia|].
  rewrite dec_i8_ser by exact Hz. reflexivity.
Qed.

Lemma dec_repr_i8_ser : forall allowed z r, -128 <= z <= 127 -> zmem z allowed = true ->
  dec_repr_i8 allowed (ser_int z ++ r) = Ok (z, r).
Proof.
  intros allowed z r Hz Hm. unfold dec_repr_i8. rewrite dec_i8_ser by exact Hz. cbn [bind]. rewrite Hm. reflexivity.
Qed.

Lemma ser_cose_ecdh_shape : forall x y,
  ser_cose "EcdhEsHkdf256Key" (VRec [("x", VBytes x); ("y", VBytes y)]) =
  Some (put_head 5 5 ++ (ser_int 1 ++ ser_int 2) ++ (ser_int 3 ++ ser_int (-25)) ++ (ser_int (-1) ++ ser_int 1)
        ++ (ser_int (-2) ++ ser_bytes x) ++ ser_int (-3) ++ ser_bytes y).
Proof. reflexivity. Qed.

Lemma cose_ecdh_roundtrip : forall x y rest, blen x <= 32 -> blen y <= 32 ->
  forall b, ser_cose "EcdhEsHkdf256Key" (VRec [("x", VBytes x); ("y", VBytes y)]) = Some b ->
  dec_cose_ecdh (b ++ rest) = Ok (VRec [("x", VBytes x); ("y", VBytes y)], rest).
Proof.
  intros x y rest Hx Hy b H. pose proof (ser_cose_ecdh_shape x y) as S. rewrite H in S.
  apply (f_equal (fun o => match o with Some z => z | None => [] end)) in S. cbv beta iota in S. subst b.
  rewrite <- !app_assoc.
  unfold dec_cose_ecdh, dec_rawkey.
  rewrite raw_u32_put_head by lia. cbn [bind].
  rewrite cose_next_key_ser by lia. replace (zmem 1 cose_labels) with true by reflexivity. cbn [bind is_label].
  replace (1 =? 1) with true by reflexivity. cbv iota.
  rewrite dec_repr_i8_ser by (try lia; reflexivity). cbn [bind].
  rewrite cose_next_key_ser by lia. replace (zmem 3 cose_labels) with true by reflexivity. cbn [bind is_label].
  replace (3 =? 3) with true by reflexivity. cbv iota.
  rewrite dec_repr_i8_ser by (try lia; reflexivity). cbn [bind].
  rewrite cose_next_key_ser by lia. replace (zmem (-1) cose_labels) with true by reflexivity. cbn [bind is_label].
  replace (-1 =? -1) with true by reflexivity. cbv iota.
  rewrite dec_repr_i8_ser by (try lia; reflexivity). cbn [bind].
  rewrite cose_next_key_ser by lia. replace (zmem (-2) cose_labels) with true by reflexivity. cbn [bind is_label].
  replace (-2 =? -2) with true by reflexivity. cbv iota.
  rewrite dec_bytes_cap_ser by lia. cbn [bind].
  rewrite cose_next_key_ser by lia. replace (zmem (-3) cose_labels) with true by reflexivity. cbn [bind is_label].
  replace (-3 =? -3) with true by reflexivity. cbv iota.
  rewrite dec_bytes_cap_ser by lia. cbn [bind].
  replace (5 - 1 - 1 - 1 - 1 - 1) with 0 by reflexivity. reflexivity.
Qed.

(* ---------------------------------------------------------------- Option *)
Lemma dec_opt_cases : forall e k u i,
  dec e (S k) (TOpt u) i =
  match i with
  | [] => Err UnexpectedEnd
  | b :: r => if b =? 246 then Ok (VNone, r) else '(v, r') <- dec e k u i ;; Ok (VSome v, r')
  end.
Proof.
  intros e k u i. cbn [dec]. destruct i as [|b r]; [reflexivity|].
  destruct b as [|p|p]; try reflexivity.
  repeat (destruct p as [p|p|]; try reflexivity).
Qed.

Lemma put_head_not_null : forall maj v, 0 <= maj <= 5 -> 0 <= v ->
  exists x r, put_head maj v = x :: r /\ x <> 246.
Proof.
  intros maj v Hm Hv. destruct (put_head_first maj v ltac:(lia) Hv) as [x [r [E Ex]]].
  exists x, r. split; [exact E|]. intros ->. cbn in Ex. lia.
Qed.

Definition not_null_bytes (b : bytes) : Prop := exists x r, b = x :: r /\ x <> 246.

Lemma not_null_app : forall a b, not_null_bytes a -> not_null_bytes (a ++ b).
Proof. intros a b [x [r [-> H]]]. exists x, (r ++ b). split; [reflexivity|exact H]. Qed.

Lemma not_null_put_head : forall maj v, 0 <= maj <= 5 -> 0 <= v -> not_null_bytes (put_head maj v).
Proof. exact put_head_not_null. Qed.

Lemma not_null_ser_int : forall z, not_null_bytes (ser_int z).
Proof.
  intros z. unfold ser_int. destruct (0 <=? z) eqn:E; apply not_null_put_head; lia.
Qed.

(* the first byte of the encoding of a well-typed value of a non-null type is never the null byte *)
Lemma ser_not_null : forall e k t v b, ty_not_null t = true -> wt e k t v = true -> ser e k t v = Some b ->
  not_null_bytes b.
Proof.
  intros e k t v b Hn W H. destruct k as [|k]; [discriminate|].
  cbn [wt] in W. cbn [ser] in H.
  assert (Hu : forall z, (if 0 <=? z then Some (put_head 0 z) else None) = Some b -> not_null_bytes b).
  { intros z Hz. destruct (0 <=? z) eqn:Ez; [|discriminate]. injection Hz as <-. apply not_null_put_head; lia. }
  assert (Hb : forall (x : bytes), not_null_bytes (ser_bytes x)).
  { intros x. unfold ser_bytes. apply not_null_app. apply not_null_put_head; [lia|apply blen_nonneg]. }
  assert (Ht : forall (x : bytes), not_null_bytes (ser_text x)).
  { intros x. unfold ser_text. apply not_null_app. apply not_null_put_head; [lia|apply blen_nonneg]. }
  destruct t as [ | | | | | | | | | |n|n|n|n|n| | |n|u n|u|u|name|name|name]; try discriminate Hn;
    destruct v as [z|bb|ss|bo| | |w|l|fs|vn|vn w]; try discriminate W;
    try (apply (Hu z); exact H);
    try (injection H as <-; first [apply not_null_ser_int | apply Hb | apply Ht
                                  | (destruct bo; (eexists; eexists; split; [reflexivity|discriminate])) ]).
  all: try (destruct (lookup e name) as [d|]; [|discriminate W]).
  all: try (destruct d as [ix sr de fds|sr de into tf|repr sr de vs|sr vs|kind sr de params|]; try discriminate W).
  all: try (destruct ix; discriminate W).
  - (* Vec *)
    destruct (concat_opt (map (ser e k u) l)); [|discriminate]. injection H as <-.
    apply not_null_app. apply not_null_put_head; [lia|apply blen_nonneg].
  - (* filtered parameter list *)
    apply andb_prop in W. destruct W as [W _]. apply andb_prop in W. destruct W as [W _].
    apply andb_prop in W. destruct W as [W _]. apply String.eqb_eq in W. subst kind.
    cbn [String.eqb Ascii.eqb Bool.eqb] in H.
    match type of H with match ?c with Some _ => _ | None => _ end = _ => destruct c; [|discriminate] end.
    injection H as <-. apply not_null_app. apply not_null_put_head; [lia|apply blen_nonneg].
  - (* record, struct *)
    match type of H with match ?c with Some _ => _ | None => _ end = _ => destruct c; [|discriminate] end.
    injection H as <-. apply not_null_app. apply not_null_put_head; [lia|apply blen_nonneg].
  - (* record, ECDH key *)
    repeat match type of W with
           | match ?x with _ => _ end = true => destruct x; try discriminate
           end.
    apply andb_prop in W. destruct W as [W _]. apply andb_prop in W. destruct W as [W _].
    apply String.eqb_eq in W. subst kind. cbn [String.eqb Ascii.eqb Bool.eqb] in H.
    match type of H with ser_cose _ (VRec [(_, VBytes ?x); (_, VBytes ?y)]) = _ =>
      rewrite (ser_cose_ecdh_shape x y) in H end.
    apply (f_equal (fun o => match o with Some z => z | None => [] end)) in H. cbv beta iota in H. subst b.
    apply not_null_app. apply not_null_put_head; lia.
  - (* string enum *)
    destruct (lookup_into vn into); [|discriminate]. injection H as <-. apply Ht.
  - (* numeric enum *)
    destruct (assoc vn vs); [|discriminate]. injection H as <-. apply not_null_ser_int.
Qed.

(* ---------------------------------------------------------------- key lookup in well-formed structs *)
Lemma find_idx_field_nodup : forall fs fd,
  forallb idx_field_wf fs = true -> NoDup (map idx_key fs) -> In fd fs ->
  find_idx_field (idx_key fd) fs = Some fd.
Proof.
  induction fs as [|x fs IH]; intros fd W Hd Hin; [destruct Hin|].
  cbn [forallb] in W. apply andb_prop in W. destruct W as [Wx W].
  cbn [map] in Hd. inversion Hd as [|? ? Hn Hd']; subst.
  cbn [find_idx_field]. unfold idx_field_wf in Wx. destruct (f_key x) as [z|s] eqn:Ek; [|discriminate].
  destruct Hin as [->|Hin].
  - unfold idx_key. rewrite Ek. rewrite Z.eqb_refl. reflexivity.
  - destruct (z =? idx_key fd) eqn:E.
    + exfalso. apply Hn. apply Z.eqb_eq in E. unfold idx_key at 1. rewrite Ek. rewrite E. apply in_map. exact Hin.
    + apply IH; assumption.
Qed.

Lemma label_unique : forall (fs : list field) a b,
  NoDup (map f_label fs) -> In a fs -> In b fs -> f_label a = f_label b -> a = b.
Proof.
  induction fs as [|x fs IH]; intros a b Hd Ha Hb E; [destruct Ha|].
  cbn [map] in Hd. inversion Hd as [|? ? Hn Hd']; subst.
  destruct Ha as [->|Ha]; destruct Hb as [->|Hb]; try reflexivity.
  - exfalso. apply Hn. rewrite E. apply in_map. exact Hb.
  - exfalso. apply Hn. rewrite <- E. apply in_map. exact Ha.
  - apply IH; assumption.
Qed.

Lemma find_txt_field_wf : forall fs fd,
  forallb (txt_field_wf fs) fs = true -> NoDup (map f_label fs) -> In fd fs ->
  find_txt_field (key_text fd) fs = Some fd.
Proof.
  intros fs fd W Hd Hin. rewrite forallb_forall in W. specialize (W fd Hin).
  unfold txt_field_wf in W.
  repeat (apply andb_prop in W; destruct W as [W ?]).
  destruct (find_txt_field (key_text fd) fs) as [fd'|] eqn:F; [|discriminate].
  match goal with H : String.eqb (f_label fd') (f_label fd) = true |- _ => apply String.eqb_eq in H; rename H into El end.
  f_equal. apply (label_unique fs); try assumption.
  clear -F. revert F. induction fs as [|x fs IH]; intros F; [discriminate|]. cbn [find_txt_field] in F.
  destruct (field_names_match (key_text fd) x); [injection F as <-; left; reflexivity|right; apply IH; exact F].
Qed.

Lemma rget_in_nodup : forall (l : list (string * val)) k v, NoDup (map fst l) -> In (k, v) l -> rget k l = Some v.
Proof.
  induction l as [|[k' v'] l IH]; intros k v Hd Hin; [destruct Hin|].
  cbn [map fst] in Hd. inversion Hd as [|? ? Hn Hd']; subst.
  destruct Hin as [Hin|Hin].
  - injection Hin as -> ->. apply rget_cons_same.
  - rewrite rget_cons_other; [apply IH; assumption|].
    intros ->. apply Hn. change k' with (fst (k', v)). apply in_map. exact Hin.
Qed.

Lemma rget_rev_nodup : forall (l : list (string * val)) k, NoDup (map fst l) -> rget k (rev l) = rget k l.
Proof.
  intros l k Hd. destruct (rget k l) as [v|] eqn:E.
  - apply rget_in_nodup.
    + rewrite map_rev. apply NoDup_rev. exact Hd.
    + rewrite <- in_rev. apply assoc_in. exact E.
  - apply rget_none_notin. apply rget_none_notin in E. rewrite map_rev, <- in_rev. exact E.
Qed.

(* ---------------------------------------------------------------- what the loops record *)
Definition strip_opt (fd : field) (v : val) : val :=
  if f_opt fd then match v with VSome w => w | _ => v end else v.

Lemma items_idx : forall serf wtf fs vs,
  wt_fields (field_ok_idx wtf) fs vs = true ->
  map en_item_idx (entries_of serf strip_opt fs vs) = items_of serf fs vs.
Proof.
  intros serf wtf. induction fs as [|fd fs IH]; intros vs W; [destruct vs; reflexivity|].
  destruct vs as [|[l v] vs]; [reflexivity|].
  destruct (wt_fields_cons _ _ _ _ _ _ W) as [-> [Hok W']].
  cbn [entries_of items_of]. rewrite map_app. rewrite (IH vs W'). f_equal.
  unfold field_ok_idx in Hok.
  destruct (emitted fd v); [|reflexivity].
  destruct (serf (f_ty fd) v); [|reflexivity].
  cbn [map]. unfold en_item_idx, en_label, strip_opt. cbn [en_fd en_val].
  destruct (f_opt fd); [|reflexivity].
  destruct v; try discriminate. reflexivity.
Qed.

Lemma items_txt : forall serf fs vs,
  map en_item_txt (entries_of serf (fun _ v => v) fs vs) = items_of serf fs vs.
Proof.
  intros serf. induction fs as [|fd fs IH]; intros vs; [destruct vs; reflexivity|].
  destruct vs as [|[l v] vs]; [reflexivity|].
  cbn [entries_of items_of]. rewrite map_app. rewrite (IH vs). f_equal.
  destruct (emitted fd v); [|reflexivity].
  destruct (serf (f_ty fd) v); reflexivity.
Qed.

Lemma entries_len : forall serf valf fs vs, blen (entries_of serf valf fs vs) <= blen fs.
Proof.
  intros serf valf. induction fs as [|fd fs IH]; intros vs; [destruct vs; cbn; lia|].
  destruct vs as [|[l v] vs]; [cbn; lia|].
  cbn [entries_of]. rewrite blen_app, blen_cons. specialize (IH vs).
  destruct (emitted fd v); [destruct (serf (f_ty fd) v)|]; cbn [List.length blen] in *; unfold blen in *; cbn [List.length]; lia.
Qed.

(* truncate leaves a text that fits untouched *)
Lemma truncate_fits : forall s L, blen s <= L -> truncate L s = Ok s.
Proof.
  intros s L H. unfold truncate, floor_char_boundary.
  destruct (blen s <=? L) eqn:E; [|lia]. cbn [bind].
  unfold is_char_boundary. destruct (blen s =? 0) eqn:E0.
  - cbn [negb]. unfold blen in *. rewrite Nat2Z.id. rewrite firstn_all.
    destruct (L <? Z.of_nat (List.length s)) eqn:E1; [lia|reflexivity].
  - rewrite Z.eqb_refl. cbn [negb]. unfold blen in *. rewrite Nat2Z.id. rewrite firstn_all.
    destruct (L <? Z.of_nat (List.length s)) eqn:E1; [lia|reflexivity].
Qed.

(* ---------------------------------------------------------------- structs *)
Definition elem_rt (e : env) (k : nat) : Prop :=
  forall t v b, wt e k t v = true -> ser e k t v = Some b ->
  forall k' r, (k <= k')%nat -> dec e k' t (b ++ r) = Ok (v, r).

Lemma some_inj {A} : forall (a b : A), Some a = Some b -> a = b.
Proof. intros a b H. injection H as H. exact H. Qed.

Lemma idx_ok_absent : forall wtf fd v, field_ok_idx wtf fd v = true -> emitted fd v = false -> v = VNone.
Proof.
  intros wtf fd v H E. unfold field_ok_idx in H. rewrite E in H.
  apply andb_prop in H. destruct H as [H _]. destruct v; try discriminate. reflexivity.
Qed.
Lemma idx_ok_required : forall wtf fd v, field_ok_idx wtf fd v = true -> emitted fd v = false -> f_opt fd = true.
Proof.
  intros wtf fd v H E. unfold field_ok_idx in H. rewrite E in H.
  apply andb_prop in H. destruct H as [_ H]. exact H.
Qed.
Lemma txt_ok_absent : forall wtf fd v, field_ok_txt wtf fd v = true -> emitted fd v = false -> v = VNone.
Proof.
  intros wtf fd v H E. unfold field_ok_txt in H. rewrite E in H.
  apply andb_prop in H. destruct H as [H _]. destruct v; try discriminate. reflexivity.
Qed.
Lemma txt_ok_required : forall wtf fd v, field_ok_txt wtf fd v = true -> emitted fd v = false -> f_opt fd = true.
Proof.
  intros wtf fd v H E. unfold field_ok_txt in H. rewrite E in H.
  apply andb_prop in H. destruct H as [_ H]. exact H.
Qed.

Lemma idx_struct_rt : forall e k k' name s d fs vs b rest,
  lookup e name = Some (DStruct true s d fs) ->
  decl_rt (DStruct true s d fs) = true ->
  wt_fields (field_ok_idx (wt e k)) fs vs = true ->
  elem_rt e k -> (k <= k')%nat ->
  ser e (S k) (TNamed name) (VRec vs) = Some b ->
  dec e (S k') (TNamed name) (b ++ rest) = Ok (VRec vs, rest).
Proof.
  intros e k k' name s d fs vs b rest L D W IH Hk H.
  cbn [decl_rt] in D.
  apply andb_prop in D. destruct D as [D Dlen]. apply andb_prop in D. destruct D as [D Dlab].
  apply andb_prop in D. destruct D as [Dwf Dkeys].
  apply nodup_s_ok in Dlab. apply nodup_z_ok in Dkeys.
  rewrite (ser_struct_shape e k name true s d fs vs L) in H.
  destruct (emit_list (ser e k) vs fs) as [l|] eqn:El; [|discriminate].
  apply some_inj in H. subst b.
  pose proof (rget_lockstep (field_ok_idx (wt e k)) fs vs [] W Dlab (fun _ _ Hf => Hf)) as F2.
  cbn [app] in F2.
  destruct (emit_entries (ser e k) strip_opt vs fs vs l F2 El) as [-> Hs].
  set (entries := entries_of (ser e k) strip_opt fs vs) in *.
  pose proof (entries_facts (ser e k) (field_ok_idx (wt e k)) strip_opt fs vs W) as EF.
  fold entries in EF. rewrite Forall_forall in EF.
  assert (Dwf' : forall fd, In fd fs -> idx_field_wf fd = true) by (rewrite forallb_forall in Dwf; exact Dwf).
  assert (Hb : List.concat (map (fun p => ser_key (fst p) ++ snd p)
                              (map (fun en => (f_key (en_fd en), en_enc en)) entries))
               = List.concat (map enc_idx_entry entries)).
  { rewrite map_map. f_equal. apply map_ext_in. intros en Hin. cbn [fst snd].
    destruct (EF en Hin) as [Hfd _]. specialize (Dwf' _ Hfd). unfold idx_field_wf in Dwf'.
    unfold enc_idx_entry, idx_key. destruct (f_key (en_fd en)) as [z|]; [|discriminate].
    cbn [ser_key]. unfold ser_int. destruct (0 <=? z) eqn:Ez; [reflexivity|lia]. }
  rewrite Hb. unfold blen at 1. rewrite map_length. fold (blen entries). rewrite <- app_assoc.
  assert (Hitems : map en_item_idx entries = items_of (ser e k) fs vs)
    by (apply (items_idx (ser e k) (wt e k)); exact W).
  assert (Hnd : NoDup (map fst (items_of (ser e k) fs vs))) by (apply items_nodup; exact Dlab).
  rewrite (dec_indexed_struct e k' name s d fs entries rest L).
  - f_equal. f_equal. f_equal.
    transitivity (map (fun fd => (f_label fd, match look (ser e k) fs vs (f_label fd) with Some v => v | None => VNone end)) fs).
    + apply map_ext. intros fd. unfold sent_value. rewrite Hitems.
      rewrite rget_rev_nodup by exact Hnd. rewrite rget_items by exact Dlab. reflexivity.
    + apply (record_rebuilt (ser e k) (field_ok_idx (wt e k)) (idx_ok_absent (wt e k))); assumption.
  - apply Forall_forall. intros en Hin. destruct (EF en Hin) as [Hfd [v [Hok [Hem [Hser Hval]]]]].
    pose proof (Dwf' _ Hfd) as Wfd. unfold idx_field_wf in Wfd.
    apply andb_prop in Wfd. destruct Wfd as [Wk _].
    unfold idx_entry_ok. split; [|split].
    + unfold idx_key. destruct (f_key (en_fd en)); [unfold lim64 in Wk; lia|discriminate].
    + apply find_idx_field_nodup; assumption.
    + intros r. rewrite Hval. unfold strip_opt. unfold field_ok_idx in Hok. rewrite Hem in Hok.
      destruct (f_opt (en_fd en)).
      * destruct v as [ | | | | | |w| | | | ]; try discriminate.
        apply andb_prop in Hok. destruct Hok as [Ho Hw].
        destruct (f_ty (en_fd en)) as [ | | | | | | | | | | | | | | | | | | |u| | | | ] eqn:Et; try discriminate.
        cbn [inner_ty].
        pose proof (IH (TOpt u) (VSome w) (en_enc en) Hw Hser (S k') r ltac:(lia)) as R.
        rewrite dec_opt_cases in R.
        destruct (en_enc en ++ r) as [|x i] eqn:Ei; [discriminate|].
        destruct (x =? 246); [discriminate|].
        destruct (dec e k' u (x :: i)) as [[v0 r0]| | |]; cbn [bind] in R; try discriminate.
        injection R as -> ->. reflexivity.
      * apply (IH _ _ _ Hok Hser). exact Hk.
  - replace (map en_label entries) with (map fst (map en_item_idx entries))
      by (rewrite map_map; apply map_ext; intros en; reflexivity).
    rewrite Hitems. exact Hnd.
  - intros fd Hin Ho.
    replace (map en_label entries) with (map fst (map en_item_idx entries))
      by (rewrite map_map; apply map_ext; intros en; reflexivity).
    rewrite Hitems.
    pose proof (look_required (ser e k) (field_ok_idx (wt e k)) (idx_ok_required (wt e k)) fs vs W Dlab Hs fd Hin Ho) as Lk.
    rewrite <- rget_items in Lk by exact Dlab.
    destruct (rget (f_label fd) (items_of (ser e k) fs vs)) as [v|] eqn:Er; [|contradiction].
    apply assoc_in in Er. change (f_label fd) with (fst (f_label fd, v)). apply in_map. exact Er.
  - pose proof (entries_len (ser e k) strip_opt fs vs). fold entries in H. unfold lim32 in Dlen. lia.
Qed.

Lemma ser_text_not_null : forall s, not_null_bytes (ser_text s).
Proof. intros s. unfold ser_text. apply not_null_app. apply not_null_put_head; [lia|apply blen_nonneg]. Qed.

Lemma dec_opt_some : forall e k u i x r v,
  not_null_bytes i -> dec e k u (i ++ x) = Ok (v, r) -> dec e (S k) (TOpt u) (i ++ x) = Ok (VSome v, r).
Proof.
  intros e k u i x r v [b [t [-> Hb]]] H. rewrite dec_opt_cases. cbn [app] in *.
  destruct (b =? 246) eqn:E; [lia|]. rewrite H. reflexivity.
Qed.

(* members with a deserialize_with function *)
Lemma dec_with_rt : forall e k k' fs fd v enc r,
  txt_field_wf fs fd = true -> field_ok_txt (wt e k) fd v = true -> emitted fd v = true ->
  ser e k (f_ty fd) v = Some enc -> elem_rt e k -> (k <= k')%nat ->
  dec_with (dec e k') fd (enc ++ r) = Ok (v, r).
Proof.
  intros e k k' fs fd v enc r Wf Hok Hem Hser IH Hk.
  unfold field_ok_txt in Hok. rewrite Hem in Hok. unfold dec_with.
  unfold txt_field_wf in Wf. apply andb_prop in Wf. destruct Wf as [_ Wf].
  destruct (f_with fd) as [w|]; [|apply (IH _ _ _ Hok Hser); exact Hk].
  repeat (apply andb_prop in Wf; destruct Wf as [Wf ?]).
  destruct (f_ty fd) as [ | | | | | | | | | | | | | | | | | | |u| | | | ] eqn:Et; try discriminate.
  destruct u as [ | | | | | | | | | | | | | | | | |n| | | | | | ]; try discriminate.
  match goal with H : f_skip_none fd = true |- _ => rename H into Hsn end.
  destruct v as [ | | | | | |sv| | | | ]; try discriminate.
  - (* VNone is never emitted by a skip-if-none member *)
    unfold emitted in Hem. rewrite Hsn in Hem. cbn in Hem. rewrite andb_false_r in Hem. discriminate.
  - cbn [str_cap] in Hok. unfold str_ok in Hok. destruct sv as [ | |s| | | | | | | | ]; try discriminate.
    apply andb_prop in Hok. destruct Hok as [Hok Hlen]. apply andb_prop in Hok. destruct Hok as [Hutf Hcap].
    destruct k as [|[|k2]]; try discriminate. cbn [ser] in Hser. apply some_inj in Hser. subst enc.
    destruct k' as [|[|k'2]]; try lia.
    fold w_trunc. fold w_skip. unfold lim32 in Hlen.
    destruct (String.eqb w w_trunc).
    + rewrite (dec_opt_some e (S k'2) TStrRef (ser_text s) r r (VStr s) (ser_text_not_null s)).
      * cbn [bind str_cap]. rewrite truncate_fits by lia. reflexivity.
      * rewrite dec_strref_exact by lia. rewrite Hutf. reflexivity.
    + destruct (String.eqb w w_skip); [|discriminate].
      rewrite dec_strref_exact by lia. rewrite Hutf. cbn [bind str_cap].
      destruct (blen s <=? n) eqn:E; [reflexivity|lia].
Qed.

Lemma known_entries_map : forall (f : entry -> bytes) entries,
  known_entries (map (fun en => TKnown (f en) en) entries) = entries.
Proof.
  intros f. induction entries as [|en entries IH]; [reflexivity|].
  cbn [map known_entries flat_map app] in *. f_equal. exact IH.
Qed.

Lemma txt_struct_rt : forall e k k' name s d fs vs b rest,
  lookup e name = Some (DStruct false s d fs) ->
  decl_rt (DStruct false s d fs) = true ->
  wt_fields (field_ok_txt (wt e k)) fs vs = true ->
  elem_rt e k -> (k <= k')%nat ->
  ser e (S k) (TNamed name) (VRec vs) = Some b ->
  dec e (S k') (TNamed name) (b ++ rest) = Ok (VRec vs, rest).
Proof.
  intros e k k' name s d fs vs b rest L D W IH Hk H.
  cbn [decl_rt] in D.
  apply andb_prop in D. destruct D as [D Dlen]. apply andb_prop in D. destruct D as [Dwf Dlab].
  apply nodup_s_ok in Dlab.
  rewrite (ser_struct_shape e k name false s d fs vs L) in H.
  destruct (emit_list (ser e k) vs fs) as [l|] eqn:El; [|discriminate].
  apply some_inj in H. subst b.
  pose proof (rget_lockstep (field_ok_txt (wt e k)) fs vs [] W Dlab (fun _ _ Hf => Hf)) as F2.
  cbn [app] in F2.
  destruct (emit_entries (ser e k) (fun _ v => v) vs fs vs l F2 El) as [-> Hs].
  set (entries := entries_of (ser e k) (fun _ v => v) fs vs) in *.
  pose proof (entries_facts (ser e k) (field_ok_txt (wt e k)) (fun _ v => v) fs vs W) as EF.
  fold entries in EF. rewrite Forall_forall in EF.
  assert (Dwf' : forall fd, In fd fs -> txt_field_wf fs fd = true) by (rewrite forallb_forall in Dwf; exact Dwf).
  set (tes := map (fun en => TKnown (key_text (en_fd en)) en) entries).
  assert (Hb : List.concat (map (fun p => ser_key (fst p) ++ snd p)
                              (map (fun en => (f_key (en_fd en), en_enc en)) entries))
               = List.concat (map enc_txt_entry tes)).
  { unfold tes. rewrite !map_map. f_equal. apply map_ext_in. intros en Hin. cbn [fst snd enc_txt_entry].
    destruct (EF en Hin) as [Hfd _]. specialize (Dwf' _ Hfd). unfold txt_field_wf in Dwf'.
    repeat (apply andb_prop in Dwf'; destruct Dwf' as [Dwf' ?]).
    unfold key_text. destruct (f_key (en_fd en)) as [z|ks]; [discriminate|]. reflexivity. }
  rewrite Hb. unfold blen at 1. rewrite map_length.
  replace (Z.of_nat (List.length entries)) with (blen tes) by (unfold tes, blen; rewrite map_length; reflexivity).
  rewrite <- app_assoc.
  assert (Hk_en : known_entries tes = entries) by (apply known_entries_map).
  assert (Hitems : map en_item_txt entries = items_of (ser e k) fs vs) by (apply items_txt).
  assert (Hnd : NoDup (map fst (items_of (ser e k) fs vs))) by (apply items_nodup; exact Dlab).
  rewrite (dec_text_struct e k' name s d fs tes rest L).
  - f_equal. f_equal. f_equal. unfold txt_record. rewrite Hk_en, Hitems.
    transitivity (map (fun fd => (f_label fd, match look (ser e k) fs vs (f_label fd) with Some v => v | None => VNone end)) fs).
    + apply map_ext. intros fd.
      rewrite rget_rev_nodup by exact Hnd. rewrite rget_items by exact Dlab. reflexivity.
    + apply (record_rebuilt (ser e k) (field_ok_txt (wt e k)) (txt_ok_absent (wt e k))); assumption.
  - apply Forall_forall. intros te Hin. unfold tes in Hin. apply in_map_iff in Hin.
    destruct Hin as [en [<- Hin]]. destruct (EF en Hin) as [Hfd [v [Hok [Hem [Hser Hval]]]]].
    pose proof (Dwf' _ Hfd) as Wfd. cbn [txt_entry_ok].
    pose proof Wfd as Wfd2. unfold txt_field_wf in Wfd2.
    repeat (apply andb_prop in Wfd2; destruct Wfd2 as [Wfd2 ?]).
    unfold lim32 in *.
    split; [lia|]. split; [assumption|]. split; [apply find_txt_field_wf; assumption|].
    intros r. rewrite Hval. apply (dec_with_rt e k k' fs (en_fd en) v (en_enc en) r); assumption.
  - rewrite Hk_en.
    replace (map en_label entries) with (map fst (map en_item_txt entries))
      by (rewrite map_map; apply map_ext; intros en; reflexivity).
    rewrite Hitems. exact Hnd.
  - intros fd Hin Ho. rewrite Hk_en.
    replace (map en_label entries) with (map fst (map en_item_txt entries))
      by (rewrite map_map; apply map_ext; intros en; reflexivity).
    rewrite Hitems.
    pose proof (look_required (ser e k) (field_ok_txt (wt e k)) (txt_ok_required (wt e k)) fs vs W Dlab Hs fd Hin Ho) as Lk.
    rewrite <- rget_items in Lk by exact Dlab.
    destruct (rget (f_label fd) (items_of (ser e k) fs vs)) as [v|] eqn:Er; [|contradiction].
    apply assoc_in in Er. change (f_label fd) with (fst (f_label fd, v)). apply in_map. exact Er.
  - pose proof (entries_len (ser e k) (fun _ v => v) fs vs) as Hl. fold entries in Hl.
    unfold tes, blen in *. rewrite map_length. unfold lim32 in Dlen. lia.
Qed.

(* ---------------------------------------------------------------- the filtered parameter list *)
Definition filt_step (algs : list Z) (cap : Z) (acc : list val) (v : val) : list val :=
  match known_param algs v with
  | Some kp => if blen acc <? cap then acc ++ [kp] else acc
  | None => acc
  end.

Definition filt_ser (serf : val -> option bytes) (kp : val) : option bytes :=
  match kp with
  | VRec fs => match rget "alg" fs with
               | Some a => serf (VRec [("alg", a); ("key_type", VStr (bytes_of_string "public-key"))])
               | None => None end
  | _ => None
  end.

Lemma filtered_loop_rt : forall (decf : bytes -> res (val * bytes)) (serf : val -> option bytes) algs cap l fuel acc body rest,
  (forall kp, In kp l -> exists a, kp = VRec [("alg", VZ a)] /\ zmem a algs = true /\
                                   forall b r, serf (full_param a) = Some b -> decf (b ++ r) = Ok (full_param a, r)) ->
  concat_opt (map (filt_ser serf) l) = Some body ->
  blen acc + blen l <= cap ->
  (List.length l <= fuel)%nat ->
  fold_loop decf (filt_step algs cap) fuel (blen l) acc (body ++ rest) = Ok (acc ++ l, rest).
Proof.
  intros decf serf algs cap l. induction l as [|kp l IH]; intros fuel acc body rest Hel Hc Hcap Hf.
  - cbn in Hc. injection Hc as <-. destruct fuel; cbn; rewrite app_nil_r; reflexivity.
  - cbn [map concat_opt] in Hc. destruct (filt_ser serf kp) as [b|] eqn:Es; [|discriminate].
    destruct (concat_opt (map (filt_ser serf) l)) as [body'|] eqn:Ec; [|discriminate]. injection Hc as <-.
    cbn [List.length] in Hf. destruct fuel as [|fuel]; [lia|].
    cbn [fold_loop]. rewrite blen_cons in *. pose proof (blen_nonneg l). pose proof (blen_nonneg acc).
    destruct (1 + blen l <=? 0) eqn:E; [lia|].
    destruct (Hel kp (or_introl eq_refl)) as [a [-> [Ha Hd]]].
    cbn in Es. rewrite <- app_assoc. rewrite (Hd b _ Es). cbn [bind].
    replace (1 + blen l - 1) with (blen l) by lia.
    assert (Hstep : filt_step algs cap acc (full_param a) = acc ++ [VRec [("alg", VZ a)]]).
    { unfold filt_step, full_param, known_param. cbn [rget assoc String.eqb Ascii.eqb Bool.eqb].
      replace (bytes_eqb (bytes_of_string "public-key") (bytes_of_string "public-key")) with true by reflexivity.
      cbn [negb]. rewrite Ha. destruct (blen acc <? cap) eqn:E2; [reflexivity|lia]. }
    rewrite Hstep. rewrite (IH fuel (acc ++ [VRec [("alg", VZ a)]]) body' rest); try lia.
    + rewrite <- app_assoc. reflexivity.
    + intros kp' Hin. apply Hel. right. exact Hin.
    + reflexivity.
    + rewrite blen_app, blen_cons. cbn. lia.
Qed.

(* ---------------------------------------------------------------- the theorem *)
Lemma dec_bool_rt : forall (bo : bool) (r : bytes), dec_bool ((if bo then 245 else 244) :: r) = Ok (VBool bo, r).
Proof.
  intros bo r. unfold dec_bool, take.
  replace (blen ((if bo then 245 else 244) :: r) <? 1) with false
    by (rewrite blen_cons; pose proof (blen_nonneg r); lia).
  change (Z.to_nat 1) with 1%nat. cbn [firstn skipn bind]. destruct bo; reflexivity.
Qed.

Lemma lookup_into_in : forall vn into sp, lookup_into vn into = Some sp -> In (vn, sp) into.
Proof.
  intros vn into. induction into as [|[a b] into IH]; intros sp H; [discriminate|]. cbn [lookup_into] in H.
  destruct (String.eqb vn a) eqn:E.
  - apply String.eqb_eq in E. subst. injection H as <-. left. reflexivity.
  - right. apply IH. exact H.
Qed.

Lemma ser_ecdh_kind : forall e k name sr de params v,
  lookup e name = Some (DCustom "ext::EcdhEsHkdf256PublicKey" sr de params) ->
  ser e (S k) (TNamed name) v = ser_cose "EcdhEsHkdf256Key" v.
Proof. intros e k name sr de params v L. cbn [ser]. rewrite L. destruct v; reflexivity. Qed.

Lemma dec_ecdh_kind : forall e k name sr de params i,
  lookup e name = Some (DCustom "ext::EcdhEsHkdf256PublicKey" sr de params) ->
  dec e (S k) (TNamed name) i = dec_cose_ecdh i.
Proof. intros e k name sr de params i L. cbn [dec]. rewrite L. reflexivity. Qed.

Theorem ser_dec_roundtrip : forall e, env_rt e = true -> forall k, elem_rt e k.
Proof.
  intros e He. induction k as [|k IH]; intros t v b W H k' r Hk; [discriminate|].
  destruct k' as [|k']; [lia|]. assert (Hk' : (k <= k')%nat) by lia.
  cbn [wt] in W.
  destruct t as [ | | | | | | | | | |n|n|n|n|n| | |n|u n|u|u|name|name|name];
    destruct v as [z|bb|ss|bo| | |w|l|fs|vn|vn w]; try discriminate W.
  all: try (destruct (lookup e name) as [d|] eqn:L; [|discriminate W];
            pose proof (env_rt_lookup e name d He L) as D;
            destruct d as [ix sr de fds|sr de into tf|repr sr de vs|sr vs|kind sr de params|]; try discriminate W;
            try (destruct ix; discriminate W)).
  - (* u8 *) cbn [ser] in H. destruct (0 <=? z) eqn:E; [|discriminate]. apply some_inj in H. subst b.
    rewrite dec_u8_exact by lia. destruct (z <=? 255) eqn:E1; [reflexivity|lia].
  - (* u16 *) cbn [ser] in H. destruct (0 <=? z) eqn:E; [|discriminate]. apply some_inj in H. subst b.
    apply dec_u16_exact. lia.
  - (* u32 *) cbn [ser] in H. destruct (0 <=? z) eqn:E; [|discriminate]. apply some_inj in H. subst b.
    unfold lim32 in W. rewrite dec_u32_exact by lia. destruct (z <=? 4294967295) eqn:E1; [reflexivity|lia].
  - (* u64 *) cbn [ser] in H. destruct (0 <=? z) eqn:E; [|discriminate]. apply some_inj in H. subst b.
    unfold lim64 in W. apply (dec_u64_exact e k' z r). lia.
  - (* usize *) cbn [ser] in H. destruct (0 <=? z) eqn:E; [|discriminate]. apply some_inj in H. subst b.
    unfold lim64 in W. apply (dec_u64_exact e k' z r). lia.
  - (* i8 *) cbn [ser] in H. apply some_inj in H. subst b. apply dec_i8_exact. lia.
  - (* i32 *) cbn [ser] in H. apply some_inj in H. subst b. apply dec_i32_exact. lia.
  - (* bool *) cbn [ser] in H. apply some_inj in H. subst b. cbn [dec app]. apply dec_bool_rt.
  - (* unit *) cbn [ser] in H. apply some_inj in H. subst b. reflexivity.
  - (* &Bytes *) cbn [ser] in H. apply some_inj in H. subst b. unfold lim32 in W. apply dec_bytesref_exact. lia.
  - (* Bytes<N> *) cbn [ser] in H. apply some_inj in H. subst b. unfold lim32 in W.
    rewrite dec_bytes_cap_exact by lia. destruct (n <? blen bb) eqn:E; [lia|reflexivity].
  - (* &ByteArray<N> *) cbn [ser] in H. apply some_inj in H. subst b. unfold lim32 in W.
    rewrite dec_bytearrref_exact by lia. destruct (blen bb =? n) eqn:E; [reflexivity|lia].
  - (* &str *) cbn [ser] in H. apply some_inj in H. subst b. unfold lim32 in W.
    apply andb_prop in W. destruct W as [Hu Hl]. rewrite dec_strref_exact by lia. rewrite Hu. reflexivity.
  - (* String<N> *) cbn [ser] in H. apply some_inj in H. subst b. unfold lim32 in W.
    apply andb_prop in W. destruct W as [W Hl]. apply andb_prop in W. destruct W as [Hu Hc].
    rewrite dec_strcap_exact by (try lia; exact Hu). destruct (n <? blen ss) eqn:E; [lia|reflexivity].
  - (* Vec *)
    apply andb_prop in W. destruct W as [W Hall]. apply andb_prop in W. destruct W as [Hcap Hlen].
    cbn [ser] in H. destruct (concat_opt (map (ser e k u) l)) as [body|] eqn:Ec; [|discriminate].
    apply some_inj in H. subst b. rewrite <- app_assoc. cbn [dec].
    unfold lim32 in Hlen. rewrite raw_u32_put_head by (pose proof (blen_nonneg l); lia). cbn [bind].
    rewrite (seq_loop_roundtrip (dec e k' u) (ser e k u) n l _ [] body r).
    + reflexivity.
    + intros v0 b0 Hin Hs r0. rewrite forallb_forall in Hall. apply (IH u v0 b0 (Hall v0 Hin) Hs). exact Hk'.
    + exact Ec.
    + cbn. lia.
    + assert (Hl : (List.length (map (ser e k u) l) <= List.length body)%nat).
      { apply concat_opt_length; [exact Ec|]. intros o Ho b0 ->. apply in_map_iff in Ho.
        destruct Ho as [v0 [Hs _]]. apply (ser_nonempty _ _ _ _ _ Hs). }
      rewrite map_length in Hl. rewrite app_length. lia.
  - (* None *) cbn [ser] in H. apply some_inj in H. subst b. rewrite dec_opt_cases. reflexivity.
  - (* Some *)
    apply andb_prop in W. destruct W as [Hnn Hw]. cbn [ser] in H.
    apply dec_opt_some; [apply (ser_not_null e k u w b Hnn Hw H)|].
    apply (IH u w b Hw H). exact Hk'.
  - (* filtered parameter list *)
    apply andb_prop in W. destruct W as [W Hall]. apply andb_prop in W. destruct W as [W Hlen].
    apply andb_prop in W. destruct W as [W Hcap]. apply String.eqb_eq in W. subst kind.
    cbn [ser] in H. rewrite L in H. cbn [String.eqb Ascii.eqb Bool.eqb] in H.
    change (map _ l) with (map (filt_ser (ser e k (TNamed n_PKCP))) l) in H.
    destruct (concat_opt (map (filt_ser (ser e k (TNamed n_PKCP))) l)) as [body|] eqn:Ec; [|discriminate].
    apply some_inj in H. subst b. rewrite <- app_assoc. cbn [dec]. rewrite L.
    cbn [String.eqb Ascii.eqb Bool.eqb].
    unfold lim32 in Hlen. rewrite raw_u32_put_head by (pose proof (blen_nonneg l); lia). cbn [bind].
    change (fun acc v => match known_param (tl params) v with
                         | Some kp => if blen acc <? hd 0 params then (acc ++ [kp])%list else acc
                         | None => acc end) with (filt_step (tl params) (hd 0 params)).
    rewrite (filtered_loop_rt (dec e k' (TNamed n_PKCP)) (ser e k (TNamed n_PKCP)) (tl params) (hd 0 params) l _ [] body r).
    + reflexivity.
    + intros kp Hin. rewrite forallb_forall in Hall. specialize (Hall kp Hin).
      destruct kp as [ | | | | | | | |fs0| | ]; try discriminate.
      destruct fs0 as [|[l1 v1] fs0]; try discriminate.
      repeat match type of Hall with
             | match ?x with _ => _ end = true => destruct x; try discriminate
             end.
      apply andb_prop in Hall. destruct Hall as [Ha Hw].
      eexists. split; [reflexivity|]. split; [exact Ha|].
      intros b0 r0 Hs. apply (IH _ _ _ Hw Hs). exact Hk'.
    + exact Ec.
    + cbn. lia.
    + assert (Hl : (List.length (map (filt_ser (ser e k (TNamed n_PKCP))) l) <= List.length body)%nat).
      { apply concat_opt_length; [exact Ec|]. intros o Ho b0 ->. apply in_map_iff in Ho.
        destruct Ho as [v0 [Hs _]]. unfold filt_ser in Hs.
        destruct v0 as [ | | | | | | | |fs0| | ]; try discriminate. destruct (rget "alg" fs0); [|discriminate].
        apply (ser_nonempty _ _ _ _ _ Hs). }
      rewrite map_length in Hl. rewrite app_length. lia.
  - (* struct *)
    destruct ix.
    + apply (idx_struct_rt e k k' name sr de fds fs b r L D W IH Hk' H).
    + apply (txt_struct_rt e k k' name sr de fds fs b r L D W IH Hk' H).
  - (* ECDH key *)
    destruct fs as [|[l1 v1] fs]; try discriminate W.
    repeat match type of W with
           | match ?x with _ => _ end = true => destruct x; try discriminate
           end.
    apply andb_prop in W. destruct W as [W Hy]. apply andb_prop in W. destruct W as [W Hx].
    apply String.eqb_eq in W. subst kind.
    rewrite (ser_ecdh_kind e k name sr de params _ L) in H.
    rewrite (dec_ecdh_kind e k' name sr de params _ L).
    match type of H with ser_cose _ (VRec [(_, VBytes ?x); (_, VBytes ?y)]) = _ =>
      apply (cose_ecdh_roundtrip x y r); [lia|lia|exact H] end.
  - (* string-valued *)
      cbn [ser] in H. rewrite L in H. destruct (lookup_into vn into) as [sp|] eqn:Ei; [|discriminate].
      apply some_inj in H. subst b. cbn [decl_rt] in D. rewrite forallb_forall in D.
      specialize (D _ (lookup_into_in _ _ _ Ei)). cbn [fst snd] in D.
      apply andb_prop in D. destruct D as [D Dtf]. apply andb_prop in D. destruct D as [Du Dl].
      unfold lim32 in Dl. cbn [dec]. rewrite L. rewrite dec_str_raw_ser by lia. rewrite Du. cbn [bind].
      destruct (lookup_tryfrom (bytes_of_string sp) tf) as [v0|]; [|discriminate].
      apply String.eqb_eq in Dtf. subst v0. reflexivity.
  - (* number-valued *)
      cbn [ser] in H. rewrite L in H. destruct (assoc vn vs) as [z|] eqn:Ea; [|discriminate].
      apply some_inj in H. subst b. cbn [decl_rt] in D. apply andb_prop in D. destruct D as [Dr D].
      rewrite forallb_forall in D. specialize (D _ (assoc_in _ _ _ Ea)). cbn [fst snd] in D.
      apply andb_prop in D. destruct D as [D Dv]. apply andb_prop in D. destruct D as [D0 D1].
      cbn [dec]. rewrite L. rewrite Dr. unfold ser_int. destruct (0 <=? z) eqn:E; [|lia].
      rewrite raw_u8_put_head by lia. cbn [bind].
      destruct (variant_of_discr z vs) as [v0|]; [|discriminate].
      apply String.eqb_eq in Dv. subst v0. reflexivity.
Qed.

(* read-outs at the model's fuel *)
Corollary decode_encode : forall e t v b rest, env_rt e = true ->
  wt e type_fuel t v = true -> encode e t v = Some b -> decode e t (b ++ rest) = Ok (v, rest).
Proof.
  intros e t v b rest He W H. rewrite encode_unfold in H. unfold decode.
  apply (ser_dec_roundtrip e He type_fuel t v b W H). lia.
Qed.

(* the reverse direction on canonical bytes (= the encoding of a well-typed value): re-encoding what was
   decoded reproduces the bytes *)
Corollary encode_decode : forall e t v b, env_rt e = true ->
  wt e type_fuel t v = true -> encode e t v = Some b ->
  exists v', decode e t b = Ok (v', []) /\ encode e t v' = Some b.
Proof.
  intros e t v b He W H. exists v. split; [|exact H].
  rewrite <- (app_nil_r b) at 1. apply decode_encode; assumption.
Qed.

(* encodings of distinct well-typed values are distinct, and no encoding is a proper prefix of another *)
Corollary encode_injective : forall e t v1 v2 b1 b2 x1 x2, env_rt e = true ->
  wt e type_fuel t v1 = true -> wt e type_fuel t v2 = true ->
  encode e t v1 = Some b1 -> encode e t v2 = Some b2 -> b1 ++ x1 = b2 ++ x2 -> v1 = v2 /\ x1 = x2.
Proof.
  intros e t v1 v2 b1 b2 x1 x2 He W1 W2 H1 H2 E.
  pose proof (decode_encode e t v1 b1 x1 He W1 H1) as D1.
  pose proof (decode_encode e t v2 b2 x2 He W2 H2) as D2.
  rewrite E in D1. rewrite D1 in D2. injection D2 as -> ->. split; reflexivity.
Qed.

(* ---------------------------------------------------------------- one element too many (C12) *)
(* a sequence whose count exceeds the capacity is rejected when its (cap+1)-th element has been read:
   [l] are the first cap + 1 - |acc| elements, all of them valid encodings; whatever follows is irrelevant *)
Lemma concat_opt_cons : forall o l, concat_opt (o :: l) =
  match o with None => None | Some b => match concat_opt l with Some t => Some (b ++ t) | None => None end end.
Proof. intros [b|] l; reflexivity. Qed.

Lemma seq_loop_overflow : forall (decf : bytes -> res (val * bytes)) (serf : val -> option bytes) cap l v fuel n acc body rest,
  (forall v0 b, In v0 (v :: l) -> serf v0 = Some b -> forall r, decf (b ++ r) = Ok (v0, r)) ->
  concat_opt (map serf (v :: l)) = Some body ->
  blen acc + blen (v :: l) = cap + 1 -> blen (v :: l) <= n ->
  (List.length (v :: l) <= fuel)%nat ->
  seq_loop decf fuel n cap acc (body ++ rest) = Err SerdeDeCustom.
Proof.
  intros decf serf cap l. induction l as [|v' l IH]; intros v fuel n acc body rest Hrt Hc Hcap Hn Hf.
  - cbn [map concat_opt] in Hc. destruct (serf v) as [b|] eqn:Es; [|discriminate]. injection Hc as <-.
    cbn [List.length] in Hf. destruct fuel as [|fuel]; [lia|].
    rewrite blen_cons in *. cbn [blen List.length] in Hcap, Hn. cbn [seq_loop].
    destruct (n <=? 0) eqn:E; [unfold blen in *; cbn in *; lia|].
    rewrite app_nil_r. rewrite (Hrt v b (or_introl eq_refl) Es). cbn [bind].
    destruct (blen acc <? cap) eqn:E2; [unfold blen in *; cbn in *; lia|reflexivity].
  - change (map serf (v :: v' :: l)) with (serf v :: map serf (v' :: l)) in Hc. rewrite concat_opt_cons in Hc.
    destruct (serf v) as [b|] eqn:Es; [|discriminate].
    destruct (concat_opt (map serf (v' :: l))) as [body'|] eqn:Ec; [|discriminate]. injection Hc as <-.
    cbn [List.length] in Hf. destruct fuel as [|fuel]; [lia|].
    rewrite (blen_cons v) in *. pose proof (blen_nonneg l). rewrite (blen_cons v') in *. pose proof (blen_nonneg acc).
    cbn [seq_loop]. destruct (n <=? 0) eqn:E; [lia|].
    rewrite <- app_assoc. rewrite (Hrt v b (or_introl eq_refl) Es). cbn [bind].
    destruct (blen acc <? cap) eqn:E2; [|lia].
    apply (IH v' fuel (n - 1) (v :: acc) body' rest).
    + intros v0 b0 Hin. apply Hrt. right. exact Hin.
    + exact Ec.
    + rewrite !blen_cons. lia.
    + rewrite blen_cons. lia.
    + cbn [List.length] in *. lia.
Qed.

(* the count rule of heapless::Vec<T, N>, both sides of the boundary: a sequence of well-typed elements is
   delivered whole when its count is at most N; with N + 1 or more elements announced and N + 1 valid
   elements present it is rejected, whatever follows *)
Theorem vec_count_exact : forall e k u cap l,
  env_rt e = true -> forallb (wt e k u) l = true -> 0 <= cap ->
  forall body, concat_opt (map (ser e k u) l) = Some body ->
  (blen l <= cap -> blen l < lim32 -> forall rest,
     dec e (S k) (TVec u cap) (put_head 4 (blen l) ++ body ++ rest) = Ok (VList l, rest)) /\
  (blen l = cap + 1 -> forall n rest, blen l <= n < lim32 ->
     dec e (S k) (TVec u cap) (put_head 4 n ++ body ++ rest) = Err SerdeDeCustom).
Proof.
  intros e k u cap l He Hall Hc body Hb.
  assert (Hel : forall v b, In v l -> ser e k u v = Some b -> forall r, dec e k u (b ++ r) = Ok (v, r)).
  { intros v b Hin Hs r. rewrite forallb_forall in Hall.
    apply (ser_dec_roundtrip e He k u v b (Hall v Hin) Hs k r). lia. }
  assert (Hlen : (List.length l <= List.length body)%nat).
  { assert (Hl : (List.length (map (ser e k u) l) <= List.length body)%nat).
    { apply concat_opt_length; [exact Hb|]. intros o Ho b0 ->. apply in_map_iff in Ho.
      destruct Ho as [v0 [Hs _]]. apply (ser_nonempty _ _ _ _ _ Hs). }
    rewrite map_length in Hl. exact Hl. }
  split.
  - intros Hle Hlim rest. cbn [dec]. unfold lim32 in Hlim.
    rewrite raw_u32_put_head by (pose proof (blen_nonneg l); lia). cbn [bind].
    rewrite (seq_loop_roundtrip (dec e k u) (ser e k u) cap l _ [] body rest Hel Hb).
    + reflexivity.
    + cbn. lia.
    + rewrite app_length. lia.
  - intros Heq n rest Hn. cbn [dec]. unfold lim32 in Hn.
    rewrite raw_u32_put_head by (pose proof (blen_nonneg l); lia). cbn [bind].
    destruct l as [|v l]; [cbn in Heq; lia|].
    rewrite (seq_loop_overflow (dec e k u) (ser e k u) cap l v _ n [] body rest Hel Hb).
    + reflexivity.
    + change (blen (@nil val)) with 0. lia.
    + lia.
    + rewrite app_length. lia.
Qed.
