(* The skipper consumes exactly one well-formed item, whatever follows it (C06 core). *)
From Ctap Require Import Base Wire CborItem WireP.
From Coq Require Import Lia.
Local Open Scope Z_scope.

Scheme item_ind2 := Induction for item Sort Prop
  with items_ind2 := Induction for items Sort Prop.
Combined Scheme item_items_ind from item_ind2, items_ind2.

Lemma icount_nonneg : forall l, 0 <= icount l.
Proof. induction l as [|x r IH]; cbn [icount]; lia. Qed.

Lemma be_app_take : forall n v r, take (Z.of_nat n) (be n v ++ r) = Ok (be n v, r).
Proof. exact take_be. Qed.

(* skipping a head of any width *)
Lemma ignore_head_head_w : forall maj bad w v r, width_ok w v ->
  ignore_head maj bad (head_w maj w v ++ r) = Ok r.
Proof.
  intros maj bad w v r Hw. unfold ignore_head.
  destruct w as [|[|[|[|[|w]]]]]; cbn [width_ok] in Hw; try contradiction; cbn [head_w].
  - cbn [app]. rewrite expect_major_head by lia. cbn [bind].
    destruct (v <=? 23) eqn:E; [reflexivity|apply Z.leb_gt in E; lia].
  - cbn [app]. rewrite expect_major_head by lia. cbn [bind]. cbn [Z.leb Z.eqb].
    change (take 1 (v :: r)) with (take (blen [v]) ([v] ++ r)). rewrite take_app. reflexivity.
  - rewrite <- app_comm_cons. rewrite expect_major_head by lia. cbn [bind]. cbn [Z.leb Z.eqb].
    change 2 with (Z.of_nat 2). rewrite take_be. reflexivity.
  - rewrite <- app_comm_cons. rewrite expect_major_head by lia. cbn [bind]. cbn [Z.leb Z.eqb].
    change 4 with (Z.of_nat 4). rewrite take_be. reflexivity.
  - rewrite <- app_comm_cons. rewrite expect_major_head by lia. cbn [bind]. cbn [Z.leb Z.eqb].
    change 8 with (Z.of_nat 8). rewrite take_be. reflexivity.
Qed.

Lemma head_w_first : forall maj w v, 0 <= maj < 8 -> width_ok w v ->
  exists b rest, head_w maj w v = b :: rest /\ b / 32 = maj.
Proof.
  intros maj w v Hm Hw.
  destruct w as [|[|[|[|[|w]]]]]; cbn [width_ok] in Hw; try contradiction; cbn [head_w];
    eexists; eexists; (split; [reflexivity|]); lia.
Qed.

Lemma put_head_first : forall maj v, 0 <= maj < 8 -> 0 <= v ->
  exists b rest, put_head maj v = b :: rest /\ b / 32 = maj.
Proof.
  intros maj v Hm Hv. unfold put_head.
  repeat match goal with |- context [if ?c then _ else _] => destruct c eqn:? end;
    eexists; eexists; (split; [reflexivity|]);
    repeat match goal with H : (_ <=? _) = true |- _ => apply Z.leb_le in H end; lia.
Qed.

(* one step of [skip] on an input whose first byte has a given major type *)
Lemma skip_step : forall k b rest,
  skip (S k) (b :: rest) =
    let i := b :: rest in
    let m := b / 32 in
    if m <=? 1 then ignore_head m BadU16 i
    else if m <=? 3 then ignore_bytes m i
    else if m =? 4 then '(n, r) <- raw_u32 4 i ;; skip_n k n r
    else if m =? 5 then '(n, r) <- raw_u32 5 i ;; skip_n k (n * 2) r
    else if m =? 6 then r <- ignore_head 6 BadU16 i ;; skip k r
    else if m =? 7 then ignore_head 7 BadMajor i
    else Err BadMajor.
Proof. reflexivity. Qed.

Lemma skip_n_step : forall k n i, 0 < n ->
  skip_n (S k) n i = (r <- skip k i ;; skip_n k (n - 1) r).
Proof. intros k n i H. cbn [skip_n]. destruct (n <=? 0) eqn:E; [apply Z.leb_le in E; lia|reflexivity]. Qed.

Lemma skip_n_zero : forall k i, skip_n k 0 i = Ok i.
Proof. intros [|k] i; reflexivity. Qed.

Theorem skip_enc_both :
  (forall c, iwf c -> forall k r, (ifuel c <= k)%nat -> skip k (ienc c ++ r) = Ok r) /\
  (forall l, iwf_items l -> forall k r, (ifuel_items l <= k)%nat ->
     skip_n k (icount l) (ienc_items l ++ r) = Ok r).
Proof.
  apply item_items_ind.
  - (* IInt *)
    intros neg w v Hw k r Hk. cbn [ifuel] in Hk. destruct k as [|k]; [lia|].
    cbn [ienc]. set (maj := if neg then 1 else 0).
    assert (Hm : 0 <= maj < 8) by (destruct neg; cbn; lia).
    destruct (head_w_first maj w v Hm Hw) as [b [rest [E Eb]]].
    rewrite E. rewrite <- app_comm_cons. rewrite skip_step. cbv zeta. rewrite Eb.
    destruct (maj <=? 1) eqn:E1; [|apply Z.leb_gt in E1; destruct neg; cbn in *; lia].
    rewrite app_comm_cons, <- E. apply ignore_head_head_w. exact Hw.
  - (* IBytes *)
    intros b Hw k r Hk. cbn [ifuel] in Hk. destruct k as [|k]; [lia|].
    cbn [ienc]. destruct (put_head_first 2 (blen b) ltac:(lia) (blen_nonneg b)) as [x [rest [E Eb]]].
    rewrite <- app_assoc. rewrite E. rewrite <- app_comm_cons. rewrite skip_step. cbv zeta. rewrite Eb.
    cbn [Z.leb]. rewrite app_comm_cons, <- E. unfold ignore_bytes.
    rewrite raw_u32_put_head by (pose proof (blen_nonneg b); cbn [iwf] in Hw; lia).
    cbn [bind]. rewrite take_app. reflexivity.
  - (* IText *)
    intros b Hw k r Hk. cbn [ifuel] in Hk. destruct k as [|k]; [lia|].
    cbn [ienc]. destruct (put_head_first 3 (blen b) ltac:(lia) (blen_nonneg b)) as [x [rest [E Eb]]].
    rewrite <- app_assoc. rewrite E. rewrite <- app_comm_cons. rewrite skip_step. cbv zeta. rewrite Eb.
    cbn [Z.leb]. rewrite app_comm_cons, <- E. unfold ignore_bytes.
    rewrite raw_u32_put_head by (pose proof (blen_nonneg b); cbn [iwf] in Hw; lia).
    cbn [bind]. rewrite take_app. reflexivity.
  - (* IArr *)
    intros l IH [Hc Hw] k r Hk. cbn [ifuel] in Hk. destruct k as [|k]; [lia|].
    cbn [ienc]. destruct (put_head_first 4 (icount l) ltac:(lia) (icount_nonneg l)) as [x [rest [E Eb]]].
    rewrite <- app_assoc. rewrite E. rewrite <- app_comm_cons. rewrite skip_step. cbv zeta. rewrite Eb.
    cbn [Z.leb Z.eqb]. rewrite app_comm_cons, <- E.
    rewrite raw_u32_put_head by (pose proof (icount_nonneg l); lia).
    cbn [bind]. apply IH; [exact Hw|lia].
  - (* IMap *)
    intros l IH [Hev [Hc Hw]] k r Hk. cbn [ifuel] in Hk. destruct k as [|k]; [lia|].
    cbn [ienc]. pose proof (icount_nonneg l) as Hnn.
    assert (Hh : 0 <= icount l / 2) by (apply Z.div_pos; lia).
    destruct (put_head_first 5 (icount l / 2) ltac:(lia) Hh) as [x [rest [E Eb]]].
    rewrite <- app_assoc. rewrite E. rewrite <- app_comm_cons. rewrite skip_step. cbv zeta. rewrite Eb.
    cbn [Z.leb Z.eqb]. rewrite app_comm_cons, <- E.
    rewrite raw_u32_put_head by lia.
    cbn [bind]. replace (icount l / 2 * 2) with (icount l) by lia.
    apply IH; [exact Hw|lia].
  - (* ITag *)
    intros w t x IH [Hw Hx] k r Hk. cbn [ifuel] in Hk. destruct k as [|k]; [lia|].
    cbn [ienc]. destruct (head_w_first 6 w t ltac:(lia) Hw) as [b [rest [E Eb]]].
    rewrite <- app_assoc. rewrite E. rewrite <- app_comm_cons. rewrite skip_step. cbv zeta. rewrite Eb.
    cbn [Z.leb Z.eqb]. rewrite app_comm_cons, <- E.
    rewrite ignore_head_head_w by exact Hw. cbn [bind]. apply IH; [exact Hx|lia].
  - (* ISimple *)
    intros w v Hw k r Hk. cbn [ifuel] in Hk. destruct k as [|k]; [lia|].
    cbn [ienc]. destruct (head_w_first 7 w v ltac:(lia) Hw) as [b [rest [E Eb]]].
    rewrite E. rewrite <- app_comm_cons. rewrite skip_step. cbv zeta. rewrite Eb.
    cbn [Z.leb Z.eqb]. rewrite app_comm_cons, <- E. apply ignore_head_head_w. exact Hw.
  - (* INil *)
    intros _ k r _. cbn [icount ienc_items app]. apply skip_n_zero.
  - (* ICons *)
    intros x IHx l IHl [Hx Hl] k r Hk. cbn [ifuel_items] in Hk. destruct k as [|k]; [lia|].
    cbn [icount ienc_items]. pose proof (icount_nonneg l).
    rewrite skip_n_step by lia. rewrite <- app_assoc.
    rewrite IHx by (try exact Hx; lia). cbn [bind].
    replace (1 + icount l - 1) with (icount l) by lia.
    apply IHl; [exact Hl|lia].
Qed.

(* every item is at least one byte long, and the fuel it needs is at most twice its encoded length *)
Lemma head_w_len : forall maj w v, (1 <= List.length (head_w maj w v))%nat.
Proof. intros maj [|[|[|[|w]]]] v; cbn [head_w List.length]; lia. Qed.

Lemma ifuel_bound :
  (forall c, (1 <= List.length (ienc c))%nat /\ (ifuel c <= 2 * List.length (ienc c))%nat) /\
  (forall l, (ifuel_items l <= 2 * List.length (ienc_items l) + 1)%nat).
Proof.
  apply item_items_ind.
  - intros neg w v. cbn [ienc ifuel]. pose proof (head_w_len (if neg then 1 else 0) w v). lia.
  - intros b. cbn [ienc ifuel]. rewrite app_length. pose proof (put_head_nonempty 2 (blen b)). lia.
  - intros b. cbn [ienc ifuel]. rewrite app_length. pose proof (put_head_nonempty 3 (blen b)). lia.
  - intros l IH. cbn [ienc ifuel]. rewrite app_length. pose proof (put_head_nonempty 4 (icount l)). lia.
  - intros l IH. cbn [ienc ifuel]. rewrite app_length. pose proof (put_head_nonempty 5 (icount l / 2)). lia.
  - intros w t x [IH1 IH2]. cbn [ienc ifuel]. rewrite app_length. pose proof (head_w_len 6 w t). lia.
  - intros w v. cbn [ienc ifuel]. pose proof (head_w_len 7 w v). lia.
  - cbn. lia.
  - intros x [IHx1 IHx2] l IHl. cbn [ienc_items ifuel_items]. rewrite app_length. lia.
Qed.

(* C06 core: with the fuel the model actually uses (2 * length + 2), skipping an unknown member value
   consumes exactly its encoding, for every well-formed item and every continuation of the input *)
Theorem skip_item_enc : forall c r, iwf c -> skip_item (ienc c ++ r) = Ok r.
Proof.
  intros c r Hw. unfold skip_item, skip_fuel.
  apply (proj1 skip_enc_both c Hw).
  pose proof (proj1 ifuel_bound c) as [_ H]. rewrite app_length. lia.
Qed.
