(* Finite-domain reasoning: statements over all 256 byte values are proved by evaluating a boolean
   checker on the complete list of values and lifting with forallb_forall.  That is a proof over the
   whole (finite) domain, with the bound stated in each theorem. *)
From Ctap Require Import Base Schema Procs.
From Coq Require Import Lia.
Local Open Scope Z_scope.

Fixpoint zrange_nat (lo : Z) (n : nat) : list Z :=
  match n with O => [] | S k => lo :: zrange_nat (lo + 1) k end.
Definition zrange (lo hi : Z) : list Z := zrange_nat lo (Z.to_nat (hi - lo)).

Lemma in_zrange_nat : forall n lo b, lo <= b < lo + Z.of_nat n -> In b (zrange_nat lo n).
Proof.
  induction n as [|n IH]; intros lo b H; cbn [zrange_nat].
  - lia.
  - destruct (Z.eq_dec lo b) as [->|Hne]; [left; reflexivity|].
    right. apply IH. lia.
Qed.

Lemma in_zrange : forall lo hi b, lo <= b < hi -> In b (zrange lo hi).
Proof.
  intros lo hi b H. unfold zrange. apply in_zrange_nat. rewrite Z2Nat.id by lia. lia.
Qed.

Lemma forall_range (P : Z -> bool) (lo hi : Z) :
  forallb P (zrange lo hi) = true -> forall b, lo <= b < hi -> P b = true.
Proof.
  intros H b Hb. rewrite forallb_forall in H. apply H. apply in_zrange. exact Hb.
Qed.

Definition bytes256 : list Z := zrange 0 256.

Lemma forall_bytes (P : Z -> bool) :
  forallb P bytes256 = true -> forall b, 0 <= b < 256 -> P b = true.
Proof. apply forall_range. Qed.

(* ---- boolean equalities with their soundness lemmas *)
Lemma ty_eqb_eq : forall a b, ty_eqb a b = true -> a = b.
Proof.
  induction a; destruct b; cbn [ty_eqb]; intros H; try discriminate; try reflexivity;
    repeat match goal with
           | H : (_ && _)%bool = true |- _ => apply andb_true_iff in H; destruct H
           | H : Z.eqb _ _ = true |- _ => apply Z.eqb_eq in H; subst
           | H : String.eqb _ _ = true |- _ => apply String.eqb_eq in H; subst
           | IH : forall b, ty_eqb ?a b = true -> ?a = b, H : ty_eqb ?a _ = true |- _ => apply IH in H; subst
           end; reflexivity.
Qed.

Definition opv_eqb (a b : opv) : bool :=
  match a, b with
  | OpNamed x, OpNamed y => String.eqb x y
  | OpVendor x, OpVendor y => Z.eqb x y
  | _, _ => false
  end.
Lemma opv_eqb_eq a b : opv_eqb a b = true -> a = b.
Proof.
  destruct a, b; cbn; intros H; try discriminate.
  - apply String.eqb_eq in H; subst; reflexivity.
  - apply Z.eqb_eq in H; subst; reflexivity.
Qed.

Definition opt_eqb {A} (eq : A -> A -> bool) (a b : option A) : bool :=
  match a, b with
  | None, None => true
  | Some x, Some y => eq x y
  | _, _ => false
  end.
Lemma opt_eqb_eq {A} (eq : A -> A -> bool) :
  (forall x y, eq x y = true -> x = y) -> forall a b, opt_eqb eq a b = true -> a = b.
Proof.
  intros Heq [x|] [y|]; cbn; intros H; try discriminate; try reflexivity.
  apply Heq in H; subst; reflexivity.
Qed.

Definition route_eqb (a b : route) : bool :=
  match a, b with
  | RtDecode v t, RtDecode v' t' => String.eqb v v' && ty_eqb t t'
  | RtUnit v, RtUnit v' => String.eqb v v'
  | RtVendor c, RtVendor c' => Z.eqb c c'
  | RtInvalid, RtInvalid => true
  | _, _ => false           (* RtBroken never equals anything: a broken table never conforms *)
  end.
Lemma route_eqb_eq a b : route_eqb a b = true -> a = b.
Proof.
  destruct a, b; cbn; intros H; try discriminate; try reflexivity.
  - apply andb_true_iff in H; destruct H as [H1 H2].
    apply String.eqb_eq in H1; apply ty_eqb_eq in H2; subst; reflexivity.
  - apply String.eqb_eq in H; subst; reflexivity.
  - apply Z.eqb_eq in H; subst; reflexivity.
Qed.
