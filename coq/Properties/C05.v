(* C05 - Rejected CTAP2 requests report exactly the status code their fault calls for. *)
From Ctap Require Import Base Schema Wire Utf8 Typed WellTyped Procs Inst Tables ProcTables Finite CborItem WireP SkipP TypedP EntriesP FramingP C11P SerP TotalP RoundTripP PrefixP FaultP DeepP ObRequestSide ObRequestTotal ObOpTables FnShapes Shapes ObShapeRequest Deps ObDeps ObShapeStrings ObShapeFilters ObShapeTablesOp.
From Coq Require Import Relations.
Local Open Scope string_scope.
Local Open Scope Z_scope.

(* the error mapping: SerdeMissingField -> MissingParameter (0x14), every other decoder error ->
   InvalidCbor (0x12), unknown / unsupported command -> InvalidCommand (0x01) *)
Theorem c05_mapping : forall e : cerr,
  status_of_cerr spec_tables e = match e with SerdeMissingField => 0x14 | _ => 0x12 end.
Proof. exact spec_status_of_cerr. Qed.

Theorem c05_invalid_command_status : status_invalid_command spec_tables = 0x01.
Proof. vm_compute. reflexivity. Qed.

(* for EVERY input (any environment, any bytes), a rejection carries one of exactly three statuses *)
Theorem c05_status_range : forall e data s,
  request_deserialize spec_tables e data = RErr s -> s = 0x01 \/ s = 0x14 \/ s = 0x12.
Proof.
  intros e data s. apply request_status_range.
  - intros ce. rewrite spec_status_of_cerr. destruct ce; auto.
  - exact c05_invalid_command_status.
Qed.

(* the status says which kind of fault: 0x14 iff the typed decoder reported a missing member, 0x01 iff
   the command byte is not a supported command *)
Theorem c05_missing_iff : forall e b d v t, 0 <= b < 256 -> spec_route b = RtDecode v t ->
  (request_deserialize spec_tables e (b :: d) = RErr 0x14 <-> decode e t d = Err SerdeMissingField).
Proof.
  intros e b d v t Hb Hr. rewrite <- (route_of_spec b Hb) in Hr.
  rewrite (request_decode_step spec_tables e b d v t Hr).
  destruct (decode e t d) as [[x r]|ce| |]; split; intros H; try discriminate.
  - rewrite spec_status_of_cerr in H. destruct ce; try discriminate. reflexivity.
  - injection H as ->. rewrite spec_status_of_cerr. reflexivity.
Qed.

Theorem c05_invalid_command_iff : forall e b d, 0 <= b < 256 ->
  (request_deserialize spec_tables e (b :: d) = RErr 0x01 <-> spec_route b = RtInvalid).
Proof.
  intros e b d Hb. rewrite <- (route_of_spec b Hb).
  destruct (route_of spec_tables b) eqn:R.
  - rewrite (request_decode_step spec_tables e b d _ _ R).
    split; intros H; try discriminate.
    destruct (decode e t d) as [[x r]|ce| |]; try discriminate.
    rewrite spec_status_of_cerr in H. destruct ce; discriminate.
  - rewrite (request_unit_step spec_tables e b d _ R). split; discriminate.
  - rewrite (request_vendor_step spec_tables e b d _ R). split; discriminate.
  - rewrite (request_invalid_step spec_tables e b d R). split; intros; [reflexivity|].
    rewrite c05_invalid_command_status. reflexivity.
  - exfalso.
    assert (G : forall b, 0 <= b < 256 -> match route_of spec_tables b with RtBroken _ => false | _ => true end = true)
      by (apply forall_bytes; vm_compute; reflexivity).
    specialize (G b Hb). rewrite R in G. discriminate.
Qed.

(* an otherwise well-formed parameter map (entries in any order) that omits a required parameter is
   rejected with SerdeMissingField, i.e. MissingParameter 0x14 by c05_missing_iff - at the top level ... *)
Theorem c05_missing_required_parameter : forall e k name s d fs entries rest fd,
  lookup e name = Some (DStruct true s d fs) ->
  Forall (idx_entry_ok (dec e k) fs) entries ->
  NoDup (map en_label entries) ->
  In fd fs -> f_opt fd = false -> ~ In (f_label fd) (map en_label entries) ->
  blen entries < 4294967296 ->
  dec e (S k) (TNamed name) (put_head 5 (blen entries) ++ List.concat (map enc_idx_entry entries) ++ rest)%list
  = Err SerdeMissingField.
Proof. exact dec_indexed_missing. Qed.

(* ... and inside a nested text-keyed structure (with or without unknown members around) *)
Theorem c05_missing_required_member : forall e k name s d fs tes rest fd,
  lookup e name = Some (DStruct false s d fs) ->
  Forall (txt_entry_ok (dec e k) fs) tes ->
  NoDup (map en_label (known_entries tes)) ->
  In fd fs -> f_opt fd = false -> ~ In (f_label fd) (map en_label (known_entries tes)) ->
  blen tes < 4294967296 ->
  dec e (S k) (TNamed name) (put_head 5 (blen tes) ++ List.concat (map enc_txt_entry tes) ++ rest)%list
  = Err SerdeMissingField.
Proof. exact dec_text_missing. Qed.

(* ... and conversely a message lacking a required parameter is never accepted: an accepted indexed map
   is one whose finishing pass found every required member *)
Theorem c05_never_accept_incomplete : forall fs acc rec_,
  idx_finish fs acc = Ok rec_ -> forall fd, In fd fs -> f_opt fd = false -> rget (f_label fd) acc <> None.
Proof.
  intros fs acc rec_ H fd Hin Ho Hn. rewrite (idx_finish_missing fs acc fd Hin Ho Hn) in H. discriminate.
Qed.

(* a key that occurs twice is InvalidCbor-class (custom error), at the top level after ANY run of valid,
   distinct parameters, whatever the second value is and whatever follows ... *)
Theorem c05_duplicate_parameter : forall e k name s d fs entries dup n rest,
  lookup e name = Some (DStruct true s d fs) ->
  Forall (idx_entry_ok (dec e k) fs) entries ->
  NoDup (map en_label entries) ->
  In dup entries ->
  blen entries < n < 4294967296 ->
  dec e (S k) (TNamed name)
      (put_head 5 n ++ List.concat (map enc_idx_entry entries) ++ put_head 0 (idx_key (en_fd dup)) ++ rest)%list
  = Err SerdeDeCustom.
Proof. exact dec_indexed_duplicate. Qed.

(* ... and inside a nested text-keyed structure (a member's name or alias a second time) *)
Theorem c05_duplicate_member : forall e k name s d fs tes dup key n rest,
  lookup e name = Some (DStruct false s d fs) ->
  Forall (txt_entry_ok (dec e k) fs) tes ->
  NoDup (map en_label (known_entries tes)) ->
  In dup (known_entries tes) ->
  blen key < 4294967296 -> utf8_valid key = true -> find_txt_field key fs = Some (en_fd dup) ->
  blen tes < n < 4294967296 ->
  dec e (S k) (TNamed name)
      (put_head 5 n ++ List.concat (map enc_txt_entry tes) ++ ser_text key ++ rest)%list
  = Err SerdeDeCustom.
Proof. exact dec_text_duplicate. Qed.

(* THE DECODER'S VERDICT DEPENDS ONLY ON THE BYTES IT HAS READ: for every environment, type and input,
   a successful read is the same read when more bytes follow, and a failure other than UnexpectedEnd is
   the same failure when more bytes follow *)
Theorem c05_verdict_prefix_stable : forall e k t i x,
  (forall v r, dec e k t i = Ok (v, r) -> dec e k t (i ++ x)%list = Ok (v, (r ++ x)%list)) /\
  (forall ce, dec e k t i = Err ce -> ce <> UnexpectedEnd -> dec e k t (i ++ x)%list = Err ce).
Proof.
  intros e k t i x. split.
  - intros v r H. exact (dec_reads_only_its_value e k t i v r x H).
  - intros ce H Hc. exact (dec_failure_is_final e k t i ce x H Hc).
Qed.

(* TRUNCATION AT EVERY BYTE OFFSET.  For every command that carries parameters, every well-typed
   parameter value (any size, any subset of optional members) and every proper prefix of its encoding,
   ctap2::Request::deserialize answers InvalidCbor (0x12): never MissingParameter, never a request *)
Theorem c05_spec_declarations_wellformed : forallb (fun f => env_rt (spec_env f)) all_feats = true.
Proof. vm_compute. reflexivity. Qed.
Theorem c05_spec_request_types_decodable :
  forallb (fun f => forallb (route_ok (spec_env f)) bytes256) all_feats = true.
Proof. vm_compute. reflexivity. Qed.

Theorem c05_truncation_is_invalid_cbor : forall f b variant t v enc p x,
  In f all_feats -> 0 <= b < 256 -> spec_route b = RtDecode variant t ->
  wt (spec_env f) type_fuel t v = true -> encode (spec_env f) t v = Some enc ->
  enc = (p ++ x)%list -> x <> [] ->
  request_deserialize spec_tables (spec_env f) (b :: p) = RErr 0x12.
Proof.
  intros f b variant t v enc p x Hf Hb Hr W H Hs Hx.
  pose proof Hr as Hr'. rewrite <- (route_of_spec b Hb) in Hr'.
  rewrite (request_decode_step spec_tables (spec_env f) b p variant t Hr').
  pose proof (forallb_In (fun f => env_rt (spec_env f)) all_feats f c05_spec_declarations_wellformed Hf) as He.
  pose proof (forallb_In (fun f => forallb (route_ok (spec_env f)) bytes256) all_feats f c05_spec_request_types_decodable Hf) as Hd.
  cbv beta in He, Hd.
  pose proof (route_ok_decodable (spec_env f) b variant t (forall_bytes (route_ok (spec_env f)) Hd b Hb) Hr) as Hdec.
  rewrite encode_unfold in H.
  unfold decode. rewrite (truncation_rejected (spec_env f) type_fuel t v enc p x He Hdec W H Hs Hx).
  rewrite spec_status_of_cerr. reflexivity.
Qed.

(* READER-LEVEL FAULT CLASSES (all mapped to InvalidCbor by c05_mapping).  For every major type, value and
   continuation: a head wider than the value needs is NonMinimal; the 8-byte width where a length or 32-bit
   member is read, indefinite length (additional information 31) and the reserved 28..30 are range errors;
   a value of another major type is BadMajor *)
Theorem c05_nonminimal_integer : forall maj w v r, 0 <= maj < 8 -> wider_than_needed w v ->
  raw_u64 maj (head_w maj w v ++ r)%list = Err NonMinimal.
Proof. exact nonminimal_u64. Qed.
Theorem c05_nonminimal_length : forall maj w v r, 0 <= maj < 8 -> (w <= 3)%nat -> wider_than_needed w v ->
  raw_u32 maj (head_w maj w v ++ r)%list = Err NonMinimal.
Proof. exact nonminimal_u32. Qed.
Theorem c05_eight_byte_length : forall maj v r, 0 <= maj < 8 -> raw_u32 maj (head_w maj 4 v ++ r)%list = Err BadU32.
Proof. exact eight_byte_length_rejected. Qed.
Theorem c05_indefinite_length : forall maj a r, 0 <= maj < 8 -> 28 <= a <= 31 ->
  raw_u32 maj ((maj * 32 + a) :: r) = Err BadU32 /\ raw_u64 maj ((maj * 32 + a) :: r) = Err BadU64 /\
  raw_u8 maj ((maj * 32 + a) :: r) = Err BadU8.
Proof. exact indefinite_rejected. Qed.
Theorem c05_wrong_major : forall maj b r, b / 32 <> maj ->
  raw_u8 maj (b :: r) = Err BadMajor /\ raw_u32 maj (b :: r) = Err BadMajor /\ raw_u64 maj (b :: r) = Err BadMajor.
Proof. exact wrong_major_rejected. Qed.

(* WRONG DATA TYPE.  A member value that starts with a major type the member's type cannot start with (an
   unsigned where text is expected, a map where bytes are expected, ...; null for optional members is not a
   fault) is rejected by the member decoder, never as a missing parameter ... *)
Theorem c05_wrong_type_value : forall e k t b r,
  ~ In (b / 32) (first_majors e k t) -> 0 <= b < 256 -> rejected_not_missing (dec e k t (b :: r)).
Proof. exact wrong_type_rejected. Qed.

(* ... and the parameter map passes that error on unchanged, after any run of valid parameters before it:
   the status is the one of the member decoder's error, i.e. InvalidCbor by c05_mapping *)
Theorem c05_member_error_propagates : forall e k name s d fs entries fd n i' ce,
  lookup e name = Some (DStruct true s d fs) ->
  Forall (idx_entry_ok (dec e k) fs) entries ->
  NoDup (map en_label entries) ->
  ~ In (f_label fd) (map en_label entries) ->
  0 <= idx_key fd < 18446744073709551616 -> find_idx_field (idx_key fd) fs = Some fd ->
  blen entries < n < 4294967296 ->
  dec e k (if f_opt fd then inner_ty (f_ty fd) else f_ty fd) i' = Err ce ->
  dec e (S k) (TNamed name)
      (put_head 5 n ++ List.concat (map enc_idx_entry entries) ++ put_head 0 (idx_key fd) ++ i')%list
  = Err ce.
Proof. exact dec_indexed_member_error. Qed.

(* FAULT AT ANY DEPTH.  [steps e s s'] (coq/Proofs/DeepP.v) is the reflexive-transitive closure of the "calls" relation of
   the typed decoder: through options, lists, indexed and text-keyed maps and the two filtering lists, after any run of
   well-formed members / elements before the call (unknown text members skipped).  Whatever a decoder call at ANY nesting
   depth reports is what the request decoder reports: errors are never swallowed or re-labelled on the way up ... *)
Theorem c05_error_at_any_depth : forall e b body v t k' t' i' ce, 0 <= b < 256 -> spec_route b = RtDecode v t ->
  steps e (SDec type_fuel t body) (SDec k' t' i') -> dec e k' t' i' = Err ce ->
  request_deserialize spec_tables e (b :: body) = RErr (match ce with SerdeMissingField => 0x14 | _ => 0x12 end).
Proof.
  intros e b body v t k' t' i' ce Hb R St He. rewrite <- (route_of_spec b Hb) in R.
  rewrite (request_decode_step spec_tables e b body v t R). rewrite decode_dec.
  rewrite (error_at_depth e _ _ _ _ _ _ ce St He). rewrite spec_status_of_cerr. reflexivity.
Qed.

(* ... hence a value of the wrong CBOR data type at ANY depth of ANY request - inside nested maps, list elements, optional
   members, after any well-formed siblings - makes the request InvalidCbor (0x12), in every feature set, for the
   specification's declarations and for the declarations regenerated from /repo *)
Lemma wrong_type_deep : forall (envs : feats -> env),
  forallb (fun f => forallb (route_ok (envs f)) bytes256) all_feats = true ->
  forall f b body v t k' t' x r, In f all_feats -> 0 <= b < 256 -> spec_route b = RtDecode v t ->
  steps (envs f) (SDec type_fuel t body) (SDec k' t' (x :: r)) ->
  ~ In (x / 32) (first_majors (envs f) k' t') -> 0 <= x < 256 ->
  request_deserialize spec_tables (envs f) (b :: body) = RErr 0x12.
Proof.
  intros envs Hroutes f b body v t k' t' x r Hf Hb R St Hmaj Hx.
  pose proof (wrong_type_rejected (envs f) k' t' x r Hmaj Hx) as W.
  pose proof (routes_clean envs Hroutes f b v t body Hf Hb R) as C.
  destruct (wrong_type_at_depth_decode (envs f) t body k' t' x r St W C) as [ce [E N]].
  rewrite <- (route_of_spec b Hb) in R.
  rewrite (request_decode_step spec_tables (envs f) b body v t R).
  rewrite E. rewrite spec_status_of_cerr.
  destruct ce; try reflexivity. contradiction N; reflexivity.
Qed.

Theorem c05_wrong_type_at_any_depth : forall f b body v t k' t' x r, In f all_feats -> 0 <= b < 256 ->
  spec_route b = RtDecode v t ->
  steps (spec_env f) (SDec type_fuel t body) (SDec k' t' (x :: r)) ->
  ~ In (x / 32) (first_majors (spec_env f) k' t') -> 0 <= x < 256 ->
  request_deserialize spec_tables (spec_env f) (b :: body) = RErr 0x12.
Proof. apply wrong_type_deep. vm_compute. reflexivity. Qed.

Theorem c05_generated_wrong_type_at_any_depth : forall f b body v t k' t' x r, In f all_feats -> 0 <= b < 256 ->
  spec_route b = RtDecode v t ->
  steps (gen_env f) (SDec type_fuel t body) (SDec k' t' (x :: r)) ->
  ~ In (x / 32) (first_majors (gen_env f) k' t') -> 0 <= x < 256 ->
  request_deserialize spec_tables (gen_env f) (b :: body) = RErr 0x12.
Proof. apply wrong_type_deep. exact generated_request_total. Qed.

(* non-vacuity: a MakeCredential request whose user entity carries the integer 5 where the byte string `id` is expected -
   two maps deep, after two well-formed parameters; the derivation of [steps] is constructed, not computed *)
Definition c05_ex_deep_body : bytes :=
  ([0xA4; 0x01; 0x58; 0x20] ++ repeat 0x11 32 ++ [0x02; 0xA1; 0x62; 0x69; 0x64; 0x61; 0x78]
   ++ [0x03; 0xA1; 0x62; 0x69; 0x64; 0x05; 0x04; 0x80])%list.
Example c05_ex_deep :
  exists k' r, steps (spec_env []) (SDec type_fuel (TNamed "ctap2::make_credential::Request") c05_ex_deep_body)
                     (SDec k' (TBytesCap 64) (5 :: r))
  /\ ~ In (5 / 32) (first_majors (spec_env []) k' (TBytesCap 64))
  /\ request_deserialize spec_tables (spec_env []) (1 :: c05_ex_deep_body) = RErr 0x12.
Proof.
  eexists. eexists. split; [|split].
  - eapply Relation_Operators.rt1n_trans; [eapply St_idx; vm_compute; reflexivity|].
    eapply Relation_Operators.rt1n_trans; [eapply St_idx_next; [reflexivity|vm_compute; reflexivity|vm_compute; reflexivity|reflexivity|vm_compute; reflexivity]|].
    eapply Relation_Operators.rt1n_trans; [eapply St_idx_next; [reflexivity|vm_compute; reflexivity|vm_compute; reflexivity|reflexivity|vm_compute; reflexivity]|].
    eapply Relation_Operators.rt1n_trans; [eapply St_idx_member; [reflexivity|vm_compute; reflexivity|vm_compute; reflexivity|reflexivity]|].
    eapply Relation_Operators.rt1n_trans; [eapply St_txt; vm_compute; reflexivity|].
    eapply Relation_Operators.rt1n_trans; [eapply St_txt_member; [reflexivity|vm_compute; reflexivity|reflexivity|reflexivity]|].
    cbn. apply Relation_Operators.rt1n_refl.
  - vm_compute. intros [H|[]]. discriminate.
  - vm_compute. reflexivity.
Qed.

Definition c05_ex_client_pin : val :=
  VRec [("pin_protocol", VZ 1); ("sub_command", VEnum "GetPinToken");
        ("key_agreement", VSome (VRec [("x", VBytes (repeat 7 32)); ("y", VBytes (repeat 9 32))]));
        ("pin_auth", VNone); ("new_pin_enc", VNone); ("pin_hash_enc", VSome (VBytes (repeat 1 16)));
        ("_placeholder07", VNone); ("_placeholder08", VNone);
        ("permissions", VSome (VZ 5)); ("rp_id", VSome (VStr (bytes_of_string "example.org")))].
Definition c05_ex_enc : bytes :=
  match encode (spec_env []) (TNamed "ctap2::client_pin::Request") c05_ex_client_pin with Some b => b | None => [] end.
(* non-vacuity of the truncation theorem: a well-typed ClientPin request (117 bytes) cut after 40 bytes *)
Example c05_ex_truncation :
  wt (spec_env []) type_fuel (TNamed "ctap2::client_pin::Request") c05_ex_client_pin = true /\
  blen c05_ex_enc = 117 /\
  request_deserialize spec_tables (spec_env []) (6 :: firstn 40 c05_ex_enc) = RErr 0x12.
Proof. vm_compute. repeat split; reflexivity. Qed.

Theorem c05_empty_message : forall e, request_deserialize spec_tables e [] = RErr 0x12.
Proof. intros e. cbn [request_deserialize]. rewrite spec_status_of_cerr. reflexivity. Qed.

(* tie to the source: the error-mapping arms and the status discriminants regenerated from /repo *)
Definition err_tables_equiv (G : tables) : bool :=
  forallb (fun e => Z.eqb (status_of_cerr G e) (status_of_cerr spec_tables e))
          [WontImplement; NotYetImplemented; SerializeBufferFull; UnexpectedEnd; BadBool; BadUtf8; BadEnum;
           BadMajor; BadI8; BadI16; BadI32; BadI64; BadU8; BadU16; BadU32; BadU64; ExpectedNull;
           InexistentSliceToArrayError; NonMinimal; SerdeSerCustom; SerdeDeCustom; SerdeMissingField]
  && Z.eqb (status_invalid_command G) (status_invalid_command spec_tables)
  && list_eqb (pair_eqb String.eqb Z.eqb) (t_err_codes G) (t_err_codes spec_tables).

Theorem c05_generated_error_tables : forallb (fun f => err_tables_equiv (gen_tables f)) all_feats = true.
Proof. vm_compute. reflexivity. Qed.
Theorem c05_generated_conforms :
  forallb (fun f => request_side_conforms (gen_env f) (spec_env f)) all_feats = true.
Proof. exact generated_request_side. Qed.
Theorem c05_generated_route : forall f b, In f all_feats -> 0 <= b < 256 ->
  route_of (gen_tables f) b = spec_route b.
Proof. exact generated_route. Qed.

(* tie to the source for the hand-modelled procedural code: the bodies of these functions, as regenerated from
   /repo now, have the shape (literals, operators, calls, control flow, constants) the model was written against *)
Theorem c05_modelled_functions_unchanged_request : shapes_hold fn_shapes shapes_request = true.
Proof. exact generated_shapes_request. Qed.

(* the third-party crates the model represents by hand are pinned at the versions it was written against *)
Theorem c05_modelled_dependencies_pinned : deps_hold repo_lock_present lock_versions harness_lock_versions cargo_deps = true.
Proof. exact generated_deps. Qed.

(* further hand-modelled functions this property rests on *)
Theorem c05_modelled_functions_unchanged_strings : shapes_hold fn_shapes shapes_strings = true.
Proof. exact generated_shapes_strings. Qed.
Theorem c05_modelled_functions_unchanged_filters : shapes_hold fn_shapes shapes_filters = true.
Proof. exact generated_shapes_filters. Qed.

(* lookup tables, accessors, builders and further generators this property rests on *)
Theorem c05_modelled_functions_unchanged_tables_op : shapes_hold fn_shapes shapes_tables_op = true.
Proof. exact generated_shapes_tables_op. Qed.

(* the cargo features are independent switches with nothing on by default: a feature set of the model means exactly its cfgs *)
Theorem c05_feature_table_unchanged : features_hold cargo_features = true.
Proof. exact generated_features. Qed.

Eval vm_compute in "ASSUMPTIONS c05_mapping". Print Assumptions c05_mapping.
Eval vm_compute in "ASSUMPTIONS c05_invalid_command_status". Print Assumptions c05_invalid_command_status.
Eval vm_compute in "ASSUMPTIONS c05_status_range". Print Assumptions c05_status_range.
Eval vm_compute in "ASSUMPTIONS c05_missing_iff". Print Assumptions c05_missing_iff.
Eval vm_compute in "ASSUMPTIONS c05_invalid_command_iff". Print Assumptions c05_invalid_command_iff.
Eval vm_compute in "ASSUMPTIONS c05_missing_required_parameter". Print Assumptions c05_missing_required_parameter.
Eval vm_compute in "ASSUMPTIONS c05_missing_required_member". Print Assumptions c05_missing_required_member.
Eval vm_compute in "ASSUMPTIONS c05_never_accept_incomplete". Print Assumptions c05_never_accept_incomplete.
Eval vm_compute in "ASSUMPTIONS c05_empty_message". Print Assumptions c05_empty_message.
Eval vm_compute in "ASSUMPTIONS c05_generated_error_tables". Print Assumptions c05_generated_error_tables.
Eval vm_compute in "ASSUMPTIONS c05_generated_conforms". Print Assumptions c05_generated_conforms.
Eval vm_compute in "ASSUMPTIONS c05_generated_route". Print Assumptions c05_generated_route.
Eval vm_compute in "ASSUMPTIONS c05_duplicate_parameter". Print Assumptions c05_duplicate_parameter.
Eval vm_compute in "ASSUMPTIONS c05_duplicate_member". Print Assumptions c05_duplicate_member.
Eval vm_compute in "ASSUMPTIONS c05_verdict_prefix_stable". Print Assumptions c05_verdict_prefix_stable.
Eval vm_compute in "ASSUMPTIONS c05_spec_declarations_wellformed". Print Assumptions c05_spec_declarations_wellformed.
Eval vm_compute in "ASSUMPTIONS c05_spec_request_types_decodable". Print Assumptions c05_spec_request_types_decodable.
Eval vm_compute in "ASSUMPTIONS c05_truncation_is_invalid_cbor". Print Assumptions c05_truncation_is_invalid_cbor.
Eval vm_compute in "ASSUMPTIONS c05_modelled_functions_unchanged_request". Print Assumptions c05_modelled_functions_unchanged_request.
Eval vm_compute in "ASSUMPTIONS c05_nonminimal_integer". Print Assumptions c05_nonminimal_integer.
Eval vm_compute in "ASSUMPTIONS c05_nonminimal_length". Print Assumptions c05_nonminimal_length.
Eval vm_compute in "ASSUMPTIONS c05_eight_byte_length". Print Assumptions c05_eight_byte_length.
Eval vm_compute in "ASSUMPTIONS c05_indefinite_length". Print Assumptions c05_indefinite_length.
Eval vm_compute in "ASSUMPTIONS c05_wrong_major". Print Assumptions c05_wrong_major.
Eval vm_compute in "ASSUMPTIONS c05_wrong_type_value". Print Assumptions c05_wrong_type_value.
Eval vm_compute in "ASSUMPTIONS c05_member_error_propagates". Print Assumptions c05_member_error_propagates.
Eval vm_compute in "ASSUMPTIONS c05_modelled_dependencies_pinned". Print Assumptions c05_modelled_dependencies_pinned.
Eval vm_compute in "ASSUMPTIONS c05_modelled_functions_unchanged_strings". Print Assumptions c05_modelled_functions_unchanged_strings.
Eval vm_compute in "ASSUMPTIONS c05_modelled_functions_unchanged_filters". Print Assumptions c05_modelled_functions_unchanged_filters.
Eval vm_compute in "ASSUMPTIONS c05_modelled_functions_unchanged_tables_op". Print Assumptions c05_modelled_functions_unchanged_tables_op.
Eval vm_compute in "ASSUMPTIONS c05_error_at_any_depth". Print Assumptions c05_error_at_any_depth.
Eval vm_compute in "ASSUMPTIONS c05_wrong_type_at_any_depth". Print Assumptions c05_wrong_type_at_any_depth.
Eval vm_compute in "ASSUMPTIONS c05_generated_wrong_type_at_any_depth". Print Assumptions c05_generated_wrong_type_at_any_depth.
Eval vm_compute in "ASSUMPTIONS c05_feature_table_unchanged". Print Assumptions c05_feature_table_unchanged.
