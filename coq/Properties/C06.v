(* C06 - Unknown options, extensions and entity members are skipped, not fatal. *)
From Ctap Require Import Base Schema Wire Utf8 Typed Procs Inst Tables CborItem WireP SkipP TypedP EntriesP FramingP ObRequestSide FnShapes Shapes ObShapeRequest Deps ObDeps ObShapeStrings ObShapeFilters.
Local Open Scope string_scope.
Local Open Scope Z_scope.

(* The value of an unknown member may be ANY well-formed definite-length CBOR item - integers (any head
   width), byte and text strings, arrays and maps of any nesting depth, tags, half/single/double floats,
   simple values: the skipper consumes exactly its encoding and leaves what follows untouched.
   (iwf bounds lengths by 2^32 and asks for shortest-form LENGTH heads; nothing else.) *)
Theorem c06_skip_exact : forall c r, iwf c -> skip_item (ienc c ++ r)%list = Ok r.
Proof. exact skip_item_enc. Qed.

(* An unknown text key inside a text-keyed map: one loop iteration skips the member and continues with
   the SAME accumulator on the rest of the input - the members that follow are neither shifted, swallowed
   nor corrupted, whatever the member list (fs), the element decoder (decf) and the position (acc, rest). *)
Theorem c06_unknown_member_step :
  forall decf fs k n acc name c rest,
    0 < n -> blen name < 4294967296 -> utf8_valid name = true ->
    find_txt_field name fs = None -> iwf c ->
    txt_loop decf fs (S k) n acc (ser_text name ++ ienc c ++ rest)%list
    = txt_loop decf fs k (n - 1) acc rest.
Proof. exact txt_loop_skip_unknown. Qed.

(* THE PROPERTY, for any text-keyed host map in any environment: a map carrying any number of unknown
   text-keyed members, at any positions, holding any well-formed items, decodes to EXACTLY the same value
   as the map with those members removed (without_unknown), and leaves the same rest *)
Theorem c06_unknown_members_irrelevant : forall e k name s d fs tes rest rest',
  lookup e name = Some (DStruct false s d fs) ->
  Forall (txt_entry_ok (dec e k) fs) tes ->
  NoDup (map en_label (known_entries tes)) ->
  (forall fd, In fd fs -> f_opt fd = false -> In (f_label fd) (map en_label (known_entries tes))) ->
  blen tes < 4294967296 ->
  exists v,
    dec e (S k) (TNamed name) (put_head 5 (blen tes) ++ List.concat (map enc_txt_entry tes) ++ rest)%list = Ok (v, rest) /\
    dec e (S k) (TNamed name)
      (put_head 5 (blen (without_unknown tes)) ++ List.concat (map enc_txt_entry (without_unknown tes)) ++ rest')%list = Ok (v, rest').
Proof. exact dec_text_struct_unknown_irrelevant. Qed.

(* NESTING.  The record an enclosing map decodes to depends only on the VALUES its entries decode to, not on
   how each value is encoded: replacing a nested dictionary by the same dictionary with unknown members added
   anywhere inside it (same decoded value, by c06_unknown_members_irrelevant) leaves the enclosing request -
   integer-keyed parameter map or text-keyed dictionary, at any depth - unchanged *)
Theorem c06_enclosing_parameter_map_unchanged : forall e k name s d fs entries entries' rest rest',
  lookup e name = Some (DStruct true s d fs) ->
  Forall (idx_entry_ok (dec e k) fs) entries -> Forall (idx_entry_ok (dec e k) fs) entries' ->
  map en_fd entries = map en_fd entries' -> map en_val entries = map en_val entries' ->
  NoDup (map en_label entries) ->
  (forall fd, In fd fs -> f_opt fd = false -> In (f_label fd) (map en_label entries)) ->
  blen entries < 4294967296 ->
  exists v,
    dec e (S k) (TNamed name) (put_head 5 (blen entries) ++ List.concat (map enc_idx_entry entries) ++ rest)%list = Ok (v, rest) /\
    dec e (S k) (TNamed name) (put_head 5 (blen entries') ++ List.concat (map enc_idx_entry entries') ++ rest')%list = Ok (v, rest').
Proof. exact dec_indexed_congruence. Qed.

Theorem c06_enclosing_dictionary_unchanged : forall e k name s d fs tes tes' rest rest',
  lookup e name = Some (DStruct false s d fs) ->
  Forall (txt_entry_ok (dec e k) fs) tes -> Forall (txt_entry_ok (dec e k) fs) tes' ->
  map en_fd (known_entries tes) = map en_fd (known_entries tes') ->
  map en_val (known_entries tes) = map en_val (known_entries tes') ->
  NoDup (map en_label (known_entries tes)) ->
  (forall fd, In fd fs -> f_opt fd = false -> In (f_label fd) (map en_label (known_entries tes))) ->
  blen tes < 4294967296 -> blen tes' < 4294967296 ->
  exists v,
    dec e (S k) (TNamed name) (put_head 5 (blen tes) ++ List.concat (map enc_txt_entry tes) ++ rest)%list = Ok (v, rest) /\
    dec e (S k) (TNamed name) (put_head 5 (blen tes') ++ List.concat (map enc_txt_entry tes') ++ rest')%list = Ok (v, rest').
Proof. exact dec_text_congruence. Qed.

(* the host map types the specification lets platforms extend are text-keyed structs in every
   feature configuration (so c06_unknown_member_step applies to them) *)
Definition extensible_hosts : list string :=
  ["ctap2::AuthenticatorOptions"; "ctap2::make_credential::Extensions"; "ctap2::get_assertion::ExtensionsInput";
   "webauthn::PublicKeyCredentialRpEntity"; "webauthn::PublicKeyCredentialUserEntity";
   "webauthn::PublicKeyCredentialDescriptorRef"; "webauthn::PublicKeyCredentialParameters"].
Theorem c06_hosts_are_text_keyed :
  forallb (fun f => forallb (fun h => match lookup (spec_env f) h with
                                      | Some (DStruct false _ true _) => true | _ => false end)
                            extensible_hosts) all_feats = true.
Proof. vm_compute. reflexivity. Qed.

(* non-vacuity: a nested unknown value *)
Example c06_ex : iwf (IMap (ICons (IText [97]) (ICons (ITag 2 55799 (IArr (ICons (ISimple 2 15360) (ICons (IInt true 4 5) INil)))) INil))).
Proof. vm_compute. repeat split; try reflexivity; intro H; discriminate H. Qed.

(* tie to the source *)
Theorem c06_generated_conforms :
  forallb (fun f => request_side_conforms (gen_env f) (spec_env f)) all_feats = true.
Proof. exact generated_request_side. Qed.

(* tie to the source for the hand-modelled procedural code: the bodies of these functions, as regenerated from
   /repo now, have the shape (literals, operators, calls, control flow, constants) the model was written against *)
Theorem c06_modelled_functions_unchanged_request : shapes_hold fn_shapes shapes_request = true.
Proof. exact generated_shapes_request. Qed.

(* the third-party crates the model represents by hand are pinned at the versions it was written against *)
Theorem c06_modelled_dependencies_pinned : deps_hold repo_lock_present lock_versions harness_lock_versions cargo_deps = true.
Proof. exact generated_deps. Qed.

(* further hand-modelled functions this property rests on *)
Theorem c06_modelled_functions_unchanged_strings : shapes_hold fn_shapes shapes_strings = true.
Proof. exact generated_shapes_strings. Qed.
Theorem c06_modelled_functions_unchanged_filters : shapes_hold fn_shapes shapes_filters = true.
Proof. exact generated_shapes_filters. Qed.

(* the cargo features are independent switches with nothing on by default: a feature set of the model means exactly its cfgs *)
Theorem c06_feature_table_unchanged : features_hold cargo_features = true.
Proof. exact generated_features. Qed.

Eval vm_compute in "ASSUMPTIONS c06_skip_exact". Print Assumptions c06_skip_exact.
Eval vm_compute in "ASSUMPTIONS c06_unknown_member_step". Print Assumptions c06_unknown_member_step.
Eval vm_compute in "ASSUMPTIONS c06_unknown_members_irrelevant". Print Assumptions c06_unknown_members_irrelevant.
Eval vm_compute in "ASSUMPTIONS c06_hosts_are_text_keyed". Print Assumptions c06_hosts_are_text_keyed.
Eval vm_compute in "ASSUMPTIONS c06_generated_conforms". Print Assumptions c06_generated_conforms.
Eval vm_compute in "ASSUMPTIONS c06_modelled_functions_unchanged_request". Print Assumptions c06_modelled_functions_unchanged_request.
Eval vm_compute in "ASSUMPTIONS c06_enclosing_parameter_map_unchanged". Print Assumptions c06_enclosing_parameter_map_unchanged.
Eval vm_compute in "ASSUMPTIONS c06_enclosing_dictionary_unchanged". Print Assumptions c06_enclosing_dictionary_unchanged.
Eval vm_compute in "ASSUMPTIONS c06_modelled_dependencies_pinned". Print Assumptions c06_modelled_dependencies_pinned.
Eval vm_compute in "ASSUMPTIONS c06_modelled_functions_unchanged_strings". Print Assumptions c06_modelled_functions_unchanged_strings.
Eval vm_compute in "ASSUMPTIONS c06_modelled_functions_unchanged_filters". Print Assumptions c06_modelled_functions_unchanged_filters.
Eval vm_compute in "ASSUMPTIONS c06_feature_table_unchanged". Print Assumptions c06_feature_table_unchanged.
