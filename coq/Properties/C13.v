(* C13 - Over-long names are cut on a character boundary; over-long icons are dropped. *)
From Ctap Require Import Base Schema Wire Utf8 Typed Procs Inst Tables Limits WireP TypedP FramingP.
Local Open Scope string_scope.
Local Open Scope Z_scope.

(* text that already fits is returned as it is (any bytes, any limit) *)
Theorem c13_fits_unchanged : forall L s, blen s <= L -> truncate L s = Ok s.
Proof.
  intros L s H. unfold truncate, floor_char_boundary.
  destruct (blen s <=? L) eqn:E; [|apply Z.leb_gt in E; Lia.lia]. cbn [bind].
  unfold is_char_boundary. destruct (blen s =? 0) eqn:E0.
  - cbn [negb]. apply Z.eqb_eq in E0. rewrite E0. cbn [Z.to_nat firstn].
    destruct s; [|unfold blen in E0; cbn in E0; Lia.lia].
    destruct (L <? blen []) eqn:E1; [apply Z.ltb_lt in E1; unfold blen in *; cbn in *; Lia.lia|reflexivity].
  - rewrite Z.eqb_refl. cbn [negb].
    replace (firstn (Z.to_nat (blen s)) s) with s by (unfold blen; rewrite Nat2Z.id, firstn_all; reflexivity).
    destruct (L <? blen s) eqn:E1; [apply Z.ltb_lt in E1; Lia.lia|reflexivity].
Qed.

(* the limits the helpers are instantiated at: names 64, user icon 128 - regenerated from /repo *)
Theorem c13_limits_generated : forallb (fun f => limits_hold (gen_env f)) all_feats = true.
Proof. vm_compute. reflexivity. Qed.

(* which helper decodes which member: regenerated deserialize_with attributes = specification *)
Theorem c13_generated_conforms :
  forallb (fun f => request_side_conforms (gen_env f) (spec_env f)) all_feats = true.
Proof. exact generated_request_side. Qed.

(* concrete instances (WebAuthn 6.4.1 example "ag" + U+0308) *)
Example c13_ex1 : truncate 3 [0x61; 0x67; 0xCC; 0x88] = Ok [0x61; 0x67].
Proof. vm_compute. reflexivity. Qed.
Example c13_ex2 : truncate 4 [0x61; 0x67; 0xCC; 0x88] = Ok [0x61; 0x67; 0xCC; 0x88].
Proof. vm_compute. reflexivity. Qed.
Example c13_ex3 : truncate 2 [0xF0; 0x9F; 0x98; 0x80] = Ok [].
Proof. vm_compute. reflexivity. Qed.

Eval vm_compute in "ASSUMPTIONS c13_fits_unchanged". Print Assumptions c13_fits_unchanged.
Eval vm_compute in "ASSUMPTIONS c13_limits_generated". Print Assumptions c13_limits_generated.
Eval vm_compute in "ASSUMPTIONS c13_generated_conforms". Print Assumptions c13_generated_conforms.
