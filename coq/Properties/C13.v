(* C13 - Over-long names are cut on a character boundary; over-long icons are dropped. *)
From Ctap Require Import Base Schema Wire Utf8 Typed Procs Inst Tables Limits WireP TypedP FramingP Utf8P StrsP ObRequestSide FnShapes Shapes ObShapeStrings WellTyped Within LimitsP Deps ObDeps ObShapeRequest.
Local Open Scope string_scope.
Local Open Scope Z_scope.

(* text that already fits is returned as it is (any bytes, any limit) *)
Theorem c13_fits_unchanged : forall L s, blen s <= L -> truncate L s = Ok s.
Proof.
  intros L s H. unfold truncate, floor_char_boundary.
  destruct (blen s <=? L) eqn:E; [|apply Z.leb_gt in E; Lia.lia]. cbn [bind].
  unfold is_char_boundary. destruct (blen s =? 0) eqn:E0.
  - cbn [negb]. apply Z.eqb_eq in E0. rewrite E0. cbn [Z.to_nat firstn].
    destruct s; [|unfold blen in E0; cbn in E0; Lia.lia].
    destruct (L <? blen []) eqn:E1; [apply Z.ltb_lt in E1; unfold blen in *; cbn in *; Lia.lia|reflexivity].
  - rewrite Z.eqb_refl. cbn [negb].
    replace (firstn (Z.to_nat (blen s)) s) with s by (unfold blen; rewrite Nat2Z.id, firstn_all; reflexivity).
    destruct (L <? blen s) eqn:E1; [apply Z.ltb_lt in E1; Lia.lia|reflexivity].
Qed.

(* For every valid UTF-8 text of ANY length and every limit L >= 0: truncation never reaches a panic site
   (the slice, the push_str unwrap, the unwrap_unchecked in floor_char_boundary), and yields the prefix
   that ends at the greatest character boundary not beyond L: it is valid UTF-8, at most L bytes long,
   and no longer boundary-aligned prefix fits.  (boundary s k: k is 0 or the end of a well-formed
   character of s, StrsP.v.) *)
Theorem c13_truncate : forall s, utf8_valid s = true -> forall L, 0 <= L ->
  exists k, truncate L s = Ok (firstn k s) /\ boundary s k /\ Z.of_nat k <= L /\
            utf8_valid (firstn k s) = true /\ blen (firstn k s) <= L /\
            (forall k', boundary s k' -> Z.of_nat k' <= L -> (k' <= k)%nat).
Proof.
  intros s Hs L HL. apply utf8_valid_iff in Hs.
  destruct (truncate_spec s Hs L HL) as [k [H1 [H2 [H3 [H4 [H5 H6]]]]]].
  exists k. repeat split; try assumption. apply utf8_valid_iff. exact H4.
Qed.

(* the unsafe unwrap_unchecked precondition: on valid UTF-8 the window always contains a boundary byte *)
Theorem c13_floor_never_panics : forall s, utf8_valid s = true -> forall L, 0 <= L ->
  exists k, floor_char_boundary s L = Ok (Z.of_nat k) /\ boundary s k /\ Z.of_nat k <= L.
Proof.
  intros s Hs L HL. apply utf8_valid_iff in Hs.
  destruct (floor_char_boundary_spec s Hs L HL) as [k [H1 [H2 [H3 _]]]]. exists k. auto.
Qed.

(* text that is not valid UTF-8 is rejected by the string reader (any position of the fault) *)
Theorem c13_invalid_utf8_rejected : forall e k s r, blen s < 4294967296 -> utf8_valid s = false ->
  dec e (S k) TStrRef (ser_text s ++ r)%list = Err BadUtf8.
Proof. intros e k s r Hl Hu. rewrite dec_strref_exact by exact Hl. rewrite Hu. reflexivity. Qed.

(* the user icon helper: kept verbatim up to the capacity, reported absent beyond, never a failure *)
Theorem c13_icon_skip_if_too_long : forall decf fd i s r cap,
  f_with fd = Some "deserialize_from_str_and_skip_if_too_long" -> f_ty fd = TOpt (TStrCap cap) ->
  decf TStrRef i = Ok (VStr s, r) ->
  dec_with decf fd i = Ok (if blen s <=? cap then VSome (VStr s) else VNone, r).
Proof.
  intros decf fd i s r cap Hw Ht Hd. unfold dec_with. rewrite Hw.
  cbn [String.eqb Ascii.eqb Bool.eqb]. rewrite Hd. cbn [bind]. rewrite Ht. cbn [str_cap].
  destruct (blen s <=? cap); reflexivity.
Qed.

(* the name helper: absent / null -> None, otherwise the truncation above at the member's capacity *)
Theorem c13_name_truncated : forall decf fd i s r cap,
  f_with fd = Some "deserialize_from_str_and_truncate" -> f_ty fd = TOpt (TStrCap cap) ->
  decf (TOpt TStrRef) i = Ok (VSome (VStr s), r) ->
  dec_with decf fd i = (t <- truncate cap s ;; Ok (VSome (VStr t), r)).
Proof.
  intros decf fd i s r cap Hw Ht Hd. unfold dec_with. rewrite Hw.
  cbn [String.eqb Ascii.eqb Bool.eqb]. rewrite Hd. cbn [bind]. rewrite Ht. reflexivity.
Qed.

(* the limits the helpers are instantiated at: names 64, user icon 128 - regenerated from /repo *)
Theorem c13_limits_generated : forallb (fun f => limits_hold (gen_env f)) all_feats = true.
Proof. vm_compute. reflexivity. Qed.

(* for EVERY input: what a member decoded through one of the two lossy helpers holds afterwards is absent, or
   a text that is valid UTF-8 and at most the member's capacity long (64 for names, 128 for the icon) *)
Theorem c13_lossy_members_always_bounded : forall e k fs fd,
  txt_field_wf fs fd = true ->
  (forall t, sound (fun v => within e k t v = true) (dec e k t)) ->
  sound (fun v => member_within (within e k) false fd v = true) (dec_with (dec e k) fd).
Proof. exact sound_dec_with. Qed.

(* which helper decodes which member: regenerated deserialize_with attributes = specification *)
Theorem c13_generated_conforms :
  forallb (fun f => request_side_conforms (gen_env f) (spec_env f)) all_feats = true.
Proof. exact generated_request_side. Qed.

(* concrete instances (WebAuthn 6.4.1 example "ag" + U+0308) *)
Example c13_ex1 : truncate 3 [0x61; 0x67; 0xCC; 0x88] = Ok [0x61; 0x67].
Proof. vm_compute. reflexivity. Qed.
Example c13_ex2 : truncate 4 [0x61; 0x67; 0xCC; 0x88] = Ok [0x61; 0x67; 0xCC; 0x88].
Proof. vm_compute. reflexivity. Qed.
Example c13_ex3 : truncate 2 [0xF0; 0x9F; 0x98; 0x80] = Ok [].
Proof. vm_compute. reflexivity. Qed.

(* tie to the source for the hand-modelled procedural code: the bodies of these functions, as regenerated from
   /repo now, have the shape (literals, operators, calls, control flow, constants) the model was written against *)
Theorem c13_modelled_functions_unchanged_strings : shapes_hold fn_shapes shapes_strings = true.
Proof. exact generated_shapes_strings. Qed.

(* the third-party crates the model represents by hand are pinned at the versions it was written against *)
Theorem c13_modelled_dependencies_pinned : deps_hold repo_lock_present lock_versions harness_lock_versions cargo_deps = true.
Proof. exact generated_deps. Qed.

(* further hand-modelled functions this property rests on *)
Theorem c13_modelled_functions_unchanged_request : shapes_hold fn_shapes shapes_request = true.
Proof. exact generated_shapes_request. Qed.

(* the cargo features are independent switches with nothing on by default: a feature set of the model means exactly its cfgs *)
Theorem c13_feature_table_unchanged : features_hold cargo_features = true.
Proof. exact generated_features. Qed.

Eval vm_compute in "ASSUMPTIONS c13_fits_unchanged". Print Assumptions c13_fits_unchanged.
Eval vm_compute in "ASSUMPTIONS c13_truncate". Print Assumptions c13_truncate.
Eval vm_compute in "ASSUMPTIONS c13_floor_never_panics". Print Assumptions c13_floor_never_panics.
Eval vm_compute in "ASSUMPTIONS c13_invalid_utf8_rejected". Print Assumptions c13_invalid_utf8_rejected.
Eval vm_compute in "ASSUMPTIONS c13_icon_skip_if_too_long". Print Assumptions c13_icon_skip_if_too_long.
Eval vm_compute in "ASSUMPTIONS c13_name_truncated". Print Assumptions c13_name_truncated.
Eval vm_compute in "ASSUMPTIONS c13_limits_generated". Print Assumptions c13_limits_generated.
Eval vm_compute in "ASSUMPTIONS c13_generated_conforms". Print Assumptions c13_generated_conforms.
Eval vm_compute in "ASSUMPTIONS c13_modelled_functions_unchanged_strings". Print Assumptions c13_modelled_functions_unchanged_strings.
Eval vm_compute in "ASSUMPTIONS c13_lossy_members_always_bounded". Print Assumptions c13_lossy_members_always_bounded.
Eval vm_compute in "ASSUMPTIONS c13_modelled_dependencies_pinned". Print Assumptions c13_modelled_dependencies_pinned.
Eval vm_compute in "ASSUMPTIONS c13_modelled_functions_unchanged_request". Print Assumptions c13_modelled_functions_unchanged_request.
Eval vm_compute in "ASSUMPTIONS c13_feature_table_unchanged". Print Assumptions c13_feature_table_unchanged.
