(* C07 - Authenticator data is laid out byte-for-byte as WebAuthn specifies. *)
From Ctap Require Import Base Schema Wire Typed Procs Inst Tables ProcTables Finite FramingP WireP LayoutP C18P ObResponseSide FnShapes Shapes ObShapeAuthdata Deps ObDeps PlainDecls ObPlainAuthdata.
Local Open Scope string_scope.
Local Open Scope Z_scope.

(* For every relying-party hash, flag byte, counter, optional attested credential data (any lengths) and
   optional extension value: the result is EXACTLY
     rpIdHash || flags || signCount (4 bytes BE) || [aaguid || idLen (2 bytes BE) || id || key] || [CBOR ext]
   when that fits the capacity and the credential id is at most 65535 bytes, and the error Other
   otherwise.  There is no third outcome: no panic, no shortened or partially written data. *)
Theorem c07_layout : forall e rp flags count acd ext x,
  match ext with Some (t, v) => encode e t v = Some x | None => True end ->
  authdata_serialize spec_tables e rp flags count acd ext =
    let L := authdata_layout rp flags count acd (match ext with Some _ => Some x | None => None end) in
    if (blen L <=? 676) && id_ok acd then Ok L else ErrOther.
Proof. intros. apply (authdata_serialize_layout spec_tables); assumption. Qed.

(* the counter is 4 bytes big-endian, the id length 2 bytes big-endian *)
Theorem c07_counter_be : forall v, 0 <= v < 4294967296 -> blen (be 4 v) = 4 /\ of_be (be 4 v) = v.
Proof. intros v Hv. split; [apply blen_be|apply of_be_be; cbn; Lia.lia]. Qed.
Theorem c07_idlen_be : forall v, 0 <= v < 65536 -> blen (be 2 v) = 2 /\ of_be (be 2 v) = v.
Proof. intros v Hv. split; [apply blen_be|apply of_be_be; cbn; Lia.lia]. Qed.

(* flag bit positions: UP=0x01 UV=0x04 AT=0x40 ED=0x80; capacity 676 - regenerated from /repo *)
Definition authdata_consts_ok (G : tables) : bool :=
  list_eqb (pair_eqb String.eqb Z.eqb) (t_flags G)
    [("USER_PRESENCE", 0x01); ("USER_VERIFIED", 0x04); ("ATTESTED_CREDENTIAL_DATA", 0x40); ("EXTENSION_DATA", 0x80)]
  && (t_authdata_len G =? 676).
Theorem c07_generated_consts : forallb (fun f => authdata_consts_ok (gen_tables f)) all_feats = true.
Proof. vm_compute. reflexivity. Qed.
Theorem c07_spec_consts : authdata_consts_ok spec_tables = true.
Proof. vm_compute. reflexivity. Qed.

(* the extension types are the specification's *)
Theorem c07_generated_conforms :
  forallb (fun f => response_side_conforms (gen_env f) (spec_env f)) all_feats = true.
Proof. exact generated_response_side. Qed.

(* non-vacuity: a 32-byte hash, flags 0x41, counter 0x01020304, 16-byte aaguid, 2-byte id *)
Example c07_ex :
  authdata_serialize spec_tables (spec_env []) (repeat 0 32) 0x41 0x01020304
    (Some {| ac_aaguid := repeat 1 16; ac_id := [7; 8]; ac_key := [0xA0] |}) None
  = Ok (repeat 0 32 ++ [0x41] ++ [1; 2; 3; 4] ++ repeat 1 16 ++ [0; 2] ++ [7; 8] ++ [0xA0])%list.
Proof. vm_compute. reflexivity. Qed.

(* tie to the source for the hand-modelled procedural code: the bodies of these functions, as regenerated from
   /repo now, have the shape (literals, operators, calls, control flow, constants) the model was written against *)
Theorem c07_modelled_functions_unchanged_authdata : shapes_hold fn_shapes shapes_authdata = true.
Proof. exact generated_shapes_authdata. Qed.

(* the third-party crates the model represents by hand are pinned at the versions it was written against *)
Theorem c07_modelled_dependencies_pinned : deps_hold repo_lock_present lock_versions harness_lock_versions cargo_deps = true.
Proof. exact generated_deps. Qed.

(* the plain structures (no serde meaning of their own) whose member types the model relies on *)
Theorem c07_plain_structures_unchanged_authdata : plain_hold raw_decls plain_authdata = true.
Proof. exact generated_plain_authdata. Qed.

(* the cargo features are independent switches with nothing on by default: a feature set of the model means exactly its cfgs *)
Theorem c07_feature_table_unchanged : features_hold cargo_features = true.
Proof. exact generated_features. Qed.

Eval vm_compute in "ASSUMPTIONS c07_layout". Print Assumptions c07_layout.
Eval vm_compute in "ASSUMPTIONS c07_counter_be". Print Assumptions c07_counter_be.
Eval vm_compute in "ASSUMPTIONS c07_idlen_be". Print Assumptions c07_idlen_be.
Eval vm_compute in "ASSUMPTIONS c07_generated_consts". Print Assumptions c07_generated_consts.
Eval vm_compute in "ASSUMPTIONS c07_spec_consts". Print Assumptions c07_spec_consts.
Eval vm_compute in "ASSUMPTIONS c07_generated_conforms". Print Assumptions c07_generated_conforms.
Eval vm_compute in "ASSUMPTIONS c07_modelled_functions_unchanged_authdata". Print Assumptions c07_modelled_functions_unchanged_authdata.
Eval vm_compute in "ASSUMPTIONS c07_modelled_dependencies_pinned". Print Assumptions c07_modelled_dependencies_pinned.
Eval vm_compute in "ASSUMPTIONS c07_plain_structures_unchanged_authdata". Print Assumptions c07_plain_structures_unchanged_authdata.
Eval vm_compute in "ASSUMPTIONS c07_feature_table_unchanged". Print Assumptions c07_feature_table_unchanged.
