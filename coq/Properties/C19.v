(* C19 - Generated fuzzing inputs are always memory-safe, valid request values. *)
From Ctap Require Import Base Schema Utf8 Typed Arb Inst Tables Limits WireP Utf8P ArbP Within ArbTy ArbTyP ObArbGenable PlainDecls ObRequestEnums ObPlainU2fRequests Procs ProcTables Finite FramingP ObRequestSide FnShapes Shapes ObShapeArb Deps ObDeps ObShapeArbRequests PlainDecls ObPlainU2fRequests.
Local Open Scope string_scope.
Local Open Scope Z_scope.

(* For EVERY input byte string, each helper of src/arbitrary.rs either reports that the bytes ran out or
   returns a value within its capacity; no unwrap / try_into().unwrap() is reachable (APanic never). *)
Theorem c19_bytes : forall N u, 0 <= N -> good (fun b => blen b <= N) (arbitrary_bytes N u).
Proof. exact arbitrary_bytes_ok. Qed.

Theorem c19_byte_array : forall N u, 0 <= N -> good (fun b => blen b = N) (arbitrary_byte_array N u).
Proof. exact arbitrary_byte_array_ok. Qed.

(* text: at most N bytes AND valid UTF-8 - in particular the bytes handed to from_utf8_unchecked are the
   valid_up_to prefix, which is well-formed, so the unsafe call's precondition holds *)
Theorem c19_str : forall N u, 0 <= N ->
  good (fun s => blen s <= N /\ utf8_valid s = true) (arbitrary_str N u).
Proof. exact arbitrary_str_ok. Qed.

Theorem c19_key : forall u, good (fun k => blen (fst k) <= 32 /\ blen (snd k) <= 32) (arbitrary_key u).
Proof. exact arbitrary_key_ok. Qed.

(* vectors: never more than the capacity N elements, so push(..).unwrap() cannot fail *)
Theorem c19_vec : forall (A : Type) (f : U -> ares A) N u, 0 < N < 256 ->
  (forall u', match f u' with APanic _ => False | _ => True end) ->
  good (fun l => blen l <= N) (arbitrary_vec N f u).
Proof. intros A. exact (@arbitrary_vec_ok A). Qed.

(* the capacities the helpers are instantiated at are the declared ones (regenerated from /repo) *)
Theorem c19_capacities :
  forallb (fun f => limits_hold (gen_env f)) all_feats = true.
Proof. vm_compute. reflexivity. Qed.

Example c19_ex : arbitrary_str 4 [200; 0; 0; 0; 0; 0; 0; 0; 97; 195; 169; 240; 159] = AOk [97; 195; 169] [240; 159].
Proof. vm_compute. reflexivity. Qed.

(* the generator programs of the public types: whatever input bytes they are given, they either run out of
   data or return a value whose text members are valid UTF-8 and whose bounded members are within capacity;
   they never reach a panic site (good excludes APanic) *)
Theorem c19_rp_entity : forall u,
  good (fun v => exists id name icon, v = VRec [("id", VStr id); ("name", name); ("icon", icon)] /\
                 text_ok 256 id /\ opt_text_ok 64 name) (arb_rp u).
Proof. exact arb_rp_ok. Qed.
Theorem c19_user_entity : forall u,
  good (fun v => exists id icon name dn,
          v = VRec [("id", VBytes id); ("icon", icon); ("name", name); ("display_name", dn)] /\
          blen id <= 64 /\ opt_text_ok 128 icon /\ opt_text_ok 64 name /\ opt_text_ok 64 dn) (arb_user u).
Proof. exact arb_user_ok. Qed.
Theorem c19_hmac_secret_input : forall u,
  good (fun v => exists x y se sa pp,
          v = VRec [("key_agreement", VRec [("x", VBytes x); ("y", VBytes y)]);
                    ("salt_enc", VBytes se); ("salt_auth", VBytes sa); ("pin_protocol", pp)] /\
          blen x <= 32 /\ blen y <= 32 /\ blen se <= 80 /\ blen sa <= 32) (arb_hmac u).
Proof. exact arb_hmac_ok. Qed.

(* the borrowed generators (<&[u8]>, <&str>) and the credential descriptor built from them: for every input
   byte string the text is valid UTF-8 and no panic site (peek_bytes(size).unwrap(), from_utf8_unchecked on
   ill-formed bytes) is reached *)
Theorem c19_str_ref : forall u, bytes_ok u = true -> good (fun s => utf8_valid s = true) (arb_strref u).
Proof. exact arb_strref_ok. Qed.
Theorem c19_descriptor_ref : forall u, bytes_ok u = true ->
  good (fun v => exists id kt, v = VRec [("id", VBytes id); ("key_type", VStr kt)] /\ utf8_valid kt = true) (arb_descref u).
Proof. exact arb_descref_ok. Qed.

(* tie to the source for the hand-modelled procedural code: the bodies of these functions, as regenerated from
   /repo now, have the shape (literals, operators, calls, control flow, constants) the model was written against *)
(* EVERY GENERATED TYPE.  [arb_ty] (coq/Model/ArbTy.v) is the type-directed model of all hand-written impls of src/arbitrary.rs
   and of the derived ones: members in declaration order, each by the generator of its type.  The differential run compares it
   with `T::arbitrary` of the implementation for the seven request types, their nested structures and enumerations (value and
   bytes left).  For EVERY input byte string, in every feature set, for the specification's and the regenerated declarations: the
   generated value respects every declared capacity, exact length, integer range and element count, text is valid UTF-8,
   enumerations hold a declared variant ([within], the predicate C12 proves of whatever the decoder accepts) - and no panic site
   (unwrap, slice, index, from_utf8_unchecked on ill-formed bytes) is reachable: the outcome is a valid value or NotEnoughData *)
Theorem c19_spec_types_generable : forallb (fun f => all_genable_k (spec_env f) type_fuel) all_feats = true.
Proof. vm_compute. reflexivity. Qed.
Theorem c19_generated_types_generable : forallb (fun f => all_genable_k (gen_env f) type_fuel) all_feats = true.
Proof. exact generated_arb_genable. Qed.

Theorem c19_every_generated_value_valid : forall f name u, In f all_feats -> In name arb_types -> bytes_ok u = true ->
  match arb_ty (spec_env f) type_fuel (TNamed name) u with
  | AOk v u' => within (spec_env f) type_fuel (TNamed name) v = true /\ bytes_ok u' = true
  | ANotEnough => True
  | APanic _ => False
  end.
Proof. exact (arb_family_valid spec_env all_feats c19_spec_types_generable). Qed.

Theorem c19_generated_every_generated_value_valid : forall f name u, In f all_feats -> In name arb_types -> bytes_ok u = true ->
  match arb_ty (gen_env f) type_fuel (TNamed name) u with
  | AOk v u' => within (gen_env f) type_fuel (TNamed name) v = true /\ bytes_ok u' = true
  | ANotEnough => True
  | APanic _ => False
  end.
Proof. exact (arb_family_valid gen_env all_feats generated_arb_genable). Qed.

(* the general statement behind it: any type within the generators' coverage, any environment, any fuel *)
Theorem c19_generator_valid : forall e k t u, bytes_ok u = true -> genable e k t = true ->
  match arb_ty e k t u with
  | AOk v u' => within e k t v = true /\ bytes_ok u' = true
  | ANotEnough => True
  | APanic _ => False
  end.
Proof. intros e k t u Hb G. exact (arb_valid_k e k t u G Hb). Qed.

Theorem c19_ctap1_register : forall u,
  match arb_ctap1_register u with
  | AOk v _ => exists c a, v = VRec [("challenge", VBytes c); ("app_id", VBytes a)] /\ blen c = 32 /\ blen a = 32
  | ANotEnough => True
  | APanic _ => False
  end.
Proof. exact arb_ctap1_register_valid. Qed.

Theorem c19_ctap1_authenticate : forall cbs u, cbs <> [] -> bytes_ok u = true ->
  match arb_ctap1_authenticate cbs u with
  | AOk v _ => exists cb c a kh, v = VRec [("control_byte", VEnum cb); ("challenge", VBytes c); ("app_id", VBytes a); ("key_handle", VBytes kh)]
                                 /\ In cb cbs /\ blen c = 32 /\ blen a = 32
  | ANotEnough => True
  | APanic _ => False
  end.
Proof. exact arb_ctap1_authenticate_valid. Qed.

(* the request enumerations the property names: the variant lists regenerated from /repo are the recorded ones; the CTAP2
   generator yields a declared variant whose payload is absent, a byte (vendor code) or a valid value of its request type *)
Theorem c19_request_enums_unchanged : request_enums_hold raw_decls = true.
Proof. exact generated_request_enums. Qed.

Theorem c19_ctap2_request_generator : forall f u, In f all_feats -> bytes_ok u = true ->
  match arb_ctap2_request (gen_env f) ctap2_variants u with
  | AOk (name, v) u' =>
      (exists ts, In (name, ts) ctap2_variants /\
        (ts = [] /\ v = VUnit \/
         (exists c, v = VZ c /\ 0 <= c < 256) \/
         (exists n, ts = [TNamed n] /\ within (gen_env f) type_fuel (TNamed n) v = true))) /\ bytes_ok u' = true
  | ANotEnough => True
  | APanic _ => False
  end.
Proof.
  apply (arb_ctap2_family_valid gen_env all_feats ctap2_variants generated_arb_genable); [discriminate|vm_compute; reflexivity].
Qed.

Theorem c19_ctap1_request_generator : forall u, bytes_ok u = true ->
  match arb_ctap1_request ctap1_variants u with
  | AOk (name, v) u' => (exists ts, In (name, ts) ctap1_variants) /\ ctap1_payload_ok name v /\ bytes_ok u' = true
  | ANotEnough => True
  | APanic _ => False
  end.
Proof. intros u Hb. apply arb_ctap1_request_valid; [discriminate|vm_compute; reflexivity|exact Hb]. Qed.

(* non-vacuity: a (minimal) MakeCredential request from 64 zero bytes, and a relying-party entity with id "abc", name "hi" and
   the icon marker set *)
Example c19_ex_request :
  match arb_ty (spec_env []) type_fuel (TNamed "ctap2::make_credential::Request") (repeat 0 64) with
  | AOk v _ => within (spec_env []) type_fuel (TNamed "ctap2::make_credential::Request") v
  | _ => false
  end = true.
Proof. vm_compute. reflexivity. Qed.
Example c19_ex_rp :
  arb_ty (spec_env []) type_fuel (TNamed "webauthn::PublicKeyCredentialRpEntity")
         [3;0;0;0;0;0;0;0; 97;98;99; 1; 2;0;0;0;0;0;0;0; 104;105; 1; 77]
  = AOk (VRec [("id", VStr [97;98;99]); ("name", VSome (VStr [104;105])); ("icon", VSome VUnit)]) [77].
Proof. vm_compute. reflexivity. Qed.

(* the declarations the type-directed generator reads are the specification's (same obligation as C01): the extracted model
   the differential run executes is instantiated at the specification tables *)
Theorem c19_generated_conforms :
  forallb (fun f => request_side_conforms (gen_env f) (spec_env f)) all_feats = true.
Proof. exact generated_request_side. Qed.

Theorem c19_modelled_functions_unchanged_arb : shapes_hold fn_shapes shapes_arb = true.
Proof. exact generated_shapes_arb. Qed.

(* the third-party crates the model represents by hand are pinned at the versions it was written against *)
Theorem c19_modelled_dependencies_pinned : deps_hold repo_lock_present lock_versions harness_lock_versions cargo_deps = true.
Proof. exact generated_deps. Qed.

(* lookup tables, accessors, builders and further generators this property rests on *)
Theorem c19_modelled_functions_unchanged_arb_requests : shapes_hold fn_shapes shapes_arb_requests = true.
Proof. exact generated_shapes_arb_requests. Qed.

(* the plain structures (no serde meaning of their own) whose member types the model relies on *)
Theorem c19_plain_structures_unchanged_u2f_requests : plain_hold raw_decls plain_u2f_requests = true.
Proof. exact generated_plain_u2f_requests. Qed.

(* the cargo features are independent switches with nothing on by default: a feature set of the model means exactly its cfgs *)
Theorem c19_feature_table_unchanged : features_hold cargo_features = true.
Proof. exact generated_features. Qed.

Eval vm_compute in "ASSUMPTIONS c19_bytes". Print Assumptions c19_bytes.
Eval vm_compute in "ASSUMPTIONS c19_byte_array". Print Assumptions c19_byte_array.
Eval vm_compute in "ASSUMPTIONS c19_str". Print Assumptions c19_str.
Eval vm_compute in "ASSUMPTIONS c19_key". Print Assumptions c19_key.
Eval vm_compute in "ASSUMPTIONS c19_vec". Print Assumptions c19_vec.
Eval vm_compute in "ASSUMPTIONS c19_capacities". Print Assumptions c19_capacities.
Eval vm_compute in "ASSUMPTIONS c19_modelled_functions_unchanged_arb". Print Assumptions c19_modelled_functions_unchanged_arb.
Eval vm_compute in "ASSUMPTIONS c19_rp_entity". Print Assumptions c19_rp_entity.
Eval vm_compute in "ASSUMPTIONS c19_user_entity". Print Assumptions c19_user_entity.
Eval vm_compute in "ASSUMPTIONS c19_hmac_secret_input". Print Assumptions c19_hmac_secret_input.
Eval vm_compute in "ASSUMPTIONS c19_str_ref". Print Assumptions c19_str_ref.
Eval vm_compute in "ASSUMPTIONS c19_descriptor_ref". Print Assumptions c19_descriptor_ref.
Eval vm_compute in "ASSUMPTIONS c19_modelled_dependencies_pinned". Print Assumptions c19_modelled_dependencies_pinned.
Eval vm_compute in "ASSUMPTIONS c19_modelled_functions_unchanged_arb_requests". Print Assumptions c19_modelled_functions_unchanged_arb_requests.
Eval vm_compute in "ASSUMPTIONS c19_ctap1_authenticate". Print Assumptions c19_ctap1_authenticate.
Eval vm_compute in "ASSUMPTIONS c19_ctap1_register". Print Assumptions c19_ctap1_register.
Eval vm_compute in "ASSUMPTIONS c19_generator_valid". Print Assumptions c19_generator_valid.
Eval vm_compute in "ASSUMPTIONS c19_generated_every_generated_value_valid". Print Assumptions c19_generated_every_generated_value_valid.
Eval vm_compute in "ASSUMPTIONS c19_every_generated_value_valid". Print Assumptions c19_every_generated_value_valid.
Eval vm_compute in "ASSUMPTIONS c19_generated_types_generable". Print Assumptions c19_generated_types_generable.
Eval vm_compute in "ASSUMPTIONS c19_spec_types_generable". Print Assumptions c19_spec_types_generable.
Eval vm_compute in "ASSUMPTIONS c19_generated_conforms". Print Assumptions c19_generated_conforms.
Eval vm_compute in "ASSUMPTIONS c19_plain_structures_unchanged_u2f_requests". Print Assumptions c19_plain_structures_unchanged_u2f_requests.
Eval vm_compute in "ASSUMPTIONS c19_ctap2_request_generator". Print Assumptions c19_ctap2_request_generator.
Eval vm_compute in "ASSUMPTIONS c19_request_enums_unchanged". Print Assumptions c19_request_enums_unchanged.
Eval vm_compute in "ASSUMPTIONS c19_feature_table_unchanged". Print Assumptions c19_feature_table_unchanged.
Eval vm_compute in "ASSUMPTIONS c19_ctap1_request_generator". Print Assumptions c19_ctap1_request_generator.
