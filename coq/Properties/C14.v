(* C14 - Algorithm and attestation-format lists are filtered in order, never rejected. *)
From Ctap Require Import Base Schema Wire Utf8 Typed Procs Inst Tables ProcTables Finite FramingP WireP FilterP ObRequestSide FnShapes Shapes ObShapeFilters Deps ObDeps ObShapeRequest ObShapeAccessors ObShapeTablesReq PlainDecls ObPlainMisc.
Local Open Scope string_scope.
Local Open Scope Z_scope.

(* the selection predicate of pubKeyCredParams: type "public-key" and a known algorithm *)
Theorem c14_known_param : forall algs a t,
  known_param algs (VRec [("alg", VZ a); ("key_type", VStr t)]) =
    if bytes_eqb t (bytes_of_string "public-key") && zmem a algs then Some (VRec [("alg", VZ a)]) else None.
Proof.
  intros algs a t. unfold known_param. cbn [rget assoc String.eqb Ascii.eqb Bool.eqb].
  destruct (bytes_eqb t (bytes_of_string "public-key")); cbn [negb andb]; [|reflexivity].
  destruct (zmem a algs); reflexivity.
Qed.

(* for every list of decoded entries, of ANY length: the result is the first two selected entries, in
   the platform's order; entries naming unknown algorithms or types are dropped, never an error *)
Theorem c14_params_filter : forall algs vs,
  fold_left (fstep (known_param algs) 2) vs [] = firstn 2 (filter_map (known_param algs) vs).
Proof. intros. apply fold_fstep_nil. Qed.

(* the element loop of the visitor IS that fold (decf = the entry decoder, any input) *)
Theorem c14_loop_is_fold : forall (St : Type) decf (step : St -> val -> St) i vs r fuel acc,
  decodes decf i vs r -> (List.length vs <= fuel)%nat ->
  fold_loop decf step fuel (blen vs) acc i = Ok (fold_left step vs acc, r).
Proof. intros. eapply fold_loop_fold_left; eassumption. Qed.

(* attestation-format preference: known formats = first two known, in order; the flag = some unknown
   format was listed; never an error *)
Theorem c14_formats_filter : forall fmt_of vs,
  fold_left (pstep fmt_of) vs ([], false) =
    (firstn 2 (filter_map (sel_fmt fmt_of) vs), existsb (is_unknown fmt_of) vs).
Proof.
  intros. rewrite fold_pstep. cbn [fst snd orb]. rewrite fold_fstep_nil. reflexivity.
Qed.

(* the step functions used by the model are these (so the theorems speak about the model's decoder) *)
Theorem c14_model_steps : forall algs acc v,
  (match known_param algs v with
   | Some kp => if blen acc <? 2 then (acc ++ [kp])%list else acc
   | None => acc end) = fstep (known_param algs) 2 acc v.
Proof. reflexivity. Qed.

(* known algorithms and their number, the known formats: regenerated from /repo *)
Theorem c14_generated_constants :
  forallb (fun f => list_eqb Z.eqb (gen_arr f "webauthn::KNOWN_ALGS") [-7; -8]
                    && (gen_const f "webauthn::COUNT_KNOWN_ALGS" =? 2)
                    && (gen_const f "webauthn::ES256" =? -7) && (gen_const f "webauthn::ED_DSA" =? -8)) all_feats = true.
Proof. vm_compute. reflexivity. Qed.
Theorem c14_generated_conforms :
  forallb (fun f => request_side_conforms (gen_env f) (spec_env f)) all_feats = true.
Proof. exact generated_request_side. Qed.

Example c14_ex :
  fold_left (fstep (known_param [-7; -8]) 2)
    [VRec [("alg", VZ (-257)); ("key_type", VStr (bytes_of_string "public-key"))];
     VRec [("alg", VZ (-8)); ("key_type", VStr (bytes_of_string "public-key"))];
     VRec [("alg", VZ (-7)); ("key_type", VStr (bytes_of_string "private-key"))];
     VRec [("alg", VZ (-7)); ("key_type", VStr (bytes_of_string "public-key"))];
     VRec [("alg", VZ (-8)); ("key_type", VStr (bytes_of_string "public-key"))]] []
  = [VRec [("alg", VZ (-8))]; VRec [("alg", VZ (-7))]].
Proof. vm_compute. reflexivity. Qed.

(* tie to the source for the hand-modelled procedural code: the bodies of these functions, as regenerated from
   /repo now, have the shape (literals, operators, calls, control flow, constants) the model was written against *)
Theorem c14_modelled_functions_unchanged_filters : shapes_hold fn_shapes shapes_filters = true.
Proof. exact generated_shapes_filters. Qed.

(* the third-party crates the model represents by hand are pinned at the versions it was written against *)
Theorem c14_modelled_dependencies_pinned : deps_hold repo_lock_present lock_versions harness_lock_versions cargo_deps = true.
Proof. exact generated_deps. Qed.

(* further hand-modelled functions this property rests on *)
Theorem c14_modelled_functions_unchanged_request : shapes_hold fn_shapes shapes_request = true.
Proof. exact generated_shapes_request. Qed.

(* lookup tables, accessors, builders and further generators this property rests on *)
Theorem c14_modelled_functions_unchanged_accessors : shapes_hold fn_shapes shapes_accessors = true.
Proof. exact generated_shapes_accessors. Qed.

Theorem c14_modelled_functions_unchanged_tables_req : shapes_hold fn_shapes shapes_tables_req = true.
Proof. exact generated_shapes_tables_req. Qed.

(* the plain structures (no serde meaning of their own) whose member types the model relies on *)
Theorem c14_plain_structures_unchanged_misc : plain_hold raw_decls plain_misc = true.
Proof. exact generated_plain_misc. Qed.

(* the cargo features are independent switches with nothing on by default: a feature set of the model means exactly its cfgs *)
Theorem c14_feature_table_unchanged : features_hold cargo_features = true.
Proof. exact generated_features. Qed.

Eval vm_compute in "ASSUMPTIONS c14_known_param". Print Assumptions c14_known_param.
Eval vm_compute in "ASSUMPTIONS c14_params_filter". Print Assumptions c14_params_filter.
Eval vm_compute in "ASSUMPTIONS c14_loop_is_fold". Print Assumptions c14_loop_is_fold.
Eval vm_compute in "ASSUMPTIONS c14_formats_filter". Print Assumptions c14_formats_filter.
Eval vm_compute in "ASSUMPTIONS c14_model_steps". Print Assumptions c14_model_steps.
Eval vm_compute in "ASSUMPTIONS c14_generated_constants". Print Assumptions c14_generated_constants.
Eval vm_compute in "ASSUMPTIONS c14_generated_conforms". Print Assumptions c14_generated_conforms.
Eval vm_compute in "ASSUMPTIONS c14_modelled_functions_unchanged_filters". Print Assumptions c14_modelled_functions_unchanged_filters.
Eval vm_compute in "ASSUMPTIONS c14_modelled_dependencies_pinned". Print Assumptions c14_modelled_dependencies_pinned.
Eval vm_compute in "ASSUMPTIONS c14_modelled_functions_unchanged_request". Print Assumptions c14_modelled_functions_unchanged_request.
Eval vm_compute in "ASSUMPTIONS c14_modelled_functions_unchanged_accessors". Print Assumptions c14_modelled_functions_unchanged_accessors.
Eval vm_compute in "ASSUMPTIONS c14_modelled_functions_unchanged_tables_req". Print Assumptions c14_modelled_functions_unchanged_tables_req.
Eval vm_compute in "ASSUMPTIONS c14_plain_structures_unchanged_misc". Print Assumptions c14_plain_structures_unchanged_misc.
Eval vm_compute in "ASSUMPTIONS c14_feature_table_unchanged". Print Assumptions c14_feature_table_unchanged.
