(* C17 - A response fits the transport buffer completely or becomes a one-byte error. *)
From Ctap Require Import Base Schema Wire Typed Procs Inst Tables ProcTables Finite FramingP ObRespTables ObResponseSide FnShapes Shapes ObShapeResponse Deps ObDeps ObShapeFilters ObShapeBuilders.
Local Open Scope string_scope.
Local Open Scope Z_scope.

(* For every response variant that carries a CBOR body, every value, every capacity N >= 1 and every
   prior buffer: the buffer after the call is the complete message (status 0x00 plus the whole body,
   the empty map collapsed to nothing) when the body fits the N-1 bytes behind the status byte, and
   exactly [0x7F] otherwise.  There is no third outcome: never a truncated body, never a panic. *)
Theorem c17_fits_or_7f : forall e variant payload n prior t b,
  1 <= n -> serialising spec_tables variant t -> encode e t payload = Some b ->
  response_serialize spec_tables e variant payload n prior =
    Ok (if blen b <=? n - 1 then msg b else [0x7F]).
Proof. intros. erewrite response_serialize_ser by eassumption. reflexivity. Qed.

Theorem c17_parameterless : forall e variant payload n prior,
  1 <= n -> In variant ["Reset"; "Selection"; "Vendor"] ->
  response_serialize spec_tables e variant payload n prior = Ok [0].
Proof.
  intros e variant payload n prior Hn Hin.
  destruct Hin as [<-|[<-|[<-|[]]]]; eapply response_serialize_empty_arm; try exact Hn; reflexivity.
Qed.

(* the result does not depend on what the buffer held before the call *)
Theorem c17_prior_independent : forall T e variant payload n p p',
  response_serialize T e variant payload n p = response_serialize T e variant payload n p'.
Proof. exact response_serialize_prior. Qed.

(* The property's reading of "fits" (|complete message| <= N) and the encoder's (|body| <= N-1
   before collapsing the empty map) agree except in exactly one class: N = 1 and body = [A0]. *)
Theorem c17_only_exception : forall b n, 1 <= n ->
  blen (msg b) <= n -> ~ (blen b <= n - 1) -> b = [160] /\ n = 1.
Proof. exact fits_readings. Qed.

Theorem c17_except : forall e variant payload n prior t b,
  1 <= n -> serialising spec_tables variant t -> encode e t payload = Some b ->
  ~ (b = [160] /\ n = 1) ->
  response_serialize spec_tables e variant payload n prior =
    Ok (if blen (msg b) <=? n then msg b else [0x7F]).
Proof.
  intros e variant payload n prior t b Hn Hs He Hk.
  rewrite (c17_fits_or_7f e variant payload n prior t b Hn Hs He).
  destruct (blen b <=? n - 1) eqn:E1; destruct (blen (msg b) <=? n) eqn:E2; try reflexivity.
  - apply Z.leb_le in E1. apply Z.leb_gt in E2. pose proof (fits_readings_conv b n Hn E1). Lia.lia.
  - apply Z.leb_gt in E1. apply Z.leb_le in E2. exfalso. apply Hk.
    apply (fits_readings b n Hn E2). Lia.lia.
Qed.

(* growing the buffer never loses a response, and the capacity decides only WHETHER the message is delivered, never WHAT it is:
   there is one threshold, |body| + 1, below which every capacity gives [7F] and from which every capacity gives the same message *)
Theorem c17_monotone_in_capacity : forall e variant payload n n' p p' t b,
  1 <= n -> n <= n' -> serialising spec_tables variant t -> encode e t payload = Some b ->
  blen b <= n - 1 ->
  response_serialize spec_tables e variant payload n p = Ok (msg b) /\
  response_serialize spec_tables e variant payload n' p' = Ok (msg b).
Proof. exact (response_serialize_monotone spec_tables). Qed.

Theorem c17_single_threshold : forall e variant payload t b,
  serialising spec_tables variant t -> encode e t payload = Some b ->
  forall n p, 1 <= n ->
    (n < blen b + 1 -> response_serialize spec_tables e variant payload n p = Ok [0x7F]) /\
    (blen b + 1 <= n -> response_serialize spec_tables e variant payload n p = Ok (msg b)).
Proof. exact (response_serialize_threshold spec_tables). Qed.

(* known finding F3: the exception class is inhabited - with N = 1 a ClientPin response with no member
   set is the one-byte message [00], which fits, yet the buffer is left as [7F] *)
Definition f3_value : val :=
  VRec [("key_agreement", VNone); ("pin_token", VNone); ("retries", VNone);
        ("power_cycle_state", VNone); ("uv_retries", VNone)].
Theorem c17_refuted_at_n1 :
  encode (spec_env []) (TNamed "ctap2::client_pin::Response") f3_value = Some [160] /\
  blen (msg [160]) <= 1 /\
  response_serialize spec_tables (spec_env []) "ClientPin" f3_value 1 [] = Ok [0x7F].
Proof. vm_compute. repeat split; discriminate. Qed.

(* which variants serialise a body, and with which type *)
Theorem c17_serialising_variants :
  serialising spec_tables "GetInfo" (TNamed "ctap2::get_info::Response") /\
  serialising spec_tables "MakeCredential" (TNamed "ctap2::make_credential::Response") /\
  serialising spec_tables "GetAssertion" (TNamed "ctap2::get_assertion::Response") /\
  serialising spec_tables "GetNextAssertion" (TNamed "ctap2::get_assertion::Response") /\
  serialising spec_tables "ClientPin" (TNamed "ctap2::client_pin::Response") /\
  serialising spec_tables "CredentialManagement" (TNamed "ctap2::credential_management::Response") /\
  serialising spec_tables "LargeBlobs" (TNamed "ctap2::large_blobs::Response").
Proof. repeat split; reflexivity. Qed.

(* tie to the source *)
Theorem c17_generated_tables : forallb (fun f => resp_tables_equiv (gen_tables f)) all_feats = true.
Proof. exact generated_resp_tables. Qed.
Theorem c17_generated_conforms :
  forallb (fun f => response_side_conforms (gen_env f) (spec_env f)) all_feats = true.
Proof. exact generated_response_side. Qed.

(* tie to the source for the hand-modelled procedural code: the bodies of these functions, as regenerated from
   /repo now, have the shape (literals, operators, calls, control flow, constants) the model was written against *)
Theorem c17_modelled_functions_unchanged_response : shapes_hold fn_shapes shapes_response = true.
Proof. exact generated_shapes_response. Qed.

(* the third-party crates the model represents by hand are pinned at the versions it was written against *)
Theorem c17_modelled_dependencies_pinned : deps_hold repo_lock_present lock_versions harness_lock_versions cargo_deps = true.
Proof. exact generated_deps. Qed.

(* the cargo features are independent switches with nothing on by default: a feature set of the model means exactly its cfgs *)
Theorem c17_feature_table_unchanged : features_hold cargo_features = true.
Proof. exact generated_features. Qed.

(* the hand-written Serialize impls nested in the responses (filtered algorithm list) and the builders *)
Theorem c17_modelled_functions_unchanged_filters : shapes_hold fn_shapes shapes_filters = true.
Proof. exact generated_shapes_filters. Qed.
Theorem c17_modelled_functions_unchanged_builders : shapes_hold fn_shapes shapes_builders = true.
Proof. exact generated_shapes_builders. Qed.

Eval vm_compute in "ASSUMPTIONS c17_fits_or_7f". Print Assumptions c17_fits_or_7f.
Eval vm_compute in "ASSUMPTIONS c17_parameterless". Print Assumptions c17_parameterless.
Eval vm_compute in "ASSUMPTIONS c17_prior_independent". Print Assumptions c17_prior_independent.
Eval vm_compute in "ASSUMPTIONS c17_only_exception". Print Assumptions c17_only_exception.
Eval vm_compute in "ASSUMPTIONS c17_except". Print Assumptions c17_except.
Eval vm_compute in "ASSUMPTIONS c17_monotone_in_capacity". Print Assumptions c17_monotone_in_capacity.
Eval vm_compute in "ASSUMPTIONS c17_single_threshold". Print Assumptions c17_single_threshold.
Eval vm_compute in "ASSUMPTIONS c17_refuted_at_n1". Print Assumptions c17_refuted_at_n1.
Eval vm_compute in "ASSUMPTIONS c17_serialising_variants". Print Assumptions c17_serialising_variants.
Eval vm_compute in "ASSUMPTIONS c17_generated_tables". Print Assumptions c17_generated_tables.
Eval vm_compute in "ASSUMPTIONS c17_generated_conforms". Print Assumptions c17_generated_conforms.
Eval vm_compute in "ASSUMPTIONS c17_modelled_functions_unchanged_response". Print Assumptions c17_modelled_functions_unchanged_response.
Eval vm_compute in "ASSUMPTIONS c17_modelled_dependencies_pinned". Print Assumptions c17_modelled_dependencies_pinned.
Eval vm_compute in "ASSUMPTIONS c17_feature_table_unchanged". Print Assumptions c17_feature_table_unchanged.
Eval vm_compute in "ASSUMPTIONS c17_modelled_functions_unchanged_filters". Print Assumptions c17_modelled_functions_unchanged_filters.
Eval vm_compute in "ASSUMPTIONS c17_modelled_functions_unchanged_builders". Print Assumptions c17_modelled_functions_unchanged_builders.
