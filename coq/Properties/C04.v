(* C04 - Decoding untrusted CTAP2 bytes never panics, aborts or hangs. *)
From Ctap Require Import Base Schema Wire Utf8 Typed Procs Inst Tables ProcTables CborItem WireP SkipP TypedP FramingP C11P Finite Utf8P StrsP SerP TotalP ObRequestSide ObOpTables ObRequestTotal FnShapes Shapes ObShapeRequest ObShapeStrings ObAllTotal Deps ObDeps ObShapeFilters ObShapeTablesOp ObShapeTablesReq ObShapeTablesInfo.
Local Open Scope string_scope.
Local Open Scope Z_scope.

(* the model is a function: the same bytes always give the same result *)
Theorem c04_deterministic : forall T e d1 d2, d1 = d2 -> request_deserialize T e d1 = request_deserialize T e d2.
Proof. intros; subst; reflexivity. Qed.

(* The generic skipper (used for every unknown member) terminates on EVERY input - no length bound,
   no well-formedness assumption - with the fuel 2 * length + 2: its recursion depth and loop iterations
   are bounded by the input length, and it never reaches a Panic site. *)
Theorem c04_skipper_total : forall i, clean (skip_item i).
Proof. exact skip_item_total. Qed.

(* the integer / length readers never panic and never run out of fuel *)
Theorem c04_readers_total : forall maj i, clean (raw_u32 maj i) /\ clean (ignore_head maj BadU16 i) /\ clean (ignore_bytes maj i).
Proof. intros. repeat split; [apply raw_u32_clean|apply ignore_head_clean|apply ignore_bytes_clean]. Qed.

(* the string helpers of webauthn.rs (the slice &s[..split], push_str(..).unwrap() and the unsafe
   unwrap_unchecked in floor_char_boundary) never reach their panic sites on text the string reader has
   accepted (valid UTF-8), whatever its length and whatever the limit *)
Theorem c04_string_helpers_total : forall s L, utf8_valid s = true -> 0 <= L -> clean (truncate L s).
Proof.
  intros s L Hs HL. apply utf8_valid_iff in Hs.
  destruct (truncate_spec s Hs L HL) as [k [H _]]. rewrite H. exact I.
Qed.

(* the empty message and every command byte that carries no parameters or is rejected: no decoder is run *)
Theorem c04_no_decode_without_parameters : forall e b d, 0 <= b < 256 ->
  (forall v t, spec_route b <> RtDecode v t) ->
  exists r, request_deserialize spec_tables e (b :: d) = r /\ match r with RPanic _ | RFuel => False | _ => True end.
Proof.
  intros e b d Hb Hnd. pose proof (route_of_spec b Hb) as R.
  destruct (spec_route b) eqn:S.
  - exfalso. eapply Hnd. reflexivity.
  - eexists. split; [apply request_unit_step; exact R|exact I].
  - eexists. split; [apply request_vendor_step; exact R|exact I].
  - eexists. split; [apply request_invalid_step; exact R|exact I].
  - exfalso.
    assert (G : forall b, 0 <= b < 256 -> match spec_route b with RtBroken _ => false | _ => true end = true)
      by (apply forall_bytes; vm_compute; reflexivity).
    specialize (G b Hb). rewrite S in G. discriminate.
Qed.

(* a parameter-bearing command panics or runs out of fuel only if the typed decoder does *)
Theorem c04_reduces_to_typed_decoder : forall e b d v t, 0 <= b < 256 -> spec_route b = RtDecode v t ->
  clean (decode e t d) ->
  match request_deserialize spec_tables e (b :: d) with RPanic _ | RFuel => False | _ => True end.
Proof.
  intros e b d v t Hb Hr Hc. rewrite <- (route_of_spec b Hb) in Hr.
  rewrite (request_decode_step spec_tables e b d v t Hr).
  destruct (decode e t d) as [[x r]|ce| |]; cbn in Hc; try contradiction; exact I.
Qed.

(* THE TYPED DECODER IS TOTAL.  For every declaration environment e, every fuel k and every type t
   that is decodable within k (a boolean, evaluated on the declarations), decoding ANY byte string - no
   bound on its length, no assumption on its contents - terminates within the fuel, reaches no Panic
   site (undeclared type, unmodelled deserializer, off-boundary slice, push_str().unwrap(), unchecked
   unwrap in floor_char_boundary ...) and, when it succeeds, has consumed at least one byte. *)
Theorem c04_typed_decoder_total : forall e k t, decodable e k t = true ->
  forall i, clean (dec e k t i) /\
            (forall v r, dec e k t i = Ok (v, r) -> (List.length r < List.length i)%nat).
Proof.
  intros e k t D i. split; [eapply okl_clean; apply (dec_total e k t D i)|].
  intros v r H. exact (dec_consumes e k t i v r D H).
Qed.

(* every parameter type of every command byte is decodable within the model's fuel, in every feature
   configuration: in the specification tables ... *)
Theorem c04_request_types_decodable :
  forallb (fun f => forallb (route_ok (spec_env f)) bytes256) all_feats = true.
Proof. vm_compute. reflexivity. Qed.
(* ... and in the declarations regenerated from /repo (obligation on the current source) *)
Theorem c04_generated_request_types_decodable :
  forallb (fun f => forallb (route_ok (gen_env f)) bytes256) all_feats = true.
Proof. exact generated_request_total. Qed.

Lemma routes_total : forall (envs : feats -> env),
  forallb (fun f => forallb (route_ok (envs f)) bytes256) all_feats = true ->
  forall f b v t d, In f all_feats -> 0 <= b < 256 -> spec_route b = RtDecode v t -> clean (decode (envs f) t d).
Proof.
  intros envs H f b v t d Hf Hb R.
  pose proof (forallb_In (fun f => forallb (route_ok (envs f)) bytes256) all_feats f H Hf) as D.
  cbv beta in D.
  apply decode_clean_of_decodable. apply (route_ok_decodable (envs f) b v t); [|exact R].
  exact (forall_bytes (route_ok (envs f)) D b Hb).
Qed.

Lemma no_broken_route : forall b w, 0 <= b < 256 -> spec_route b <> RtBroken w.
Proof.
  intros b w Hb R.
  assert (G : forall b, 0 <= b < 256 -> match spec_route b with RtBroken _ => false | _ => true end = true)
    by (apply forall_bytes; vm_compute; reflexivity).
  specialize (G b Hb). rewrite R in G. discriminate.
Qed.

(* C04 for the whole of ctap2::Request::deserialize: whatever the bytes, the call returns - a request
   or a status - and neither panics nor runs out of fuel *)
Theorem c04_request_deserialize_total : forall f d, In f all_feats ->
  (match d with b :: _ => 0 <= b < 256 | [] => True end) ->
  match request_deserialize spec_tables (spec_env f) d with RPanic _ | RFuel => False | _ => True end.
Proof.
  intros f d Hf Hb. destruct d as [|b d]; [exact I|].
  destruct (spec_route b) as [v t|v|c| |w] eqn:R.
  - apply (c04_reduces_to_typed_decoder (spec_env f) b d v t Hb R).
    exact (routes_total spec_env c04_request_types_decodable f b v t d Hf Hb R).
  - destruct (c04_no_decode_without_parameters (spec_env f) b d Hb) as [r [E C]]; [intros; congruence|]. rewrite E. exact C.
  - destruct (c04_no_decode_without_parameters (spec_env f) b d Hb) as [r [E C]]; [intros; congruence|]. rewrite E. exact C.
  - destruct (c04_no_decode_without_parameters (spec_env f) b d Hb) as [r [E C]]; [intros; congruence|]. rewrite E. exact C.
  - destruct (c04_no_decode_without_parameters (spec_env f) b d Hb) as [r [E C]]; [intros; congruence|]. rewrite E. exact C.
Qed.

(* the same for the model instantiated at the regenerated declarations and tables *)
Theorem c04_generated_request_deserialize_total : forall f d, In f all_feats ->
  (match d with b :: _ => 0 <= b < 256 | [] => True end) ->
  match request_deserialize (gen_tables f) (gen_env f) d with RPanic _ | RFuel => False | _ => True end.
Proof.
  intros f d Hf Hb. destruct d as [|b d]; [exact I|].
  unfold request_deserialize. rewrite (generated_route f b Hf Hb).
  destruct (spec_route b) as [v t|v|c| |w] eqn:R; cbn [run_route]; try exact I.
  - pose proof (routes_total gen_env generated_request_total f b v t d Hf Hb R) as T.
    destruct (decode (gen_env f) t d) as [[x r]| | |]; cbn in T; try contradiction; exact I.
  - exact (no_broken_route b w Hb R).
Qed.

(* the public nested types decoded stand-alone: EVERY declaration of the crate that can be deserialised at all
   (requests, responses, entities, descriptors, options, extensions, enumerations, COSE key ...) is decoded
   totally - any bytes, no panic, no exhaustion - in every feature configuration *)
Theorem c04_generated_all_types_decodable : forallb (fun f => all_de_decodable (gen_env f)) all_feats = true.
Proof. exact generated_all_de_decodable. Qed.
Theorem c04_every_deserializable_type_total : forall f name d i, In f all_feats ->
  In (name, d) (gen_env f) -> decl_de d = true -> clean (decode (gen_env f) (TNamed name) i).
Proof.
  intros f name d i Hf Hin Hd.
  exact (all_de_total (gen_env f) name d i
           (forallb_In (fun f => all_de_decodable (gen_env f)) all_feats f generated_all_de_decodable Hf) Hin Hd).
Qed.

(* tie to the source *)
Theorem c04_generated_conforms :
  forallb (fun f => request_side_conforms (gen_env f) (spec_env f)) all_feats = true.
Proof. exact generated_request_side. Qed.
Theorem c04_generated_route : forall f b, In f all_feats -> 0 <= b < 256 ->
  route_of (gen_tables f) b = spec_route b.
Proof. exact generated_route. Qed.

(* tie to the source for the hand-modelled procedural code: the bodies of these functions, as regenerated from
   /repo now, have the shape (literals, operators, calls, control flow, constants) the model was written against *)
Theorem c04_modelled_functions_unchanged_request : shapes_hold fn_shapes shapes_request = true.
Proof. exact generated_shapes_request. Qed.
Theorem c04_modelled_functions_unchanged_strings : shapes_hold fn_shapes shapes_strings = true.
Proof. exact generated_shapes_strings. Qed.

(* the third-party crates the model represents by hand are pinned at the versions it was written against *)
Theorem c04_modelled_dependencies_pinned : deps_hold repo_lock_present lock_versions harness_lock_versions cargo_deps = true.
Proof. exact generated_deps. Qed.

(* further hand-modelled functions this property rests on *)
Theorem c04_modelled_functions_unchanged_filters : shapes_hold fn_shapes shapes_filters = true.
Proof. exact generated_shapes_filters. Qed.

(* lookup tables, accessors, builders and further generators this property rests on *)
Theorem c04_modelled_functions_unchanged_tables_op : shapes_hold fn_shapes shapes_tables_op = true.
Proof. exact generated_shapes_tables_op. Qed.

Theorem c04_modelled_functions_unchanged_tables_req : shapes_hold fn_shapes shapes_tables_req = true.
Proof. exact generated_shapes_tables_req. Qed.
Theorem c04_modelled_functions_unchanged_tables_info : shapes_hold fn_shapes shapes_tables_info = true.
Proof. exact generated_shapes_tables_info. Qed.

(* the cargo features are independent switches with nothing on by default: a feature set of the model means exactly its cfgs *)
Theorem c04_feature_table_unchanged : features_hold cargo_features = true.
Proof. exact generated_features. Qed.

Eval vm_compute in "ASSUMPTIONS c04_deterministic". Print Assumptions c04_deterministic.
Eval vm_compute in "ASSUMPTIONS c04_skipper_total". Print Assumptions c04_skipper_total.
Eval vm_compute in "ASSUMPTIONS c04_readers_total". Print Assumptions c04_readers_total.
Eval vm_compute in "ASSUMPTIONS c04_string_helpers_total". Print Assumptions c04_string_helpers_total.
Eval vm_compute in "ASSUMPTIONS c04_no_decode_without_parameters". Print Assumptions c04_no_decode_without_parameters.
Eval vm_compute in "ASSUMPTIONS c04_reduces_to_typed_decoder". Print Assumptions c04_reduces_to_typed_decoder.
Eval vm_compute in "ASSUMPTIONS c04_generated_conforms". Print Assumptions c04_generated_conforms.
Eval vm_compute in "ASSUMPTIONS c04_generated_route". Print Assumptions c04_generated_route.
Eval vm_compute in "ASSUMPTIONS c04_typed_decoder_total". Print Assumptions c04_typed_decoder_total.
Eval vm_compute in "ASSUMPTIONS c04_request_types_decodable". Print Assumptions c04_request_types_decodable.
Eval vm_compute in "ASSUMPTIONS c04_generated_request_types_decodable". Print Assumptions c04_generated_request_types_decodable.
Eval vm_compute in "ASSUMPTIONS c04_request_deserialize_total". Print Assumptions c04_request_deserialize_total.
Eval vm_compute in "ASSUMPTIONS c04_generated_request_deserialize_total". Print Assumptions c04_generated_request_deserialize_total.
Eval vm_compute in "ASSUMPTIONS c04_modelled_functions_unchanged_request". Print Assumptions c04_modelled_functions_unchanged_request.
Eval vm_compute in "ASSUMPTIONS c04_modelled_functions_unchanged_strings". Print Assumptions c04_modelled_functions_unchanged_strings.
Eval vm_compute in "ASSUMPTIONS c04_generated_all_types_decodable". Print Assumptions c04_generated_all_types_decodable.
Eval vm_compute in "ASSUMPTIONS c04_every_deserializable_type_total". Print Assumptions c04_every_deserializable_type_total.
Eval vm_compute in "ASSUMPTIONS c04_modelled_dependencies_pinned". Print Assumptions c04_modelled_dependencies_pinned.
Eval vm_compute in "ASSUMPTIONS c04_modelled_functions_unchanged_filters". Print Assumptions c04_modelled_functions_unchanged_filters.
Eval vm_compute in "ASSUMPTIONS c04_modelled_functions_unchanged_tables_op". Print Assumptions c04_modelled_functions_unchanged_tables_op.
Eval vm_compute in "ASSUMPTIONS c04_modelled_functions_unchanged_tables_req". Print Assumptions c04_modelled_functions_unchanged_tables_req.
Eval vm_compute in "ASSUMPTIONS c04_modelled_functions_unchanged_tables_info". Print Assumptions c04_modelled_functions_unchanged_tables_info.
Eval vm_compute in "ASSUMPTIONS c04_feature_table_unchanged". Print Assumptions c04_feature_table_unchanged.
