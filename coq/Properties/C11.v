(* C11 - The command-byte table is total, exact and invertible.
   Statements only; every proof is `exact <lemma>` from Proofs/.  The byte domain 0 <= b < 256 is
   complete because the Rust argument is a u8. *)
From Ctap Require Import Base Schema Procs Inst ProcTables Finite C11P ObOpTables FnShapes Shapes ObShapeRequest Deps ObDeps ObShapeTablesOp PlainDecls ObPlainMisc.
Local Open Scope string_scope.
Local Open Scope Z_scope.

(* 1. exactly the assigned command codes are recognised; the vendor range is 0x40..0x7F minus the two
      codes FIDO reassigned (0x40 and 0x41 name the prototype commands, first match wins) *)
Theorem c11_recognised_exact : forall b, 0 <= b < 256 -> op_of_u8 spec_tables b = spec_op b.
Proof. exact op_of_u8_spec. Qed.

Theorem c11_vendor_try_from : forall b, 0 <= b < 256 ->
  vendor_of_u8 spec_tables b = if (64 <=? b) && (b <=? 127) then Some b else None.
Proof. exact vendor_of_u8_spec. Qed.

(* 2. invertible and injective both ways *)
Theorem c11_roundtrip : forall b o, 0 <= b < 256 ->
  op_of_u8 spec_tables b = Some o -> u8_of_op spec_tables o = Some b.
Proof. exact op_roundtrip. Qed.

Theorem c11_injective : forall b1 b2 o, 0 <= b1 < 256 -> 0 <= b2 < 256 ->
  op_of_u8 spec_tables b1 = Some o -> op_of_u8 spec_tables b2 = Some o -> b1 = b2.
Proof. exact op_injective. Qed.

Theorem c11_into_injective : forall o1 o2 b, In o1 all_ops -> In o2 all_ops ->
  u8_of_op spec_tables o1 = Some b -> u8_of_op spec_tables o2 = Some b -> o1 = o2.
Proof. exact into_injective. Qed.

Theorem c11_every_op_has_a_byte : forall o, In o all_ops ->
  exists b, 0 <= b < 256 /\ u8_of_op spec_tables o = Some b /\ op_of_u8 spec_tables b = Some o.
Proof. exact op_back. Qed.

(* 3. what the request decoder does with each command byte, whatever bytes follow (d is arbitrary
      and unbounded; e is any environment) *)
Theorem c11_route : forall b, 0 <= b < 256 -> route_of spec_tables b = spec_route b.
Proof. exact route_of_spec. Qed.

Theorem c11_payload_ignored_or_rejected : forall e d b, 0 <= b < 256 ->
  request_deserialize spec_tables e (b :: d) = run_route spec_tables e (spec_route b) d.
Proof. intros e d b Hb. cbn [request_deserialize]. rewrite (route_of_spec b Hb). reflexivity. Qed.

Theorem c11_parameterless : forall e d,
  request_deserialize spec_tables e (0x04 :: d) = ROk (ReqUnit "GetInfo") /\
  request_deserialize spec_tables e (0x08 :: d) = ROk (ReqUnit "GetNextAssertion") /\
  request_deserialize spec_tables e (0x07 :: d) = ROk (ReqUnit "Reset") /\
  request_deserialize spec_tables e (0x0B :: d) = ROk (ReqUnit "Selection").
Proof. intros e d. repeat split; reflexivity. Qed.

Theorem c11_vendor : forall e d c, 0x42 <= c <= 0x7F ->
  request_deserialize spec_tables e (c :: d) = ROk (ReqVendor c).
Proof.
  intros e d c Hc. rewrite c11_payload_ignored_or_rejected by Lia.lia.
  assert (G : route_eqb (spec_route c) (RtVendor c) = true).
  { revert c Hc.
    assert (F : forall c, 0x42 <= c < 0x80 -> route_eqb (spec_route c) (RtVendor c) = true)
      by (apply forall_range; vm_compute; reflexivity).
    intros c Hc. apply F. Lia.lia. }
  apply route_eqb_eq in G. rewrite G. reflexivity.
Qed.

Theorem c11_preview_alias : forall e d,
  request_deserialize spec_tables e (0x41 :: d) = request_deserialize spec_tables e (0x0A :: d).
Proof.
  intros e d. rewrite !c11_payload_ignored_or_rejected by Lia.lia.
  replace (spec_route 0x41) with (spec_route 0x0A) by (vm_compute; reflexivity). reflexivity.
Qed.

Theorem c11_unsupported_and_unassigned : forall e d b, 0 <= b < 256 ->
  spec_route b = RtInvalid -> request_deserialize spec_tables e (b :: d) = RErr 0x01.
Proof.
  intros e d b Hb H. rewrite c11_payload_ignored_or_rejected by exact Hb. rewrite H. reflexivity.
Qed.

(* the bytes that are rejected: bio enrolment 0x09 / 0x40, config 0x0D and every unassigned byte *)
Theorem c11_rejected_set : forall b, 0 <= b < 256 ->
  (spec_route b = RtInvalid <->
   (b = 0x09 \/ b = 0x40 \/ b = 0x0D \/
    (zassoc b spec_commands = None /\ ~ (0x40 <= b <= 0x7F)))).
Proof.
  intros b Hb.
  assert (G : (Bool.eqb (route_eqb (spec_route b) RtInvalid)
                 ((b =? 0x09) || (b =? 0x40) || (b =? 0x0D) ||
                  (match zassoc b spec_commands with None => true | Some _ => false end
                   && negb ((0x40 <=? b) && (b <=? 0x7F))))) = true).
  { revert b Hb. apply forall_bytes. vm_compute. reflexivity. }
  apply Bool.eqb_prop in G.
  split.
  - intros H. rewrite H in G. cbn [route_eqb] in G. symmetry in G.
    repeat (apply orb_true_iff in G; destruct G as [G|G]).
    + left. apply Z.eqb_eq; exact G.
    + right; left. apply Z.eqb_eq; exact G.
    + right; right; left. apply Z.eqb_eq; exact G.
    + right; right; right. apply andb_true_iff in G. destruct G as [G1 G2].
      split.
      * destruct (zassoc b spec_commands); [discriminate|reflexivity].
      * intros [A B]. apply negb_true_iff in G2. apply andb_false_iff in G2.
        destruct G2 as [G2|G2]; [apply Z.leb_gt in G2|apply Z.leb_gt in G2]; Lia.lia.
  - intros H.
    assert (E : route_eqb (spec_route b) RtInvalid = true).
    { rewrite G. destruct H as [->|[->|[->|[H1 H2]]]]; try reflexivity.
      rewrite H1. cbn [andb]. 
      assert (((64 <=? b) && (b <=? 127))%bool = false) as ->.
      { apply andb_false_iff. destruct (Z.leb_spec 64 b); [|left; reflexivity].
        destruct (Z.leb_spec b 127); [exfalso; apply H2; Lia.lia|right; reflexivity]. }
      cbn. rewrite !orb_true_r. reflexivity. }
    destruct (spec_route b); cbn in E; try discriminate. reflexivity.
Qed.

(* 4. tie to the source: the tables regenerated from /repo behave identically on every byte and every
      operation, in every feature configuration *)
Theorem c11_generated_conforms : forallb (fun f => op_tables_equiv (gen_tables f)) all_feats = true.
Proof. exact generated_op_tables. Qed.

Theorem c11_generated_route : forall f b, In f all_feats -> 0 <= b < 256 ->
  route_of (gen_tables f) b = spec_route b.
Proof. exact generated_route. Qed.

(* non-vacuity: concrete instances *)
Example c11_ex_cm : route_of spec_tables 0x41 = RtDecode "CredentialManagement" (TNamed "ctap2::credential_management::Request").
Proof. reflexivity. Qed.
Example c11_ex_feats : In ["get-info-full"; "large-blobs"] all_feats.
Proof. vm_compute. tauto. Qed.

(* tie to the source for the hand-modelled procedural code: the bodies of these functions, as regenerated from
   /repo now, have the shape (literals, operators, calls, control flow, constants) the model was written against *)
Theorem c11_modelled_functions_unchanged_request : shapes_hold fn_shapes shapes_request = true.
Proof. exact generated_shapes_request. Qed.

(* the third-party crates the model represents by hand are pinned at the versions it was written against *)
Theorem c11_modelled_dependencies_pinned : deps_hold repo_lock_present lock_versions harness_lock_versions cargo_deps = true.
Proof. exact generated_deps. Qed.

(* lookup tables, accessors, builders and further generators this property rests on *)
Theorem c11_modelled_functions_unchanged_tables_op : shapes_hold fn_shapes shapes_tables_op = true.
Proof. exact generated_shapes_tables_op. Qed.

(* the plain structures (no serde meaning of their own) whose member types the model relies on *)
Theorem c11_plain_structures_unchanged_misc : plain_hold raw_decls plain_misc = true.
Proof. exact generated_plain_misc. Qed.

(* the cargo features are independent switches with nothing on by default: a feature set of the model means exactly its cfgs *)
Theorem c11_feature_table_unchanged : features_hold cargo_features = true.
Proof. exact generated_features. Qed.

Eval vm_compute in "ASSUMPTIONS c11_recognised_exact". Print Assumptions c11_recognised_exact.
Eval vm_compute in "ASSUMPTIONS c11_vendor_try_from". Print Assumptions c11_vendor_try_from.
Eval vm_compute in "ASSUMPTIONS c11_roundtrip". Print Assumptions c11_roundtrip.
Eval vm_compute in "ASSUMPTIONS c11_injective". Print Assumptions c11_injective.
Eval vm_compute in "ASSUMPTIONS c11_into_injective". Print Assumptions c11_into_injective.
Eval vm_compute in "ASSUMPTIONS c11_every_op_has_a_byte". Print Assumptions c11_every_op_has_a_byte.
Eval vm_compute in "ASSUMPTIONS c11_route". Print Assumptions c11_route.
Eval vm_compute in "ASSUMPTIONS c11_payload_ignored_or_rejected". Print Assumptions c11_payload_ignored_or_rejected.
Eval vm_compute in "ASSUMPTIONS c11_parameterless". Print Assumptions c11_parameterless.
Eval vm_compute in "ASSUMPTIONS c11_vendor". Print Assumptions c11_vendor.
Eval vm_compute in "ASSUMPTIONS c11_preview_alias". Print Assumptions c11_preview_alias.
Eval vm_compute in "ASSUMPTIONS c11_unsupported_and_unassigned". Print Assumptions c11_unsupported_and_unassigned.
Eval vm_compute in "ASSUMPTIONS c11_rejected_set". Print Assumptions c11_rejected_set.
Eval vm_compute in "ASSUMPTIONS c11_generated_conforms". Print Assumptions c11_generated_conforms.
Eval vm_compute in "ASSUMPTIONS c11_generated_route". Print Assumptions c11_generated_route.
Eval vm_compute in "ASSUMPTIONS c11_modelled_functions_unchanged_request". Print Assumptions c11_modelled_functions_unchanged_request.
Eval vm_compute in "ASSUMPTIONS c11_modelled_dependencies_pinned". Print Assumptions c11_modelled_dependencies_pinned.
Eval vm_compute in "ASSUMPTIONS c11_modelled_functions_unchanged_tables_op". Print Assumptions c11_modelled_functions_unchanged_tables_op.
Eval vm_compute in "ASSUMPTIONS c11_plain_structures_unchanged_misc". Print Assumptions c11_plain_structures_unchanged_misc.
Eval vm_compute in "ASSUMPTIONS c11_feature_table_unchanged". Print Assumptions c11_feature_table_unchanged.
