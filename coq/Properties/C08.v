(* C08 - CTAP1/U2F APDU parsing is total and follows the U2F raw message format. *)
From Ctap Require Import Base Schema Wire Typed Procs Inst Tables ProcTables Finite FramingP WireP C18P U2fP FrameP ObByteTables FnShapes Shapes ObShapeU2fParse Deps ObDeps PlainDecls ObPlainU2fRequests.
Local Open Scope string_scope.
Local Open Scope Z_scope.

(* for every command APDU view (any class, instruction, P1, P2, data of any length): the conversion is
   exactly the decision table; the class check comes first; instruction bytes that iso7816 names are
   not 1, 2 or 3 and therefore land in InstructionNotSupportedOrInvalid *)
Theorem c08_decision_table : forall a, 0 <= a_p1 a < 256 ->
  u2f_request_of spec_tables a = u2f_decision (a_cla a) (a_ins a) (a_p1 a) (a_data a).
Proof. exact u2f_request_of_decision. Qed.

Theorem c08_never_panics : forall cla ins p1 data,
  match u2f_decision cla ins p1 data with U2fPanic _ => False | _ => True end.
Proof. exact u2f_decision_total. Qed.

Theorem c08_class_first : forall ins p1 data cla, cla <> 0 -> u2f_decision cla ins p1 data = U2fErr "ClassNotSupported".
Proof. intros. unfold u2f_decision. apply Z.eqb_neq in H. rewrite H. reflexivity. Qed.

Theorem c08_version_regardless : forall p1 data, u2f_decision 0 3 p1 data = U2fOk U2fVersion.
Proof. reflexivity. Qed.

Theorem c08_register_fields : forall data, blen data = 64 ->
  blen (slice 0 32 data) = 32 /\ blen (slice 32 64 data) = 32.
Proof. exact register_fields. Qed.

Theorem c08_authenticate_fields : forall data, 65 <= blen data -> blen data = 65 + nth 64 data 0 ->
  blen (slice 0 32 data) = 32 /\ blen (slice 32 64 data) = 32 /\ blen (skipn 65 data) = nth 64 data 0.
Proof. exact authenticate_fields. Qed.

Theorem c08_named_instructions_rejected : forall ins, zmem ins iso_named_ins = true -> ins <> 1 /\ ins <> 2 /\ ins <> 3.
Proof. exact named_ins_not_u2f. Qed.

(* ISO 7816-4 framing: for every header, data field and Le, in every one of the seven encodings (case 1, 2S,
   3S, 4S with data up to 255 bytes; 2E, 3E, 4E with data up to 65535 bytes), the parser returns exactly the
   header bytes, the data field and Le ... *)
Theorem c08_frame_short : forall cla ins p1 p2 data le,
  0 <= cla < 255 -> blen data <= 255 -> (match le with Some n => 1 <= n <= 256 | None => True end) ->
  apdu_parse (apdu_build cla ins p1 p2 data le false)
  = inr {| a_cla := cla; a_ins := ins; a_p1 := p1; a_p2 := p2; a_data := data; a_le := le_val le; a_ext := false |}.
Proof. exact apdu_roundtrip_short. Qed.

Theorem c08_frame_extended : forall cla ins p1 p2 data le,
  0 <= cla < 255 -> blen data <= 65535 -> (match le with Some n => 1 <= n <= 65536 | None => True end) ->
  (data <> [] \/ le <> None) ->
  apdu_parse (apdu_build cla ins p1 p2 data le true)
  = inr {| a_cla := cla; a_ins := ins; a_p1 := p1; a_p2 := p2; a_data := data; a_le := le_val le; a_ext := true |}.
Proof. exact apdu_roundtrip_extended. Qed.

(* ... hence the request obtained from the raw bytes of ANY such APDU is the decision table applied to its
   class, instruction, P1 and data, whatever P2, Le and the length encoding are *)
Theorem c08_raw_apdu_decision : forall cla ins p1 p2 data le (ext : bool),
  0 <= cla < 255 -> 0 <= p1 < 256 ->
  blen data <= (if ext then 65535 else 255) ->
  (match le with Some n => 1 <= n <= (if ext then 65536 else 256) | None => True end) ->
  (ext = true -> data <> [] \/ le <> None) ->
  match apdu_parse (apdu_build cla ins p1 p2 data le ext) with
  | inr a => u2f_request_of spec_tables a = u2f_decision cla ins p1 data
  | inl _ => False
  end.
Proof.
  intros cla ins p1 p2 data le ext Hc Hp Hd Hl Hne. destruct ext.
  - rewrite (apdu_roundtrip_extended cla ins p1 p2 data le Hc Hd Hl (Hne eq_refl)).
    apply (u2f_request_of_decision {| a_cla := cla; a_ins := ins; a_p1 := p1; a_p2 := p2; a_data := data; a_le := le_val le; a_ext := true |}). exact Hp.
  - rewrite (apdu_roundtrip_short cla ins p1 p2 data le Hc Hd Hl).
    apply (u2f_request_of_decision {| a_cla := cla; a_ins := ins; a_p1 := p1; a_p2 := p2; a_data := data; a_le := le_val le; a_ext := false |}). exact Hp.
Qed.

(* tie: the control-byte table regenerated from /repo, over all 256 P1 values *)
Theorem c08_generated_control_table : forallb (fun f => byte_tables_equiv (gen_tables f)) all_feats = true.
Proof. exact generated_byte_tables. Qed.

Example c08_ex : u2f_decision 0 2 7 (repeat 5 64 ++ [2; 9; 9])%list = U2fOk (U2fAuthenticate "CheckOnly" (repeat 5 32) (repeat 5 32) [9; 9]).
Proof. vm_compute. reflexivity. Qed.

(* tie to the source for the hand-modelled procedural code: the bodies of these functions, as regenerated from
   /repo now, have the shape (literals, operators, calls, control flow, constants) the model was written against *)
Theorem c08_modelled_functions_unchanged_u2f_parse : shapes_hold fn_shapes shapes_u2f_parse = true.
Proof. exact generated_shapes_u2f_parse. Qed.

(* the third-party crates the model represents by hand are pinned at the versions it was written against *)
Theorem c08_modelled_dependencies_pinned : deps_hold repo_lock_present lock_versions harness_lock_versions cargo_deps = true.
Proof. exact generated_deps. Qed.

(* the plain structures (no serde meaning of their own) whose member types the model relies on *)
Theorem c08_plain_structures_unchanged_u2f_requests : plain_hold raw_decls plain_u2f_requests = true.
Proof. exact generated_plain_u2f_requests. Qed.

(* the cargo features are independent switches with nothing on by default: a feature set of the model means exactly its cfgs *)
Theorem c08_feature_table_unchanged : features_hold cargo_features = true.
Proof. exact generated_features. Qed.

Eval vm_compute in "ASSUMPTIONS c08_decision_table". Print Assumptions c08_decision_table.
Eval vm_compute in "ASSUMPTIONS c08_never_panics". Print Assumptions c08_never_panics.
Eval vm_compute in "ASSUMPTIONS c08_class_first". Print Assumptions c08_class_first.
Eval vm_compute in "ASSUMPTIONS c08_version_regardless". Print Assumptions c08_version_regardless.
Eval vm_compute in "ASSUMPTIONS c08_register_fields". Print Assumptions c08_register_fields.
Eval vm_compute in "ASSUMPTIONS c08_authenticate_fields". Print Assumptions c08_authenticate_fields.
Eval vm_compute in "ASSUMPTIONS c08_named_instructions_rejected". Print Assumptions c08_named_instructions_rejected.
Eval vm_compute in "ASSUMPTIONS c08_generated_control_table". Print Assumptions c08_generated_control_table.
Eval vm_compute in "ASSUMPTIONS c08_frame_short". Print Assumptions c08_frame_short.
Eval vm_compute in "ASSUMPTIONS c08_frame_extended". Print Assumptions c08_frame_extended.
Eval vm_compute in "ASSUMPTIONS c08_raw_apdu_decision". Print Assumptions c08_raw_apdu_decision.
Eval vm_compute in "ASSUMPTIONS c08_modelled_functions_unchanged_u2f_parse". Print Assumptions c08_modelled_functions_unchanged_u2f_parse.
Eval vm_compute in "ASSUMPTIONS c08_modelled_dependencies_pinned". Print Assumptions c08_modelled_dependencies_pinned.
Eval vm_compute in "ASSUMPTIONS c08_plain_structures_unchanged_u2f_requests". Print Assumptions c08_plain_structures_unchanged_u2f_requests.
Eval vm_compute in "ASSUMPTIONS c08_feature_table_unchanged". Print Assumptions c08_feature_table_unchanged.
